//go:build !race

package sync

import (
	gosync "sync"

	"github.com/ucan-wg/go-ucan/verifshim/sched"
)

// ---- Pool (deterministic) ----

type Pool struct {
	mu    gosync.Mutex
	items []any
	New   func() any
}

func (p *Pool) Get() any {
	sched.Point("Pool.Get")
	p.mu.Lock()
	var x any
	if n := len(p.items); n > 0 {
		x = p.items[n-1]
		p.items[n-1] = nil
		p.items = p.items[:n-1]
	}
	p.mu.Unlock()
	if x == nil && p.New != nil {
		x = p.New()
	}
	return x
}

func (p *Pool) Put(x any) {
	sched.Point("Pool.Put")
	if x == nil {
		return
	}
	p.mu.Lock()
	if len(p.items) < 4096 {
		p.items = append(p.items, x)
	}
	p.mu.Unlock()
	// a second point after the release: the object now belongs to whoever gets it next
	sched.Point("Pool.Put(after)")
}
