//go:build race

package sync

import (
	gosync "sync"

	"github.com/ucan-wg/go-ucan/verifshim/sched"
)

// Under the race detector the pool is the real sync.Pool: the deterministic one of the normal build
// serialises every Get and Put through one mutex, which would hand the detector happens-before edges
// that the real pool does not provide.
type Pool struct {
	p   gosync.Pool
	New func() any
}

func (p *Pool) Get() any {
	sched.Point("Pool.Get")
	x := p.p.Get()
	if x == nil && p.New != nil {
		x = p.New()
	}
	return x
}

func (p *Pool) Put(x any) {
	sched.Point("Pool.Put")
	p.p.Put(x)
}
