// Package sync is the harness' stand-in for the standard "sync" package inside go-ucan
// (substituted by a build overlay). Every operation is a scheduling point of the cooperative
// scheduler when the caller is a scheduled logical thread, and otherwise the real primitive.
// Pool is deterministic (LIFO, never drops): a legal behaviour of sync.Pool that maximises
// reuse, so that use-after-Put and stale-content defects show on every run.
package sync

import (
	gosync "sync"
	"sync/atomic"

	"github.com/ucan-wg/go-ucan/verifshim/sched"
)

type (
	Locker = gosync.Locker
	Cond   = gosync.Cond
)

func NewCond(l Locker) *Cond { return gosync.NewCond(l) }

// ---- Mutex ----

type Mutex struct {
	mu   gosync.Mutex
	held atomic.Int32
}

// The bookkeeping (held, readers, ...) is only touched by scheduled logical threads: a free-running
// caller performs exactly the real operation, so that a race-detector run of the same code sees the
// happens-before edges of the real primitives and no others.
func (m *Mutex) Lock() {
	if !sched.Active() {
		m.mu.Lock()
		return
	}
	sched.Point("Mutex.Lock")
	for m.held.Load() != 0 {
		if !sched.Block("Mutex.Lock(wait)", func() bool { return m.held.Load() == 0 }) {
			break
		}
	}
	m.mu.Lock()
	m.held.Store(1)
}

func (m *Mutex) TryLock() bool {
	if !sched.Active() {
		return m.mu.TryLock()
	}
	sched.Point("Mutex.TryLock")
	if m.mu.TryLock() {
		m.held.Store(1)
		return true
	}
	return false
}

func (m *Mutex) Unlock() {
	if !sched.Active() {
		m.mu.Unlock()
		return
	}
	sched.Point("Mutex.Unlock")
	m.held.Store(0)
	m.mu.Unlock()
	// a second point after the release: what the thread does next no longer happens under the lock
	sched.Point("Mutex.Unlock(after)")
}

// ---- RWMutex ----

type RWMutex struct {
	mu      gosync.RWMutex
	writer  atomic.Int32
	readers atomic.Int32
}

func (m *RWMutex) Lock() {
	if !sched.Active() {
		m.mu.Lock()
		return
	}
	sched.Point("RWMutex.Lock")
	for m.writer.Load() != 0 || m.readers.Load() != 0 {
		if !sched.Block("RWMutex.Lock(wait)", func() bool { return m.writer.Load() == 0 && m.readers.Load() == 0 }) {
			break
		}
	}
	m.mu.Lock()
	m.writer.Store(1)
}

func (m *RWMutex) Unlock() {
	if !sched.Active() {
		m.mu.Unlock()
		return
	}
	sched.Point("RWMutex.Unlock")
	m.writer.Store(0)
	m.mu.Unlock()
	sched.Point("RWMutex.Unlock(after)")
}

func (m *RWMutex) RLock() {
	if !sched.Active() {
		m.mu.RLock()
		return
	}
	sched.Point("RWMutex.RLock")
	for m.writer.Load() != 0 {
		if !sched.Block("RWMutex.RLock(wait)", func() bool { return m.writer.Load() == 0 }) {
			break
		}
	}
	m.mu.RLock()
	m.readers.Add(1)
}

func (m *RWMutex) RUnlock() {
	if !sched.Active() {
		m.mu.RUnlock()
		return
	}
	sched.Point("RWMutex.RUnlock")
	m.readers.Add(-1)
	m.mu.RUnlock()
	sched.Point("RWMutex.RUnlock(after)")
}

func (m *RWMutex) TryLock() bool {
	if !sched.Active() {
		return m.mu.TryLock()
	}
	sched.Point("RWMutex.TryLock")
	if m.mu.TryLock() {
		m.writer.Store(1)
		return true
	}
	return false
}

func (m *RWMutex) TryRLock() bool {
	if !sched.Active() {
		return m.mu.TryRLock()
	}
	sched.Point("RWMutex.TryRLock")
	if m.mu.TryRLock() {
		m.readers.Add(1)
		return true
	}
	return false
}

type rlocker RWMutex

func (r *rlocker) Lock()   { (*RWMutex)(r).RLock() }
func (r *rlocker) Unlock() { (*RWMutex)(r).RUnlock() }

func (m *RWMutex) RLocker() Locker { return (*rlocker)(m) }

// ---- Once ----

type Once struct {
	mu      gosync.Mutex
	done    atomic.Uint32
	running atomic.Int32
}

// (done is read with an atomic load before the lock is taken, exactly as the real sync.Once does.)
func (o *Once) Do(f func()) {
	sched.Point("Once.Do")
	if o.done.Load() == 1 {
		return
	}
	if sched.Active() {
		for o.running.Load() != 0 && o.done.Load() == 0 {
			if !sched.Block("Once.Do(wait)", func() bool { return o.running.Load() == 0 || o.done.Load() == 1 }) {
				break
			}
		}
		if o.done.Load() == 1 {
			return
		}
	}
	o.mu.Lock()
	defer o.mu.Unlock()
	if o.done.Load() == 0 {
		o.running.Store(1)
		defer func() {
			o.done.Store(1)
			o.running.Store(0)
		}()
		f()
	}
}

func OnceFunc(f func()) func() {
	var once Once
	var valid bool
	var p any
	g := func() {
		defer func() {
			p = recover()
			if !valid {
				panic(p)
			}
		}()
		f()
		f = nil
		valid = true
	}
	return func() {
		once.Do(g)
		if !valid {
			panic(p)
		}
	}
}

func OnceValue[T any](f func() T) func() T {
	var once Once
	var valid bool
	var p any
	var result T
	g := func() {
		defer func() {
			p = recover()
			if !valid {
				panic(p)
			}
		}()
		result = f()
		f = nil
		valid = true
	}
	return func() T {
		once.Do(g)
		if !valid {
			panic(p)
		}
		return result
	}
}

func OnceValues[T1, T2 any](f func() (T1, T2)) func() (T1, T2) {
	var once Once
	var valid bool
	var p any
	var r1 T1
	var r2 T2
	g := func() {
		defer func() {
			p = recover()
			if !valid {
				panic(p)
			}
		}()
		r1, r2 = f()
		f = nil
		valid = true
	}
	return func() (T1, T2) {
		once.Do(g)
		if !valid {
			panic(p)
		}
		return r1, r2
	}
}

// ---- WaitGroup ----

type WaitGroup struct {
	wg gosync.WaitGroup
	n  atomic.Int64
}

func (w *WaitGroup) Add(delta int) {
	sched.Point("WaitGroup.Add")
	w.n.Add(int64(delta))
	w.wg.Add(delta)
}

// (the counter n mirrors the real WaitGroup's own atomic counter: Add/Done/Wait of the real one
// synchronise in the same way, so it adds no happens-before edge the real type does not have.)

func (w *WaitGroup) Done() { w.Add(-1) }

func (w *WaitGroup) Wait() {
	if sched.Active() {
		sched.Point("WaitGroup.Wait")
		for w.n.Load() > 0 {
			if !sched.Block("WaitGroup.Wait(wait)", func() bool { return w.n.Load() <= 0 }) {
				break
			}
		}
		if w.n.Load() <= 0 {
			return
		}
	}
	w.wg.Wait()
}

// ---- Map ----

type Map struct{ m gosync.Map }

func (m *Map) Load(key any) (any, bool) { sched.Point("Map.Load"); return m.m.Load(key) }
func (m *Map) Store(key, value any)     { sched.Point("Map.Store"); m.m.Store(key, value) }
func (m *Map) LoadOrStore(key, value any) (any, bool) {
	sched.Point("Map.LoadOrStore")
	return m.m.LoadOrStore(key, value)
}
func (m *Map) LoadAndDelete(key any) (any, bool) {
	sched.Point("Map.LoadAndDelete")
	return m.m.LoadAndDelete(key)
}
func (m *Map) Delete(key any) { sched.Point("Map.Delete"); m.m.Delete(key) }
func (m *Map) Swap(key, value any) (any, bool) {
	sched.Point("Map.Swap")
	return m.m.Swap(key, value)
}
func (m *Map) CompareAndSwap(key, old, new any) bool {
	sched.Point("Map.CompareAndSwap")
	return m.m.CompareAndSwap(key, old, new)
}
func (m *Map) CompareAndDelete(key, old any) bool {
	sched.Point("Map.CompareAndDelete")
	return m.m.CompareAndDelete(key, old)
}
func (m *Map) Range(f func(key, value any) bool) { sched.Point("Map.Range"); m.m.Range(f) }
func (m *Map) Clear()                            { sched.Point("Map.Clear"); m.m.Clear() }
