// Package clock is the seam the build overlay puts in front of time.Now: every call of time.Now() in
// go-ucan's non-test sources is rewritten to clock.Now(). Without an installed source it IS time.Now().
package clock

import (
	"sync/atomic"
	"time"
)

var source atomic.Pointer[func() time.Time]

// Now returns the reading of the installed source, or the machine's clock.
func Now() time.Time {
	if f := source.Load(); f != nil {
		return (*f)()
	}
	return time.Now()
}

// Install makes f the clock of the code under test until restore is called.
func Install(f func() time.Time) (restore func()) {
	old := source.Swap(&f)
	return func() { source.Store(old) }
}
