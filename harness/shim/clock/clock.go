// Package clock is the seam the build overlay puts in front of time.Now: every call of time.Now() in
// go-ucan's non-test sources is rewritten to clock.Now(). Without an installed source it IS time.Now().
package clock

import (
	"runtime"
	"sync"
	"sync/atomic"
	"time"
)

var source atomic.Pointer[func() time.Time]

var (
	local  sync.Map // goroutine id -> func() time.Time
	nlocal atomic.Int64
)

// Now returns the reading of the source installed for the calling goroutine, else of the process-wide
// source, else the machine's clock.
func Now() time.Time {
	if nlocal.Load() > 0 {
		if f, ok := local.Load(goid()); ok {
			return f.(func() time.Time)()
		}
	}
	if f := source.Load(); f != nil {
		return (*f)()
	}
	return time.Now()
}

// Install makes f the clock of the code under test (all goroutines) until restore is called.
func Install(f func() time.Time) (restore func()) {
	old := source.Swap(&f)
	return func() { source.Store(old) }
}

// InstallLocal makes f the clock of the code under test for calls made by the CALLING goroutine only.
func InstallLocal(f func() time.Time) (restore func()) {
	id := goid()
	local.Store(id, f)
	nlocal.Add(1)
	return func() {
		local.Delete(id)
		nlocal.Add(-1)
	}
}

func goid() int64 {
	var buf [40]byte
	n := runtime.Stack(buf[:], false)
	var id int64
	for i := len("goroutine "); i < n; i++ {
		c := buf[i]
		if c < '0' || c > '9' {
			break
		}
		id = id*10 + int64(c-'0')
	}
	return id
}
