// Package sched is the seam between the synchronization shim (verifshim/sync,
// verifshim/sync/atomic - substituted for "sync" and "sync/atomic" in go-ucan's
// non-test sources by a build overlay, /repo itself untouched) and the harness'
// cooperative scheduler. When no logical thread is installed every shim operation
// is a plain pass-through to the real primitive.
package sched

import (
	"runtime"
	gosync "sync"
	"sync/atomic"
)

// Thread is a logical thread of a cooperative scheduler.
type Thread struct {
	Goid int64
	// Yield hands control back to the scheduler before operation op. ready == nil: a plain
	// scheduling point. ready != nil: the thread cannot proceed until ready() is true.
	Yield func(op string, ready func() bool)
}

// threads maps goroutine ids to the logical threads running on them (coroutines of the harness'
// scheduler). Several schedulers may run side by side on different worker goroutines.
var (
	threads gosync.Map
	nlive   atomic.Int64
)

// Points counts hooked operations executed by scheduled threads (evidence).
var Points atomic.Int64

// Register binds t to the calling goroutine.
func Register(t *Thread) {
	t.Goid = Goid()
	threads.Store(t.Goid, t)
	nlive.Add(1)
}

// Unregister removes the binding of the calling goroutine.
func Unregister(t *Thread) {
	if _, ok := threads.LoadAndDelete(t.Goid); ok {
		nlive.Add(-1)
	}
}

// Goid returns the id of the calling goroutine.
func Goid() int64 {
	var buf [40]byte
	n := runtime.Stack(buf[:], false)
	// "goroutine 123 ["
	var id int64
	for i := len("goroutine "); i < n; i++ {
		c := buf[i]
		if c < '0' || c > '9' {
			break
		}
		id = id*10 + int64(c-'0')
	}
	return id
}

func active() *Thread {
	if nlive.Load() == 0 {
		return nil
	}
	v, ok := threads.Load(Goid())
	if !ok {
		return nil
	}
	return v.(*Thread)
}

// Active tells whether the caller is a scheduled logical thread.
func Active() bool { return active() != nil }

// Point is a scheduling point before a hooked operation.
func Point(op string) {
	if t := active(); t != nil {
		Points.Add(1)
		t.Yield(op, nil)
	}
}

// Block suspends the scheduled thread until ready() holds. It returns false when the caller
// is not scheduled (the caller then blocks for real).
func Block(op string, ready func() bool) bool {
	t := active()
	if t == nil {
		return false
	}
	t.Yield(op, ready)
	return true
}

// Recv is `<-ch` for a scheduled thread: a scheduling point at which the thread is enabled only once a value
// (or the close) is there to be received - the other threads run meanwhile, and "every unfinished thread waits"
// is a deadlock the scheduler reports. Outside a scheduler it is the plain receive.
func Recv[T any](ch <-chan T) T {
	v, _ := Recv2(ch)
	return v
}

// Recv2 is `v, ok := <-ch`.
func Recv2[T any](ch <-chan T) (v T, ok bool) {
	t := active()
	if t == nil {
		v, ok = <-ch
		return
	}
	Points.Add(1)
	got := false
	t.Yield("chan.recv", func() bool {
		if got {
			return true
		}
		select {
		case v, ok = <-ch:
			got = true
		default:
		}
		return got
	})
	if !got {
		v, ok = <-ch
	}
	return
}
