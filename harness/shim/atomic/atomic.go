// Package atomic is the harness' stand-in for "sync/atomic" inside go-ucan (build overlay):
// every operation is a scheduling point of the cooperative scheduler, then the real operation.
package atomic

import (
	goatomic "sync/atomic"
	"unsafe"

	"github.com/ucan-wg/go-ucan/verifshim/sched"
)

func AddInt32(addr *int32, delta int32) int32 {
	sched.Point("atomic.Add")
	return goatomic.AddInt32(addr, delta)
}
func LoadInt32(addr *int32) int32       { sched.Point("atomic.Load"); return goatomic.LoadInt32(addr) }
func StoreInt32(addr *int32, val int32) { sched.Point("atomic.Store"); goatomic.StoreInt32(addr, val) }
func SwapInt32(addr *int32, new int32) int32 {
	sched.Point("atomic.Swap")
	return goatomic.SwapInt32(addr, new)
}
func CompareAndSwapInt32(addr *int32, old, new int32) bool {
	sched.Point("atomic.CompareAndSwap")
	return goatomic.CompareAndSwapInt32(addr, old, new)
}

type Int32 struct{ v goatomic.Int32 }

func (x *Int32) Load() int32          { sched.Point("atomic.Load"); return x.v.Load() }
func (x *Int32) Store(val int32)      { sched.Point("atomic.Store"); x.v.Store(val) }
func (x *Int32) Swap(new int32) int32 { sched.Point("atomic.Swap"); return x.v.Swap(new) }
func (x *Int32) CompareAndSwap(old, new int32) bool {
	sched.Point("atomic.CompareAndSwap")
	return x.v.CompareAndSwap(old, new)
}
func (x *Int32) Add(delta int32) int32 { sched.Point("atomic.Add"); return x.v.Add(delta) }
func (x *Int32) And(mask int32) int32  { sched.Point("atomic.And"); return x.v.And(mask) }
func (x *Int32) Or(mask int32) int32   { sched.Point("atomic.Or"); return x.v.Or(mask) }

func AddInt64(addr *int64, delta int64) int64 {
	sched.Point("atomic.Add")
	return goatomic.AddInt64(addr, delta)
}
func LoadInt64(addr *int64) int64       { sched.Point("atomic.Load"); return goatomic.LoadInt64(addr) }
func StoreInt64(addr *int64, val int64) { sched.Point("atomic.Store"); goatomic.StoreInt64(addr, val) }
func SwapInt64(addr *int64, new int64) int64 {
	sched.Point("atomic.Swap")
	return goatomic.SwapInt64(addr, new)
}
func CompareAndSwapInt64(addr *int64, old, new int64) bool {
	sched.Point("atomic.CompareAndSwap")
	return goatomic.CompareAndSwapInt64(addr, old, new)
}

type Int64 struct{ v goatomic.Int64 }

func (x *Int64) Load() int64          { sched.Point("atomic.Load"); return x.v.Load() }
func (x *Int64) Store(val int64)      { sched.Point("atomic.Store"); x.v.Store(val) }
func (x *Int64) Swap(new int64) int64 { sched.Point("atomic.Swap"); return x.v.Swap(new) }
func (x *Int64) CompareAndSwap(old, new int64) bool {
	sched.Point("atomic.CompareAndSwap")
	return x.v.CompareAndSwap(old, new)
}
func (x *Int64) Add(delta int64) int64 { sched.Point("atomic.Add"); return x.v.Add(delta) }
func (x *Int64) And(mask int64) int64  { sched.Point("atomic.And"); return x.v.And(mask) }
func (x *Int64) Or(mask int64) int64   { sched.Point("atomic.Or"); return x.v.Or(mask) }

func AddUint32(addr *uint32, delta uint32) uint32 {
	sched.Point("atomic.Add")
	return goatomic.AddUint32(addr, delta)
}
func LoadUint32(addr *uint32) uint32 { sched.Point("atomic.Load"); return goatomic.LoadUint32(addr) }
func StoreUint32(addr *uint32, val uint32) {
	sched.Point("atomic.Store")
	goatomic.StoreUint32(addr, val)
}
func SwapUint32(addr *uint32, new uint32) uint32 {
	sched.Point("atomic.Swap")
	return goatomic.SwapUint32(addr, new)
}
func CompareAndSwapUint32(addr *uint32, old, new uint32) bool {
	sched.Point("atomic.CompareAndSwap")
	return goatomic.CompareAndSwapUint32(addr, old, new)
}

type Uint32 struct{ v goatomic.Uint32 }

func (x *Uint32) Load() uint32           { sched.Point("atomic.Load"); return x.v.Load() }
func (x *Uint32) Store(val uint32)       { sched.Point("atomic.Store"); x.v.Store(val) }
func (x *Uint32) Swap(new uint32) uint32 { sched.Point("atomic.Swap"); return x.v.Swap(new) }
func (x *Uint32) CompareAndSwap(old, new uint32) bool {
	sched.Point("atomic.CompareAndSwap")
	return x.v.CompareAndSwap(old, new)
}
func (x *Uint32) Add(delta uint32) uint32 { sched.Point("atomic.Add"); return x.v.Add(delta) }
func (x *Uint32) And(mask uint32) uint32  { sched.Point("atomic.And"); return x.v.And(mask) }
func (x *Uint32) Or(mask uint32) uint32   { sched.Point("atomic.Or"); return x.v.Or(mask) }

func AddUint64(addr *uint64, delta uint64) uint64 {
	sched.Point("atomic.Add")
	return goatomic.AddUint64(addr, delta)
}
func LoadUint64(addr *uint64) uint64 { sched.Point("atomic.Load"); return goatomic.LoadUint64(addr) }
func StoreUint64(addr *uint64, val uint64) {
	sched.Point("atomic.Store")
	goatomic.StoreUint64(addr, val)
}
func SwapUint64(addr *uint64, new uint64) uint64 {
	sched.Point("atomic.Swap")
	return goatomic.SwapUint64(addr, new)
}
func CompareAndSwapUint64(addr *uint64, old, new uint64) bool {
	sched.Point("atomic.CompareAndSwap")
	return goatomic.CompareAndSwapUint64(addr, old, new)
}

type Uint64 struct{ v goatomic.Uint64 }

func (x *Uint64) Load() uint64           { sched.Point("atomic.Load"); return x.v.Load() }
func (x *Uint64) Store(val uint64)       { sched.Point("atomic.Store"); x.v.Store(val) }
func (x *Uint64) Swap(new uint64) uint64 { sched.Point("atomic.Swap"); return x.v.Swap(new) }
func (x *Uint64) CompareAndSwap(old, new uint64) bool {
	sched.Point("atomic.CompareAndSwap")
	return x.v.CompareAndSwap(old, new)
}
func (x *Uint64) Add(delta uint64) uint64 { sched.Point("atomic.Add"); return x.v.Add(delta) }
func (x *Uint64) And(mask uint64) uint64  { sched.Point("atomic.And"); return x.v.And(mask) }
func (x *Uint64) Or(mask uint64) uint64   { sched.Point("atomic.Or"); return x.v.Or(mask) }

func AddUintptr(addr *uintptr, delta uintptr) uintptr {
	sched.Point("atomic.Add")
	return goatomic.AddUintptr(addr, delta)
}
func LoadUintptr(addr *uintptr) uintptr {
	sched.Point("atomic.Load")
	return goatomic.LoadUintptr(addr)
}
func StoreUintptr(addr *uintptr, val uintptr) {
	sched.Point("atomic.Store")
	goatomic.StoreUintptr(addr, val)
}
func SwapUintptr(addr *uintptr, new uintptr) uintptr {
	sched.Point("atomic.Swap")
	return goatomic.SwapUintptr(addr, new)
}
func CompareAndSwapUintptr(addr *uintptr, old, new uintptr) bool {
	sched.Point("atomic.CompareAndSwap")
	return goatomic.CompareAndSwapUintptr(addr, old, new)
}

type Uintptr struct{ v goatomic.Uintptr }

func (x *Uintptr) Load() uintptr            { sched.Point("atomic.Load"); return x.v.Load() }
func (x *Uintptr) Store(val uintptr)        { sched.Point("atomic.Store"); x.v.Store(val) }
func (x *Uintptr) Swap(new uintptr) uintptr { sched.Point("atomic.Swap"); return x.v.Swap(new) }
func (x *Uintptr) CompareAndSwap(old, new uintptr) bool {
	sched.Point("atomic.CompareAndSwap")
	return x.v.CompareAndSwap(old, new)
}
func (x *Uintptr) Add(delta uintptr) uintptr { sched.Point("atomic.Add"); return x.v.Add(delta) }
func (x *Uintptr) And(mask uintptr) uintptr  { sched.Point("atomic.And"); return x.v.And(mask) }
func (x *Uintptr) Or(mask uintptr) uintptr   { sched.Point("atomic.Or"); return x.v.Or(mask) }

func AndInt32(addr *int32, mask int32) int32 {
	sched.Point("atomic.And")
	return goatomic.AndInt32(addr, mask)
}
func OrInt32(addr *int32, mask int32) int32 {
	sched.Point("atomic.Or")
	return goatomic.OrInt32(addr, mask)
}

func AndInt64(addr *int64, mask int64) int64 {
	sched.Point("atomic.And")
	return goatomic.AndInt64(addr, mask)
}
func OrInt64(addr *int64, mask int64) int64 {
	sched.Point("atomic.Or")
	return goatomic.OrInt64(addr, mask)
}

func AndUint32(addr *uint32, mask uint32) uint32 {
	sched.Point("atomic.And")
	return goatomic.AndUint32(addr, mask)
}
func OrUint32(addr *uint32, mask uint32) uint32 {
	sched.Point("atomic.Or")
	return goatomic.OrUint32(addr, mask)
}

func AndUint64(addr *uint64, mask uint64) uint64 {
	sched.Point("atomic.And")
	return goatomic.AndUint64(addr, mask)
}
func OrUint64(addr *uint64, mask uint64) uint64 {
	sched.Point("atomic.Or")
	return goatomic.OrUint64(addr, mask)
}

func AndUintptr(addr *uintptr, mask uintptr) uintptr {
	sched.Point("atomic.And")
	return goatomic.AndUintptr(addr, mask)
}
func OrUintptr(addr *uintptr, mask uintptr) uintptr {
	sched.Point("atomic.Or")
	return goatomic.OrUintptr(addr, mask)
}

func LoadPointer(addr *unsafe.Pointer) unsafe.Pointer {
	sched.Point("atomic.Load")
	return goatomic.LoadPointer(addr)
}
func StorePointer(addr *unsafe.Pointer, val unsafe.Pointer) {
	sched.Point("atomic.Store")
	goatomic.StorePointer(addr, val)
}
func SwapPointer(addr *unsafe.Pointer, new unsafe.Pointer) unsafe.Pointer {
	sched.Point("atomic.Swap")
	return goatomic.SwapPointer(addr, new)
}
func CompareAndSwapPointer(addr *unsafe.Pointer, old, new unsafe.Pointer) bool {
	sched.Point("atomic.CompareAndSwap")
	return goatomic.CompareAndSwapPointer(addr, old, new)
}

type Bool struct{ v goatomic.Bool }

func (x *Bool) Load() bool         { sched.Point("atomic.Load"); return x.v.Load() }
func (x *Bool) Store(val bool)     { sched.Point("atomic.Store"); x.v.Store(val) }
func (x *Bool) Swap(new bool) bool { sched.Point("atomic.Swap"); return x.v.Swap(new) }
func (x *Bool) CompareAndSwap(old, new bool) bool {
	sched.Point("atomic.CompareAndSwap")
	return x.v.CompareAndSwap(old, new)
}

type Pointer[T any] struct{ v goatomic.Pointer[T] }

func (x *Pointer[T]) Load() *T       { sched.Point("atomic.Load"); return x.v.Load() }
func (x *Pointer[T]) Store(val *T)   { sched.Point("atomic.Store"); x.v.Store(val) }
func (x *Pointer[T]) Swap(new *T) *T { sched.Point("atomic.Swap"); return x.v.Swap(new) }
func (x *Pointer[T]) CompareAndSwap(old, new *T) bool {
	sched.Point("atomic.CompareAndSwap")
	return x.v.CompareAndSwap(old, new)
}

type Value struct{ v goatomic.Value }

func (x *Value) Load() any        { sched.Point("atomic.Load"); return x.v.Load() }
func (x *Value) Store(val any)    { sched.Point("atomic.Store"); x.v.Store(val) }
func (x *Value) Swap(new any) any { sched.Point("atomic.Swap"); return x.v.Swap(new) }
func (x *Value) CompareAndSwap(old, new any) bool {
	sched.Point("atomic.CompareAndSwap")
	return x.v.CompareAndSwap(old, new)
}
