package racepass

import (
	"fmt"
	"os"
	"sort"
	"strings"
	"sync"
	"testing"

	"verifharness/engine"
	"verifharness/props"
)

// TestConcCalls is the free-running race-detector pass over the call lists of the cooperative
// scheduler's sub-checks (E6) of one property (VERIF_RACE_PROP): the scheduler explores the
// interleavings of the library's synchronization operations, but accesses that are not synchronized
// at all are invisible to it - they are what the detector reports. After a sequential warm-up (all
// calls twice, so that caches are full and have rotated) every selected call runs against a
// concurrent sweep over all calls, and two sweeps run against each other.
func TestConcCalls(t *testing.T) {
	prop := os.Getenv("VERIF_RACE_PROP")
	mk, ok := props.Registry[prop]
	if !ok {
		t.Skip("VERIF_RACE_PROP not set")
	}
	mk(0) // building the check registers its call lists
	var names []string
	for n := range engine.ConcRegistry {
		names = append(names, n)
	}
	sort.Strings(names)
	only := os.Getenv("VERIF_RACE_ONLY")
	for _, sub := range names {
		calls := engine.ConcRegistry[sub]("quick")
		for round := 0; round < 2; round++ {
			for _, c := range calls {
				c.Run()
			}
		}
		sweep := func() {
			for _, c := range calls {
				c.Run()
			}
		}
		race := func(name string, a, b func()) {
			name = strings.NewReplacer(" ", "_", "/", "_").Replace(name)
			if only != "" && only != name {
				return
			}
			t.Run(name, func(t *testing.T) {
				var start, done sync.WaitGroup
				start.Add(1)
				done.Add(2)
				go func() { defer done.Done(); start.Wait(); a() }()
				go func() { defer done.Done(); start.Wait(); b() }()
				start.Done()
				done.Wait()
			})
		}
		race(sub+"|sweep|sweep", sweep, sweep)
		step := (len(calls) + 39) / 40
		for i := 0; i < len(calls); i += step {
			c := calls[i]
			race(fmt.Sprintf("%s|%s|sweep", sub, c.Name), func() { c.Run(); c.Run() }, sweep)
			race(fmt.Sprintf("%s|%s|same", sub, c.Name), func() { c.Run() }, func() { c.Run() })
		}
	}
}
