// Package racepass is pass 3 of property C20: the read-only operation bodies of
// c20ops run pairwise in two free-running goroutines under the Go race detector
// (go test -race). The cooperative scheduler of pass 2 cannot be combined with
// the detector (its hand-offs are happens-before edges), hence this separate pass.
package racepass

import (
	"fmt"
	"os"
	"strings"
	"sync"
	"testing"

	"verifharness/c20ops"
)

func variants() []c20ops.Variant {
	return []c20ops.Variant{
		{Keys: []string{"c", "a", "b"}},
		{Keys: []string{"c", "a", "b"}, Decoded: true},
		{Keys: []string{"a", "b", "c"}},
		{Keys: []string{}},
	}
}

// TestPairs runs every unordered pair of operations (including an operation with
// itself) concurrently on the same shared tokens.
func TestPairs(t *testing.T) {
	ops := c20ops.Ops()
	only := os.Getenv("VERIF_RACE_ONLY")
	for _, v := range variants() {
		for i := range ops {
			for j := i; j < len(ops); j++ {
				name := fmt.Sprintf("%s|%s|%s", v, ops[i].Name, ops[j].Name)
				name = strings.ReplaceAll(name, " ", "_")
				if only != "" && only != name {
					continue
				}
				a, b := ops[i], ops[j]
				t.Run(name, func(t *testing.T) {
					f := c20ops.NewFixture(v)
					var start, done sync.WaitGroup
					start.Add(1)
					done.Add(2)
					var ra, rb string
					go func() { defer done.Done(); start.Wait(); ra = a.Run(f, nil) }()
					go func() { defer done.Done(); start.Wait(); rb = b.Run(f, nil) }()
					start.Done()
					done.Wait()
					_, _ = ra, rb
				})
			}
		}
	}
}

// TestFirstUse exercises the lazily built schema globals from two goroutines in a fresh process.
func TestFirstUse(t *testing.T) {
	v := c20ops.Variant{Keys: []string{"a"}}
	var done sync.WaitGroup
	done.Add(2)
	for k := 0; k < 2; k++ {
		go func() {
			defer done.Done()
			f := c20ops.NewFixture(v)
			for _, op := range c20ops.Ops() {
				op.Run(f, nil)
			}
		}()
	}
	done.Wait()
}
