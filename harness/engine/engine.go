// Package engine is the shared bounded-exhaustive exploration driver.
//
// A property check is a list of Subs. A Sub owns a finite, deterministic
// enumeration of cases (Gen), executes every case on the real go-ucan code and
// compares it with a reference model / invariant (Run). The engine fans the
// cases out over worker goroutines, aggregates counters, classifies findings
// against /verif/known_findings.json, replays every witness before believing
// it, writes the evidence file and produces the exit status.
package engine

import (
	"context"
	"encoding/json"
	"fmt"
	"os"
	"os/exec"
	"path/filepath"
	"runtime"
	"sort"
	"strings"
	"sync"
	"sync/atomic"
	"time"
)

// Finding is one oracle disagreement. Class is the narrow root-cause class id
// used to match known findings; Case is a descriptor (of the same Sub) that
// reproduces the finding when handed to Run alone.
type Finding struct {
	Class string
	Msg   string
	Case  any
}

// Ctx is the per-worker sink a Run function reports into.
type Ctx struct {
	Tier        string
	evals       int64
	nontrivial  int64
	states      int64
	transitions int64
	outcomes    map[string]int64
	findings    map[string]*classAgg
	seq         int64
	sampleOut   map[string]any
	curCase     any
	inexact     map[string]bool
	beat        func()
}

// Heartbeat tells the watchdog that the current case is making progress (long explorations).
func (c *Ctx) Heartbeat() {
	if c.beat != nil {
		c.beat()
	}
}

// signature summarises what a run observed (outcome labels and finding classes).
func (c *Ctx) signature() string {
	var parts []string
	for k, v := range c.outcomes {
		parts = append(parts, fmt.Sprintf("%s=%d", k, v))
	}
	for k := range c.findings {
		parts = append(parts, "finding:"+k)
	}
	sort.Strings(parts)
	return "{" + strings.Join(parts, ", ") + "}"
}

// merge adds the counters and findings of o into c.
func (c *Ctx) merge(o *Ctx) {
	c.evals += o.evals
	c.nontrivial += o.nontrivial
	c.states += o.states
	c.transitions += o.transitions
	for k, v := range o.outcomes {
		c.outcomes[k] += v
	}
	for k, v := range o.sampleOut {
		if _, ok := c.sampleOut[k]; !ok && len(c.sampleOut) < 24 {
			c.sampleOut[k] = v
		}
	}
	for k := range o.inexact {
		c.Inexact(k)
	}
	for k, f := range o.findings {
		a := c.findings[k]
		if a == nil {
			c.findings[k] = f
			continue
		}
		a.Count += f.Count
		if f.Seq < a.Seq {
			a.Seq, a.Msg, a.Case = f.Seq, f.Msg, f.Case
		}
	}
}

// Inexact records that the enumeration of this sub-check was not exhaustive, and why.
func (c *Ctx) Inexact(reason string) {
	if c.inexact == nil {
		c.inexact = map[string]bool{}
	}
	c.inexact[reason] = true
}

// Eval counts n executions of real code.
func (c *Ctx) Eval(n int64) { c.evals += n }

// Nontrivial counts n distinct non-trivial cases (by the Sub's Rule).
func (c *Ctx) Nontrivial(n int64) { c.nontrivial += n }

// States / Trans count explored states and transitions.
func (c *Ctx) States(n int64) { c.states += n }
func (c *Ctx) Trans(n int64)  { c.transitions += n }

// Outcome counts one execution that ended in the labelled outcome.
func (c *Ctx) Outcome(label string) {
	c.outcomes[label]++
	if _, ok := c.sampleOut[label]; !ok && len(c.sampleOut) < 24 {
		c.sampleOut[label] = c.curCase
	}
}

// OutcomeN counts n executions with the labelled outcome.
func (c *Ctx) OutcomeN(label string, n int64) {
	c.outcomes[label] += n
	if _, ok := c.sampleOut[label]; !ok && len(c.sampleOut) < 24 {
		c.sampleOut[label] = c.curCase
	}
}

// Fail records an oracle disagreement.
func (c *Ctx) Fail(class, msg string, cas any) {
	a := c.findings[class]
	if a == nil {
		a = &classAgg{Class: class, Seq: 1 << 62}
		c.findings[class] = a
	}
	a.Count++
	seq := c.seq
	if w, ok := cas.(Weigher); ok {
		seq += int64(w.Weight()) << 40
	}
	if seq < a.Seq {
		a.Seq, a.Msg, a.Case = seq, msg, cas
	}
}

// Weigher lets a case descriptor state its size, so that the smallest witness
// of a class is kept (then the first in enumeration order).
type Weigher interface{ Weight() int }

// Failf is Fail with formatting.
func (c *Ctx) Failf(cas any, class, format string, a ...any) {
	c.Fail(class, fmt.Sprintf(format, a...), cas)
}

// Sub is one enumerated sub-check of a property.
type Sub struct {
	Name string
	// Rule describes how cases are enumerated and what makes one non-trivial.
	Rule string
	// Gen emits every case of the tier, in a deterministic order, simplest first.
	// It must stop when emit returns false (deadline).
	Gen func(tier string, emit func(c any) bool)
	// Run executes one case on the real code and reports into ctx.
	Run func(ctx *Ctx, c any)
	// NewCase returns a pointer to a zero case for JSON decoding (replay).
	NewCase func() any
	// Serial subs run on one goroutine (they own process-global state).
	Serial bool
	// Bound describes the bound of the tier for the evidence file.
	Bound func(tier string) string
	// Setup, if set, runs once before Gen (warm lazily-built globals, fixtures).
	Setup func(tier string) error
	// Replays is how many times a witness is re-executed before it is believed (default 5).
	Replays int
	// HangLimit overrides the watchdog limit for one case of this sub-check (default 240 s).
	HangLimit time.Duration
	// Repeat executes every case twice in a row and requires identical observations
	// (outcome labels and finding classes): the second identical call must not behave
	// differently (a cache or memo poisoned by the first call).
	Repeat bool
}

// Check is a property check.
type Check struct {
	Property string
	Level    string // evidence level
	Subs     []*Sub
	// Assumptions recorded in the evidence file.
	Assumptions []string
}

type classAgg struct {
	Class string
	Sub   string
	Count int64
	Seq   int64
	Msg   string
	Case  any
	// History marks a finding whose witness does not fail alone but whose class comes
	// back on every run of the whole sub-check (hidden state in the code under test).
	History bool
}

// KnownEntry is one entry of known_findings.json.
type KnownEntry struct {
	Property string          `json:"property"`
	Class    string          `json:"class"`
	Status   string          `json:"status"` // "known" | "fixed"
	What     string          `json:"what"`
	Commit   string          `json:"commit,omitempty"`
	Line     string          `json:"line,omitempty"`
	Witness  json.RawMessage `json:"witness,omitempty"`
}

type knownFile struct {
	Findings []KnownEntry `json:"findings"`
}

// VerifDir is the root of the verification tree.
func VerifDir() string {
	if d := os.Getenv("VERIF_DIR"); d != "" {
		return d
	}
	return "/verif"
}

// OutDir is where evidence and replay files are written (VERIF_OUT_DIR overrides,
// for trial runs that must not touch the committed evidence).
func OutDir() string {
	if d := os.Getenv("VERIF_OUT_DIR"); d != "" {
		return d
	}
	return VerifDir()
}

func loadKnown(prop string) (map[string]KnownEntry, error) {
	b, err := os.ReadFile(filepath.Join(VerifDir(), "known_findings.json"))
	if err != nil {
		if os.IsNotExist(err) {
			return map[string]KnownEntry{}, nil
		}
		return nil, err
	}
	var kf knownFile
	if err := json.Unmarshal(b, &kf); err != nil {
		return nil, fmt.Errorf("known_findings.json: %w", err)
	}
	res := map[string]KnownEntry{}
	for _, e := range kf.Findings {
		if e.Property == prop && e.Status == "known" {
			res[e.Class] = e
		}
	}
	return res, nil
}

// hangLimit is how long one case may run before the watchdog gives up on it.
func hangLimit(sub *Sub) time.Duration {
	if s := os.Getenv("VERIF_HANG_S"); s != "" {
		var n int
		fmt.Sscanf(s, "%d", &n)
		if n > 0 {
			return time.Duration(n) * time.Second
		}
	}
	if sub.HangLimit > 0 {
		return sub.HangLimit
	}
	return 240 * time.Second
}

// engineStart carries a monotonic clock reading: the watchdog measures elapsed time with time.Since(engineStart),
// which a step of the wall clock (NTP, a virtual machine paused for a snapshot and resumed) does not affect.
var engineStart = time.Now()

func monoNanos() int64 { return int64(time.Since(engineStart)) }

// ConfirmHang is the two-stage confirmation used by the checks for which "does not return" is a verdict
// (C09, C20): a case that is merely slow - machine under load, process paused - must never be reported.
// Stage 1: the case alone is replayed in a fresh process with the same limit; if that run does not come back
// either, the hang is confirmed. Stage 2 (the replay alone passes: the hang may depend on what ran before):
// the case in this process is given until three times the limit on the monotonic clock; if it is still in
// flight then, the hang is confirmed as history-dependent. stillInFlight reports whether the case is still running.
func ConfirmHang(prop string, sub *Sub, caseJSON string, limit time.Duration) (confirmed bool, how string) {
	start := monoNanos()
	childHung := false
	tier, stillInFlight := runTier, StillInFlight
	if exe, err := os.Executable(); err == nil && os.Getenv("VERIF_CONFIRM") == "" {
		dir := filepath.Join(os.TempDir(), fmt.Sprintf("verif-hang-%d", os.Getpid()))
		os.MkdirAll(dir, 0o755)
		defer os.RemoveAll(dir)
		file := filepath.Join(dir, "case.json")
		os.WriteFile(file, []byte(fmt.Sprintf("{\"property\":%q,\"sub\":%q,\"class\":\"does-not-terminate\",\"case\":%s}", prop, sub.Name, caseJSON)), 0o644)
		cctx, cancel := context.WithTimeout(context.Background(), limit+30*time.Second)
		cmd := exec.CommandContext(cctx, exe, prop, tier, "--replay", file)
		cmd.Env = append(os.Environ(), "VERIF_CONFIRM=1", "VERIF_OUT_DIR="+dir)
		err := cmd.Run()
		timedOut := cctx.Err() != nil
		cancel()
		_ = err
		childHung = timedOut
	}
	_ = start
	// stage 2, always: the case in this process gets twice the limit more, counted in one-second sleeps that this
	// goroutine actually completed (a paused machine completes none; a clock that jumped ends at most one early)
	for i := 0; i < int(2*limit/time.Second); i++ {
		if !stillInFlight() {
			return false, ""
		}
		time.Sleep(time.Second)
	}
	if !stillInFlight() {
		return false, ""
	}
	if childHung {
		return true, "the case alone, replayed in a fresh process, does not come back either, and in this run it is still in flight after three times the limit"
	}
	return true, "the case alone returns in a fresh process, but in this run it has not come back after three times the limit: it depends on the calls that preceded it"
}

// runTier is the tier of the current run (set by Main).
var runTier = "quick"

// StillInFlight is set by the watchdog for the duration of a HangHandler call: it tells whether the case the
// handler was called for is still running.
var StillInFlight = func() bool { return true }

// HangHandler is called (from the watchdog goroutine) when a case does not come back. The default
// reports a harness error and exits 2; a check whose property includes termination (C09) replaces it.
var HangHandler = func(sub *Sub, caseJSON string, limit time.Duration) {
	// (slow is not hung: the case gets the limit once more, counted in completed one-second sleeps)
	for i := 0; i < int(limit/time.Second); i++ {
		if !StillInFlight() {
			fmt.Fprintf(os.Stderr, "note: case %s of sub-check %s took longer than %s but came back (slow run, not a hang)\n", caseJSON, sub.Name, limit)
			return
		}
		time.Sleep(time.Second)
	}
	fmt.Fprintf(os.Stderr, "harness error: case %s of sub-check %s did not finish within %s (the code under test or the harness hangs)\n", caseJSON, sub.Name, limit)
	os.Exit(2)
}

// Deadline per tier; may be overridden with VERIF_DEADLINE_S.
func deadlineFor(tier string) time.Duration {
	if s := os.Getenv("VERIF_DEADLINE_S"); s != "" {
		var n int
		fmt.Sscanf(s, "%d", &n)
		if n > 0 {
			return time.Duration(n) * time.Second
		}
	}
	if tier == "thorough" {
		return 40 * time.Minute
	}
	return 6 * time.Minute
}

type subStats struct {
	Name        string           `json:"name"`
	Rule        string           `json:"rule"`
	Bound       string           `json:"bound,omitempty"`
	Cases       int64            `json:"cases"`
	Evals       int64            `json:"evaluations"`
	Nontrivial  int64            `json:"distinct_nontrivial"`
	States      int64            `json:"states"`
	Transitions int64            `json:"transitions"`
	Outcomes    map[string]int64 `json:"outcome_histogram"`
	Exhaustive  bool             `json:"exhaustive"`
	Inexact     []string         `json:"inexact_because,omitempty"`
	WallS       float64          `json:"wall_s"`
}

// Main runs the check and returns the process exit status.
func Main(chk *Check, tier string, seed int64, replayPath string) int {
	runTier = tier
	if replayPath != "" {
		return replay(chk, tier, replayPath)
	}
	start := time.Now()
	deadline := start.Add(deadlineFor(tier))
	known, err := loadKnown(chk.Property)
	if err != nil {
		fmt.Fprintln(os.Stderr, "harness error:", err)
		return 2
	}

	var stats []subStats
	var samples []any
	classes := map[string]*classAgg{}
	allExhaustive := true
	var capsHit []string
	var subErrs []string

	for _, sub := range chk.Subs {
		if only := os.Getenv("VERIF_SUB"); only != "" && !strings.Contains(","+only+",", ","+sub.Name+",") {
			continue
		}
		st, smp, cls, err := runSub(sub, tier, deadline)
		if err != nil {
			// A sub-check that cannot complete (a harness assumption broken by the tree under
			// test) is a harness error - but it must not hide what the other sub-checks find:
			// the run continues, and the error decides the exit status only if nothing else does.
			fmt.Fprintf(os.Stderr, "harness error in %s/%s: %v\n", chk.Property, sub.Name, err)
			subErrs = append(subErrs, sub.Name)
			allExhaustive = false
			capsHit = append(capsHit, fmt.Sprintf("%s: did not complete (harness error)", sub.Name))
			continue
		}
		stats = append(stats, st)
		if !st.Exhaustive {
			allExhaustive = false
			if len(st.Inexact) > 0 {
				capsHit = append(capsHit, fmt.Sprintf("%s: %s", sub.Name, strings.Join(st.Inexact, "; ")))
			} else {
				capsHit = append(capsHit, fmt.Sprintf("%s: deadline hit after %d cases", sub.Name, st.Cases))
			}
		}
		for _, s := range smp {
			if len(samples) < 40 {
				samples = append(samples, map[string]any{"sub": sub.Name, "case": s})
			}
		}
		for k, v := range cls {
			classes[sub.Name+"\x00"+k] = v
		}
		fmt.Printf("  [%s/%s] cases=%d evals=%d nontrivial=%d outcomes=%d wall=%.1fs exhaustive=%v\n",
			chk.Property, sub.Name, st.Cases, st.Evals, st.Nontrivial, len(st.Outcomes), st.WallS, st.Exhaustive)
	}

	if os.Getenv("VERIF_CONFIRM") == "1" {
		// child of a confirmation run: just list what was found, unconfirmed
		for _, v := range classes {
			fmt.Printf("CONFIRM sub=%s class=%s\n", v.Sub, v.Class)
		}
		return 0
	}
	// Classify, replay each witness 5x before believing it.
	keys := make([]string, 0, len(classes))
	for k := range classes {
		keys = append(keys, k)
	}
	sort.Strings(keys)
	violations := 0
	knownHits := 0
	exit := 0
	subByName := map[string]*Sub{}
	for _, s := range chk.Subs {
		subByName[s.Name] = s
	}
	var knownLines, violLines []string
	reruns := map[string][]map[string]*classAgg{}
	var unconfirmed []*classAgg
	for _, k := range keys {
		agg := classes[k]
		sub := subByName[agg.Sub]
		ok, why := reproduces(sub, tier, agg)
		if !ok {
			// The witness does not fail when executed alone. Either the harness is not
			// deterministic (a harness error), or the code under test keeps hidden state
			// across calls (a cache, a pooled buffer, a lazily advanced global), so that the
			// failure needs the history of calls that preceded it. Decide by re-running the
			// whole sub-check twice: the class must come back every time.
			recurs := 0
			if _, done := reruns[sub.Name]; !done {
				// two re-runs per sub-check, shared by all its non-replayable classes
				for i := 0; i < 2; i++ {
					_, _, cls, err := runSub(sub, tier, time.Now().Add(deadlineFor(tier)))
					if err != nil {
						cls = nil
					}
					reruns[sub.Name] = append(reruns[sub.Name], cls)
				}
			}
			for _, cls := range reruns[sub.Name] {
				if cls == nil {
					continue
				}
				// the same class, or - hidden state such as a recycled buffer can surface in a
				// different cell each time - at least one finding that is not a listed known class
				again := cls[agg.Class] != nil
				for c := range cls {
					if _, isKnown := known[c]; !isKnown {
						again = true
					}
				}
				if again {
					recurs++
				}
			}
			if recurs < 2 {
				// Not confirmed at sub-check level. It never blocks the findings that are
				// confirmed; it is looked at again after the loop.
				agg.Msg = fmt.Sprintf("%s [%s; came back in %d of 2 re-runs of the sub-check]", agg.Msg, why, recurs)
				unconfirmed = append(unconfirmed, agg)
				continue
			}
			agg.History = true
			agg.Msg = "[history-dependent: fails only after the calls that precede it in the sub-check run; reproduced in 3 of 3 runs of the sub-check] " + agg.Msg
		}
		if ke, isKnown := known[agg.Class]; isKnown {
			knownHits++
			knownLines = append(knownLines, fmt.Sprintf("KNOWN-FINDING: property=%s class=%s sub=%s count=%d %s", chk.Property, agg.Class, agg.Sub, agg.Count, ke.What))
			continue
		}
		violations++
		path, err := writeReplay(chk.Property, agg)
		if err != nil {
			fmt.Fprintln(os.Stderr, "harness error:", err)
			return 2
		}
		fmt.Printf("  violation class=%s sub=%s count=%d: %s\n", agg.Class, agg.Sub, agg.Count, agg.Msg)
		violLines = append(violLines, fmt.Sprintf("VIOLATION property=%s replay=%s", chk.Property, path))
		exit = 1
	}
	if len(unconfirmed) > 0 {
		// A finding that neither replays alone nor comes back when its sub-check is re-run
		// depends on state left behind by *other* sub-checks (a process-wide cache poisoned
		// earlier) or on real nondeterminism. If other findings are confirmed the verdict is
		// already decided and these are only listed. Otherwise the whole check (all sub-checks,
		// in order) is re-run twice: an unlisted finding in the same sub-check must come back
		// both times to count as a (cross-sub-check history-dependent) violation; if it does
		// not, it is a harness error, never a verdict.
		if violations == 0 {
			var again [2]map[string]bool
			for i := 0; i < 2; i++ {
				again[i] = map[string]bool{}
				for _, sub := range chk.Subs {
					if only := os.Getenv("VERIF_SUB"); only != "" && !strings.Contains(","+only+",", ","+sub.Name+",") {
						continue
					}
					_, _, cls, err := runSub(sub, tier, time.Now().Add(deadlineFor(tier)))
					if err != nil {
						continue
					}
					for c := range cls {
						if _, isKnown := known[c]; !isKnown {
							again[i][sub.Name] = true
						}
					}
				}
			}
			for _, agg := range unconfirmed {
				if !(again[0][agg.Sub] && again[1][agg.Sub]) && freshProcessConfirms(chk.Property, tier, agg) {
					// state that is consumed once per process (a buffer that only grows, a lazily built table):
					// the finding comes back in two fresh processes running the same sub-check
					agg.History = true
					agg.Msg = "[needs a fresh process: the state it depends on is consumed once per process; the class came back in 2 of 2 fresh runs of the sub-check] " + agg.Msg
					violations++
					path, err := writeReplay(chk.Property, agg)
					if err != nil {
						fmt.Fprintln(os.Stderr, "harness error:", err)
						return 2
					}
					fmt.Printf("  violation class=%s sub=%s count=%d: %s\n", agg.Class, agg.Sub, agg.Count, agg.Msg)
					violLines = append(violLines, fmt.Sprintf("VIOLATION property=%s replay=%s", chk.Property, path))
					exit = 1
					continue
				}
				if !(again[0][agg.Sub] && again[1][agg.Sub]) {
					fmt.Fprintf(os.Stderr, "harness error: finding %s in %s/%s does not replay deterministically: %s; and its sub-check reported nothing unlisted in 2 re-runs of the whole check\n", agg.Class, chk.Property, agg.Sub, agg.Msg)
					return 2
				}
				agg.History = true
				agg.Msg = "[history-dependent across sub-checks: fails only after the calls made by earlier sub-checks; an unlisted finding of this sub-check came back in 2 of 2 re-runs of the whole check] " + agg.Msg
				violations++
				path, err := writeReplay(chk.Property, agg)
				if err != nil {
					fmt.Fprintln(os.Stderr, "harness error:", err)
					return 2
				}
				fmt.Printf("  violation class=%s sub=%s count=%d: %s\n", agg.Class, agg.Sub, agg.Count, agg.Msg)
				violLines = append(violLines, fmt.Sprintf("VIOLATION property=%s replay=%s", chk.Property, path))
				exit = 1
			}
		} else {
			for _, agg := range unconfirmed {
				fmt.Printf("  unconfirmed finding (not counted) class=%s sub=%s count=%d: %s\n", agg.Class, agg.Sub, agg.Count, agg.Msg)
			}
		}
	}
	for _, l := range knownLines {
		fmt.Println(l)
	}
	for _, l := range violLines {
		fmt.Println(l)
	}

	// Evidence.
	var tot subStats
	tot.Outcomes = map[string]int64{}
	var rules, bounds []string
	for _, s := range stats {
		tot.Cases += s.Cases
		tot.Evals += s.Evals
		tot.Nontrivial += s.Nontrivial
		tot.States += s.States
		tot.Transitions += s.Transitions
		for k, v := range s.Outcomes {
			tot.Outcomes[s.Name+":"+k] += v
		}
		rules = append(rules, s.Name+": "+s.Rule)
		if s.Bound != "" {
			bounds = append(bounds, s.Name+": "+s.Bound)
		}
	}
	cov := map[string]any{
		"evaluations":                   tot.Evals,
		"distinct_nontrivial":           tot.Nontrivial,
		"rule":                          strings.Join(rules, " | "),
		"samples":                       samples,
		"states":                        tot.States,
		"transitions":                   tot.Transitions,
		"traces_validated_against_impl": tot.Evals,
		"exhaustive":                    allExhaustive,
		"bound":                         strings.Join(bounds, " | "),
		"distinct_outcomes":             len(tot.Outcomes),
		"outcome_histogram":             tot.Outcomes,
		"subchecks":                     stats,
		"caps_hit":                      capsHit,
		"known_finding_classes_hit":     knownHits,
		"explanation":                   "every enumerated case is executed on the real go-ucan code built from /repo's working tree and compared with a reference model or invariant; traces_validated_against_impl equals evaluations because no separate model trace exists: each explored state is an implementation execution",
	}
	ev := map[string]any{
		"property_id": chk.Property,
		"tier":        tier,
		"seed":        seed,
		"level":       chk.Level,
		"coverage":    cov,
		"assumptions": chk.Assumptions,
		"wall_s":      time.Since(start).Seconds(),
		"violations":  violations,
	}
	if len(subErrs) > 0 && exit == 0 {
		fmt.Fprintf(os.Stderr, "harness error: sub-checks %v did not complete\n", subErrs)
		return 2
	}
	if err := writeEvidence(chk.Property, ev); err != nil {
		fmt.Fprintln(os.Stderr, "harness error:", err)
		return 2
	}
	fmt.Printf("%s %s: evaluations=%d states=%d transitions=%d violations=%d known=%d exhaustive=%v wall=%.1fs\n",
		chk.Property, tier, tot.Evals, tot.States, tot.Transitions, violations, knownHits, allExhaustive, time.Since(start).Seconds())
	return exit
}

// freshProcessConfirms re-runs the finding's sub-check in two fresh processes (the check binary itself,
// VERIF_CONFIRM=1) and tells whether the class was found in both.
func freshProcessConfirms(prop, tier string, agg *classAgg) bool {
	exe, err := os.Executable()
	if err != nil {
		return false
	}
	for i := 0; i < 2; i++ {
		cmd := exec.Command(exe, prop, tier)
		cmd.Env = append(os.Environ(), "VERIF_CONFIRM=1", "VERIF_SUB="+agg.Sub, "VERIF_OUT_DIR="+filepath.Join(os.TempDir(), fmt.Sprintf("verif-confirm-%d", os.Getpid())))
		out, _ := cmd.Output()
		if !strings.Contains(string(out), "CONFIRM sub="+agg.Sub+" class="+agg.Class+"\n") {
			os.RemoveAll(filepath.Join(os.TempDir(), fmt.Sprintf("verif-confirm-%d", os.Getpid())))
			return false
		}
	}
	os.RemoveAll(filepath.Join(os.TempDir(), fmt.Sprintf("verif-confirm-%d", os.Getpid())))
	return true
}

func writeEvidence(prop string, ev map[string]any) error {
	dir := filepath.Join(OutDir(), "evidence")
	if err := os.MkdirAll(dir, 0o755); err != nil {
		return err
	}
	b, err := json.MarshalIndent(ev, "", " ")
	if err != nil {
		return err
	}
	return os.WriteFile(filepath.Join(dir, prop+".json"), b, 0o644)
}

func slug(s string) string {
	var b strings.Builder
	for _, r := range s {
		switch {
		case r >= 'a' && r <= 'z', r >= 'A' && r <= 'Z', r >= '0' && r <= '9', r == '-', r == '_':
			b.WriteRune(r)
		default:
			b.WriteByte('_')
		}
	}
	return b.String()
}

type replayFile struct {
	Property string          `json:"property"`
	Sub      string          `json:"sub"`
	Class    string          `json:"class"`
	Msg      string          `json:"msg"`
	Count    int64           `json:"count"`
	Case     json.RawMessage `json:"case"`
	// HistoryDependent: the case fails only as part of a run of the whole sub-check;
	// --replay then re-runs that sub-check and looks for the class.
	HistoryDependent bool `json:"history_dependent,omitempty"`
}

func writeReplay(prop string, agg *classAgg) (string, error) {
	dir := filepath.Join(OutDir(), "replays", prop)
	if err := os.MkdirAll(dir, 0o755); err != nil {
		return "", err
	}
	cb, err := json.Marshal(agg.Case)
	if err != nil {
		return "", err
	}
	rf := replayFile{Property: prop, Sub: agg.Sub, Class: agg.Class, Msg: agg.Msg, Count: agg.Count, Case: cb, HistoryDependent: agg.History}
	b, _ := json.MarshalIndent(rf, "", " ")
	path := filepath.Join(dir, slug(agg.Sub)+"-"+slug(agg.Class)+".json")
	return path, os.WriteFile(path, b, 0o644)
}

func newCtx(tier string) *Ctx {
	return &Ctx{Tier: tier, outcomes: map[string]int64{}, sampleOut: map[string]any{}, findings: map[string]*classAgg{}}
}

// reproduces re-executes the witness five times, alone, and requires the same
// class each time.
func reproduces(sub *Sub, tier string, agg *classAgg) (bool, string) {
	// round-trip the case through JSON so that the replay file is known to be sufficient
	cb, err := json.Marshal(agg.Case)
	if err != nil {
		return false, "case not serialisable: " + err.Error()
	}
	times := sub.Replays
	if times <= 0 {
		times = 5
	}
	for i := 0; i < times; i++ {
		c := sub.NewCase()
		if err := json.Unmarshal(cb, c); err != nil {
			return false, "case not decodable: " + err.Error()
		}
		ctx := newCtx(tier)
		ctx.curCase = c
		sub.Run(ctx, c)
		if _, found := ctx.findings[agg.Class]; !found {
			return false, fmt.Sprintf("replay %d of %s did not reproduce class %s", i+1, string(cb), agg.Class)
		}
	}
	return true, ""
}

func replay(chk *Check, tier, path string) int {
	b, err := os.ReadFile(path)
	if err != nil {
		fmt.Fprintln(os.Stderr, "harness error:", err)
		return 2
	}
	var rf replayFile
	if err := json.Unmarshal(b, &rf); err != nil {
		fmt.Fprintln(os.Stderr, "harness error:", err)
		return 2
	}
	for _, sub := range chk.Subs {
		if sub.Name != rf.Sub {
			continue
		}
		if sub.Setup != nil {
			if err := sub.Setup(tier); err != nil {
				fmt.Fprintln(os.Stderr, "harness error:", err)
				return 2
			}
		}
		if rf.HistoryDependent {
			_, _, cls, err := runSub(sub, tier, time.Now().Add(deadlineFor(tier)))
			if err != nil {
				fmt.Fprintln(os.Stderr, "harness error:", err)
				return 2
			}
			fmt.Printf("replay %s/%s (history-dependent: whole sub-check re-run)\n", chk.Property, sub.Name)
			if a := cls[rf.Class]; a != nil {
				fmt.Printf("  finding class=%s count=%d: %s\n", a.Class, a.Count, a.Msg)
				fmt.Printf("VIOLATION property=%s replay=%s\n", chk.Property, path)
				return 1
			}
			fmt.Println("  no finding of that class: the sub-check passes on this tree")
			return 0
		}
		c := sub.NewCase()
		if err := json.Unmarshal(rf.Case, c); err != nil {
			fmt.Fprintln(os.Stderr, "harness error:", err)
			return 2
		}
		ctx := newCtx(tier)
		ctx.curCase = c
		fmt.Printf("replay %s/%s case=%s\n", chk.Property, sub.Name, string(rf.Case))
		done := make(chan struct{})
		go func() { defer close(done); sub.Run(ctx, c) }()
		if os.Getenv("VERIF_CONFIRM") != "" {
			<-done // (the parent decides how long to wait)
		} else {
			select {
			case <-done:
			case <-time.After(5 * hangLimit(sub)):
				if rf.Class == "does-not-terminate" || rf.Class == "operations-wait-for-each-other" {
					fmt.Printf("  finding class=%s: the case did not return within %s\n", rf.Class, 5*hangLimit(sub))
					fmt.Printf("VIOLATION property=%s replay=%s\n", chk.Property, path)
					return 1
				}
				fmt.Fprintf(os.Stderr, "harness error: the replayed case did not return within %s\n", 5*hangLimit(sub))
				return 2
			}
		}
		for k, v := range ctx.outcomes {
			fmt.Printf("  outcome %s x%d\n", k, v)
		}
		if len(ctx.findings) == 0 {
			fmt.Println("  no finding: the case passes on this tree")
			return 0
		}
		for _, f := range ctx.findings {
			fmt.Printf("  finding class=%s: %s\n", f.Class, f.Msg)
		}
		fmt.Printf("VIOLATION property=%s replay=%s\n", chk.Property, path)
		return 1
	}
	fmt.Fprintf(os.Stderr, "harness error: no sub %q in %s\n", rf.Sub, chk.Property)
	return 2
}

type item struct {
	seq int64
	c   any
}

func runSub(sub *Sub, tier string, deadline time.Time) (subStats, []any, map[string]*classAgg, error) {
	start := time.Now()
	if sub.Setup != nil {
		if err := sub.Setup(tier); err != nil {
			return subStats{}, nil, nil, err
		}
	}
	workers := runtime.GOMAXPROCS(0)
	if w := os.Getenv("VERIF_WORKERS"); w != "" {
		fmt.Sscanf(w, "%d", &workers)
		if workers < 1 {
			workers = 1
		}
	}
	if sub.Serial {
		workers = 1
	}
	const batch = 64
	ch := make(chan []item, workers*4)
	ctxs := make([]*Ctx, workers)
	var wg sync.WaitGroup
	var panicked atomic.Value
	// Watchdog: a case that does not come back is a hang of the code under test (or of the harness).
	// It cannot be recovered from inside the process; the run ends there with a report (HangHandler).
	type inflight struct {
		since atomic.Int64 // monotonic stamp taken when the worker picked up its current case (or last reported progress); 0 = idle
		cas   atomic.Value
		seen  int64 // watchdog only: the stamp seen at the previous tick
		ticks int   // watchdog only: consecutive ticks with the same stamp
	}
	fl := make([]*inflight, workers)
	stopWatch := make(chan struct{})
	defer close(stopWatch)
	limit := hangLimit(sub)
	for w := range fl {
		fl[w] = &inflight{}
	}
	go func() {
		t := time.NewTicker(2 * time.Second)
		defer t.Stop()
		for {
			select {
			case <-stopWatch:
				return
			case <-t.C:
				for _, f := range fl {
					// the age of a case is counted in ticks of this loop during which the same case was seen in flight
					// (2 s each), not read off a clock: a process or machine that was paused - a snapshot of the sandbox,
					// a suspended VM - resumes with a clock that has jumped, but with at most one tick delivered
					s := f.since.Load()
					switch {
					case s == 0:
						f.seen, f.ticks = 0, 0
					case s != f.seen:
						f.seen, f.ticks = s, 0
					default:
						f.ticks++
					}
					if s != 0 && time.Duration(f.ticks)*2*time.Second > limit {
						f.ticks = 0
						cb, _ := json.Marshal(f.cas.Load())
						f, s := f, s
						StillInFlight = func() bool { return f.since.Load() == s }
						HangHandler(sub, string(cb), limit)
						StillInFlight = func() bool { return true }
						// (a handler that returns has decided that the case is slow, not hung: it gets a new lease)
						f.since.CompareAndSwap(s, monoNanos())
					}
				}
			}
		}
	}()
	for w := 0; w < workers; w++ {
		w := w
		ctx := newCtx(tier)
		ctx.beat = func() {
			if fl[w].since.Load() != 0 {
				fl[w].since.Store(monoNanos())
			}
		}
		ctxs[w] = ctx
		wg.Add(1)
		go func() {
			defer wg.Done()
			for b := range ch {
				for _, it := range b {
					fl[w].cas.Store(it.c)
					fl[w].since.Store(monoNanos())
					func() {
						defer fl[w].since.Store(0)
						defer func() {
							if r := recover(); r != nil {
								buf := make([]byte, 4096)
								n := runtime.Stack(buf, false)
								cb, _ := json.Marshal(it.c)
								panicked.Store(fmt.Sprintf("harness panic on case %s: %v\n%s", cb, r, buf[:n]))
							}
						}()
						ctx.seq = it.seq
						ctx.curCase = it.c
						if !sub.Repeat {
							sub.Run(ctx, it.c)
							return
						}
						c1, c2 := newCtx(tier), newCtx(tier)
						c1.seq, c1.curCase, c2.seq, c2.curCase = it.seq, it.c, it.seq, it.c
						sub.Run(c1, it.c)
						sub.Run(c2, it.c)
						if s1, s2 := c1.signature(), c2.signature(); s1 != s2 {
							c1.Fail("not-repeatable/second-identical-call-differs", fmt.Sprintf("the same case executed twice in a row gives different observations: first %s, second %s", s1, s2), it.c)
						}
						ctx.merge(c1)
					}()
				}
			}
		}()
	}
	var cases int64
	var firstSamples []any
	exhaustive := true
	cur := make([]item, 0, batch)
	sub.Gen(tier, func(c any) bool {
		if cases < 3 {
			firstSamples = append(firstSamples, c)
		}
		cur = append(cur, item{seq: cases, c: c})
		cases++
		if len(cur) == batch {
			ch <- cur
			cur = make([]item, 0, batch)
			if cases%(batch*16) == 0 && (time.Now().After(deadline) || panicked.Load() != nil) {
				exhaustive = false
				return false
			}
		}
		return true
	})
	if len(cur) > 0 {
		ch <- cur
	}
	close(ch)
	wg.Wait()
	if p := panicked.Load(); p != nil {
		return subStats{}, nil, nil, fmt.Errorf("%s", p.(string))
	}

	st := subStats{Name: sub.Name, Rule: sub.Rule, Cases: cases, Outcomes: map[string]int64{}, Exhaustive: exhaustive}
	if sub.Bound != nil {
		st.Bound = sub.Bound(tier)
	}
	classes := map[string]*classAgg{}
	outSamples := map[string]any{}
	for _, ctx := range ctxs {
		for reason := range ctx.inexact {
			st.Exhaustive = false
			st.Inexact = append(st.Inexact, reason)
		}
		st.Evals += ctx.evals
		st.Nontrivial += ctx.nontrivial
		st.States += ctx.states
		st.Transitions += ctx.transitions
		for k, v := range ctx.outcomes {
			st.Outcomes[k] += v
		}
		for k, v := range ctx.sampleOut {
			if _, ok := outSamples[k]; !ok {
				outSamples[k] = v
			}
		}
		for _, f := range ctx.findings {
			agg := classes[f.Class]
			if agg == nil {
				agg = &classAgg{Class: f.Class, Sub: sub.Name, Seq: 1 << 62}
				classes[f.Class] = agg
			}
			agg.Count += f.Count
			// the witness is the first finding in enumeration order (simplest first, deterministic)
			if f.Seq < agg.Seq {
				agg.Seq, agg.Msg, agg.Case = f.Seq, f.Msg, f.Case
			}
		}
	}
	smp := firstSamples
	okeys := make([]string, 0, len(outSamples))
	for k := range outSamples {
		okeys = append(okeys, k)
	}
	sort.Strings(okeys)
	for _, k := range okeys {
		if len(smp) < 8 {
			smp = append(smp, map[string]any{"outcome": k, "case": outSamples[k]})
		}
	}
	st.WallS = time.Since(start).Seconds()
	return st, smp, classes, nil
}
