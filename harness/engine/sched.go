package engine

import (
	"fmt"
	"iter"
	"sync/atomic"

	"github.com/ucan-wg/go-ucan/verifshim/sched"
)

// E4: cooperative scheduler. Logical threads are goroutines of which exactly one
// runs at a time; a thread calls Point at every seam where the code under test
// calls back into caller code. The explorer enumerates all schedules up to a
// preemption bound (stateless DFS with prefix replay).

// Sched records one execution.
type Sched struct {
	Preempt  []bool   // per choice point: whether a non-default choice is a preemption
	Trace    []int    // thread chosen at each point
	Ops      []string // the operation the chosen thread was about to perform when it last yielded ("" = start / explicit seam)
	Deadlock bool     // no thread enabled although some have not finished
	Blocked  []string // on deadlock: what each unfinished thread waits for
	SyncPts  int      // scheduling points that came from hooked sync / atomic operations
}

// ThreadSeam is the Seam handed to a logical thread.
type ThreadSeam struct {
	yield func(struct{}) bool
}

// Point yields to the scheduler.
func (t ThreadSeam) Point() { t.yield(struct{}{}) }

// RunThreads executes the bodies under schedule env and returns when all are
// done. Logical threads are coroutines (iter.Pull): exactly one runs at a time and
// control returns to the scheduler loop at every Point - an explicit seam of the harness, or a
// hooked sync / sync/atomic operation of the code under test (verifshim) - which then chooses
// who runs next (canonical order: the running thread first if it is still enabled, then
// ascending ids). A thread that waits for a lock, a Once or a WaitGroup is not enabled until its
// condition holds; no enabled thread while some are unfinished is a deadlock.
func RunThreads(env *Env, bodies []func(seam ThreadSeam)) *Sched {
	n := len(bodies)
	s := &Sched{}
	next := make([]func() (struct{}, bool), n)
	stop := make([]func(), n)
	done := make([]bool, n)
	waiting := make([]func() bool, n)
	lastOp := make([]string, n)
	for i := 0; i < n; i++ {
		i := i
		body := bodies[i]
		next[i], stop[i] = iter.Pull(func(yield func(struct{}) bool) {
			th := &sched.Thread{Yield: func(op string, ready func() bool) {
				waiting[i], lastOp[i] = ready, op
				s.SyncPts++
				yield(struct{}{})
			}}
			sched.Register(th)
			defer sched.Unregister(th)
			body(ThreadSeam{yield})
		})
	}
	defer func() {
		for _, st := range stop {
			st()
		}
	}()
	enabled := func(i int) bool { return !done[i] && (waiting[i] == nil || waiting[i]()) }
	// initial choice: which thread starts (free)
	cur := env.Choose(n)
	s.Preempt = append(s.Preempt, false)
	s.Trace = append(s.Trace, cur)
	s.Ops = append(s.Ops, "")
	for {
		waiting[cur], lastOp[cur] = nil, ""
		_, alive := next[cur]()
		if !alive {
			done[cur] = true
		}
		var en []int
		curEnabled := alive && enabled(cur)
		if curEnabled {
			en = append(en, cur)
		}
		for i := 0; i < n; i++ {
			if !(curEnabled && i == cur) && enabled(i) {
				en = append(en, i)
			}
		}
		if len(en) == 0 {
			for i := 0; i < n; i++ {
				if !done[i] {
					s.Deadlock = true
					s.Blocked = append(s.Blocked, fmt.Sprintf("thread %d waits in %s", i, lastOp[i]))
				}
			}
			return s
		}
		c := env.Choose(len(en))
		s.Preempt = append(s.Preempt, curEnabled)
		cur = en[c]
		s.Trace = append(s.Trace, cur)
		s.Ops = append(s.Ops, lastOp[cur])
	}
}

// Tolerant makes ExploreSchedules survive replay divergences (counted in Divergences).
var Tolerant bool

// Divergences counts tolerated replay divergences.
var Divergences atomic.Int64

// ExploreSchedules enumerates all schedules with at most bound preemptions.
func ExploreSchedules(bound int, maxExec int, bodies func() []func(seam ThreadSeam), visit func(env *Env, s *Sched)) (int, bool, error) {
	return ExploreSchedulesUntil(bound, maxExec, bodies, visit, nil)
}

// ExploreSchedulesUntil additionally stops (capped) as soon as stop() reports true.
func ExploreSchedulesUntil(bound int, maxExec int, bodies func() []func(seam ThreadSeam), visit func(env *Env, s *Sched), stop func() bool) (int, bool, error) {
	count := 0
	capped := false
	var rec func(prefix []int, used int) error
	rec = func(prefix []int, used int) error {
		if (maxExec > 0 && count >= maxExec) || (stop != nil && stop()) {
			capped = true
			return nil
		}
		env := &Env{Prefix: prefix}
		s := RunThreads(env, bodies())
		count++
		diverged := env.Diverged
		for i := range prefix {
			if i >= len(env.Taken) || env.Taken[i] != prefix[i] {
				diverged = true
			}
		}
		if diverged {
			// The same choices did not lead to the same choice points: the code under test keeps state
			// across executions (a cache filled by an earlier schedule). With Tolerant set the execution
			// is still judged - it is a legal schedule of the real code - but the enumeration is no longer
			// claimed to be exhaustive; otherwise it is a hard error.
			if !Tolerant {
				return fmt.Errorf("schedule replay diverged for prefix %v", prefix)
			}
			Divergences.Add(1)
			visit(env, s)
			return nil
		}
		visit(env, s)
		// preemptions used within the prefix
		for i := len(prefix); i < len(env.Taken); i++ {
			for alt := 1; alt < env.Alts[i]; alt++ {
				cost := used
				if s.Preempt[i] {
					cost++
				}
				if cost > bound {
					continue
				}
				np := append(append([]int{}, env.Taken[:i]...), alt)
				if err := rec(np, cost); err != nil {
					return err
				}
			}
		}
		return nil
	}
	err := rec(nil, 0)
	return count, capped, err
}
