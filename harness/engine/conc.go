package engine

import (
	"fmt"
	"strings"
	"time"
)

// E6: exhaustive interleaving of calls into the library at its synchronization operations.
//
// go-ucan is built with "sync" and "sync/atomic" replaced by the harness' shim packages (build
// overlay, see bin/mkoverlay): every Mutex / RWMutex / Once / Pool / Map / WaitGroup / atomic
// operation executed by a logical thread is a scheduling point of the cooperative scheduler
// (RunThreads). ConcurrentSub runs two calls as two logical threads, explores every schedule up to
// a preemption bound (stateless DFS with prefix replay; a replay divergence is a harness error),
// and requires after every schedule that
//   - each call returned what it returns when run alone,
//   - each call, repeated sequentially afterwards, still returns that (no state left behind that
//     poisons later calls),
//   - no deadlock occurred.
// On a tree without synchronization in the exercised paths every pair has exactly two schedules
// (who starts): the sub-check then degenerates to an ordered-pair history test, and says so in its
// evidence (sync_points=0).

// Call is one deterministic call into the library, rendering its result canonically.
type Call struct {
	Name string
	Run  func() string
	Want string // expected rendering; "" = whatever the call returns when run alone, first
}

// ConcCase is a pair of calls (indexes into the call list); Prefix replays one schedule.
type ConcCase struct {
	I      int    `json:"i"`
	J      int    `json:"j"`
	Names  string `json:"names,omitempty"`
	Prefix []int  `json:"prefix,omitempty"`
}

func (c *ConcCase) Weight() int { return len(c.Prefix) }

// ConcurrentSub builds the sub-check. calls must be deterministic in content for a given tier;
// pairs selects the ordered pairs to explore (nil = all).
func ConcurrentSub(name, what string, calls func(tier string) []Call, pairs func(tier string, n int) [][2]int, qBound, tBound int) *Sub {
	return ConcurrentSubSweep(name, what, calls, pairs, DefaultProbes, qBound, tBound)
}

// ConcRegistry maps the names of the concurrent sub-checks built in this process to their call lists
// (used by the free-running race-detector pass, which runs the same calls).
var ConcRegistry = map[string]func(tier string) []Call{}

// DefaultProbes selects at most 24 (quick) / 96 (thorough) evenly spaced calls as SWEEP probes.
func DefaultProbes(tier string, n int) []int {
	max := 24
	if tier == "thorough" {
		max = 96
	}
	step := (n + max - 1) / max
	if step < 1 {
		step = 1
	}
	var r []int
	for i := 0; i < n; i += step {
		r = append(r, i)
	}
	return r
}

// ConcurrentSubSweep additionally runs selected calls (probes) against a SWEEP thread that performs
// every call of the list one after the other - whatever a bounded cache, pool or table does when it
// is churned (evictions, slot collisions, growth) then happens while the probe is in flight. SWEEP pairs
// are explored with one preemption (either thread is interrupted once, at any of its sync operations).
func ConcurrentSubSweep(name, what string, calls func(tier string) []Call, pairs func(tier string, n int) [][2]int, probes func(tier string, n int) []int, qBound, tBound int) *Sub {
	ConcRegistry[name] = calls
	var subStart time.Time
	var cl []Call
	var want []string
	var tierOf string
	setup := func(tier string) error {
		if cl != nil && tierOf == tier {
			return nil
		}
		subStart = time.Now()
		cl, tierOf = calls(tier), tier
		if probes != nil {
			all := cl
			cl = append(cl, Call{Name: "SWEEP(every call once)", Run: func() string {
				var b strings.Builder
				for _, c := range all {
					b.WriteString(c.Run())
					b.WriteByte('|')
				}
				return b.String()
			}})
		}
		want = make([]string, len(cl))
		for i, c := range cl {
			want[i] = c.Want
			if want[i] == "" {
				want[i] = c.Run()
				if again := c.Run(); again != want[i] {
					return fmt.Errorf("harness: call %s is not deterministic when run alone: %.80q vs %.80q", c.Name, want[i], again)
				}
			}
		}
		return nil
	}
	bound := func(tier string) int {
		if tier == "thorough" {
			return tBound
		}
		return qBound
	}
	return &Sub{
		Name:   name,
		Serial: true, // process-wide state of the code under test must only be touched by the scheduled threads
		Rule:   what + ": every selected ordered pair of calls runs as two logical threads under the cooperative scheduler; scheduling points are the sync / sync/atomic operations the library executes (hooked through the shim packages of the build overlay); all schedules up to the preemption bound are enumerated (stateless DFS, prefix replay, divergence = hard error). After every schedule: both results equal the run-alone results, both calls repeated sequentially still do, and there was no deadlock; non-trivial = schedules with at least one context switch at a sync operation",
		Bound: func(t string) string {
			setup(t)
			n := len(cl)
			extra := ""
			if probes != nil {
				n--
				extra = fmt.Sprintf("; %d probes against a SWEEP of all calls with 1 preemption", len(probes(t, n)))
			}
			np := n * n
			if pairs != nil {
				np = len(pairs(t, n))
			}
			return fmt.Sprintf("%d calls, %d ordered pairs, <=%d preemptions%s", n, np, bound(t), extra)
		},
		Setup: setup,
		Gen: func(tier string, emit func(any) bool) {
			setup(tier)
			n := len(cl)
			if probes != nil {
				n-- // the SWEEP call is not part of the plain pairs
				for _, i := range probes(tier, n) {
					if !emit(&ConcCase{I: i, J: n}) {
						return
					}
				}
			}
			if pairs != nil {
				for _, p := range pairs(tier, n) {
					if !emit(&ConcCase{I: p[0], J: p[1]}) {
						return
					}
				}
				return
			}
			for i := 0; i < n; i++ {
				for j := 0; j < n; j++ {
					if !emit(&ConcCase{I: i, J: j}) {
						return
					}
				}
			}
		},
		NewCase: func() any { return &ConcCase{} },
		Run: func(ctx *Ctx, c any) {
			cs := c.(*ConcCase)
			if err := setup(ctx.Tier); err != nil {
				panic(err)
			}
			idx := [2]int{cs.I, cs.J}
			var res [2]string
			guarded := func(t int) func(ThreadSeam) {
				return func(ThreadSeam) {
					// a panic of the code under test in one interleaving is an observation, not a harness failure
					defer func() {
						if r := recover(); r != nil {
							res[t] = fmt.Sprintf("PANIC: %v", r)
						}
					}()
					res[t] = cl[idx[t]].Run()
				}
			}
			mk := func() []func(ThreadSeam) { return []func(ThreadSeam){guarded(0), guarded(1)} }
			names := cl[cs.I].Name + " || " + cl[cs.J].Name
			caseStart := time.Now()
			budget := 3 * time.Second
			if ctx.Tier == "thorough" {
				budget = 30 * time.Second
			}
			// ... and the whole sub-check at most 60 s (quick) / 15 min (thorough): beyond that every remaining
			// pair still runs its default schedules (who starts), but is not explored further
			subBudget := 60 * time.Second
			if ctx.Tier == "thorough" {
				subBudget = 15 * time.Minute
			}
			overBudget := false
			judge := func(env *Env, s *Sched) {
				ctx.Heartbeat()
				if time.Since(caseStart) > budget || (s.SyncPts > 0 && time.Since(subStart) > subBudget) {
					overBudget = true
				}
				ctx.Eval(4)
				ctx.Trans(int64(len(env.Taken)))
				switched := false
				for i, c := range env.Taken {
					if i > 0 && c != 0 && s.Preempt[i] {
						switched = true
					}
				}
				if switched {
					ctx.Nontrivial(1)
				}
				rc := &ConcCase{I: cs.I, J: cs.J, Names: names, Prefix: append([]int{}, env.Taken...)}
				trace := fmt.Sprintf("schedule %v (threads %v, ops %s)", env.Taken, s.Trace, strings.Join(s.Ops, ","))
				if s.Deadlock {
					ctx.Outcome("deadlock")
					ctx.Failf(rc, "deadlock/"+cl[cs.I].Name, "%s deadlocks under %s: %v", names, trace, s.Blocked)
					return
				}
				ok := true
				for t := 0; t < 2; t++ {
					if res[t] != want[idx[t]] {
						ok = false
						ctx.Failf(rc, "interleaved-result-differs/"+cl[idx[t]].Name, "%s under %s: %s returned %.100q, alone it returns %.100q", names, trace, cl[idx[t]].Name, res[t], want[idx[t]])
					}
				}
				for t := 0; t < 2; t++ {
					got := func() (r string) {
						defer func() {
							if p := recover(); p != nil {
								r = fmt.Sprintf("PANIC: %v", p)
							}
						}()
						return cl[idx[t]].Run()
					}()
					if got != want[idx[t]] {
						ok = false
						ctx.Failf(rc, "later-call-poisoned/"+cl[idx[t]].Name, "after %s ran under %s, a later sequential %s returns %.100q instead of %.100q", names, trace, cl[idx[t]].Name, got, want[idx[t]])
					}
				}
				if ok {
					if s.SyncPts > 0 {
						ctx.Outcome("consistent/with-sync-points")
					} else {
						ctx.Outcome("consistent/no-sync-points")
					}
				} else {
					ctx.Outcome("inconsistent")
				}
			}
			ctx.States(1)
			if cs.Prefix != nil {
				env := &Env{Prefix: cs.Prefix}
				s := RunThreads(env, mk())
				judge(env, s)
				return
			}
			before := Divergences.Load()
			Tolerant = true
			b := bound(ctx.Tier)
			if probes != nil && (cs.I == len(cl)-1 || cs.J == len(cl)-1) {
				b = 1
			}
			_, capped, err := ExploreSchedulesUntil(b, 20000, mk, judge, func() bool { return overBudget })
			if err != nil {
				panic(err)
			}
			if d := Divergences.Load() - before; d > 0 {
				ctx.OutcomeN("schedule-replay-diverged", d)
				ctx.Inexact("schedule replays diverged: the code under test keeps state across executions, so the enumeration of interleavings is not exhaustive there")
			}
			if capped && overBudget {
				ctx.Inexact(fmt.Sprintf("the schedules of one pair of calls took more than %s: exploration of that pair stopped there", budget))
			} else if capped {
				ctx.Inexact("more than 20000 schedules for one pair of calls")
			}
		},
	}
}
