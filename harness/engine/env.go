package engine

import (
	"errors"
	"fmt"
	"io"
)

// E3: environment-choice explorer. The code under test runs against a harness
// io.Reader / io.Writer; every Read / Write call is a choice point whose default
// answer (choice 0) is "do everything asked"; the explorer replays a prefix of
// choices, takes the default afterwards, and branches on every later point while
// the deviation budget lasts (stateless DFS, deviation-bounded).

// Env records and replays the choices of one execution.
type Env struct {
	Prefix   []int // choices to replay
	Taken    []int // choices actually taken, one per point
	Alts     []int // number of enabled alternatives (incl. default) at each point
	Diverged bool
}

// Choose is called at a choice point with the number of enabled options (>=1).
func (e *Env) Choose(n int) int {
	i := len(e.Taken)
	c := 0
	if i < len(e.Prefix) {
		c = e.Prefix[i]
		if c >= n {
			// an out-of-range choice while replaying means the execution is not
			// deterministic: hard error
			e.Diverged = true
			c = 0
		}
	}
	e.Taken = append(e.Taken, c)
	e.Alts = append(e.Alts, n)
	return c
}

func deviations(p []int) int {
	n := 0
	for _, c := range p {
		if c != 0 {
			n++
		}
	}
	return n
}

// ExploreEnv runs run(env) for the default execution and for every execution
// with at most bound deviations. visit is called after each execution. It
// returns the number of executions; an error reports a replay divergence.
func ExploreEnv(bound int, maxExec int, run func(env *Env), visit func(env *Env)) (int, bool, error) {
	count := 0
	capped := false
	var rec func(prefix []int) error
	rec = func(prefix []int) error {
		if maxExec > 0 && count >= maxExec {
			capped = true
			return nil
		}
		env := &Env{Prefix: prefix}
		run(env)
		count++
		if env.Diverged {
			return fmt.Errorf("replay diverged for prefix %v", prefix)
		}
		for i := range prefix {
			if i >= len(env.Taken) || env.Taken[i] != prefix[i] {
				return fmt.Errorf("replay diverged for prefix %v: took %v", prefix, env.Taken)
			}
		}
		visit(env)
		if deviations(env.Taken) >= bound {
			return nil
		}
		for i := len(prefix); i < len(env.Taken); i++ {
			for alt := 1; alt < env.Alts[i]; alt++ {
				np := append(append([]int{}, env.Taken[:i]...), alt)
				if err := rec(np); err != nil {
					return err
				}
			}
		}
		return nil
	}
	err := rec(nil)
	return count, capped, err
}

// ErrInjected is the error injected by the fault readers and writers.
var ErrInjected = errors.New("verif: injected I/O error")

// Read answers
const (
	RAll = iota
	ROne
	RHalf
	RWithEOF
	REarlyEOF
	RError
	RDataWithError // deliver the bytes asked for AND the injected error in the same call
	RStall         // (0, nil): nothing happened, call again - legal for an io.Reader, and neither a failure nor an end
)

// ChoiceReader is an io.Reader whose answers are chosen by an Env.
type ChoiceReader struct {
	Data []byte
	Pos  int
	Env  *Env
	// Faults lists what happened, for the oracle.
	InjectedError bool
	EarlyEOFAt    int // -1 if none
	Done          bool
	AllowStall    bool // offer the answer (0, nil) as well
	Stalls        int  // number of (0, nil) answers given so far (at most 2 per stream, never two in a row)
	lastStall     bool
}

// NewChoiceReader builds a reader over data.
func NewChoiceReader(data []byte, env *Env) *ChoiceReader {
	return &ChoiceReader{Data: data, Env: env, EarlyEOFAt: -1}
}

func (r *ChoiceReader) Read(p []byte) (int, error) {
	if r.Done {
		return 0, io.EOF
	}
	if r.InjectedError {
		return 0, ErrInjected
	}
	if len(p) == 0 {
		return 0, nil
	}
	rem := len(r.Data) - r.Pos
	// enabled answers, in a fixed order so that choice indexes are stable
	var opts []int
	if rem == 0 {
		opts = []int{RAll, RError} // RAll here means a clean io.EOF
	} else {
		opts = []int{RAll}
		if len(p) > 1 && rem > 1 {
			opts = append(opts, ROne, RHalf)
		}
		if rem <= len(p) {
			opts = append(opts, RWithEOF)
		}
		opts = append(opts, REarlyEOF, RError, RDataWithError)
	}
	if r.AllowStall && !r.lastStall && r.Stalls < 2 {
		opts = append(opts, RStall)
	}
	ans := opts[r.Env.Choose(len(opts))]
	r.lastStall = ans == RStall
	if ans == RStall {
		r.Stalls++
		return 0, nil
	}
	n := rem
	if n > len(p) {
		n = len(p)
	}
	switch ans {
	case RAll:
		if rem == 0 {
			r.Done = true
			return 0, io.EOF
		}
	case ROne:
		n = 1
	case RHalf:
		n = (n + 1) / 2
	case RWithEOF:
		copy(p, r.Data[r.Pos:r.Pos+n])
		r.Pos += n
		r.Done = true
		return n, io.EOF
	case REarlyEOF:
		r.EarlyEOFAt = r.Pos
		r.Done = true
		return 0, io.EOF
	case RError:
		r.InjectedError = true
		return 0, ErrInjected
	case RDataWithError:
		copy(p, r.Data[r.Pos:r.Pos+n])
		r.Pos += n
		r.InjectedError = true
		return n, ErrInjected
	}
	copy(p, r.Data[r.Pos:r.Pos+n])
	r.Pos += n
	return n, nil
}

// Write answers
const (
	WAll = iota
	WError
	WShort
)

// ChoiceWriter is an io.Writer whose answers are chosen by an Env.
type ChoiceWriter struct {
	Buf           []byte
	Env           *Env
	InjectedError bool
	Calls         int
}

func (w *ChoiceWriter) Write(p []byte) (int, error) {
	w.Calls++
	if w.InjectedError {
		return 0, ErrInjected
	}
	opts := []int{WAll, WError}
	if len(p) > 1 {
		opts = append(opts, WShort)
	}
	switch opts[w.Env.Choose(len(opts))] {
	case WError:
		w.InjectedError = true
		return 0, ErrInjected
	case WShort:
		w.InjectedError = true
		n := len(p) / 2
		w.Buf = append(w.Buf, p[:n]...)
		return n, ErrInjected
	}
	w.Buf = append(w.Buf, p...)
	return len(p), nil
}

// PosReader delivers data in chunks and fails positionally: after FailAt bytes it
// returns ErrInjected (Mode "error") or io.EOF (Mode "eof").
type PosReader struct {
	Data   []byte
	Pos    int
	Chunk  int // 0 = as much as asked
	FailAt int // -1 = never
	Mode   string
	Hit    bool
	// Err, if set, is the error of Mode "transient": returned once (with no data) when FailAt bytes have been
	// delivered; the following reads deliver the rest of the data as if nothing had happened.
	Err error
	// Sticky error of mode "error" (ErrInjected if nil), and the number of times it has been returned: a caller that
	// asks again and again after a persistent failure is stopped with the panic ErrSpinning after MaxFailures answers.
	StickyErr   error
	Failures    int
	MaxFailures int
}

// ErrSpinning is what a PosReader panics with when its persistent error has been ignored MaxFailures times.
var ErrSpinning = errors.New("harness: the reader's persistent error was ignored again and again")

func (r *PosReader) Read(p []byte) (int, error) {
	if len(p) == 0 {
		return 0, nil
	}
	if r.Mode == "transient" && r.Pos == r.FailAt && !r.Hit {
		r.Hit = true
		return 0, r.Err
	}
	if r.Mode == "stall" || r.Mode == "transient" {
		// one Read issued when exactly FailAt bytes have been delivered answers (0, nil); the stream is complete
		if r.Pos == r.FailAt && !r.Hit {
			r.Hit = true
			return 0, nil
		}
		if r.Pos >= len(r.Data) {
			return 0, io.EOF
		}
		n := len(p)
		if r.Chunk > 0 && n > r.Chunk {
			n = r.Chunk
		}
		if !r.Hit && r.Pos < r.FailAt && r.Pos+n > r.FailAt {
			n = r.FailAt - r.Pos
		}
		if n > len(r.Data)-r.Pos {
			n = len(r.Data) - r.Pos
		}
		copy(p, r.Data[r.Pos:r.Pos+n])
		r.Pos += n
		return n, nil
	}
	limit := len(r.Data)
	if r.FailAt >= 0 && r.FailAt < limit {
		limit = r.FailAt
	}
	if r.Pos >= limit {
		if r.FailAt >= 0 && r.Pos >= r.FailAt {
			r.Hit = true
			if r.Mode == "error" || r.Mode == "error-with-data" {
				r.Failures++
				if r.MaxFailures > 0 && r.Failures > r.MaxFailures {
					panic(ErrSpinning)
				}
				if r.StickyErr != nil {
					return 0, r.StickyErr
				}
				return 0, ErrInjected
			}
			return 0, io.EOF
		}
		return 0, io.EOF
	}
	n := len(p)
	if r.Chunk > 0 && n > r.Chunk {
		n = r.Chunk
	}
	if n > limit-r.Pos {
		n = limit - r.Pos
	}
	copy(p, r.Data[r.Pos:r.Pos+n])
	r.Pos += n
	if r.Mode == "error-with-data" && r.FailAt >= 0 && r.Pos >= r.FailAt {
		r.Hit = true
		if r.StickyErr != nil {
			return n, r.StickyErr
		}
		return n, ErrInjected
	}
	return n, nil
}

// PosWriter fails at write call FailCall (1-based); Short makes that call a short write.
type PosWriter struct {
	Buf      []byte
	Calls    int
	FailCall int
	Short    bool
	// Full: the failing call takes ALL of the data and still returns the error - (len(p), err), which io.Writer allows
	// (a framing writer that has buffered the payload when the flush underneath fails)
	Full bool
	// ShortNil: call FailCall takes half of the data and reports (n/2, nil) - a writer that breaks the io.Writer
	// contract (a short count without an error); later calls behave normally
	ShortNil bool
	// Transient: only call FailCall fails (nothing is taken); later calls succeed again.
	Transient bool
	Hit       bool
	// Err is the error of the failing call (ErrInjected if nil)
	Err error
}

func (w *PosWriter) Write(p []byte) (int, error) {
	w.Calls++
	if w.Hit && !w.Transient {
		return 0, ErrInjected
	}
	if w.FailCall > 0 && w.Calls == w.FailCall {
		w.Hit = true
		e := w.Err
		if e == nil {
			e = ErrInjected
		}
		if w.ShortNil {
			if len(p) < 2 {
				w.Buf = append(w.Buf, p...)
				return len(p), nil
			}
			w.Buf = append(w.Buf, p[:len(p)/2]...)
			return len(p) / 2, nil
		}
		if w.Full {
			w.Buf = append(w.Buf, p...)
			return len(p), e
		}
		if w.Short && len(p) > 1 {
			w.Buf = append(w.Buf, p[:len(p)/2]...)
			return len(p) / 2, e
		}
		return 0, e
	}
	w.Buf = append(w.Buf, p...)
	return len(p), nil
}
