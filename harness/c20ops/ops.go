// Package c20ops defines the shared-token fixtures and the read-only operation
// bodies of property C20. The same bodies are driven by the explicit-state pass,
// by the cooperative scheduler (through the Seam) and by the free-running race
// detector pass (go test -race ./racepass).
package c20ops

import (
	"bytes"
	"encoding/hex"
	"fmt"
	"io"
	"iter"
	"reflect"
	"sort"
	"strings"
	"sync"
	"time"
	"unsafe"

	"github.com/ipfs/go-cid"
	"github.com/ipld/go-ipld-prime"
	"github.com/ipld/go-ipld-prime/codec/dagcbor"
	"github.com/ipld/go-ipld-prime/datamodel"
	"github.com/ipld/go-ipld-prime/node/basicnode"
	"github.com/multiformats/go-multihash"

	"github.com/ucan-wg/go-ucan/did"
	"github.com/ucan-wg/go-ucan/pkg/args"
	"github.com/ucan-wg/go-ucan/pkg/container"
	"github.com/ucan-wg/go-ucan/pkg/meta"
	"github.com/ucan-wg/go-ucan/pkg/policy"
	"github.com/ucan-wg/go-ucan/pkg/policy/literal"
	"github.com/ucan-wg/go-ucan/token/delegation"
	"github.com/ucan-wg/go-ucan/token/invocation"
	verifclock "github.com/ucan-wg/go-ucan/verifshim/clock"

	"verifharness/fixtures"
)

// Seam is called at every point where a read-only operation calls back into
// caller code. A nil Seam means free-running.
type Seam interface{ Point() }

func point(s Seam) {
	if s != nil {
		s.Point()
	}
}

// Variant names a shared-token configuration.
type Variant struct {
	Keys    []string `json:"keys"`    // argument and metadata keys in insertion order
	Decoded bool     `json:"decoded"` // tokens went through seal -> unseal
	// WireAud (decoded variants only): the invocation's envelope is re-assembled with an `aud` field equal to
	// `sub` and signed again by the invoker - a shape no constructor produces but every decoder must cope with
	WireAud bool `json:"wire_aud,omitempty"`
}

func (v Variant) String() string {
	if v.WireAud {
		return fmt.Sprintf("keys=%s,decoded=%v,aud=sub-on-the-wire", strings.Join(v.Keys, ""), v.Decoded)
	}
	return fmt.Sprintf("keys=%s,decoded=%v", strings.Join(v.Keys, ""), v.Decoded)
}

// Variants enumerates every insertion order of 0..3 keys, constructed and decoded.
func Variants() []Variant {
	var res []Variant
	// (the last two: inserted in lexicographic order, a longer key before a shorter one - the DAG-CBOR
	// key order, length first, differs from both the insertion and the lexicographic order)
	orders := [][]string{{}, {"a"}, {"a", "b"}, {"b", "a"}, {"a", "b", "c"}, {"a", "c", "b"}, {"b", "a", "c"}, {"b", "c", "a"}, {"c", "a", "b"}, {"c", "b", "a"}, {"aaa", "bb", "c"}, {"headers", "uri"}}
	for _, dec := range []bool{false, true} {
		for _, o := range orders {
			res = append(res, Variant{Keys: o, Decoded: dec})
		}
	}
	res = append(res, Variant{Keys: []string{}, Decoded: true, WireAud: true}, Variant{Keys: []string{"a", "b", "c"}, Decoded: true, WireAud: true})
	return res
}

// Fixture is one set of shared tokens: an invocation and its 2-link proof chain.
type Fixture struct {
	Inv    *invocation.Token
	Dlgs   []*delegation.Token
	Cids   []cid.Cid
	InvKey *fixtures.Key
	DlgKey []*fixtures.Key
	// sequences obtained ONCE from the shared tokens and kept: ranging over such a value is a read-only
	// operation like any other, however often and from however many goroutines it is done
	ArgsSeq, MetaSeq, DlgMetaSeq iter.Seq2[string, datamodel.Node]
	// a container.Reader holding the two delegations in sealed form, shared as delegation.Loader, with an
	// invocation that names them by their CIDs and one that names them by other CIDs of the same digest
	Ctn              container.Reader
	CtnInv, AliasInv *invocation.Token
	AliasCid         cid.Cid
	// an argument object owned by the caller, returned by a hook to every check that asks (it lacks the
	// invocation's keyed arguments: the policies only constrain optional selectors)
	HookArgs *args.Args
}

func synthCid(label string) cid.Cid {
	mh, _ := multihash.Sum([]byte(label), multihash.SHA2_256, -1)
	return cid.NewCidV1(0x71, mh)
}

var fixedNonce = []byte("c20-nonce-0123456")

// EncKey / OtherKey: the key of the invocation's encrypted metadata entry, and another valid key.
var EncKey = bytes.Repeat([]byte{0x5e}, 32)
var OtherKey = bytes.Repeat([]byte{0x3c}, 32)

var (
	secretMu sync.Mutex
	secretCt = map[string][]byte{}
)

// secretCiphertext is the stored ciphertext of the invocation's encrypted metadata entry: encrypted once
// per variant and process (the nonce is random, and every fixture of a variant must equal every other
// one); different variants carry different ciphertexts, so that nothing keyed on a ciphertext is shared
// between the baselines of two variants.
func secretCiphertext(v Variant) []byte {
	secretMu.Lock()
	defer secretMu.Unlock()
	ct, ok := secretCt[v.String()]
	if !ok {
		m := meta.NewMeta()
		if err := m.AddEncrypted("secret", "c20 secret plaintext 0123456789", EncKey); err != nil {
			panic(err)
		}
		ct, _ = m.GetBytes("secret")
		secretCt[v.String()] = ct
	}
	return append([]byte{}, ct...)
}

// NewFixture builds a fresh, equal set of tokens for a variant.
func NewFixture(v Variant) *Fixture {
	// the tokens are built under a clock that reads 1999 (for this goroutine only; build overlay seam), so that
	// not-before bounds in 2000 / 2001 pass the constructors' "must lie in the future" test and are fixed values
	restore := verifclock.InstallLocal(func() time.Time { return time.Date(1999, 1, 1, 0, 0, 0, 0, time.UTC) })
	defer restore()
	ks := fixtures.ByAlg("ed25519")
	root, mid, leaf := ks[0], ks[1], ks[2]
	vals := map[string]int{"a": 1, "b": 2, "c": 3, "aaa": 1, "bb": 2, "headers": 7, "uri": 8}
	// policies are built with append so that their slices have spare capacity, like policies
	// assembled incrementally by an application: a read-only operation that appends to such a
	// slice writes into memory shared with the token
	withSpare := func(p policy.Policy) policy.Policy {
		return append(make(policy.Policy, 0, len(p)+5), p...)
	}
	// (connectives whose costlier child - a like, a quantifier, a nested connective - precedes a cheaper comparison)
	pol0 := withSpare(policy.MustConstruct(policy.Equal(".a?", literal.Int(1)), policy.Or(policy.Equal(".b?", literal.Int(2)), policy.Equal(".zz?", literal.Int(0))),
		policy.Or(policy.Like(".s?", "*@example.com"), policy.Any(".l?", policy.Equal(".", literal.Int(2))), policy.Equal(".a?", literal.Int(1)), policy.Not(policy.Equal(".a?", literal.Int(5)))),
		policy.And(policy.All(".l?", policy.GreaterThan(".", literal.Int(0))), policy.Not(policy.Like(".s?", "x*")), policy.LessThan(".a?", literal.Int(9)))))
	// (a negative slice bound: resolving it against lists of different lengths must not rebase the parsed selector)
	// (a character slice of a string that is not ASCII: whatever scratch space slicing by character needs is the call's own)
	pol1 := withSpare(policy.MustConstruct(policy.LessThanOrEqual(".c?", literal.Int(3)), policy.Any(".l?[-2:]", policy.GreaterThan(".", literal.Int(0))), policy.Equal(".l?[-1]", literal.Int(3)),
		policy.Equal(".name[1:4]", literal.String("éll")), policy.Like(".name[-5:]", "w*d")))
	mk := func(iss, aud *fixtures.Key, pol policy.Policy, nbf time.Time) *delegation.Token {
		// (a fixed expiration far in the future, with a sub-second fraction: the wire format is second-granular,
		// so encoding must truncate a copy, never the token's own value)
		// (both delegations carry a not-before bound, the root's later than the leaf's: a check that computes the
		// window of the whole chain must not write it back into the tokens)
		opts := []delegation.Option{delegation.WithSubject(root.DID), delegation.WithNonce(fixedNonce), delegation.WithExpiration(time.Date(2200, 1, 1, 0, 0, 0, 250_000_000, time.UTC)), delegation.WithNotBefore(nbf)}
		for _, k := range v.Keys {
			opts = append(opts, delegation.WithMeta(k, "m-"+k))
		}
		d, err := delegation.New(iss.DID, aud.DID, "/a", pol, opts...)
		if err != nil {
			panic(err)
		}
		return d
	}
	d1 := mk(root, mid, pol1, time.Date(2001, 1, 1, 0, 0, 0, 0, time.UTC)) // root
	d0 := mk(mid, leaf, pol0, time.Date(2000, 1, 1, 0, 0, 0, 0, time.UTC)) // leaf
	f := &Fixture{InvKey: leaf, DlgKey: []*fixtures.Key{mid, root}}
	f.Dlgs = []*delegation.Token{d0, d1}
	if v.Decoded {
		for i, d := range f.Dlgs {
			b, _, err := d.ToSealed(f.DlgKey[i].Priv)
			if err != nil {
				panic(err)
			}
			f.Dlgs[i], _, err = delegation.FromSealed(b)
			if err != nil {
				panic(err)
			}
		}
	}
	f.Cids = []cid.Cid{synthCid("c20-d0"), synthCid("c20-d1")}
	opts := []invocation.Option{invocation.WithNonce(fixedNonce), invocation.WithInvokedAt(time.Date(2020, 2, 2, 2, 2, 2, 500_000_000, time.UTC)),
		invocation.WithExpiration(time.Date(2200, 1, 1, 0, 0, 0, 0, time.UTC))}
	for _, k := range v.Keys {
		opts = append(opts, invocation.WithArgument(k, vals[k]), invocation.WithMeta(k, "m-"+k))
	}
	opts = append(opts, invocation.WithArgument("l", []int{1, 2, 3}), invocation.WithArgument("name", "héllo wörld"), invocation.WithMeta("secret", secretCiphertext(v)))
	// the optional cause: absent (no keys), a CIDv1 (first key a), or a CIDv0 - the older link form, which names the same
	// block as a CIDv1 with the dag-pb codec but is a different link: no operation may upgrade it in the token
	if len(v.Keys) > 0 {
		cause := synthCid("c20-cause")
		if v.Keys[0] != "a" {
			cause = cid.NewCidV0(cause.Hash())
		}
		opts = append(opts, invocation.WithCause(&cause))
	}
	inv, err := invocation.New(leaf.DID, root.DID, "/a", f.Cids, opts...)
	if err != nil {
		panic(err)
	}
	if v.Decoded {
		b, _, err := inv.ToSealed(leaf.Priv)
		if err != nil {
			panic(err)
		}
		if v.WireAud {
			b = withWireAud(b, root.DID.String(), leaf)
		}
		inv, _, err = invocation.FromSealed(b)
		if err != nil {
			panic(err)
		}
	}
	f.Inv = inv
	f.ArgsSeq, f.MetaSeq, f.DlgMetaSeq = inv.Arguments().Iter(), inv.Meta().Iter(), f.Dlgs[0].Meta().Iter()
	var real, alias []cid.Cid
	var car []byte
	if c, ok := ctnCache.Load(v.String()); ok {
		cc := c.(ctnCached)
		car, real, alias = cc.car, cc.real, cc.alias
	} else {
		w := container.NewWriter()
		for i, d := range []*delegation.Token{d0, d1} {
			b, c, err := d.ToSealed(f.DlgKey[i].Priv)
			if err != nil {
				panic(err)
			}
			w.AddSealed(c, b)
			real = append(real, c)
			alias = append(alias, cid.NewCidV1(cid.Raw, c.Hash()))
		}
		var cerr error
		if car, cerr = w.ToCar(); cerr != nil {
			panic(cerr)
		}
		ctnCache.Store(v.String(), ctnCached{car, real, alias})
	}
	if f.Ctn, err = container.FromCar(car); err != nil {
		panic(err)
	}
	f.AliasCid = alias[0]
	mkInv := func(prf []cid.Cid) *invocation.Token {
		t, err := invocation.New(leaf.DID, root.DID, "/a", prf, invocation.WithNonce(fixedNonce), invocation.WithoutInvokedAt(), invocation.WithArgument("l", []int{1, 2, 3}), invocation.WithArgument("name", "héllo wörld"))
		if err != nil {
			panic(err)
		}
		return t
	}
	f.CtnInv, f.AliasInv = mkInv(real), mkInv(alias)
	f.HookArgs = args.New()
	if err := f.HookArgs.Add("l", []int{1, 2, 3}); err != nil {
		panic(err)
	}
	if err := f.HookArgs.Add("name", "héllo wörld"); err != nil {
		panic(err)
	}
	if err := f.HookArgs.Add("region", "eu"); err != nil {
		panic(err)
	}
	return f
}

type loader struct {
	f    *Fixture
	seam Seam
}

func (l loader) GetDelegation(c cid.Cid) (*delegation.Token, error) {
	point(l.seam)
	for i, x := range l.f.Cids {
		if x == c {
			return l.f.Dlgs[i], nil
		}
	}
	return nil, delegation.ErrDelegationNotFound
}

// partialLoader is another loader over the same tokens: it does not have the root delegation.
type partialLoader struct {
	f *Fixture
	s Seam
}

func (l partialLoader) GetDelegation(c cid.Cid) (*delegation.Token, error) {
	point(l.s)
	if c == l.f.Cids[0] {
		return l.f.Dlgs[0], nil
	}
	return nil, delegation.ErrDelegationNotFound
}

type seamWriter struct {
	buf  bytes.Buffer
	seam Seam
	n    int
}

// Write is a scheduling point for the first 12 writes of a stream and for every 24th after that (the
// DAG-JSON encoder issues several hundred tiny writes per token; a point at each of them squares the
// number of schedules without reaching any new state of the encoder).
func (w *seamWriter) Write(p []byte) (int, error) {
	w.n++
	if w.n <= 12 || w.n%24 == 0 {
		point(w.seam)
	}
	return w.buf.Write(p)
}

var _ io.Writer = (*seamWriter)(nil)

func errStr(err error) string {
	if err == nil {
		return "ok"
	}
	return "error:" + err.Error()
}

func nodeHex(n datamodel.Node) string {
	b, err := ipld.Encode(n, dagcbor.Encode)
	if err != nil {
		return "unencodable:" + err.Error()
	}
	return hex.EncodeToString(b)
}

func sortedLines(s string) string {
	l := strings.Split(s, "\n")
	sort.Strings(l)
	return strings.Join(l, "\n")
}

// Op is one read-only operation on the shared tokens; it returns a canonical
// rendering of its result.
func rangeKept(seq iter.Seq2[string, datamodel.Node], s Seam) string {
	var r []string
	for k, v := range seq {
		point(s)
		r = append(r, k+"="+nodeHex(v))
	}
	return strings.Join(r, ",")
}

// ctnCache keeps the CAR bytes of a variant's two sealed delegations (Ed25519: sealing is deterministic).
var ctnCache sync.Map

type ctnCached struct {
	car         []byte
	real, alias []cid.Cid
}

// withWireAud re-assembles a sealed invocation with the payload field aud = audience and signs it with key.
func withWireAud(sealed []byte, audience string, key *fixtures.Key) []byte {
	n, err := ipld.Decode(sealed, dagcbor.Decode)
	if err != nil {
		panic(err)
	}
	sp, _ := n.LookupByIndex(1)
	nb := basicnode.Prototype.Map.NewBuilder()
	ma, _ := nb.BeginMap(2)
	it := sp.MapIterator()
	for !it.Done() {
		k, v, _ := it.Next()
		ks, _ := k.AsString()
		if ks == "h" {
			ma.AssembleKey().AssignString(ks)
			ma.AssembleValue().AssignNode(v)
			continue
		}
		pb := basicnode.Prototype.Map.NewBuilder()
		pa, _ := pb.BeginMap(v.Length() + 1)
		pit := v.MapIterator()
		for !pit.Done() {
			pk, pv, _ := pit.Next()
			pks, _ := pk.AsString()
			if pks == "aud" {
				continue
			}
			pa.AssembleKey().AssignString(pks)
			pa.AssembleValue().AssignNode(pv)
		}
		pa.AssembleKey().AssignString("aud")
		pa.AssembleValue().AssignString(audience)
		pa.Finish()
		ma.AssembleKey().AssignString(ks)
		ma.AssembleValue().AssignNode(pb.Build())
	}
	ma.Finish()
	newSP := nb.Build()
	signed, err := ipld.Encode(newSP, dagcbor.Encode)
	if err != nil {
		panic(err)
	}
	sig, err := key.Priv.Sign(signed)
	if err != nil {
		panic(err)
	}
	lb := basicnode.Prototype.List.NewBuilder()
	la, _ := lb.BeginList(2)
	la.AssembleValue().AssignBytes(sig)
	la.AssembleValue().AssignNode(newSP)
	la.Finish()
	out, err := ipld.Encode(lb.Build(), dagcbor.Encode)
	if err != nil {
		panic(err)
	}
	return out
}

type Op struct {
	Name string
	Run  func(f *Fixture, s Seam) string
}

// Ops is the operation alphabet.
func Ops() []Op {
	return []Op{
		{"inv.ExecutionAllowed", func(f *Fixture, s Seam) string { return errStr(f.Inv.ExecutionAllowed(loader{f, s})) }},
		{"inv.ExecutionAllowedWithArgsHook", func(f *Fixture, s Seam) string {
			return errStr(f.Inv.ExecutionAllowedWithArgsHook(loader{f, s}, func(a args.ReadOnly) (*args.Args, error) {
				point(s)
				return a.WriteableClone(), nil
			}))
		}},
		{"inv.ToSealed", func(f *Fixture, s Seam) string {
			b, c, err := f.Inv.ToSealed(f.InvKey.Priv)
			return errStr(err) + ":" + hex.EncodeToString(b) + "@" + c.String()
		}},
		{"inv.ToSealedWriter", func(f *Fixture, s Seam) string {
			w := &seamWriter{seam: s}
			c, err := f.Inv.ToSealedWriter(w, f.InvKey.Priv)
			return errStr(err) + ":" + hex.EncodeToString(w.buf.Bytes()) + "@" + c.String()
		}},
		{"inv.ToDagJson", func(f *Fixture, s Seam) string {
			b, err := f.Inv.ToDagJson(f.InvKey.Priv)
			return errStr(err) + ":" + string(b)
		}},
		{"inv.ToDagJsonWriter", func(f *Fixture, s Seam) string {
			w := &seamWriter{seam: s}
			err := f.Inv.ToDagJsonWriter(w, f.InvKey.Priv)
			return errStr(err) + ":" + w.buf.String()
		}},
		{"inv.Arguments.Iter", func(f *Fixture, s Seam) string {
			var r []string
			for k, v := range f.Inv.Arguments().Iter() {
				point(s)
				r = append(r, k+"="+nodeHex(v))
			}
			return strings.Join(r, ",")
		}},
		{"inv.Arguments.ToIPLD", func(f *Fixture, s Seam) string {
			n, err := f.Inv.Arguments().ToIPLD()
			if err != nil {
				return errStr(err)
			}
			return nodeHex(n)
		}},
		{"inv.Arguments.String", func(f *Fixture, s Seam) string { return f.Inv.Arguments().String() }},
		{"inv.Arguments.GetNode", func(f *Fixture, s Seam) string {
			n, err := f.Inv.Arguments().GetNode("a")
			if err != nil {
				return errStr(err)
			}
			return nodeHex(n)
		}},
		{"inv.Arguments.Equals+Clone", func(f *Fixture, s Seam) string {
			c := f.Inv.Arguments().WriteableClone()
			return fmt.Sprint(f.Inv.Arguments().Equals(c.ReadOnly()), strings.Join(c.Keys, ","))
		}},
		{"inv.Arguments.Clone+Add", func(f *Fixture, s Seam) string {
			// extending a writeable clone must not touch the token (nor another clone)
			c := f.Inv.Arguments().WriteableClone()
			point(s)
			err := c.Add("zz", 7)
			point(s)
			return errStr(err) + strings.Join(c.Keys, ",")
		}},
		{"inv.ExecutionAllowedWithArgsHook(extending)", func(f *Fixture, s Seam) string {
			return errStr(f.Inv.ExecutionAllowedWithArgsHook(loader{f, s}, func(a args.ReadOnly) (*args.Args, error) {
				c := a.WriteableClone()
				point(s)
				if err := c.Add("zz", 0); err != nil {
					return nil, err
				}
				point(s)
				return c, nil
			}))
		}},
		{"inv.Meta.Clone+Add", func(f *Fixture, s Seam) string {
			c := f.Inv.Meta().WriteableClone()
			point(s)
			err := c.Add("zz", "x")
			return errStr(err) + strings.Join(c.Keys, ",")
		}},
		{"inv.Meta.Iter", func(f *Fixture, s Seam) string {
			var r []string
			for k, v := range f.Inv.Meta().Iter() {
				point(s)
				r = append(r, k+"="+nodeHex(v))
			}
			return strings.Join(r, ",")
		}},
		{"inv.Meta.String", func(f *Fixture, s Seam) string { return sortedLines(f.Inv.Meta().String()) }},
		{"with-another-loader(which lacks the root delegation): inv.ExecutionAllowed", func(f *Fixture, s Seam) string { return errStr(f.Inv.ExecutionAllowed(partialLoader{f, s})) }},
		{"ctnInv.ExecutionAllowed(container.Reader as loader)", func(f *Fixture, s Seam) string { return errStr(f.CtnInv.ExecutionAllowed(f.Ctn)) }},
		{"aliasInv.ExecutionAllowed(container.Reader as loader; proofs named by raw-codec CIDs)", func(f *Fixture, s Seam) string {
			return errStr(f.AliasInv.ExecutionAllowed(f.Ctn))
		}},
		{"ctn.GetDelegation(raw-codec CID)+GetAllDelegations", func(f *Fixture, s Seam) string {
			_, err := f.Ctn.GetDelegation(f.AliasCid)
			var cs []string
			for c := range f.Ctn.GetAllDelegations() {
				cs = append(cs, c.String())
			}
			sort.Strings(cs)
			return errStr(err) + strings.Join(cs, ",")
		}},
		{"range(kept inv.Arguments.Iter sequence)", func(f *Fixture, s Seam) string { return rangeKept(f.ArgsSeq, s) }},
		{"range(kept inv.Meta.Iter sequence)", func(f *Fixture, s Seam) string { return rangeKept(f.MetaSeq, s) }},
		{"range(kept dlg.Meta.Iter sequence)", func(f *Fixture, s Seam) string { return rangeKept(f.DlgMetaSeq, s) }},
		{"inv.Meta.Get+Clone", func(f *Fixture, s Seam) string {
			v, err := f.Inv.Meta().GetString("a")
			c := f.Inv.Meta().WriteableClone()
			return v + errStr(err) + strings.Join(c.Keys, ",") + fmt.Sprint(f.Inv.Meta().Equals(c.ReadOnly()))
		}},
		{"inv.accessors", func(f *Fixture, s Seam) string {
			t := f.Inv
			return fmt.Sprint(t.Issuer(), t.Subject(), t.Audience(), t.Command(), t.Proof(), hex.EncodeToString(t.Nonce()), t.Expiration(), t.InvokedAt(), t.Cause(),
				t.IsValidAt(time.Unix(1, 0)), t.IsValidNow())
		}},
		{"dlg0.ToSealed", func(f *Fixture, s Seam) string {
			b, c, err := f.Dlgs[0].ToSealed(f.DlgKey[0].Priv)
			return errStr(err) + ":" + hex.EncodeToString(b) + "@" + c.String()
		}},
		{"dlg0.ToDagJsonWriter", func(f *Fixture, s Seam) string {
			w := &seamWriter{seam: s}
			err := f.Dlgs[0].ToDagJsonWriter(w, f.DlgKey[0].Priv)
			return errStr(err) + ":" + w.buf.String()
		}},
		{"dlg0.Policy.String", func(f *Fixture, s Seam) string { return f.Dlgs[0].Policy().String() }},
		{"dlg0.Meta.String", func(f *Fixture, s Seam) string { return sortedLines(f.Dlgs[0].Meta().String()) }},
		{"dlg0.Meta.Iter", func(f *Fixture, s Seam) string {
			var r []string
			for k, v := range f.Dlgs[0].Meta().Iter() {
				point(s)
				r = append(r, k+"="+nodeHex(v))
			}
			return strings.Join(r, ",")
		}},
		{"dlg1.accessors+Policy.Match", func(f *Fixture, s Seam) string {
			d := f.Dlgs[1]
			n, _ := args.New().ToIPLD()
			ok, _ := d.Policy().Match(n)
			return fmt.Sprint(d.Issuer(), d.Audience(), d.Subject(), d.Command(), hex.EncodeToString(d.Nonce()), d.NotBefore(), d.Expiration(), d.IsValidAt(time.Unix(1, 0)), ok)
		}},
		{"dlg0+dlg1.IsValidAt(other-instants)", func(f *Fixture, s Seam) string {
			// queries about instants after the expiration and long before now
			far := time.Date(2400, 1, 1, 0, 0, 0, 0, time.UTC)
			return fmt.Sprint(f.Dlgs[0].IsValidAt(far), f.Dlgs[1].IsValidAt(far), f.Dlgs[0].IsValidAt(time.Unix(0, 0)), f.Dlgs[1].IsValidNow(), f.Inv.IsValidAt(far))
		}},
		{"inv.Meta.GetEncrypted(other key)", func(f *Fixture, s Seam) string {
			// (listed before the right-key operation: baselines are taken in this order on a fresh process)
			v, err := f.Inv.Meta().GetEncryptedString("secret", OtherKey)
			b, err2 := f.Inv.Meta().GetEncryptedBytes("secret", OtherKey)
			if err != nil && err2 != nil {
				return "refused"
			}
			return "READ WITH ANOTHER KEY: " + v + string(b)
		}},
		{"inv.Meta.GetEncryptedString(right key)", func(f *Fixture, s Seam) string {
			v, err := f.Inv.Meta().GetEncryptedString("secret", EncKey)
			return v + errStr(err)
		}},
		{"inv.ExecutionAllowedWithArgsHook(longer-list)", func(f *Fixture, s Seam) string {
			// the same shared policies evaluated against a list of another length
			return errStr(f.Inv.ExecutionAllowedWithArgsHook(loader{f, s}, func(a args.ReadOnly) (*args.Args, error) {
				point(s)
				v := args.New()
				for k, n := range a.Iter() {
					if k == "l" {
						continue
					}
					if err := v.Add(k, n); err != nil {
						return nil, err
					}
				}
				if err := v.Add("l", []int{9, 9, 9, 9, 3}); err != nil {
					return nil, err
				}
				return v, nil
			}))
		}},
		// a hook that hands out ONE argument object of the caller's for every check (a fixed set of arguments the
		// executor substitutes): the check reads it; the object, like the token, is what it was afterwards
		{"inv.ExecutionAllowedWithArgsHook(caller-owned-args)", func(f *Fixture, s Seam) string {
			return errStr(f.Inv.ExecutionAllowedWithArgsHook(loader{f, s}, func(a args.ReadOnly) (*args.Args, error) {
				point(s)
				return f.HookArgs, nil
			})) + "|" + f.HookArgs.String()
		}},
		{"inv.ExecutionAllowedWithArgsHook(violating)", func(f *Fixture, s Seam) string {
			return errStr(f.Inv.ExecutionAllowedWithArgsHook(loader{f, s}, func(a args.ReadOnly) (*args.Args, error) {
				point(s)
				v := args.New()
				if err := v.Add("a", 999); err != nil {
					return nil, err
				}
				return v, nil
			}))
		}},
	}
}

// ---- deep structural dump (private state, storage order) ----

// DumpValue renders the complete reachable state of one value (a token), like Dump.
func DumpValue(v any) string {
	var b strings.Builder
	dumpValue(&b, reflect.ValueOf(v), 0)
	return b.String()
}

// Dump renders the complete reachable state of the fixture's tokens: unexported
// fields included, slices in storage order, maps sorted by key.
func Dump(f *Fixture) string {
	var b strings.Builder
	dumpValue(&b, reflect.ValueOf(f.HookArgs), 0)
	b.WriteString("\n")
	dumpValue(&b, reflect.ValueOf(f.Inv), 0)
	for _, d := range f.Dlgs {
		b.WriteString("\n")
		dumpValue(&b, reflect.ValueOf(d), 0)
	}
	return b.String()
}

var (
	nodeType = reflect.TypeOf((*datamodel.Node)(nil)).Elem()
	timeType = reflect.TypeOf(time.Time{})
	cidType  = reflect.TypeOf(cid.Cid{})
	didType  = reflect.TypeOf(did.DID{})
)

func dumpValue(b *strings.Builder, v reflect.Value, depth int) {
	if depth > 40 {
		b.WriteString("<deep>")
		return
	}
	if !v.IsValid() {
		b.WriteString("<invalid>")
		return
	}
	t := v.Type()
	switch {
	case t == timeType:
		tm := readable(v).Interface().(time.Time)
		fmt.Fprintf(b, "time(%d)", tm.UnixNano())
		return
	case t == cidType:
		fmt.Fprintf(b, "cid(%s)", readable(v).Interface().(cid.Cid).String())
		return
	case t.Implements(nodeType) && t.Kind() != reflect.Interface:
		n := readable(v).Interface().(datamodel.Node)
		fmt.Fprintf(b, "node(%s)", nodeHex(n))
		return
	}
	switch v.Kind() {
	case reflect.Ptr:
		if v.IsNil() {
			b.WriteString("nil")
			return
		}
		b.WriteString("&")
		dumpValue(b, v.Elem(), depth+1)
	case reflect.Interface:
		if v.IsNil() {
			b.WriteString("nil-iface")
			return
		}
		e := v.Elem()
		if e.Type().Implements(nodeType) {
			fmt.Fprintf(b, "node(%s)", nodeHex(readable(e).Interface().(datamodel.Node)))
			return
		}
		fmt.Fprintf(b, "%s:", e.Type())
		dumpValue(b, addressable(e), depth+1)
	case reflect.Struct:
		fmt.Fprintf(b, "%s{", t.Name())
		for i := 0; i < v.NumField(); i++ {
			fmt.Fprintf(b, "%s:", t.Field(i).Name)
			fv := v.Field(i)
			if fv.CanAddr() {
				// launder the read-only flag of unexported fields
				fv = reflect.NewAt(fv.Type(), unsafe.Pointer(fv.UnsafeAddr())).Elem()
			}
			dumpValue(b, fv, depth+1)
			b.WriteString(";")
		}
		b.WriteString("}")
	case reflect.Slice:
		if v.IsNil() {
			b.WriteString("nil-slice")
			return
		}
		if t.Elem().Kind() == reflect.Uint8 {
			bs := make([]byte, v.Len())
			for i := range bs {
				bs[i] = byte(v.Index(i).Uint())
			}
			fmt.Fprintf(b, "bytes(%x)", bs)
			return
		}
		// the spare capacity is part of the state: a write beyond len lands in shared memory
		fmt.Fprintf(b, "[len=%d cap=%d ", v.Len(), v.Cap())
		full := v
		if v.Cap() > v.Len() && v.Cap()-v.Len() <= 64 {
			full = v.Slice(0, v.Cap())
		}
		for i := 0; i < full.Len(); i++ {
			if i == v.Len() {
				b.WriteString("|spare:")
			}
			dumpValue(b, full.Index(i), depth+1)
			b.WriteString(",")
		}
		b.WriteString("]")
	case reflect.Map:
		if v.IsNil() {
			b.WriteString("nil-map")
			return
		}
		keys := v.MapKeys()
		sort.Slice(keys, func(i, j int) bool { return fmt.Sprint(keys[i]) < fmt.Sprint(keys[j]) })
		b.WriteString("map{")
		for _, k := range keys {
			fmt.Fprintf(b, "%v=>", k)
			dumpValue(b, addressable(v.MapIndex(k)), depth+1)
			b.WriteString(",")
		}
		b.WriteString("}")
	case reflect.String:
		fmt.Fprintf(b, "%q", v.String())
	case reflect.Func:
		b.WriteString("func")
	default:
		if v.CanInt() {
			fmt.Fprintf(b, "%d", v.Int())
		} else if v.CanUint() {
			fmt.Fprintf(b, "%d", v.Uint())
		} else if v.Kind() == reflect.Bool {
			fmt.Fprintf(b, "%v", v.Bool())
		} else if v.CanFloat() {
			fmt.Fprintf(b, "%v", v.Float())
		} else {
			fmt.Fprintf(b, "<%s>", v.Kind())
		}
	}
}

// addressable copies a non-addressable value (interface content, map value) into
// a fresh addressable one so that its unexported fields can be read.
func addressable(v reflect.Value) reflect.Value {
	if v.CanAddr() || !v.CanInterface() {
		return v
	}
	c := reflect.New(v.Type()).Elem()
	c.Set(v)
	return c
}

// readable returns a value whose Interface() may be called even if v was reached
// through unexported fields.
func readable(v reflect.Value) reflect.Value {
	if v.CanInterface() {
		return v
	}
	if v.CanAddr() {
		return reflect.NewAt(v.Type(), unsafe.Pointer(v.UnsafeAddr())).Elem()
	}
	panic(fmt.Sprintf("c20ops.Dump: value of type %s is neither interfaceable nor addressable", v.Type()))
}
