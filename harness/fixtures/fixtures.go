// Package fixtures holds the fixed private keys used by the checks, so that
// every replay file is self-contained and runs are reproducible.
package fixtures

import (
	_ "embed"
	"encoding/base64"
	"encoding/json"
	"sync"

	"github.com/libp2p/go-libp2p/core/crypto"

	"github.com/ucan-wg/go-ucan/did"
)

//go:embed keys.json
var keysJSON []byte

// Key is one fixture principal.
type Key struct {
	Alg  string
	Idx  int // index among the keys of the same algorithm
	Priv crypto.PrivKey
	Pub  crypto.PubKey
	DID  did.DID // built with did.FromPubKey
	Err  error   // error of did.FromPubKey, if any
}

var (
	once sync.Once
	all  []*Key
)

// All returns every fixture key in file order.
func All() []*Key {
	once.Do(func() {
		var raw []struct {
			Alg  string `json:"alg"`
			Priv string `json:"priv"`
		}
		if err := json.Unmarshal(keysJSON, &raw); err != nil {
			panic(err)
		}
		cnt := map[string]int{}
		for _, r := range raw {
			b, err := base64.StdEncoding.DecodeString(r.Priv)
			if err != nil {
				panic(err)
			}
			p, err := crypto.UnmarshalPrivateKey(b)
			if err != nil {
				panic(err)
			}
			k := &Key{Alg: r.Alg, Idx: cnt[r.Alg], Priv: p, Pub: p.GetPublic()}
			cnt[r.Alg]++
			k.DID, k.Err = did.FromPubKey(k.Pub)
			all = append(all, k)
		}
	})
	return all
}

// ByAlg returns the fixture keys of one algorithm.
func ByAlg(alg string) []*Key {
	var res []*Key
	for _, k := range All() {
		if k.Alg == alg {
			res = append(res, k)
		}
	}
	return res
}

// Get returns key idx of alg.
func Get(alg string, idx int) *Key {
	return ByAlg(alg)[idx]
}

// Algs lists the algorithms in fixture order.
func Algs() []string {
	return []string{"ed25519", "secp256k1", "p256", "p384", "p521", "rsa2048", "rsa3072"}
}
