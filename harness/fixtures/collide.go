package fixtures

import (
	"crypto/ed25519"
	"crypto/sha256"
	_ "embed"
	"encoding/json"
	"fmt"
	"hash/adler32"
	"hash/crc32"
	"hash/fnv"

	"github.com/libp2p/go-libp2p/core/crypto"

	"github.com/ucan-wg/go-ucan/did"
)

// Hash32 is one of the standard library's 32-bit non-cryptographic hashes.
type Hash32 struct {
	Name string
	Sum  func([]byte) uint32
}

var Hashes32 = []Hash32{
	{"fnv32a", func(b []byte) uint32 { h := fnv.New32a(); h.Write(b); return h.Sum32() }},
	{"fnv32", func(b []byte) uint32 { h := fnv.New32(); h.Write(b); return h.Sum32() }},
	{"crc32-ieee", crc32.ChecksumIEEE},
	{"crc32-castagnoli", func(b []byte) uint32 { return crc32.Checksum(b, crc32.MakeTable(crc32.Castagnoli)) }},
	{"adler32", adler32.Checksum},
}

// Collision is a pair of distinct valid did:key identifiers of equal length with the same 32-bit sum.
type Collision struct {
	Hash  string `json:"hash"`
	Seed  int    `json:"seed"`  // Y = identifier of CollideReal(Seed)
	XSeed int    `json:"xseed"` // X = CollideSynth(XSeed)
	Y     string `json:"y"`
	X     string `json:"x"`
}

//go:embed collisions.json
var collisionsJSON []byte

// Collisions returns the recorded pairs after re-checking every one of them.
func Collisions() []Collision {
	var cs []Collision
	if err := json.Unmarshal(collisionsJSON, &cs); err != nil {
		panic(err)
	}
	for _, c := range cs {
		var h *Hash32
		for i := range Hashes32 {
			if Hashes32[i].Name == c.Hash {
				h = &Hashes32[i]
			}
		}
		_, y := CollideReal(c.Seed)
		if h == nil || y.String() != c.Y || CollideSynth(c.XSeed).String() != c.X || c.X == c.Y || len(c.X) != len(c.Y) || h.Sum([]byte(c.X)) != h.Sum([]byte(c.Y)) {
			panic(fmt.Sprintf("harness: stale fixtures/collisions.json entry %+v (regenerate with cmd/mkcollide)", c))
		}
	}
	return cs
}

// CollideReal returns the i-th deterministic Ed25519 key of the collision search and its DID.
func CollideReal(i int) (crypto.PrivKey, did.DID) {
	seed := sha256.Sum256([]byte(fmt.Sprintf("verif-collide-real-%d", i)))
	p, err := crypto.UnmarshalEd25519PrivateKey(ed25519.NewKeyFromSeed(seed[:]))
	if err != nil {
		panic(err)
	}
	d, err := did.FromPubKey(p.GetPublic())
	if err != nil {
		panic(err)
	}
	return p, d
}

// CollideSynth returns the j-th synthetic Ed25519 principal (32 arbitrary bytes as public key).
func CollideSynth(j int) did.DID {
	raw := sha256.Sum256([]byte(fmt.Sprintf("verif-collide-synth-%d", j)))
	p, err := crypto.UnmarshalEd25519PublicKey(raw[:])
	if err != nil {
		panic(err)
	}
	d, err := did.FromPubKey(p)
	if err != nil {
		panic(err)
	}
	return d
}
