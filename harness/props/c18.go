package props

import (
	"bufio"
	"bytes"
	"encoding/base64"
	"encoding/binary"
	"encoding/hex"
	"encoding/json"
	"fmt"
	"io"
	"os"
	"sort"
	"strings"
	"syscall"
	"time"

	"github.com/ipfs/go-cid"
	"github.com/ipld/go-ipld-prime/codec/dagcbor"
	"github.com/ipld/go-ipld-prime/codec/dagjson"
	"github.com/libp2p/go-libp2p/core/crypto"

	"github.com/ucan-wg/go-ucan/pkg/container"
	"github.com/ucan-wg/go-ucan/token"
	"github.com/ucan-wg/go-ucan/token/delegation"
	"github.com/ucan-wg/go-ucan/token/invocation"

	"verifharness/engine"
	"verifharness/fixtures"
)

// ---- artefacts ----

type ioArtefact struct {
	Name   string
	Kind   string // dlg | inv | ctn
	Format string // sealed | json | cbor | car | cbor64 | car64
	Data   []byte
	// for CAR formats: byte offsets (in the raw CAR stream) that are block boundaries, with the number of blocks before them
	Boundaries map[int]int
	Tokens     [][]byte // sealed tokens inside a container, in stream order
	Huge       bool     // > 64 KiB: positional faults are enumerated at every offset, the E3 search is skipped
	Giant      bool     // >= 1 MiB: only the fault-free chunkings (whole, 4 KiB, 64 KiB, 1 MiB - 1) are compared
	Many       bool     // many small blocks: positional sweeps visit the offsets around every block boundary and one inside every block
}

func viewString(tok any, c *cid.Cid) string {
	v := ViewOf(tok)
	b, _ := json.Marshal(v)
	s := string(b)
	if c != nil {
		s += "@" + c.String()
	}
	return s
}

func containerView(r container.Reader) string {
	var es []string
	for c, t := range r {
		cc := c
		es = append(es, viewString(t, &cc))
	}
	sort.Strings(es)
	return fmt.Sprintf("container[%d]{%s}", len(es), strings.Join(es, " | "))
}

var ioTokenSpecs = map[string]TokSpec{
	"dlg":        {Kind: "dlg", Alg: "ed25519", Opts: map[string]string{"pol": "eq", "nonce": "12", "meta": "k=str-ascii"}},
	"inv":        {Kind: "inv", Alg: "ed25519", Opts: map[string]string{"args": "k=int1", "nonce": "12", "iat": "whole", "meta": "k=str-astral"}},
	"dlg3":       {Kind: "dlg", Alg: "ed25519", Key: 1, Opts: map[string]string{"nonce": "64", "sub": "other", "cmd": "/a/b"}},
	"dlgbig":     {Kind: "dlg", Alg: "ed25519", Opts: map[string]string{"nonce": "64", "meta": "k=str-600"}},
	"dlghuge":    {Kind: "dlg", Alg: "ed25519", Key: 2, Opts: map[string]string{"nonce": "12", "meta": "k=bytes-70k"}},
	"dlg1m":      {Kind: "dlg", Alg: "ed25519", Key: 1, Opts: map[string]string{"nonce": "12", "size:meta-bytes": "1048576"}},
	"inv1m":      {Kind: "inv", Alg: "ed25519", Opts: map[string]string{"nonce": "12", "iat": "none", "size:arg-str": "1100000"}},
	"dlg2":       {Kind: "dlg", Alg: "p256", Opts: map[string]string{"nonce": "12", "sub": "other", "meta": "k=str-invtag"}},
	"dlgsamesec": {Kind: "dlg", Alg: "ed25519", Key: 2, Opts: map[string]string{"nonce": "12", "nbf": "subsec", "exp": "subsec-up"}}, // not-before and expiration inside one wall-clock second
	"dlgslash":   {Kind: "dlg", Alg: "ed25519", Key: 1, Opts: map[string]string{"nonce": "12", "meta": "k=map-slash"}},               // metadata {"/": "not-a-cid"}: a map, sealed as a map
	"invslash":   {Kind: "inv", Alg: "ed25519", Opts: map[string]string{"nonce": "12", "iat": "none", "args": "k=map-slash-bytes"}},  // arguments holding {"/": {"bytes": ...}} and {"/": "<cid text>"} maps
	"dlgrsa8k":   {Kind: "dlg", Alg: "ed25519", Opts: map[string]string{"nonce": "12", "aud": "rsa8192"}},
	"inv2":       {Kind: "inv", Alg: "secp256k1", Opts: map[string]string{"nonce": "12", "iat": "none", "prf": "odd", "args": "k=str-dlgtag"}},
}

type sealedTok struct {
	Name   string
	Tok    any
	Key    *fixtures.Key
	Sealed []byte
	JSON   []byte
	Cid    cid.Cid
}

var ioTokCache = map[string]*sealedTok{}

func ioToken(name string) *sealedTok {
	headerMu.Lock()
	defer headerMu.Unlock()
	if t, ok := ioTokCache[name]; ok {
		return t
	}
	tok, key, err := BuildToken(ioTokenSpecs[name])
	if err != nil {
		panic(err)
	}
	b, _, err := tok.(sealer).ToSealed(key.Priv)
	if err != nil {
		panic(err)
	}
	j, err := tok.(sealer).ToDagJson(key.Priv)
	if err != nil {
		panic(err)
	}
	st := &sealedTok{Name: name, Tok: tok, Key: key, Sealed: b, JSON: j, Cid: refCID(b)}
	ioTokCache[name] = st
	return st
}

// uvarintLen parses a CAR section length.
func carBoundaries(car []byte) map[int]int {
	res := map[int]int{}
	pos, blocks := 0, -1 // the header section is not a block
	for pos < len(car) {
		l, n := binary.Uvarint(car[pos:]) // lenient: padded length prefixes are part of the artefact set
		if n <= 0 {
			panic("harness: bad CAR produced")
		}
		pos += n + int(l)
		blocks++
		res[pos] = blocks
	}
	return res
}

func buildContainer(format string, names []string) ioArtefact {
	w := container.NewWriter()
	for _, n := range names {
		t := ioToken(n)
		w.AddSealed(t.Cid, t.Sealed)
	}
	var data []byte
	var err error
	switch format {
	case "cbor":
		data, err = w.ToCbor()
	case "car":
		data, err = w.ToCar()
	case "cbor64":
		data, err = w.ToCborBase64()
	case "car64":
		data, err = w.ToCarBase64()
	}
	if err != nil {
		panic(err)
	}
	a := ioArtefact{Name: fmt.Sprintf("ctn-%s-%d", format, len(names)), Kind: "ctn", Format: format, Data: data}
	if format == "car" {
		a.Boundaries = carBoundaries(data)
	}
	return a
}

func ioArtefacts() []ioArtefact {
	var r []ioArtefact
	for _, n := range []string{"dlg", "inv", "dlgbig"} {
		t := ioToken(n)
		kind := n
		if n == "dlgbig" {
			kind = "dlg"
		}
		r = append(r, ioArtefact{Name: n + "-sealed", Format: "sealed", Data: t.Sealed}.fix(kind))
		r = append(r, ioArtefact{Name: n + "-json", Format: "json", Data: t.JSON}.fix(kind))
	}
	// tokens of 1 MiB and more (streaming decoders must not have a smaller size limit than the buffered ones)
	for _, n := range []string{"dlg1m", "inv1m"} {
		t := ioToken(n)
		a := ioArtefact{Name: n + "-sealed", Format: "sealed", Data: t.Sealed}.fix(n[:3])
		a.Giant = true
		r = append(r, a)
	}
	g := buildContainer("car", []string{"dlg", "dlg1m"}).named("ctn-car-1m")
	g.Giant = true
	r = append(r, g)
	g = buildContainer("cbor64", []string{"inv1m"}).named("ctn-cbor64-1m")
	g.Giant = true
	r = append(r, g)
	// a CAR with one block above 64 KiB between two small ones (size thresholds in section readers)
	r = append(r, buildContainer("car", []string{"dlg", "dlghuge"}).named("ctn-car-huge"), buildContainer("car64", []string{"dlghuge"}).named("ctn-car64-huge"), buildContainer("cbor", []string{"dlghuge", "inv"}).named("ctn-cbor-huge"))
	for _, f := range []string{"cbor", "car", "cbor64", "car64"} {
		r = append(r, buildContainer(f, []string{"dlg", "inv", "dlg3"}))
		r = append(r, buildContainer(f, []string{"dlg"}))
	}
	r = append(r, buildContainer("car", nil), buildContainer("cbor", nil))
	// a CAR of 70 small tokens (more blocks than any look-ahead queue or worker pool is likely to hold): faults are
	// injected around every block boundary and inside every block
	{
		w := container.NewWriter()
		for _, t := range c17ManyTokens()[:70] {
			w.AddSealed(t.Cid, t.Sealed)
		}
		car, err := w.ToCar()
		if err != nil {
			panic(err)
		}
		m := ioArtefact{Name: "ctn-car-70", Kind: "ctn", Format: "car", Data: car, Huge: true, Many: true}
		m.Boundaries = carBoundaries(car)
		r = append(r, m)
	}
	// the 3-token CAR with every section length written as a padded (non-minimal) varint: whatever a reader
	// makes of such a file, it makes the same of it from memory and from a stream in any chunking
	padded := padCarLengths(buildContainer("car", []string{"dlg", "inv", "dlg3"}).Data)
	pa := ioArtefact{Name: "ctn-car-padded-lengths", Kind: "ctn", Format: "car", Data: padded}
	pa.Boundaries = carBoundaries(padded)
	r = append(r, pa, ioArtefact{Name: "ctn-car64-padded-lengths", Kind: "ctn", Format: "car64", Data: []byte(base64.StdEncoding.EncodeToString(padded))})
	// two CAR bodies glued together (every block occurs a second time), and one whose first block comes again at the
	// end: whatever a reader makes of a repeated block, a stream that ends inside it is a stream that ended early
	{
		car := buildContainer("car", []string{"dlg", "inv", "dlg3"}).Data
		l, n := binary.Uvarint(car)
		body := car[n+int(l):]
		l1, n1 := binary.Uvarint(body)
		for name, data := range map[string][]byte{"ctn-car-glued": append(append([]byte{}, car...), body...), "ctn-car-first-block-again": append(append([]byte{}, car...), body[:n1+int(l1)]...)} {
			ga := ioArtefact{Name: name, Kind: "ctn", Format: "car", Data: data}
			ga.Boundaries = carBoundaries(data)
			r = append(r, ga)
		}
		glued := append(append([]byte{}, car...), body...)
		r = append(r, ioArtefact{Name: "ctn-car64-glued", Kind: "ctn", Format: "car64", Data: []byte(base64.StdEncoding.EncodeToString(glued))})
	}
	return r
}

// padCarLengths rewrites every section length prefix of a CAR with one padding group (0xac 0x02 -> 0xac 0x82 0x00).
func padCarLengths(car []byte) []byte {
	var out []byte
	pos := 0
	for pos < len(car) {
		l, n := binary.Uvarint(car[pos:])
		if n <= 0 {
			panic("harness: bad CAR produced")
		}
		pre := append([]byte{}, car[pos:pos+n]...)
		pre[len(pre)-1] |= 0x80
		out = append(append(append(out, pre...), 0x00), car[pos+n:pos+n+int(l)]...)
		pos += n + int(l)
	}
	return out
}

func (a ioArtefact) named(n string) ioArtefact {
	a.Name = n
	a.Huge = true
	return a
}

func (a ioArtefact) fix(kind string) ioArtefact {
	a.Kind = kind
	return a
}

// c18HugeSkip thins the offsets of the fault-free positional sweeps on the huge artefacts: kept are the
// offsets within 300 bytes of either end, within 40 of a section boundary, within 4 of a multiple of 4096
// (buffer sizes) and every 389th one inside the big opaque section body.
func c18HugeSkip(a ioArtefact, k int) bool {
	if a.Many {
		// kept: within 2 bytes of a block boundary, the middle of each block (boundary + 100), and both ends
		if k < 4 || k > len(a.Data)-4 {
			return false
		}
		for b := range a.Boundaries {
			if (k >= b-2 && k <= b+2) || k == b+100 {
				return false
			}
		}
		return true
	}
	return k%389 != 0 && k > 300 && k < len(a.Data)-300 && !c18NearBoundary(a, k) && k%4096 > 4 && k%4096 < 4092
}

func c18NearBoundary(a ioArtefact, k int) bool {
	for b := range a.Boundaries {
		if k > b-40 && k < b+40 {
			return true
		}
	}
	return false
}

// ---- reader APIs ----

type readerAPI struct {
	Name     string
	Formats  []string // artefact formats it applies to
	Kinds    []string
	Stream   func(r io.Reader) (string, error)
	Buffered func(b []byte) (string, error)
}

func tokRes(t any, c *cid.Cid, err error) (string, error) {
	if err != nil {
		return "", err
	}
	return viewString(t, c), nil
}

func ctnRes(r container.Reader, err error) (string, error) {
	if err != nil {
		return "", err
	}
	return containerView(r), nil
}

func readerAPIs() []readerAPI {
	return []readerAPI{
		{"token.FromSealedReader", []string{"sealed"}, []string{"dlg", "inv"},
			func(r io.Reader) (string, error) { t, c, err := token.FromSealedReader(r); return tokRes(t, &c, err) },
			func(b []byte) (string, error) { t, c, err := token.FromSealed(b); return tokRes(t, &c, err) }},
		{"delegation.FromSealedReader", []string{"sealed"}, []string{"dlg"},
			func(r io.Reader) (string, error) {
				t, c, err := delegation.FromSealedReader(r)
				return tokRes(t, &c, err)
			},
			func(b []byte) (string, error) { t, c, err := delegation.FromSealed(b); return tokRes(t, &c, err) }},
		{"invocation.FromSealedReader", []string{"sealed"}, []string{"inv"},
			func(r io.Reader) (string, error) {
				t, c, err := invocation.FromSealedReader(r)
				return tokRes(t, &c, err)
			},
			func(b []byte) (string, error) { t, c, err := invocation.FromSealed(b); return tokRes(t, &c, err) }},
		{"token.FromDagCborReader", []string{"sealed"}, []string{"dlg", "inv"},
			func(r io.Reader) (string, error) { t, err := token.FromDagCborReader(r); return tokRes(t, nil, err) },
			func(b []byte) (string, error) { t, err := token.FromDagCbor(b); return tokRes(t, nil, err) }},
		{"delegation.FromDagCborReader", []string{"sealed"}, []string{"dlg"},
			func(r io.Reader) (string, error) {
				t, err := delegation.FromDagCborReader(r)
				return tokRes(t, nil, err)
			},
			func(b []byte) (string, error) { t, err := delegation.FromDagCbor(b); return tokRes(t, nil, err) }},
		{"invocation.DecodeReader(dagcbor)", []string{"sealed"}, []string{"inv"},
			func(r io.Reader) (string, error) {
				t, err := invocation.DecodeReader(r, dagcbor.Decode)
				return tokRes(t, nil, err)
			},
			func(b []byte) (string, error) {
				t, err := invocation.Decode(b, dagcbor.Decode)
				return tokRes(t, nil, err)
			}},
		{"token.FromDagJsonReader", []string{"json"}, []string{"dlg", "inv"},
			func(r io.Reader) (string, error) { t, err := token.FromDagJsonReader(r); return tokRes(t, nil, err) },
			func(b []byte) (string, error) { t, err := token.FromDagJson(b); return tokRes(t, nil, err) }},
		{"delegation.FromDagJsonReader", []string{"json"}, []string{"dlg"},
			func(r io.Reader) (string, error) {
				t, err := delegation.FromDagJsonReader(r)
				return tokRes(t, nil, err)
			},
			func(b []byte) (string, error) { t, err := delegation.FromDagJson(b); return tokRes(t, nil, err) }},
		{"token.DecodeReader(dagjson)", []string{"json"}, []string{"inv"},
			func(r io.Reader) (string, error) {
				t, err := token.DecodeReader(r, dagjson.Decode)
				return tokRes(t, nil, err)
			},
			func(b []byte) (string, error) { t, err := token.Decode(b, dagjson.Decode); return tokRes(t, nil, err) }},
		{"container.FromCborReader", []string{"cbor"}, []string{"ctn"},
			func(r io.Reader) (string, error) { return ctnRes(container.FromCborReader(r)) },
			func(b []byte) (string, error) { return ctnRes(container.FromCbor(b)) }},
		{"container.FromCarReader", []string{"car"}, []string{"ctn"},
			func(r io.Reader) (string, error) { return ctnRes(container.FromCarReader(r)) },
			func(b []byte) (string, error) { return ctnRes(container.FromCar(b)) }},
		{"container.FromCborBase64Reader", []string{"cbor64"}, []string{"ctn"},
			func(r io.Reader) (string, error) { return ctnRes(container.FromCborBase64Reader(r)) },
			func(b []byte) (string, error) { return ctnRes(container.FromCborBase64(b)) }},
		{"container.FromCarBase64Reader", []string{"car64"}, []string{"ctn"},
			func(r io.Reader) (string, error) { return ctnRes(container.FromCarBase64Reader(r)) },
			func(b []byte) (string, error) { return ctnRes(container.FromCarBase64(b)) }},
	}
}

func contains(s []string, x string) bool {
	for _, y := range s {
		if y == x {
			return true
		}
	}
	return false
}

// carPrefixView is the legitimate result of a CAR stream cut at a block boundary.
func carPrefixExpected(a ioArtefact, cut int) (string, bool) {
	if a.Format == "car64" {
		// a cut of the base64 text at a 4-character boundary that falls on a block boundary of the CAR stream
		if cut%4 != 0 {
			return "", false
		}
		raw, err := base64.StdEncoding.DecodeString(string(a.Data))
		if err != nil {
			panic(err)
		}
		rawCut := cut / 4 * 3
		if _, ok := carBoundaries(raw)[rawCut]; !ok {
			return "", false
		}
		v, err := ctnRes(container.FromCar(raw[:rawCut]))
		if err != nil {
			return "", false
		}
		return v, true
	}
	if a.Format != "car" {
		return "", false
	}
	if _, ok := a.Boundaries[cut]; !ok {
		return "", false
	}
	v, err := ctnRes(container.FromCar(a.Data[:cut]))
	if err != nil {
		return "", false
	}
	return v, true
}

type c18ReadCase struct {
	ArtHex      string `json:"artefact_hex,omitempty"` // witnesses carry the artefact bytes (container block order follows Go map iteration)
	Art         string `json:"artefact"`
	API         string `json:"api"`
	Mode        string `json:"mode"`             // chunking | pos-error | pos-eof | env
	Prefix      []int  `json:"prefix,omitempty"` // env: schedule of per-call answers
	At          int    `json:"at,omitempty"`     // positional fault offset (-1 = all)
	Chunk       int    `json:"chunk,omitempty"`
	EOFWithData bool   `json:"eof_with_data,omitempty"`
	Stall       bool   `json:"stall,omitempty"` // env: the answer (0, nil) is in the menu
}

func (c *c18ReadCase) Weight() int { return len(c.Prefix) }

func c18ReadSub() *engine.Sub {
	var arts []ioArtefact
	artByName := map[string]ioArtefact{}
	setup := func(string) error {
		if arts == nil {
			arts = ioArtefacts()
			for _, a := range arts {
				artByName[a.Name] = a
			}
		}
		return nil
	}
	apis := readerAPIs()
	apiByName := map[string]readerAPI{}
	for _, a := range apis {
		apiByName[a.Name] = a
	}
	return &engine.Sub{
		Name: "readers",
		Rule: "every streaming decoder on every matching artefact (sealed and DAG-JSON tokens, containers; plus tokens and containers of 1 MiB and more, for which only the fault-free chunkings are compared): (1) chunk sizes {1,2,3,7,whole} x EOF {separate, with data}, and the stream cut into two pieces after k bytes for every k (and three: k, 1, rest) - one artefact carries characters of 1 to 4 bytes at several alignments -: result equals the buffered API's; (2) positional faults: an injected error after k delivered bytes for every k in [0,len] (returned alone, and returned together with the bytes up to k; a plain error, and errors that wrap io.EOF / io.ErrUnexpectedEOF) and an early EOF for every k in [0,len) must yield an error (a CAR cut exactly at a block boundary yields exactly the blocks before it); one Read answering (0, nil) - nothing happened, call again - after k delivered bytes for every k, with chunks {whole, 1, 7}, bare and behind the caller's own *bufio.Reader, must not change the result; one Read failing after k bytes with an error that calls itself temporary (EAGAIN, EINTR, deadline exceeded, a net-style timeout, ErrNoProgress, ErrShortBuffer), the reader being able to go on afterwards, must yield an error; the same errors returned by EVERY Read from offset k on must yield an error too - the call returns (a caller still reading after 10000 consecutive failures is charged with not terminating); (3) E3: deviation-bounded DFS over per-Read answers {all, 1 byte, half, last-bytes-with-EOF, early EOF, error, bytes-together-with-error, (0, nil) (at most twice, never twice in a row; explored in a second pass of the thorough tier with one deviation less: an empty read combined with one other deviation)}: fault-free schedules agree with the buffered API, faulty ones return an error; non-trivial = executions with at least one deviation or fault",
		Bound: func(t string) string {
			return fmt.Sprintf("E3 deviation bound %d (per artefact x API), all offsets for positional faults, 10 chunkings", tierN(t, 2, 3))
		},
		Setup: setup,
		Gen: func(tier string, emit func(any) bool) {
			setup(tier)
			for _, a := range arts {
				for _, api := range apis {
					if !contains(api.Formats, a.Format) || !contains(api.Kinds, a.Kind) {
						continue
					}
					if a.Giant {
						for _, ch := range []int{0, 4096, 1 << 16, 1<<20 - 1} {
							for _, ewd := range []bool{false, true} {
								if !emit(&c18ReadCase{Art: a.Name, API: api.Name, Mode: "chunking", Chunk: ch, EOFWithData: ewd}) {
									return
								}
							}
						}
						continue
					}
					for _, ch := range []int{1, 2, 3, 7, 0} {
						for _, ewd := range []bool{false, true} {
							if !emit(&c18ReadCase{Art: a.Name, API: api.Name, Mode: "chunking", Chunk: ch, EOFWithData: ewd}) {
								return
							}
						}
					}
					if !emit(&c18ReadCase{Art: a.Name, API: api.Name, Mode: "pos-error", At: -1}) {
						return
					}
					if !emit(&c18ReadCase{Art: a.Name, API: api.Name, Mode: "pos-eof", At: -1}) {
						return
					}
					if !emit(&c18ReadCase{Art: a.Name, API: api.Name, Mode: "pos-error-with-data", At: -1}) {
						return
					}
					if !emit(&c18ReadCase{Art: a.Name, API: api.Name, Mode: "pos-stall", At: -1}) {
						return
					}
					if !emit(&c18ReadCase{Art: a.Name, API: api.Name, Mode: "pos-split", At: -1}) {
						return
					}
					if !emit(&c18ReadCase{Art: a.Name, API: api.Name, Mode: "pos-transient-error", At: -1}) {
						return
					}
					if a.Huge {
						continue
					}
					if !emit(&c18ReadCase{Art: a.Name, API: api.Name, Mode: "env"}) {
						return
					}
				}
			}
		},
		NewCase: func() any { return &c18ReadCase{} },
		Run: func(ctx *engine.Ctx, c any) {
			cs := c.(*c18ReadCase)
			t0 := time.Now()
			defer func() {
				if d := time.Since(t0); d > 3*time.Second && os.Getenv("VERIF_SLOW") != "" {
					fmt.Fprintf(os.Stderr, "SLOW %v %s %s %s\n", d, cs.Art, cs.API, cs.Mode)
				}
			}()
			setup(ctx.Tier)
			a, api := artByName[cs.Art], apiByName[cs.API]
			if cs.ArtHex != "" {
				a.Data, _ = hex.DecodeString(cs.ArtHex)
				if a.Format == "car" {
					a.Boundaries = carBoundaries(a.Data)
				}
			}
			want, werr := api.Buffered(a.Data)
			wantErr := false
			if werr != nil {
				handBuilt := strings.Contains(a.Name, "padded")
				if !handBuilt {
					ctx.Failf(cs, "buffered-api-fails/"+api.Name, "the byte-slice variant of %s fails on %s, which its own writer produced: %v", api.Name, a.Name, werr)
				}
				want, werr = api.Stream(bytes.NewReader(a.Data))
				if werr != nil {
					if !handBuilt {
						panic(fmt.Sprintf("harness: %s fails on %s: %v", api.Name, a.Name, werr))
					}
					// a hand-built artefact that the reader refuses from memory: it must refuse it in every chunking
					// (only the fault-free modes are run; "<refused>" stands for the error)
					wantErr, want = true, "<refused>"
					switch cs.Mode {
					case "chunking", "pos-split", "pos-stall":
					default:
						ctx.Outcome("refused-artefact")
						return
					}
				}
			}
			if wantErr {
				inner := api.Stream
				api.Stream = func(r io.Reader) (string, error) {
					if g, e := inner(r); e == nil {
						return g, nil
					}
					return "<refused>", nil
				}
			}
			ctx.States(1)
			tag := api.Name
			switch cs.Mode {
			case "chunking":
				got, err := api.Stream(&chunkReader{data: a.Data, chunk: cs.Chunk, eofWithData: cs.EOFWithData})
				ctx.Eval(1)
				ctx.Trans(1)
				ctx.Nontrivial(1)
				if err != nil {
					ctx.Outcome("stream-error")
					ctx.Failf(cs, "chunking-breaks-stream/"+tag, "%s fails on %s with chunk=%d eofWithData=%v: %v", api.Name, a.Name, cs.Chunk, cs.EOFWithData, err)
				} else if got != want {
					ctx.Outcome("stream-differs")
					ctx.Failf(cs, "stream-differs-from-buffered/"+tag, "%s on %s with chunk=%d eofWithData=%v differs from the buffered result", api.Name, a.Name, cs.Chunk, cs.EOFWithData)
				} else {
					ctx.Outcome("stream-equals-buffered")
				}
			case "pos-transient-error":
				// one Read fails (no data) after k bytes with an error that calls itself temporary - EAGAIN, EINTR, a
				// deadline, a net timeout - and the reader would go on serving the rest: the reader has failed
				lo, hi := 0, len(a.Data)
				if cs.At >= 0 {
					lo, hi = cs.At, cs.At
				}
				for k := lo; k <= hi; k++ {
					if a.Huge && c18HugeSkip(a, k) {
						continue
					}
					for ei, e := range c18TransientErrors {
						if a.Huge && ei > 0 {
							continue
						}
						pr := &engine.PosReader{Data: a.Data, FailAt: k, Mode: "transient", Err: e}
						got, err := api.Stream(pr)
						ctx.Eval(1)
						ctx.Trans(1)
						ctx.Nontrivial(1)
						rc := &c18ReadCase{Art: cs.Art, API: cs.API, Mode: cs.Mode, At: k, ArtHex: hex.EncodeToString(a.Data)}
						switch {
						case err != nil:
							ctx.Outcome("fault-reported")
						case !pr.Hit:
							ctx.Outcome("fault-not-reached")
							if got != want {
								ctx.Failf(rc, "stream-differs-from-buffered/"+tag, "%s on %s (error armed at %d, never reached) differs from buffered", api.Name, a.Name, k)
							}
						default:
							ctx.Outcome("fault-swallowed")
							ctx.Failf(rc, "fault-swallowed/temporary-error/"+tag, "%s on %s returns a result although one Read, after %d of %d bytes, failed with %q", api.Name, a.Name, k, len(a.Data), e)
						}
						// the same error for good: every Read from offset k on fails with it (a deadline that has passed stays passed).
						// The call returns - with an error; a caller that keeps asking is stopped after 10000 answers
						sr := &engine.PosReader{Data: a.Data, FailAt: k, Mode: "error", StickyErr: e, MaxFailures: 10000}
						var serr error
						spun := false
						func() {
							defer func() {
								if r := recover(); r != nil {
									if r == engine.ErrSpinning {
										spun = true
										return
									}
									panic(r)
								}
							}()
							_, serr = api.Stream(sr)
						}()
						ctx.Eval(1)
						switch {
						case spun:
							ctx.Outcome("spins")
							ctx.Failf(rc, "does-not-terminate/persistent-temporary-error/"+tag, "%s on %s keeps reading after 10000 consecutive failures with %q from offset %d on: it never returns", api.Name, a.Name, e, k)
						case serr == nil && sr.Hit:
							ctx.Outcome("fault-swallowed")
							ctx.Failf(rc, "fault-swallowed/persistent-temporary-error/"+tag, "%s on %s returns a result although every Read from offset %d on failed with %q", api.Name, a.Name, k, e)
						default:
							ctx.Outcome("fault-reported")
						}
					}
				}
			case "pos-split":
				// the stream arrives in two pieces (three: the second one byte long) cut after k bytes, for every k
				lo, hi := 1, len(a.Data)-1
				if cs.At >= 0 {
					lo, hi = cs.At, cs.At
				}
				for k := lo; k <= hi; k++ {
					if a.Huge && c18HugeSkip(a, k) {
						continue
					}
					for _, pieces := range [][]int{{k}, {k, 1}} {
						if a.Huge && len(pieces) > 1 {
							continue
						}
						got, err := api.Stream(&piecesReader{data: a.Data, pieces: pieces})
						ctx.Eval(1)
						ctx.Trans(1)
						ctx.Nontrivial(1)
						rc := &c18ReadCase{Art: cs.Art, API: cs.API, Mode: cs.Mode, At: k, ArtHex: hex.EncodeToString(a.Data)}
						switch {
						case err != nil:
							ctx.Outcome("stream-error")
							ctx.Failf(rc, "chunking-breaks-stream/"+tag, "%s fails on %s delivered in pieces of %v bytes + the rest: %v", api.Name, a.Name, pieces, err)
						case got != want:
							ctx.Outcome("stream-differs")
							ctx.Failf(rc, "stream-differs-from-buffered/"+tag, "%s on %s delivered in pieces of %v bytes + the rest differs from the buffered result", api.Name, a.Name, pieces)
						default:
							ctx.Outcome("stream-equals-buffered")
						}
					}
				}
			case "pos-stall":
				// a Read that answers (0, nil) once, after k delivered bytes: the stream is complete and intact
				lo, hi := 0, len(a.Data)
				if cs.At >= 0 {
					lo, hi = cs.At, cs.At
				}
				for k := lo; k <= hi; k++ {
					for vi, ch := range []int{0, 1, 7, 0, 1, 7} {
						if a.Huge && (ch != 0 || c18HugeSkip(a, k)) {
							continue
						}
						// variants 3-5: the caller has put its own *bufio.Reader (16-byte / 4 KiB buffer) around the source - a reader type the
						// library knows, which passes an empty read of the source on when its buffer is empty
						var src io.Reader = &engine.PosReader{Data: a.Data, Chunk: ch, FailAt: k, Mode: "stall"}
						if vi >= 3 {
							src = bufio.NewReaderSize(src, [3]int{16, 4096, 16}[vi-3])
						}
						got, err := api.Stream(src)
						ctx.Eval(1)
						ctx.Trans(1)
						ctx.Nontrivial(1)
						rc := &c18ReadCase{Art: cs.Art, API: cs.API, Mode: cs.Mode, At: k, ArtHex: hex.EncodeToString(a.Data)}
						switch {
						case err != nil:
							ctx.Outcome("stall-breaks-stream")
							ctx.Failf(rc, "empty-read-breaks-stream/"+tag, "%s fails on %s when one Read, after %d of %d bytes, returns (0, nil) (chunk=%d): %v", api.Name, a.Name, k, len(a.Data), ch, err)
						case got != want:
							ctx.Outcome("stall-changes-result")
							ctx.Failf(rc, "empty-read-changes-result/"+tag, "%s on %s returns a different result when one Read, after %d of %d bytes, returns (0, nil) (chunk=%d)", api.Name, a.Name, k, len(a.Data), ch)
						default:
							ctx.Outcome("stream-equals-buffered")
						}
					}
				}
			case "pos-error", "pos-eof", "pos-error-with-data":
				lo, hi := 0, len(a.Data)
				if cs.Mode == "pos-eof" {
					hi = len(a.Data) - 1
				}
				if cs.At >= 0 {
					lo, hi = cs.At, cs.At
				}
				mode := strings.TrimPrefix(cs.Mode, "pos-")
				for k := lo; k <= hi; k++ {
					for _, ch := range []int{0, 1} {
						if a.Many && (ch == 1 || c18HugeSkip(a, k)) {
							continue
						}
						if a.Huge && !a.Many && (ch == 1 || (k%97 != 0 && k > 600 && k < len(a.Data)-600 && !c18NearBoundary(a, k))) {
							// huge artefacts: every offset within 600 bytes of either end and of every section
							// boundary, every 97th offset inside the big section body (its content is opaque to the reader)
							continue
						}
						pr := &engine.PosReader{Data: a.Data, Chunk: ch, FailAt: k, Mode: mode}
						got, err := api.Stream(pr)
						ctx.Eval(1)
						ctx.Trans(1)
						ctx.Nontrivial(1)
						rc := &c18ReadCase{Art: cs.Art, API: cs.API, Mode: cs.Mode, At: k, ArtHex: hex.EncodeToString(a.Data)}
						if mode != "eof" && ch == 0 && !a.Huge {
							// the same fault with an error that WRAPS io.EOF (errors.Is(err, io.EOF) holds, err == io.EOF does not):
							// "the connection was cut" as many clients report it - a failure, not the end of the data
							for _, werr := range c18WrappedEOFs {
								wr := &engine.PosReader{Data: a.Data, Chunk: ch, FailAt: k, Mode: mode, StickyErr: werr}
								wgot, werr2 := api.Stream(wr)
								ctx.Eval(1)
								if werr2 == nil && wr.Hit {
									if exp, ok := carPrefixExpected(a, k); !(ok && wgot == exp) || k < len(a.Data) {
										ctx.Failf(rc, "fault-swallowed/error-wrapping-eof/"+tag, "%s on %s returns a result although the Read after %d of %d bytes failed with %q (an error that wraps io.EOF is an error)", api.Name, a.Name, k, len(a.Data), werr)
									}
								}
							}
						}
						if err != nil {
							ctx.Outcome("fault-reported")
							continue
						}
						if !pr.Hit && mode != "eof" {
							// the decoder never read far enough to see the fault: the stream it saw was complete
							ctx.Outcome("fault-not-reached")
							if got != want {
								ctx.Failf(rc, "stream-differs-from-buffered/"+tag, "%s on %s (error armed at %d, never reached) differs from buffered", api.Name, a.Name, k)
							}
							continue
						}
						if mode == "eof" {
							if exp, ok := carPrefixExpected(a, k); ok {
								ctx.Outcome("car-boundary-cut")
								if got != exp {
									ctx.Failf(rc, "car-boundary-cut-wrong-blocks", "CAR stream cut at block boundary %d does not yield exactly the blocks before the cut", k)
								}
								continue
							}
						}
						ctx.Outcome("fault-swallowed")
						ctx.Failf(rc, "fault-swallowed/"+mode+"/"+tag, "%s on %s returns a result although the stream %s after %d of %d bytes", api.Name, a.Name, map[string]string{"error": "failed", "eof": "ended", "error-with-data": "failed (error returned together with the last bytes)"}[mode], k, len(a.Data))
					}
				}
			case "env":
				bound := tierN(ctx.Tier, 2, 3)
				maxExec := 0
				if bound >= 3 {
					maxExec = 400000
				}
				var last *engine.ChoiceReader
				var got string
				var gerr error
				stall := cs.Stall
				run := func(env *engine.Env) {
					last = engine.NewChoiceReader(a.Data, env)
					last.AllowStall = stall
					got, gerr = api.Stream(last)
				}
				if cs.Prefix != nil {
					env := &engine.Env{Prefix: cs.Prefix}
					run(env)
					c18Judge(ctx, cs, a, api, env, last, got, gerr, want)
					return
				}
				// first without, then with the answer (0, nil) in the menu; with it, inputs of more than 400 bytes are
				// explored with one deviation less (the positional sweep covers a single empty read at every offset)
				for _, st := range []bool{false, true} {
					stall = st
					b := bound
					if st {
						// a single empty read at every offset is the positional sweep's business; here it is combined
						// with one more deviation (thorough tier)
						if b--; b < 2 {
							continue
						}
					}
					n, capped, err := engine.ExploreEnv(b, maxExec, run, func(env *engine.Env) {
						c18Judge(ctx, &c18ReadCase{Art: cs.Art, API: cs.API, Mode: cs.Mode, Stall: st}, a, api, env, last, got, gerr, want)
					})
					if err != nil {
						panic(err)
					}
					if capped {
						ctx.Outcome(fmt.Sprintf("env-capped-after-%d-executions", n))
					}
				}
			}
		},
	}
}

// tempErr is an error that describes itself as temporary and as a timeout (like a net.Error).
type tempErr struct{}

func (tempErr) Error() string   { return "harness: injected temporary error" }
func (tempErr) Temporary() bool { return true }
func (tempErr) Timeout() bool   { return true }

var c18WrappedEOFs = []error{fmt.Errorf("read body: %w", io.EOF), fmt.Errorf("connection reset: %w", io.ErrUnexpectedEOF)}

var c18TransientErrors = []error{syscall.EAGAIN, syscall.EINTR, os.ErrDeadlineExceeded, tempErr{}, io.ErrNoProgress, io.ErrShortBuffer}

// piecesReader delivers data in pieces of the given sizes, then everything that is left.
type piecesReader struct {
	data   []byte
	pieces []int
	pos    int
	idx    int
}

func (r *piecesReader) Read(p []byte) (int, error) {
	if len(p) == 0 {
		return 0, nil
	}
	if r.pos >= len(r.data) {
		return 0, io.EOF
	}
	n := len(r.data) - r.pos
	if r.idx < len(r.pieces) && r.pieces[r.idx] < n {
		n = r.pieces[r.idx]
	}
	if n > len(p) {
		// the caller's buffer is smaller than the piece: the piece is continued on the next call
		n = len(p)
		if r.idx < len(r.pieces) {
			r.pieces[r.idx] -= n
		}
	} else {
		r.idx++
	}
	copy(p, r.data[r.pos:r.pos+n])
	r.pos += n
	return n, nil
}

func c18Judge(ctx *engine.Ctx, cs *c18ReadCase, a ioArtefact, api readerAPI, env *engine.Env, r *engine.ChoiceReader, got string, gerr error, want string) {
	ctx.Eval(1)
	ctx.Trans(1)
	dev := 0
	for _, c := range env.Taken {
		if c != 0 {
			dev++
		}
	}
	if dev > 0 {
		ctx.Nontrivial(1)
	}
	rc := &c18ReadCase{Art: cs.Art, API: cs.API, Mode: "env", Stall: cs.Stall, Prefix: append([]int{}, env.Taken...), ArtHex: hex.EncodeToString(a.Data)}
	faulty := r.InjectedError || r.EarlyEOFAt >= 0
	tag := api.Name
	switch {
	case !faulty && gerr != nil && r.Stalls > 0:
		ctx.Outcome("stall-breaks-stream")
		ctx.Failf(rc, "empty-read-breaks-stream/"+tag, "%s fails on a fault-free schedule %v of %s in which %d Read calls answer (0, nil): %v", api.Name, env.Taken, a.Name, r.Stalls, gerr)
	case !faulty && gerr != nil:
		ctx.Outcome("stream-error")
		ctx.Failf(rc, "chunking-breaks-stream/"+tag, "%s fails on a fault-free schedule %v of %s: %v", api.Name, env.Taken, a.Name, gerr)
	case !faulty && got != want:
		ctx.Outcome("stream-differs")
		ctx.Failf(rc, "stream-differs-from-buffered/"+tag, "%s on fault-free schedule %v of %s differs from the buffered result", api.Name, env.Taken, a.Name)
	case !faulty:
		ctx.Outcome("stream-equals-buffered")
	case gerr != nil:
		ctx.Outcome("fault-reported")
	default:
		if r.EarlyEOFAt >= 0 && !r.InjectedError {
			if exp, ok := carPrefixExpected(a, r.EarlyEOFAt); ok {
				ctx.Outcome("car-boundary-cut")
				if got != exp {
					ctx.Failf(rc, "car-boundary-cut-wrong-blocks", "CAR stream cut at block boundary %d does not yield exactly the blocks before the cut", r.EarlyEOFAt)
				}
				return
			}
		}
		kind := "error"
		if !r.InjectedError {
			kind = "eof"
		}
		ctx.Outcome("fault-swallowed")
		ctx.Failf(rc, "fault-swallowed/"+kind+"/"+tag, "%s on %s returns a result although the reader %s (schedule %v, %d of %d bytes delivered)", api.Name, a.Name, map[string]string{"error": "failed", "eof": "ended early"}[kind], env.Taken, r.Pos, len(a.Data))
	}
}

// ---- writer APIs ----

type writerAPI struct {
	Name     string
	Stream   func(w io.Writer) (string, error) // returns the CID string if the API reports one
	Buffered func() ([]byte, string, error)
	// SetOf, if non-nil, parses the produced bytes into a comparable set view (containers with several tokens have no fixed order)
	SetOf func(b []byte) (string, error)
}

type tokenWriter interface {
	ToSealedWriter(io.Writer, crypto.PrivKey) (cid.Cid, error)
	ToDagCborWriter(io.Writer, crypto.PrivKey) error
	ToDagJsonWriter(io.Writer, crypto.PrivKey) error
	ToSealed(crypto.PrivKey) ([]byte, cid.Cid, error)
	ToDagCbor(crypto.PrivKey) ([]byte, error)
	ToDagJson(crypto.PrivKey) ([]byte, error)
}

func writerAPIs() []writerAPI {
	var r []writerAPI
	for _, n := range []string{"dlg", "inv", "dlgbig"} {
		st := ioToken(n)
		tw := st.Tok.(tokenWriter)
		key := st.Key.Priv
		r = append(r,
			writerAPI{Name: n + ".ToSealedWriter",
				Stream:   func(w io.Writer) (string, error) { c, err := tw.ToSealedWriter(w, key); return c.String(), err },
				Buffered: func() ([]byte, string, error) { b, c, err := tw.ToSealed(key); return b, c.String(), err }},
			writerAPI{Name: n + ".ToDagCborWriter",
				Stream:   func(w io.Writer) (string, error) { return "", tw.ToDagCborWriter(w, key) },
				Buffered: func() ([]byte, string, error) { b, err := tw.ToDagCbor(key); return b, "", err }},
			writerAPI{Name: n + ".ToDagJsonWriter",
				Stream:   func(w io.Writer) (string, error) { return "", tw.ToDagJsonWriter(w, key) },
				Buffered: func() ([]byte, string, error) { b, err := tw.ToDagJson(key); return b, "", err }},
		)
	}
	for _, names := range [][]string{{"dlg"}, {"dlg", "inv", "dlg3"}, {}} {
		w := container.NewWriter()
		for _, n := range names {
			t := ioToken(n)
			w.AddSealed(t.Cid, t.Sealed)
		}
		sfx := fmt.Sprintf("[%d tokens]", len(names))
		r = append(r,
			writerAPI{Name: "container.ToCborWriter" + sfx, Stream: func(x io.Writer) (string, error) { return "", w.ToCborWriter(x) },
				Buffered: func() ([]byte, string, error) { b, err := w.ToCbor(); return b, "", err },
				SetOf:    func(b []byte) (string, error) { return ctnRes(container.FromCbor(b)) }},
			writerAPI{Name: "container.ToCarWriter" + sfx, Stream: func(x io.Writer) (string, error) { return "", w.ToCarWriter(x) },
				Buffered: func() ([]byte, string, error) { b, err := w.ToCar(); return b, "", err },
				SetOf:    func(b []byte) (string, error) { return ctnRes(container.FromCar(b)) }},
			writerAPI{Name: "container.ToCborBase64Writer" + sfx, Stream: func(x io.Writer) (string, error) { return "", w.ToCborBase64Writer(x) },
				Buffered: func() ([]byte, string, error) { b, err := w.ToCborBase64(); return b, "", err },
				SetOf:    func(b []byte) (string, error) { return ctnRes(container.FromCborBase64Reader(bytes.NewReader(b))) }},
			writerAPI{Name: "container.ToCarBase64Writer" + sfx, Stream: func(x io.Writer) (string, error) { return "", w.ToCarBase64Writer(x) },
				Buffered: func() ([]byte, string, error) { b, err := w.ToCarBase64(); return b, "", err },
				SetOf:    func(b []byte) (string, error) { return ctnRes(container.FromCarBase64Reader(bytes.NewReader(b))) }},
		)
	}
	return r
}

type c18WriteCase struct {
	API       string `json:"api"`
	Call      int    `json:"call"` // 0 = fault-free comparison; -1 = every call; k = fail at call k
	Short     bool   `json:"short,omitempty"`
	Transient bool   `json:"transient,omitempty"` // only that call fails, later writes succeed again
	Mode      int    `json:"mode,omitempty"`      // 0 sticky, 1 sticky short, 2 transient, 3/4 transient (short / nothing taken) with EINTR, 5/6 with EAGAIN, 7/8 the error comes with the full count (sticky / one-off), 9 a short count without an error
}

func c18WriteSub() *engine.Sub {
	var apis []writerAPI
	byName := map[string]writerAPI{}
	setup := func(string) error {
		if apis == nil {
			apis = writerAPIs()
			for _, a := range apis {
				byName[a.Name] = a
			}
		}
		return nil
	}
	return &engine.Sub{
		Name: "writers",
		Rule: "every streaming encoder (ToSealedWriter, ToDagCborWriter, ToDagJsonWriter on a delegation and an invocation; the four container writers on 0, 1 and 3 tokens): fault-free, the sink receives the buffered API's bytes (same token set for multi-token containers) and the reported CID is the content address of the sink bytes - also when the sink is a *bytes.Buffer or *bufio.Writer that already holds data, or receives two messages in a row (the CID is the address of what THIS call appended); with a write error injected at write call i - sticky (every later write fails too), as a short write, and transient (only that write fails and takes nothing, later writes succeed) - for every i in [1, N] where N is the number of Write calls of the fault-free run (the last one being the final flush), the call returns an error; non-trivial = executions with an injected fault",
		Bound: func(string) string {
			return "18 writer APIs x (3 pre-filled sinks + every write call x {sticky error, short write, transient error, EINTR / EAGAIN short and empty})"
		},
		Setup: setup,
		Gen: func(tier string, emit func(any) bool) {
			setup(tier)
			for _, a := range apis {
				if !emit(&c18WriteCase{API: a.Name, Call: 0}) {
					return
				}
				if !emit(&c18WriteCase{API: a.Name, Call: -1}) {
					return
				}
			}
		},
		NewCase: func() any { return &c18WriteCase{} },
		Run: func(ctx *engine.Ctx, c any) {
			cs := c.(*c18WriteCase)
			setup(ctx.Tier)
			api := byName[cs.API]
			ctx.States(1)
			clean := &engine.PosWriter{}
			cidStr, err := api.Stream(clean)
			ctx.Eval(1)
			if err != nil {
				ctx.Failf(cs, "writer-fails-without-fault/"+api.Name, "%s fails on a healthy writer: %v", api.Name, err)
				return
			}
			if cs.Call == 0 {
				ctx.Trans(1)
				bb, bcid, err := api.Buffered()
				if err != nil {
					panic(err)
				}
				same := bytes.Equal(bb, clean.Buf)
				if !same && api.SetOf != nil {
					x, e1 := api.SetOf(bb)
					y, e2 := api.SetOf(clean.Buf)
					same = e1 == nil && e2 == nil && x == y && len(bb) == len(clean.Buf)
				}
				if !same {
					ctx.Outcome("stream-differs")
					ctx.Failf(cs, "stream-bytes-differ-from-buffered/"+api.Name, "%s wrote %d bytes that differ from the %d bytes of the buffered call", api.Name, len(clean.Buf), len(bb))
				} else {
					ctx.Outcome("stream-equals-buffered")
				}
				if cidStr != "" && (cidStr != refCID(clean.Buf).String() || cidStr != bcid) {
					ctx.Failf(cs, "writer-cid-wrong/"+api.Name, "%s reported CID %s; sink bytes hash to %s; buffered CID %s", api.Name, cidStr, refCID(clean.Buf), bcid)
				}
				// the sink as the standard library's own writers that already hold data (a frame header, an earlier
				// message): what THIS call appends - and the CID it reports - is what a fresh sink would have received
				for _, kind := range []string{"bytes.Buffer", "bufio.Writer", "bytes.Buffer-twice"} {
					var pre bytes.Buffer
					pre.WriteString("frame-header:")
					var cid2 string
					var err2 error
					before := pre.Len()
					switch kind {
					case "bytes.Buffer":
						cid2, err2 = api.Stream(&pre)
					case "bufio.Writer":
						bw := bufio.NewWriterSize(&pre, 64)
						bw.WriteString("x")
						before++
						if cid2, err2 = api.Stream(bw); err2 == nil {
							err2 = bw.Flush()
						}
					default:
						if _, err2 = api.Stream(&pre); err2 == nil {
							before = pre.Len()
							cid2, err2 = api.Stream(&pre)
						}
					}
					ctx.Eval(1)
					if err2 != nil {
						ctx.Failf(cs, "writer-fails-without-fault/"+api.Name, "%s fails writing into a %s that already holds data: %v", api.Name, kind, err2)
						continue
					}
					wrote := pre.Bytes()[before:]
					okBytes := bytes.Equal(wrote, clean.Buf)
					if !okBytes && api.SetOf != nil {
						x, e1 := api.SetOf(wrote)
						y, e2 := api.SetOf(clean.Buf)
						okBytes = e1 == nil && e2 == nil && x == y && len(wrote) == len(clean.Buf)
					}
					if !okBytes {
						ctx.Failf(cs, "stream-bytes-differ-from-buffered/"+api.Name, "%s appended %d bytes to a %s that already held data; a fresh sink receives %d other bytes", api.Name, len(wrote), kind, len(clean.Buf))
					}
					if cid2 != "" && cid2 != refCID(wrote).String() {
						ctx.Failf(cs, "writer-cid-wrong/"+api.Name, "%s into a %s that already held %d bytes reported CID %s; the %d bytes it appended hash to %s", api.Name, kind, before, cid2, len(wrote), refCID(wrote))
					}
				}
				return
			}
			lo, hi := 1, clean.Calls
			if cs.Call > 0 {
				lo, hi = cs.Call, cs.Call
			}
			for i := lo; i <= hi; i++ {
				for mode := 0; mode < 10; mode++ {
					// modes 3..6: the failing call takes half of the data (or nothing) and fails with EINTR / EAGAIN - an
					// error that invites a retry; later calls succeed. A call that failed has failed: an error, never a CID.
					// modes 7, 8: the failing call reports the error together with the FULL count (len(p), err) - sticky and one-off
					short, transient := mode == 1 || mode == 3 || mode == 5, mode >= 2 && mode != 7
					full := mode >= 7
					var werr error
					switch mode {
					case 3, 4:
						werr = syscall.EINTR
					case 5, 6:
						werr = syscall.EAGAIN
					}
					if cs.Call > 0 && mode != cs.Mode && (cs.Mode != 0 || short != cs.Short || transient != cs.Transient) {
						continue
					}
					w := &engine.PosWriter{FailCall: i, Short: short, Transient: transient, Err: werr, Full: full}
					if mode == 9 {
						// mode 9: call i takes half of the data and says (n/2, nil) - no error although the count is short; the
						// writer goes on normally. Whatever the library makes of it (an error is the honest answer): if it reports
						// success, the bytes in the sink are the buffered call's and the CID is theirs
						w = &engine.PosWriter{FailCall: i, ShortNil: true, Transient: true}
						cid9, err9 := api.Stream(w)
						ctx.Eval(1)
						if err9 == nil && w.Hit {
							okBytes := bytes.Equal(w.Buf, clean.Buf)
							if !okBytes && api.SetOf != nil {
								x, e1 := api.SetOf(w.Buf)
								y, e2 := api.SetOf(clean.Buf)
								okBytes = e1 == nil && e2 == nil && x == y && len(w.Buf) == len(clean.Buf)
							}
							if !okBytes {
								ctx.Failf(&c18WriteCase{API: cs.API, Call: i, Mode: mode}, "success-with-incomplete-output/short-count-without-error/"+strings.Split(api.Name, "[")[0], "%s reports success although write call %d of %d took only half of its data: the sink holds %d bytes, the buffered call produces %d", api.Name, i, clean.Calls, len(w.Buf), len(clean.Buf))
							} else if cid9 != "" && cid9 != refCID(w.Buf).String() {
								ctx.Failf(&c18WriteCase{API: cs.API, Call: i, Mode: mode}, "writer-cid-wrong/short-count-without-error/"+strings.Split(api.Name, "[")[0], "%s reports CID %s after write call %d of %d took only half of its data; the %d bytes in the sink hash to %s", api.Name, cid9, i, clean.Calls, len(w.Buf), refCID(w.Buf))
							}
						}
						continue
					}
					_, err := api.Stream(w)
					ctx.Eval(1)
					ctx.Trans(1)
					ctx.Nontrivial(1)
					if !w.Hit {
						ctx.Outcome("fault-not-reached")
						continue
					}
					if err != nil {
						ctx.Outcome("fault-reported")
						continue
					}
					pos := "middle"
					if i == clean.Calls {
						pos = "last-write"
					}
					ctx.Outcome("fault-swallowed")
					if transient && i != clean.Calls {
						pos = "transient"
					}
					if werr != nil {
						pos += "-" + werr.Error()[:4]
					}
					if full {
						pos += "-error-with-full-count"
					}
					ctx.Failf(&c18WriteCase{API: cs.API, Call: i, Short: short, Transient: transient, Mode: mode}, "write-fault-swallowed/"+strings.ReplaceAll(pos, " ", "-")+"/"+strings.Split(api.Name, "[")[0],
						"%s reports success although write call %d of %d failed (short=%v, later writes succeed=%v): output was not completely written", api.Name, i, clean.Calls, short, transient)
				}
			}
		},
	}
}

func C18() *engine.Check {
	return &engine.Check{
		Property: "C18",
		Level:    "model_checking",
		Subs:     []*engine.Sub{c18ReadSub(), c18WriteSub(), c18ConcSub(), concRaceSub("C18")},
		Assumptions: []string{
			"the harness reader never answers (0, nil); injected read faults are sticky (every later call fails too); write faults are injected sticky, short, transient, and as (len(p), err)",
			"multi-token containers are compared as sets because the container writer iterates a Go map",
			"Ed25519 (deterministic) tokens are used so that streamed and buffered bytes are comparable",
		},
	}
}
