package props

import (
	"fmt"
	"io"
	"sort"
	"strings"
	"sync"
	"time"

	"github.com/ipfs/go-cid"

	"github.com/ucan-wg/go-ucan/pkg/container"
	"github.com/ucan-wg/go-ucan/token/delegation"
	"github.com/ucan-wg/go-ucan/token/invocation"

	"verifharness/engine"
	"verifharness/fixtures"
)

// C01 universe: 36 delegation shapes (iss, aud in P; sub in P+Undef) + MISSING (the loader answers
// ErrDelegationNotFound) + FAILS (the loader fails with another error, e.g. an I/O error).
const c01Missing = 36
const c01Fails = 37
const c01Nil = 38    // the loader answers (nil, nil): no token and no error
const c01Panics = 39 // the loader panics
const c01Last = c01Panics

var errLoaderIO = fmt.Errorf("harness: injected loader failure: %w", io.ErrUnexpectedEOF)

type c01Elem struct{ iss, aud, sub int } // sub == 3 -> Undef

func c01ElemOf(e int) c01Elem { return c01Elem{iss: e / 12, aud: (e / 4) % 3, sub: e % 4} }

// c01Univ is one realisation of the 36-shape universe: unsigned constructed tokens served
// by a harness loader, or sealed tokens decoded again and served by a container.Reader.
type c01Univ struct {
	toks    [36]*delegation.Token
	cids    [40]cid.Cid // cids[36] is a CID no loader knows, cids[37] one for which the loader fails, [38] answers (nil, nil), [39] panics
	loader  delegation.Loader
	sealInv bool // the invocation is sealed with the invoker's key and decoded before the check
}

var c01Universe = &c01Univ{}
var c01SealedUniverse = &c01Univ{sealInv: true}
var c01SealedOnce sync.Once

// c01SealedInit seals every delegation shape with its issuer's key, writes all 36 into one CAR
// container, reads the container back and uses the container.Reader itself as the loader.
func c01SealedInit() {
	c01Init()
	c01SealedOnce.Do(func() {
		u := c01SealedUniverse
		w := container.NewWriter()
		for e := 0; e < 36; e++ {
			el := c01ElemOf(e)
			data, c, err := c01Universe.toks[e].ToSealed(fixtures.ByAlg("ed25519")[el.iss].Priv)
			if err != nil {
				panic(err)
			}
			w.AddSealed(c, data)
			u.cids[e] = c
		}
		for e := 36; e <= c01Last; e++ {
			u.cids[e] = cidPool[e]
		}
		car, err := w.ToCar()
		if err != nil {
			panic(err)
		}
		rd, err := container.FromCar(car)
		if err != nil {
			panic(err)
		}
		for e := 0; e < 36; e++ {
			t, err := rd.GetDelegation(u.cids[e])
			if err != nil {
				panic(fmt.Sprintf("harness: container lost delegation %d: %v", e, err))
			}
			u.toks[e] = t
		}
		u.loader = failingLoader{rd, cidPool[37], cidPool[38], cidPool[39]}
	})
}

// failingLoader answers an I/O error for one CID and delegates everything else.
type failingLoader struct {
	delegation.Loader
	fails  cid.Cid
	nils   cid.Cid // answered with (nil, nil)
	panics cid.Cid
}

func (l failingLoader) GetDelegation(c cid.Cid) (*delegation.Token, error) {
	if c == l.fails {
		return nil, errLoaderIO
	}
	if l.nils.Defined() && c == l.nils {
		return nil, nil
	}
	if l.panics.Defined() && c == l.panics {
		panic("harness: injected loader panic")
	}
	return l.Loader.GetDelegation(c)
}

// mkInv builds the invocation of a state; in the sealed universe it is signed by the invoker and decoded again.
func (u *c01Univ) mkInv(iss, sub int, prf []cid.Cid, opts []invocation.Option) *invocation.Token {
	inv, err := invocation.New(prin(iss), prin(sub), "/a", prf, opts...)
	if err != nil {
		panic(err)
	}
	if !u.sealInv {
		return inv
	}
	data, _, err := inv.ToSealed(fixtures.ByAlg("ed25519")[iss].Priv)
	if err != nil {
		panic(err)
	}
	dec, _, err := invocation.FromSealed(data)
	if err != nil {
		panic(err)
	}
	return dec
}

func c01Init() {
	chainInit()
	if c01Universe.loader != nil {
		return
	}
	m := map[cid.Cid]*delegation.Token{}
	for e := 0; e < 36; e++ {
		el := c01ElemOf(e)
		sub := el.sub
		if sub == 3 {
			sub = -1
		}
		c01Universe.toks[e] = mustDlg(el.iss, el.aud, sub, "/a", nil)
		m[cidPool[e]] = c01Universe.toks[e]
	}
	for e := 0; e <= c01Last; e++ {
		c01Universe.cids[e] = cidPool[e]
	}
	c01Universe.loader = failingLoader{&posLoader{byCid: m}, cidPool[37], cidPool[38], cidPool[39]}
}

type c01Case struct {
	Iss    int   `json:"iss"`
	Sub    int   `json:"sub"`
	Chain  []int `json:"chain"`  // element ids, 36 = missing delegation
	Expand int   `json:"expand"` // also explore every extension by up to Expand more elements
}

func (c *c01Case) Weight() int { return len(c.Chain) }

const (
	rNoProof = 1 << iota
	rMissing
	rFirstAud
	rLink
	rRoot
	rSubject
)

var c01RuleNames = []string{"noProof", "missing", "firstAud", "link", "root", "subject"}

func ruleNames(mask int) string {
	var r []string
	for i, n := range c01RuleNames {
		if mask&(1<<i) != 0 {
			r = append(r, n)
		}
	}
	sort.Strings(r)
	return strings.Join(r, "+")
}

// c01Ref is the reference: which of C01's rules does (iss, sub, chain) violate.
func c01Ref(iss, sub int, chain []int) int {
	mask := 0
	if len(chain) == 0 {
		return rNoProof
	}
	for _, e := range chain {
		if e >= c01Missing {
			mask |= rMissing
		}
	}
	if mask != 0 {
		// alignment of the loadable links is still evaluated below where possible,
		// but a missing delegation alone already forbids "allowed".
	}
	get := func(i int) (c01Elem, bool) {
		if chain[i] >= c01Missing {
			return c01Elem{}, false
		}
		return c01ElemOf(chain[i]), true
	}
	if d0, ok := get(0); ok && d0.aud != iss {
		mask |= rFirstAud
	}
	for i := 0; i+1 < len(chain); i++ {
		a, ok1 := get(i)
		b, ok2 := get(i + 1)
		if ok1 && ok2 && a.iss != b.aud {
			mask |= rLink
		}
	}
	if last, ok := get(len(chain) - 1); ok && last.iss != last.sub {
		mask |= rRoot
	}
	for i := range chain {
		if d, ok := get(i); ok && d.sub != sub {
			mask |= rSubject
		}
	}
	return mask
}

func popcount(x int) int {
	n := 0
	for ; x != 0; x &= x - 1 {
		n++
	}
	return n
}

// c01Eval executes one state on the real code for all four audience values.
func c01Eval(ctx *engine.Ctx, u *c01Univ, dir string, iss, sub int, chain []int, scratch *[8]cid.Cid) {
	mask := c01Ref(iss, sub, chain)
	// The proof list handed to invocation.New is a slice of ONE caller-owned array that is refilled in
	// place for every state of the case (an application building many invocations from a reused buffer):
	// nothing may remember an earlier content of that array.
	prf := scratch[:len(chain)]
	for i, e := range chain {
		prf[i] = u.cids[e]
	}
	ctx.States(1)
	if popcount(mask) <= 1 {
		ctx.Nontrivial(1)
	}
	var first string
	for aud := -1; aud <= 2; aud++ {
		opts := []invocation.Option{invocation.WithNonce(fixedNonce), invocation.WithoutInvokedAt()}
		if aud >= 0 {
			opts = append(opts, invocation.WithAudience(prin(aud)))
		}
		inv := u.mkInv(iss, sub, prf, opts)
		e1, e2 := bothVerdictsGuarded(inv, u.loader)
		ctx.Eval(2)
		// the other optional fields of an invocation have no say either: the same invocation with a cause, an expiration
		// far away and metadata gets the same two verdicts
		if aud >= 0 {
			cause := cidPool[5]
			full := u.mkInv(iss, sub, prf, append(append([]invocation.Option{}, opts...), invocation.WithCause(&cause), invocation.WithExpiration(time.Date(2200, 1, 1, 0, 0, 0, 0, time.UTC)), invocation.WithMeta("k", "v")))
			f1, f2 := bothVerdictsGuarded(full, u.loader)
			ctx.Eval(2)
			if (f1 == nil) != (e1 == nil) || (f2 == nil) != (e2 == nil) {
				ctx.Failf(&c01Case{Iss: iss, Sub: sub, Chain: append([]int{}, chain...)}, "optional-fields-change-the-decision", "inv(iss=p%d,sub=p%d,aud=%d) with chain %v: %s without cause / expiration / metadata, %s with them", iss, sub, aud, c01Describe(chain), errLabel(e1), errLabel(f1))
			}
		}
		l1, l2 := errLabel(e1), errLabel(e2)
		ctx.Outcome(l1)
		ctx.Outcome("hook:" + l2)
		audTag := ""
		if aud >= 0 && aud != sub {
			audTag = "/aud-set"
		}
		mk := func() *c01Case { return &c01Case{Iss: iss, Sub: sub, Chain: append([]int{}, chain...)} }
		if dir == "sound" && mask != 0 && aud < 0 {
			oddHooksRefuse(ctx, mk(), inv, u.loader, "rules {"+ruleNames(mask)+"} are violated")
			if len(prf) <= 2 {
				loaderPanicsRefuse(ctx, mk(), inv, u.loader, prf, "rules {"+ruleNames(mask)+"} are violated")
			}
			// the same chain behind an invocation of a command from the namespace the UCAN specifications reserve for
			// themselves, with the argument such an invocation carries (the CID of the first proof): the alignment
			// rules are the same for every command (the delegations grant /a: it is refused in any case)
			if len(prf) > 0 {
				for _, cmd := range []string{"/ucan/revoke", "/ucan"} {
					spec, err := invocation.New(prin(iss), prin(sub), commandOf(cmd), prf, append(append([]invocation.Option{}, opts...), invocation.WithArgument("ucan", prf[0]))...)
					if err != nil {
						panic(err)
					}
					s1, s2 := bothVerdictsGuarded(spec, u.loader)
					ctx.Eval(2)
					if s1 == nil || s2 == nil {
						ctx.Failf(mk(), "allowed-despite:"+ruleNames(mask)+"/invoking-"+cmd[1:], "an invocation of %s (argument ucan = first proof) with chain %v is allowed although rules {%s} are violated and the delegations grant /a", cmd, c01Describe(chain), ruleNames(mask))
					}
				}
			}
		}
		for k, e := range []error{e1, e2} {
			api := [2]string{"ExecutionAllowed", "ExecutionAllowedWithArgsHook"}[k]
			if dir == "sound" && e == nil && mask != 0 {
				ctx.Failf(mk(), "allowed-despite:"+ruleNames(mask)+audTag,
					"%s allowed inv(iss=p%d,sub=p%d,aud=%d) with chain %v although rules {%s} are violated", api, iss, sub, aud, c01Describe(chain), ruleNames(mask))
			}
			if dir == "complete" && e != nil && mask == 0 {
				ctx.Failf(mk(), "denied-conforming:"+errLabel(e)+audTag,
					"%s denied inv(iss=p%d,sub=p%d,aud=%d) with rule-conforming chain %v: %v", api, iss, sub, aud, c01Describe(chain), e)
			}
		}
		// Histories on one token value: the decision is taken against the loader of *this* call.
		// After an allowed check, the same token checked with a loader that lost any one of the
		// referenced delegations must be denied; and a token first denied for a missing
		// delegation must be allowed once the loader is complete.
		if e1 == nil && mask == 0 {
			for drop := range chain {
				part := &posLoader{byCid: map[cid.Cid]*delegation.Token{}}
				for k, e := range chain {
					if k != drop && e != chain[drop] && e < c01Missing {
						part.byCid[u.cids[e]] = u.toks[e]
					}
				}
				ctx.Eval(2)
				ctx.Trans(2)
				if err := inv.ExecutionAllowed(part); err == nil {
					ctx.Failf(mk(), "stale-verdict/allowed-after-delegation-became-unavailable", "inv(iss=p%d,sub=p%d) with chain %v: allowed once, then still allowed by a loader that cannot load proof #%d", iss, sub, c01Describe(chain), drop)
				}
				fresh := u.mkInv(iss, sub, prf, opts)
				if err := fresh.ExecutionAllowed(part); err == nil {
					ctx.Failf(mk(), "allowed-despite:missing", "fresh inv(iss=p%d,sub=p%d) allowed by a loader that cannot load proof #%d of %v", iss, sub, drop, c01Describe(chain))
				} else if err := fresh.ExecutionAllowed(u.loader); err != nil && dir == "complete" {
					ctx.Failf(mk(), "stale-verdict/denied-after-delegation-became-available", "inv(iss=p%d,sub=p%d) with chain %v: denied for a missing delegation, then still denied with a complete loader: %v", iss, sub, c01Describe(chain), err)
				}
			}
			if err := inv.ExecutionAllowed(u.loader); err != nil && dir == "complete" {
				ctx.Failf(mk(), "verdict-not-repeatable", "inv(iss=p%d,sub=p%d) with chain %v: allowed, then denied on the next identical check: %v", iss, sub, c01Describe(chain), err)
			}
		}
		v := fmt.Sprint(e1 == nil, e2 == nil)
		if aud == -1 {
			first = v
		} else if v != first && dir == "sound" {
			ctx.Failf(mk(), "audience-dependent", "verdict of inv(iss=p%d,sub=p%d) with chain %v changes with the audience: none->%s, p%d->%s", iss, sub, c01Describe(chain), first, aud, v)
		}
	}
}

func c01Describe(chain []int) string {
	var parts []string
	for _, e := range chain {
		if e == c01Missing {
			parts = append(parts, "MISSING")
			continue
		}
		if e == c01Fails {
			parts = append(parts, "LOADER-ERROR")
			continue
		}
		if e == c01Nil {
			parts = append(parts, "LOADER-ANSWERS-NIL-NIL")
			continue
		}
		if e == c01Panics {
			parts = append(parts, "LOADER-PANICS")
			continue
		}
		el := c01ElemOf(e)
		s := "-"
		if el.sub < 3 {
			s = fmt.Sprintf("p%d", el.sub)
		}
		parts = append(parts, fmt.Sprintf("dlg(iss=p%d,aud=p%d,sub=%s)", el.iss, el.aud, s))
	}
	return "[" + strings.Join(parts, " ") + "]"
}

func c01Run(u *c01Univ, dir string) func(ctx *engine.Ctx, c any) {
	return func(ctx *engine.Ctx, c any) {
		cs := c.(*c01Case)
		var scratch [8]cid.Cid
		var rec func(chain []int, left int)
		rec = func(chain []int, left int) {
			c01Eval(ctx, u, dir, cs.Iss, cs.Sub, chain, &scratch)
			if left == 0 {
				return
			}
			for e := 0; e <= c01Last; e++ {
				ctx.Trans(1)
				rec(append(chain, e), left-1)
			}
		}
		ch := append(make([]int, 0, len(cs.Chain)+cs.Expand), cs.Chain...)
		rec(ch, cs.Expand)
	}
}

// c01Sub builds the principal-alignment universe; dir selects which direction of
// the comparison with the reference is charged ("sound" = C01, "complete" = C05).
func c01Sub(name, dir string, qn, tn int) *engine.Sub {
	return &engine.Sub{
		Name: name,
		Rule: "explicit-state search: state = (invoker, subject, proof list over 36 delegation shapes + MISSING), transition = append one element (MISSING = the loader answers not-found, LOADER-ERROR = it fails with an I/O error, NIL-NIL = it returns neither a token nor an error, PANICS = it panics: a panic that reaches the caller is not a verdict, 'allowed' would be); the proof slices of all states of a case share one caller-owned array that is refilled in place; every state runs ExecutionAllowed and ExecutionAllowedWithArgsHook for audience in {none,p0,p1,p2}; non-trivial = states violating at most one rule kind",
		Bound: func(t string) string {
			return fmt.Sprintf("3 principals, proof lists of length 0..%d over 40 elements, 9 (invoker,subject) pairs x 4 audiences x 2 APIs", tierN(t, qn, tn))
		},
		Setup: func(string) error { c01Init(); return nil },
		Gen: func(tier string, emit func(any) bool) {
			n := tierN(tier, qn, tn)
			for iss := 0; iss < 3; iss++ {
				for sub := 0; sub < 3; sub++ {
					if !emit(&c01Case{Iss: iss, Sub: sub, Chain: []int{}}) {
						return
					}
				}
			}
			if n < 1 {
				return
			}
			for iss := 0; iss < 3; iss++ {
				for sub := 0; sub < 3; sub++ {
					for a := 0; a <= c01Last; a++ {
						if n == 1 {
							if !emit(&c01Case{Iss: iss, Sub: sub, Chain: []int{a}}) {
								return
							}
							continue
						}
						if !emit(&c01Case{Iss: iss, Sub: sub, Chain: []int{a}}) {
							return
						}
						for b := 0; b <= c01Last; b++ {
							if !emit(&c01Case{Iss: iss, Sub: sub, Chain: []int{a, b}, Expand: n - 2}) {
								return
							}
						}
					}
				}
			}
		},
		NewCase: func() any { return &c01Case{} },
		Run:     c01Run(c01Universe, dir),
	}
}

// c01SealedSub is the same universe end to end: every delegation sealed by its issuer, carried in
// a CAR container, decoded by container.FromCar and served by the container.Reader (a real
// delegation.Loader); the invocation refers to the true CIDs, is sealed by the invoker and decoded.
func c01SealedSub(name, dir string, qn, tn int) *engine.Sub {
	sub := c01Sub(name, dir, qn, tn)
	sub.Rule = "the principal-alignment universe end to end: the 36 delegation shapes are sealed with their issuers' keys, written to one CAR container, read back with container.FromCar and served by the container.Reader itself as delegation.Loader; proof lists hold the true CIDs (plus one CID the container does not know); the invocation is sealed with the invoker's key and decoded before ExecutionAllowed / ExecutionAllowedWithArgsHook run, for audience in {none,p0,p1,p2}; same reference and same-token histories as principal-alignment; non-trivial = states violating at most one rule kind"
	sub.Setup = func(string) error { c01SealedInit(); return nil }
	sub.Run = c01Run(c01SealedUniverse, dir)
	return sub
}

func C01() *engine.Check {
	return &engine.Check{
		Property: "C01",
		Level:    "model_checking",
		Subs:     []*engine.Sub{c01Sub("principal-alignment", "sound", 3, 4), c01SealedSub("sealed-tokens-through-container", "sound", 2, 3), c01FormsSub(), c01CollideSub(), c01NearSub(), clockSub("C01"), longChainSub("C01"), authConcSub("C01"), concRaceSub("C01")},
		Assumptions: []string{
			"three distinct Ed25519 principals; DIDs are used by the validator only through ==",
			"principal-alignment: tokens are unsigned in-memory values served by a harness delegation.Loader (signature checking is C06's business); sealed-tokens-through-container: the same universe with every token signed, encoded, carried in a CAR container and decoded again",
			"all commands equal, empty policies, no time bounds: only the principal rules can fire",
		},
	}
}
