package props

import (
	"bufio"
	"bytes"
	"crypto/sha512"
	"encoding/base64"
	"encoding/hex"
	"fmt"
	"io"
	"sort"
	"strings"
	"sync"

	"github.com/ipfs/go-cid"
	"github.com/multiformats/go-multihash"

	"github.com/ucan-wg/go-ucan/pkg/container"
	"github.com/ucan-wg/go-ucan/token/delegation"
	"github.com/ucan-wg/go-ucan/token/invocation"

	"verifharness/engine"
	"verifharness/fixtures"
)

var c17Pool = []string{"dlg", "inv", "dlg2", "inv2"}

type c17Case struct {
	Order   []int  `json:"order"`  // indexes into the pool, in insertion order
	Format  string `json:"format"` // car | car64 | cbor | cbor64
	WStream bool   `json:"w_stream"`
	RStream bool   `json:"r_stream"`
}

func (c *c17Case) Weight() int { return len(c.Order) }

func writeContainer(w container.Writer, format string, stream bool) ([]byte, error) {
	if !stream {
		switch format {
		case "car":
			return w.ToCar()
		case "car64":
			return w.ToCarBase64()
		case "cbor":
			return w.ToCbor()
		case "cbor64":
			return w.ToCborBase64()
		}
	}
	var buf bytes.Buffer
	var err error
	switch format {
	case "car":
		err = w.ToCarWriter(&buf)
	case "car64":
		err = w.ToCarBase64Writer(&buf)
	case "cbor":
		err = w.ToCborWriter(&buf)
	case "cbor64":
		err = w.ToCborBase64Writer(&buf)
	}
	return buf.Bytes(), err
}

func readContainer(data []byte, format string, stream bool) (container.Reader, error) {
	if !stream {
		switch format {
		case "car":
			return container.FromCar(data)
		case "car64":
			return container.FromCarBase64(data)
		case "cbor":
			return container.FromCbor(data)
		case "cbor64":
			return container.FromCborBase64(data)
		}
	}
	r := &chunkReader{data: data, chunk: 5}
	switch format {
	case "car":
		return container.FromCarReader(r)
	case "car64":
		return container.FromCarBase64Reader(r)
	case "cbor":
		return container.FromCborReader(r)
	case "cbor64":
		return container.FromCborBase64Reader(r)
	}
	panic(format)
}

// expectedSetView is the view of the exact set of tokens named by idx.
func expectedSetView(names []string) string {
	var es []string
	seen := map[string]bool{}
	for _, n := range names {
		if seen[n] {
			continue
		}
		seen[n] = true
		t := ioToken(n)
		c := t.Cid
		es = append(es, viewString(t.Tok, &c))
	}
	sort.Strings(es)
	return fmt.Sprintf("container[%d]{%s}", len(es), strings.Join(es, " | "))
}

func c17RoundtripSub() *engine.Sub {
	return &engine.Sub{
		Name:  "roundtrip-matrix",
		Rule:  "every subset of a 4-token pool (2 delegations, 2 invocations; Ed25519, P-256, secp256k1 issuers) in every insertion order x format {CAR, CAR/base64, CBOR, CBOR/base64} x writer {bytes, stream} x reader {bytes, stream}: the reader holds exactly the tokens added, each under the reference CID of its sealed bytes with all fields equal, and the typed accessors (GetToken, GetDelegation, GetInvocation, GetAll*) agree with that set; non-trivial = non-empty subsets",
		Bound: func(string) string { return "65 ordered subsets x 4 formats x 2 writers x 2 readers" },
		Gen: func(tier string, emit func(any) bool) {
			var orders [][]int
			var rec func(cur []int, used int)
			rec = func(cur []int, used int) {
				orders = append(orders, append([]int{}, cur...))
				for i := 0; i < 4; i++ {
					if used&(1<<i) == 0 {
						rec(append(cur, i), used|1<<i)
					}
				}
			}
			rec(nil, 0)
			for _, o := range orders {
				for _, f := range []string{"car", "car64", "cbor", "cbor64"} {
					for _, ws := range []bool{false, true} {
						for _, rs := range []bool{false, true} {
							if !emit(&c17Case{Order: o, Format: f, WStream: ws, RStream: rs}) {
								return
							}
						}
					}
				}
			}
		},
		NewCase: func() any { return &c17Case{} },
		Run: func(ctx *engine.Ctx, c any) {
			cs := c.(*c17Case)
			w := container.NewWriter()
			var names []string
			for _, i := range cs.Order {
				t := ioToken(c17Pool[i])
				w.AddSealed(t.Cid, t.Sealed)
				names = append(names, c17Pool[i])
			}
			ctx.States(1)
			if len(names) > 0 {
				ctx.Nontrivial(1)
			}
			cell := fmt.Sprintf("%s/w-stream=%v/r-stream=%v", cs.Format, cs.WStream, cs.RStream)
			data, err := writeContainer(w, cs.Format, cs.WStream)
			ctx.Eval(1)
			if err != nil {
				ctx.Outcome("write-error")
				ctx.Failf(cs, "write-fails/"+cs.Format, "writing %v as %s fails: %v", names, cell, err)
				return
			}
			r, err := readContainer(data, cs.Format, cs.RStream)
			ctx.Eval(1)
			ctx.Trans(1)
			if err != nil {
				ctx.Outcome("read-error")
				ctx.Failf(cs, fmt.Sprintf("read-fails/%s/r-stream=%v", cs.Format, cs.RStream), "reading back %v (%s) fails: %v", names, cell, err)
				return
			}
			if got, want := containerView(r), expectedSetView(names); got != want {
				ctx.Outcome("set-differs")
				ctx.Failf(cs, "roundtrip-set-differs/"+cs.Format, "reading back %v (%s) yields %d entries that differ from the %d tokens added", names, cell, len(r), len(names))
				return
			}
			ctx.Outcome("roundtrip-ok")
			// accessors
			nd, ni := 0, 0
			for _, n := range names {
				t := ioToken(n)
				tk, err := r.GetToken(t.Cid)
				if err != nil || viewString(tk, nil) != viewString(t.Tok, nil) {
					ctx.Failf(cs, "accessor/GetToken", "GetToken(%s) fails or differs: %v", n, err)
				}
				if strings.HasPrefix(n, "dlg") {
					nd++
					d, err := r.GetDelegation(t.Cid)
					if err != nil || viewString(d, nil) != viewString(t.Tok, nil) {
						ctx.Failf(cs, "accessor/GetDelegation", "GetDelegation(%s) fails or differs: %v", n, err)
					}
				} else {
					ni++
					if _, err := r.GetDelegation(t.Cid); err == nil {
						ctx.Failf(cs, "accessor/GetDelegation-returns-invocation", "GetDelegation returns an invocation for %s", n)
					}
				}
			}
			if _, err := r.GetToken(cidPool[9]); err == nil {
				ctx.Failf(cs, "accessor/GetToken-unknown", "GetToken returns a token for an unknown CID")
			}
			cd, ci := 0, 0
			for _, d := range r.GetAllDelegations() {
				var _ *delegation.Token = d
				cd++
			}
			for _, i := range r.GetAllInvocations() {
				var _ *invocation.Token = i
				ci++
			}
			if cd != nd || ci != ni {
				ctx.Failf(cs, "accessor/GetAll-counts", "GetAllDelegations/GetAllInvocations yield %d/%d, want %d/%d", cd, ci, nd, ni)
			}
			inv, err := r.GetInvocation()
			switch {
			case ni == 0 && err == nil, ni > 1 && err == nil, ni == 1 && (err != nil || inv == nil):
				ctx.Failf(cs, "accessor/GetInvocation", "GetInvocation with %d invocations: err=%v", ni, err)
			}
		},
	}
}

type c17CorruptCase struct {
	ArtHex string `json:"artefact_hex,omitempty"` // witnesses carry the container bytes (block order follows Go map iteration)
	Format string `json:"format"`
	Op     string `json:"op"` // bitflip | subst | truncate
	Off    int    `json:"off"`
	Val    int    `json:"val"` // -1 = all
}

// Ed25519 tokens only: their sealed bytes are deterministic, so offsets in a replay file stay meaningful
var c17CorruptNames = []string{"dlg", "inv", "dlg3"}

func c17CorruptSub() *engine.Sub {
	arts := map[string]ioArtefact{}
	setup := func(string) error {
		if len(arts) == 0 {
			for _, f := range []string{"car", "car64", "cbor", "cbor64"} {
				arts[f] = buildContainer(f, c17CorruptNames)
			}
		}
		return nil
	}
	return &engine.Sub{
		Name: "single-entry-corruption",
		Rule: "a written 3-token container of each format: every single-bit flip (and, in thorough, every byte substitution) at every offset and every truncation length, read through the byte-slice and the stream reader: the read fails, or returns exactly the original set under the true CIDs (a flip in a non-semantic byte), or - for a CAR cut exactly at a block boundary - exactly the blocks before the cut; never a subset, superset or mislabelled entry; non-trivial = all",
		Bound: func(t string) string {
			if t == "thorough" {
				return "4 formats x every offset x (8 bit flips + 255 substitutions + truncation) x 2 readers"
			}
			return "4 formats x every offset x (8 bit flips + truncation) x 2 readers"
		},
		Setup: setup,
		Gen: func(tier string, emit func(any) bool) {
			setup(tier)
			ops := []string{"bitflip", "truncate"}
			if tier == "thorough" {
				ops = append(ops, "subst")
			}
			for _, f := range []string{"car", "car64", "cbor", "cbor64"} {
				for _, op := range ops {
					for off := 0; off < len(arts[f].Data); off++ {
						if !emit(&c17CorruptCase{Format: f, Op: op, Off: off, Val: -1}) {
							return
						}
					}
				}
			}
		},
		NewCase: func() any { return &c17CorruptCase{Val: -1} },
		Run: func(ctx *engine.Ctx, c any) {
			cs := c.(*c17CorruptCase)
			setup(ctx.Tier)
			a := arts[cs.Format]
			if cs.ArtHex != "" {
				a.Data, _ = hex.DecodeString(cs.ArtHex)
				if a.Format == "car" {
					a.Boundaries = carBoundaries(a.Data)
				}
			}
			want := expectedSetView(c17CorruptNames)
			ctx.States(1)
			lo, hi := 0, c06ValRange(cs.Op)
			if cs.Val >= 0 {
				lo, hi = cs.Val, cs.Val+1
			}
			for v := lo; v < hi; v++ {
				if cs.Op == "subst" && byte(v) == a.Data[cs.Off] {
					continue
				}
				m := c06Mutate(a.Data, cs.Op, cs.Off, v)
				ctx.Nontrivial(1)
				for _, stream := range []bool{false, true} {
					ctx.Eval(1)
					ctx.Trans(1)
					r, err := readContainer(m, cs.Format, stream)
					if err != nil {
						ctx.Outcome("rejected")
						continue
					}
					got := containerView(r)
					if got == want {
						ctx.Outcome("accepted-original-set")
						continue
					}
					if cs.Op == "truncate" {
						if exp, ok := carPrefixExpected(a, cs.Off); ok && got == exp {
							ctx.Outcome("car-boundary-cut")
							continue
						}
					}
					ctx.Outcome("accepted-wrong-set")
					rc := &c17CorruptCase{Format: cs.Format, Op: cs.Op, Off: cs.Off, Val: v, ArtHex: hex.EncodeToString(a.Data)}
					ctx.Failf(rc, fmt.Sprintf("corrupt-container-accepted/%s/%s", cs.Format, cs.Op), "%s of the %s container at offset %d (value %d, stream=%v) is read as %d entries that are not the original set", cs.Op, cs.Format, cs.Off, v, stream, len(r))
				}
			}
		},
	}
}

type c17WrongCidCase struct {
	Format string `json:"format"`
	Class  string `json:"class"`
}

func c17WrongCidSub() *engine.Sub {
	classes := []string{"other-tokens-cid", "same-digest-raw-codec", "sha2-512-of-data", "identity-of-data", "identity-of-other-data", "wrong-digest", "cidv0-of-data"}
	return &engine.Sub{
		Name:  "block-stored-under-wrong-cid",
		Rule:  "a container written with AddSealed(cid', data) where cid' is another token's CID, a wrong digest, the identity hash of other data (must be rejected by a CAR reader: the CID does not hash to the data) or a different-but-correct address of the same data (raw codec, SHA2-512, identity, CIDv0: may be accepted); whatever is accepted holds the token under the reference CID of its sealed bytes; non-trivial = all",
		Bound: func(string) string { return fmt.Sprintf("%d CID classes x 4 formats x 2 readers", len(classes)) },
		Gen: func(tier string, emit func(any) bool) {
			for _, f := range []string{"car", "car64", "cbor", "cbor64"} {
				for _, cl := range classes {
					if !emit(&c17WrongCidCase{f, cl}) {
						return
					}
				}
			}
		},
		NewCase: func() any { return &c17WrongCidCase{} },
		Run: func(ctx *engine.Ctx, c any) {
			cs := c.(*c17WrongCidCase)
			t, o := ioToken("dlg"), ioToken("inv")
			mh := func(code uint64, digest []byte) multihash.Multihash {
				m, err := multihash.Encode(digest, code)
				if err != nil {
					panic(err)
				}
				return m
			}
			sha256of := t.Cid.Hash()
			var wrong cid.Cid
			mismatch := false
			switch cs.Class {
			case "other-tokens-cid":
				wrong, mismatch = o.Cid, true
			case "same-digest-raw-codec":
				wrong = cid.NewCidV1(0x55, sha256of)
			case "sha2-512-of-data":
				d := sha512.Sum512(t.Sealed)
				wrong = cid.NewCidV1(0x71, mh(multihash.SHA2_512, d[:]))
			case "identity-of-data":
				wrong = cid.NewCidV1(0x71, mh(multihash.IDENTITY, t.Sealed))
			case "identity-of-other-data":
				wrong, mismatch = cid.NewCidV1(0x71, mh(multihash.IDENTITY, o.Sealed)), true
			case "wrong-digest":
				d := append([]byte{}, []byte(sha256of)[2:]...)
				d[0] ^= 1
				wrong, mismatch = cid.NewCidV1(0x71, mh(multihash.SHA2_256, d)), true
			case "cidv0-of-data":
				wrong = cid.NewCidV0(sha256of)
			}
			w := container.NewWriter()
			w.AddSealed(wrong, t.Sealed)
			ctx.States(1)
			ctx.Nontrivial(1)
			data, err := writeContainer(w, cs.Format, false)
			if err != nil {
				ctx.Outcome("write-error")
				return
			}
			for _, stream := range []bool{false, true} {
				ctx.Eval(1)
				ctx.Trans(1)
				r, err := readContainer(data, cs.Format, stream)
				if err != nil {
					ctx.Outcome("rejected")
					continue
				}
				ctx.Outcome("accepted")
				isCar := strings.HasPrefix(cs.Format, "car")
				if isCar && mismatch {
					ctx.Failf(cs, "car-block-under-mismatching-cid-accepted/"+cs.Class, "a CAR block stored under a CID that does not hash to its data (%s) is accepted", cs.Class)
				}
				if containerView(r) != expectedSetView([]string{"dlg"}) {
					ctx.Failf(cs, "mislabelled-entry/"+cs.Class, "the reader does not hold exactly the token under the CID of its sealed bytes (%s, %s)", cs.Class, cs.Format)
				}
			}
		},
	}
}

type c17SeqCase struct {
	Format string `json:"format"`
	A      []int  `json:"a"`
	B      []int  `json:"b"`
	Rounds int    `json:"rounds"`
}

// c17SeqSub: the bytes returned by a byte-slice writer belong to the caller: writing
// another container afterwards must not change them.
func c17SeqSub() *engine.Sub {
	sets := [][]int{{0}, {1}, {0, 1}, {2, 3}, {0, 1, 2, 3}, {}}
	return &engine.Sub{
		Name:   "written-bytes-are-self-contained",
		Serial: true,
		Rule:   "histories: container A is written with the byte-slice writer, then a different container B is written (several rounds, also through the stream writer into a fresh buffer), then A's bytes are compared with a private copy taken right after the first write and read back: they must be unchanged and still hold exactly A's tokens (a returned slice must not alias a buffer that a later call reuses); non-trivial = all",
		Bound:  func(string) string { return "4 formats x 30 ordered pairs of token sets x 8 rounds" },
		Gen: func(tier string, emit func(any) bool) {
			for _, f := range []string{"car", "car64", "cbor", "cbor64"} {
				for i, a := range sets {
					for j, b := range sets {
						if i != j {
							if !emit(&c17SeqCase{Format: f, A: a, B: b, Rounds: 8}) {
								return
							}
						}
					}
				}
			}
		},
		NewCase: func() any { return &c17SeqCase{} },
		Run: func(ctx *engine.Ctx, c any) {
			cs := c.(*c17SeqCase)
			mk := func(idx []int) (container.Writer, []string) {
				w := container.NewWriter()
				var names []string
				for _, i := range idx {
					t := ioToken(c17Pool[i])
					w.AddSealed(t.Cid, t.Sealed)
					names = append(names, c17Pool[i])
				}
				return w, names
			}
			wa, na := mk(cs.A)
			wb, _ := mk(cs.B)
			ctx.States(1)
			ctx.Nontrivial(1)
			for round := 0; round < cs.Rounds; round++ {
				a, err := writeContainer(wa, cs.Format, false)
				ctx.Eval(1)
				if err != nil {
					ctx.Failf(cs, "write-fails/"+cs.Format, "writing fails: %v", err)
					return
				}
				keep := append([]byte{}, a...)
				for k := 0; k < 3; k++ {
					if _, err := writeContainer(wb, cs.Format, k == 1); err != nil {
						ctx.Failf(cs, "write-fails/"+cs.Format, "writing fails: %v", err)
						return
					}
					ctx.Eval(1)
					ctx.Trans(1)
				}
				if !bytes.Equal(a, keep) {
					ctx.Outcome("returned-bytes-changed")
					ctx.Failf(cs, "returned-bytes-overwritten-by-later-write/"+cs.Format, "the bytes returned for container %v changed after container %v was written (%s, round %d)", cs.A, cs.B, cs.Format, round)
					return
				}
				r, err := readContainer(a, cs.Format, false)
				if err != nil || containerView(r) != expectedSetView(na) {
					ctx.Outcome("readback-differs")
					ctx.Failf(cs, "written-container-unreadable-after-later-write/"+cs.Format, "container %v written before %v no longer reads back as itself (%s): %v", cs.A, cs.B, cs.Format, err)
					return
				}
			}
			ctx.Outcome("self-contained")
		},
	}
}

type c17RawCarCase struct {
	Layout string `json:"layout"`
}

// c17RawCarSub: CAR files assembled byte by byte (the Writer cannot express duplicates or relabelled blocks).
func c17RawCarSub() *engine.Sub {
	layouts := []string{"A,B", "A,A", "A,B@cidA", "B@cidA,A", "A,B,B@cidA", "A,B@cidA,B", "A@cidB,B@cidA", "A,B@cidA,C", "A,C,B@cidC", "A,B,A"}
	// complete sections whose payload is not cid || token: the first bytes of a CID only, a CID without data, a CID
	// followed by one byte - before, between and after intact entries
	for _, x := range []string{"X01", "X0101", "X010171", "X01017112", "X0101711220", "X12", "X1220", "Xff", "XCIDA", "XCIDA00", "XCIDAa0"} {
		layouts = append(layouts, x+",A,B", "A,"+x+",B", "A,B,"+x, x)
	}
	// raw zero bytes where a section should start: one, a few, many, as many as the section of C occupies (the last entry
	// overwritten with zeros from its length prefix to the end of the file), at the end and in the middle
	layouts = append(layouts, "A,B,Z1", "A,B,Z2", "A,B,Z9", "A,B,Z300", "A,B,ZC", "A,ZC,B", "Z1", "ZC", "A,Z1,B")
	return &engine.Sub{
		Name:  "hand-built-car-files",
		Rule:  "CAR streams assembled by the harness from a header and sections (cid || data; also runs of zero bytes where a section should start - an entry overwritten with zeros): duplicates of a block, blocks stored under the CID of ANOTHER block of the same file at every relative position, and complete sections that hold no (cid, token) pair (the first 1-5 bytes of a CID, a CID without data, a CID plus one byte) before, between and after intact entries. A file containing such a section or a block whose CID does not hash to its data must be rejected by all four CAR readers; a file with honest duplicates reads as the set of its tokens; never a partial set; non-trivial = all",
		Bound: func(string) string { return fmt.Sprintf("%d layouts over 3 tokens x 4 CAR readers", len(layouts)) },
		Gen: func(tier string, emit func(any) bool) {
			for _, l := range layouts {
				if !emit(&c17RawCarCase{l}) {
					return
				}
			}
		},
		NewCase: func() any { return &c17RawCarCase{} },
		Run: func(ctx *engine.Ctx, c any) {
			cs := c.(*c17RawCarCase)
			toks := map[string]*sealedTok{"A": ioToken("dlg"), "B": ioToken("inv"), "C": ioToken("dlg3")}
			names := map[string]string{"A": "dlg", "B": "inv", "C": "dlg3"}
			car := append([]byte{}, buildContainer("car", nil).Data...)
			uv := func(x int) []byte {
				b := make([]byte, 10)
				n := 0
				for x >= 0x80 {
					b[n] = byte(x) | 0x80
					x >>= 7
					n++
				}
				b[n] = byte(x)
				return b[:n+1]
			}
			honest := true
			var present []string
			for _, sec := range strings.Split(cs.Layout, ",") {
				if sec[0] == 'Z' {
					honest = false
					n := 0
					if sec == "ZC" {
						body := len(toks["C"].Cid.Bytes()) + len(toks["C"].Sealed)
						n = len(uv(body)) + body
					} else {
						fmt.Sscanf(sec[1:], "%d", &n)
					}
					car = append(car, make([]byte, n)...)
					continue
				}
				if sec[0] == 'X' {
					honest = false
					var body []byte
					h := sec[1:]
					if strings.HasPrefix(h, "CIDA") {
						body = append(body, toks["A"].Cid.Bytes()...)
						h = h[4:]
					}
					rest, err := hex.DecodeString(h)
					if err != nil {
						panic(err)
					}
					body = append(body, rest...)
					car = append(append(car, uv(len(body))...), body...)
					continue
				}
				data := toks[sec[:1]].Sealed
				c := toks[sec[:1]].Cid
				if i := strings.Index(sec, "@cid"); i > 0 {
					c = toks[sec[i+4:]].Cid
					honest = false
				}
				present = append(present, names[sec[:1]])
				body := append(append([]byte{}, c.Bytes()...), data...)
				car = append(append(car, uv(len(body))...), body...)
			}
			ctx.States(1)
			ctx.Nontrivial(1)
			for _, format := range []string{"car", "car64"} {
				data := car
				if format == "car64" {
					data = []byte(base64.StdEncoding.EncodeToString(car))
				}
				for _, stream := range []bool{false, true} {
					ctx.Eval(1)
					ctx.Trans(1)
					r, err := readContainer(data, format, stream)
					switch {
					case err != nil && honest:
						ctx.Outcome("honest-rejected")
						ctx.Failf(cs, "honest-car-with-duplicates-rejected", "CAR %s (%s, stream=%v) with honest blocks is rejected: %v", cs.Layout, format, stream, err)
					case err != nil:
						ctx.Outcome("rejected")
					case !honest:
						ctx.Outcome("mislabelled-accepted")
						cls, what := "car-block-under-another-blocks-cid-accepted", "a block stored under the CID of another block of the file"
						if strings.Contains(cs.Layout, "Z") {
							cls, what = "car-zeroed-entry-accepted", "an entry overwritten with zero bytes (a section of length zero)"
						} else if strings.Contains(cs.Layout, "X") {
							cls, what = "car-section-without-a-token-accepted", "a section that holds no (cid, token) pair"
						}
						ctx.Failf(cs, cls, "CAR %s (%s, stream=%v): %s is not detected; %d entries returned", cs.Layout, format, stream, what, len(r))
					default:
						ctx.Outcome("accepted")
						if containerView(r) != expectedSetView(present) {
							ctx.Failf(cs, "honest-car-wrong-set", "CAR %s reads as a different set", cs.Layout)
						}
					}
				}
			}
		},
	}
}

var _ = base64.StdEncoding

// ---- container sizes across the CBOR head-width boundaries ----

type c17CountCase struct {
	N       int    `json:"n"`
	Format  string `json:"format"`
	WStream bool   `json:"w_stream"`
	RStream bool   `json:"r_stream"`
}

func (c *c17CountCase) Weight() int { return c.N }

var (
	c17ManyOnce sync.Once
	c17Many     []sealedTok
)

// c17ManyTokens returns 300 distinct sealed Ed25519 delegations (distinct nonces and commands).
func c17ManyTokens() []sealedTok {
	c17ManyOnce.Do(func() {
		k := fixtures.Get("ed25519", 0)
		for i := 0; i < 300; i++ {
			nonce := []byte(fmt.Sprintf("count-nonce-%04d", i))
			t, err := delegation.New(k.DID, otherPrincipal(k, 1), commandOf(fmt.Sprintf("/n/%d", i)), nil, delegation.WithSubject(k.DID), delegation.WithNonce(nonce))
			if err != nil {
				panic(err)
			}
			b, c, err := t.ToSealed(k.Priv)
			if err != nil {
				panic(err)
			}
			c17Many = append(c17Many, sealedTok{Tok: t, Sealed: b, Cid: c})
		}
	})
	return c17Many
}

func c17CountSub() *engine.Sub {
	return &engine.Sub{
		Name: "token-count-boundaries",
		Rule: "containers holding exactly n distinct tokens for every n in 0..40 and around the CBOR / varint width boundaries (23|24, 127|128, 255|256) x 4 formats x writer {bytes, stream} x reader {bytes, stream}: the reader holds exactly the n tokens added, each under the reference CID of its sealed bytes; non-trivial = n > 0",
		Bound: func(t string) string {
			return "n in {0..40, 126..130, 254..258" + map[bool]string{true: ", 299", false: ""}[t == "thorough"] + "} x 4 formats x 2 writers x 2 readers"
		},
		Gen: func(tier string, emit func(any) bool) {
			var ns []int
			for n := 0; n <= 40; n++ {
				ns = append(ns, n)
			}
			ns = append(ns, 126, 127, 128, 129, 130, 254, 255, 256, 257, 258)
			if tier == "thorough" {
				ns = append(ns, 299)
			}
			for _, n := range ns {
				for _, f := range []string{"car", "car64", "cbor", "cbor64"} {
					for _, ws := range []bool{false, true} {
						for _, rs := range []bool{false, true} {
							if n > 40 && ws != rs {
								continue // the large sizes use the matched variants only
							}
							if !emit(&c17CountCase{N: n, Format: f, WStream: ws, RStream: rs}) {
								return
							}
						}
					}
				}
			}
		},
		NewCase: func() any { return &c17CountCase{} },
		Run: func(ctx *engine.Ctx, c any) {
			cs := c.(*c17CountCase)
			toks := c17ManyTokens()[:cs.N]
			w := container.NewWriter()
			for _, t := range toks {
				w.AddSealed(t.Cid, t.Sealed)
			}
			ctx.States(1)
			ctx.Eval(2)
			ctx.Trans(1)
			if cs.N > 0 {
				ctx.Nontrivial(1)
			}
			data, err := writeContainer(w, cs.Format, cs.WStream)
			if err != nil {
				ctx.Outcome("write-error")
				ctx.Failf(cs, "write-fails/"+cs.Format, "writing %d tokens as %s (stream=%v) fails: %v", cs.N, cs.Format, cs.WStream, err)
				return
			}
			r, err := readContainer(data, cs.Format, cs.RStream)
			if err != nil {
				ctx.Outcome("read-error")
				ctx.Failf(cs, "read-fails/"+cs.Format, "reading back a %s container of %d tokens (w-stream=%v r-stream=%v) fails: %v", cs.Format, cs.N, cs.WStream, cs.RStream, err)
				return
			}
			if len(r) != cs.N {
				ctx.Outcome("set-differs")
				ctx.Failf(cs, "roundtrip-set-differs/"+cs.Format, "a %s container of %d tokens reads back with %d entries", cs.Format, cs.N, len(r))
				return
			}
			for i, t := range toks {
				if refCID(t.Sealed) != t.Cid {
					panic("harness: reference CID differs from the sealing CID")
				}
				got, err := r.GetToken(t.Cid)
				if err != nil || viewString(got, nil) != viewString(t.Tok, nil) {
					ctx.Outcome("set-differs")
					ctx.Failf(cs, "roundtrip-set-differs/"+cs.Format, "token #%d of %d is missing or differs after a %s round trip: %v", i, cs.N, cs.Format, err)
					return
				}
			}
			ctx.Outcome("roundtrip-ok")
		},
	}
}

// ---- entries whose CAR section length sits on a varint boundary ----

type c17SizeCase struct {
	Section int    `json:"section"` // wanted CAR section length = 36 (CID) + sealed length
	Format  string `json:"format"`
	WStream bool   `json:"w_stream"`
	RStream bool   `json:"r_stream"`
}

func (c *c17SizeCase) Weight() int { return c.Section }

var c17SizedMemo sync.Map

// c17SizedToken returns a sealed Ed25519 delegation whose sealed length is exactly n (nil if no
// metadata length gives exactly n - CBOR heads grow in steps).
func c17SizedToken(n int) *sealedTok {
	if v, ok := c17SizedMemo.Load(n); ok {
		return v.(*sealedTok)
	}
	k := fixtures.Get("ed25519", 0)
	build := func(l int, pad int) *sealedTok {
		t, err := delegation.New(k.DID, otherPrincipal(k, 1), "/a", nil, delegation.WithSubject(k.DID), delegation.WithNonce([]byte("0123456789ab")),
			delegation.WithMeta("b", bytes.Repeat([]byte{0xa5}, l)), delegation.WithMeta("p", strings.Repeat("p", pad)))
		if err != nil {
			panic(err)
		}
		b, c, err := t.ToSealed(k.Priv)
		if err != nil {
			panic(err)
		}
		return &sealedTok{Tok: t, Sealed: b, Cid: c, Key: k}
	}
	base := len(build(0, 0).Sealed)
	var res *sealedTok
	if n >= base {
		for pad := 0; pad < 4 && res == nil; pad++ {
			for l := n - base - pad - 8; l <= n-base; l++ {
				if l < 0 {
					continue
				}
				if t := build(l, pad); len(t.Sealed) == n {
					res = t
					break
				}
			}
		}
	}
	c17SizedMemo.Store(n, res)
	return res
}

func c17SizeSub() *engine.Sub {
	return &engine.Sub{
		Name: "section-length-boundaries",
		Rule: "a token whose sealed length makes its CAR section length (36-byte CID + data) exactly 127, 128, 129, 255, 256, 16383, 16384, 16385 (thorough: 2^21 - 1, 2^21, 2^21 + 1) - every unsigned-varint width boundary - alone and next to two ordinary tokens, through the 4 formats x writer {bytes, stream} x reader {bytes, stream}: the reader holds exactly the tokens added; non-trivial = all",
		Bound: func(t string) string {
			return "8 (thorough 11) section lengths x {alone, with 2 others} x 4 formats x 2 writers x 2 readers"
		},
		Gen: func(tier string, emit func(any) bool) {
			secs := []int{127, 128, 129, 255, 256, 16383, 16384, 16385}
			if tier == "thorough" {
				secs = append(secs, 1<<21-1, 1<<21, 1<<21+1)
			}
			for _, sec := range secs {
				for _, f := range []string{"car", "car64", "cbor", "cbor64"} {
					for _, ws := range []bool{false, true} {
						for _, rs := range []bool{false, true} {
							if !emit(&c17SizeCase{Section: sec, Format: f, WStream: ws, RStream: rs}) {
								return
							}
						}
					}
				}
			}
		},
		NewCase: func() any { return &c17SizeCase{} },
		Run: func(ctx *engine.Ctx, c any) {
			cs := c.(*c17SizeCase)
			t := c17SizedToken(cs.Section - 36)
			ctx.States(1)
			if t == nil {
				ctx.Outcome("size-not-constructible")
				return
			}
			ctx.Nontrivial(1)
			for _, with := range [][]string{nil, {"dlg", "inv"}} {
				w := container.NewWriter()
				w.AddSealed(t.Cid, t.Sealed)
				for _, n := range with {
					o := ioToken(n)
					w.AddSealed(o.Cid, o.Sealed)
				}
				ctx.Eval(2)
				ctx.Trans(1)
				data, err := writeContainer(w, cs.Format, cs.WStream)
				if err != nil {
					ctx.Outcome("write-error")
					ctx.Failf(cs, "write-fails/"+cs.Format, "writing a container with a %d-byte token fails: %v", len(t.Sealed), err)
					return
				}
				r, err := readContainer(data, cs.Format, cs.RStream)
				if err != nil {
					ctx.Outcome("read-error")
					ctx.Failf(cs, "read-fails/"+cs.Format, "a %s container holding a token of %d bytes (CAR section length %d) written by the library cannot be read back: %v", cs.Format, len(t.Sealed), cs.Section, err)
					return
				}
				if len(r) != 1+len(with) {
					ctx.Failf(cs, "roundtrip-set-differs/"+cs.Format, "container with %d tokens reads back with %d", 1+len(with), len(r))
					return
				}
				got, err := r.GetToken(t.Cid)
				if err != nil || viewString(got, nil) != viewString(t.Tok, nil) {
					ctx.Failf(cs, "roundtrip-set-differs/"+cs.Format, "the %d-byte token is missing or differs after the round trip: %v", len(t.Sealed), err)
					return
				}
			}
			ctx.Outcome("roundtrip-ok")
		},
	}
}

// ---- what a reader returns belongs to the caller; big containers with one bad entry ----

type c17PrivCase struct {
	Format string `json:"format"`
	Mut    string `json:"mut"` // delete | add-foreign | replace
}

func c17PrivateSub() *engine.Sub {
	return &engine.Sub{
		Name:   "returned-reader-is-private",
		Serial: true,
		Rule:   "the same container bytes are read, the returned Reader (a map) is modified by the caller - an entry deleted, a foreign token added, an entry replaced - and the same bytes are read again (byte-slice and stream readers, 4 formats): the second result holds exactly the tokens of the bytes; non-trivial = all",
		Bound:  func(string) string { return "4 formats x 3 modifications x 2 readers" },
		Gen: func(tier string, emit func(any) bool) {
			for _, f := range []string{"car", "car64", "cbor", "cbor64"} {
				for _, m := range []string{"delete", "add-foreign", "replace"} {
					if !emit(&c17PrivCase{f, m}) {
						return
					}
				}
			}
		},
		NewCase: func() any { return &c17PrivCase{} },
		Run: func(ctx *engine.Ctx, c any) {
			cs := c.(*c17PrivCase)
			names := []string{"dlg", "inv", "dlg3"}
			w := container.NewWriter()
			for _, n := range names {
				t := ioToken(n)
				w.AddSealed(t.Cid, t.Sealed)
			}
			data, err := writeContainer(w, cs.Format, false)
			if err != nil {
				panic(err)
			}
			want := expectedSetView(names)
			ctx.States(1)
			ctx.Nontrivial(1)
			for _, stream := range []bool{false, true} {
				r1, err := readContainer(data, cs.Format, stream)
				ctx.Eval(2)
				ctx.Trans(1)
				if err != nil || containerView(r1) != want {
					ctx.Failf(cs, "read-fails/"+cs.Format, "first read fails or differs: %v", err)
					return
				}
				foreign := ioToken("dlg2")
				switch cs.Mut {
				case "delete":
					delete(r1, ioToken("inv").Cid)
				case "add-foreign":
					r1[foreign.Cid] = foreign.Tok.(*delegation.Token)
				case "replace":
					r1[ioToken("dlg").Cid] = foreign.Tok.(*delegation.Token)
				}
				r2, err := readContainer(data, cs.Format, stream)
				if err != nil {
					ctx.Failf(cs, "read-fails/"+cs.Format, "second read of the same bytes fails: %v", err)
					return
				}
				if got := containerView(r2); got != want {
					ctx.Outcome("second-read-differs")
					ctx.Failf(cs, "second-read-shows-callers-modification/"+cs.Mut, "after the caller modified the Reader returned for these %s bytes (%s), reading the same bytes again (stream=%v) yields %d entries that are not the tokens of the bytes", cs.Format, cs.Mut, stream, len(r2))
					return
				}
			}
			ctx.Outcome("private")
		},
	}
}

type c17BigBadCase struct {
	N      int    `json:"n"`
	Bad    int    `json:"bad"` // index of the corrupted token
	Format string `json:"format"`
	Stream bool   `json:"stream"`
}

func (c *c17BigBadCase) Weight() int { return c.N }

func c17BigBadSub() *engine.Sub {
	return &engine.Sub{
		Name:  "large-containers-with-one-bad-entry",
		Rule:  "containers of 63, 64, 65, 130 and 300 tokens in which ONE token - the first, the second, one in the middle, the last but one, the last - has one signature bit flipped (for CAR: stored under the CID of its corrupted bytes, so that only the signature check can notice), 4 formats, byte-slice and stream readers: reading must fail; non-trivial = all",
		Bound: func(string) string { return "5 sizes x 5 positions x 4 formats x 2 readers" },
		Gen: func(tier string, emit func(any) bool) {
			for _, n := range []int{63, 64, 65, 130, 300} {
				for _, bad := range []int{0, 1, n / 2, n - 2, n - 1} {
					for _, f := range []string{"car", "car64", "cbor", "cbor64"} {
						for _, st := range []bool{false, true} {
							if !emit(&c17BigBadCase{n, bad, f, st}) {
								return
							}
						}
					}
				}
			}
		},
		NewCase: func() any { return &c17BigBadCase{} },
		Run: func(ctx *engine.Ctx, c any) {
			cs := c.(*c17BigBadCase)
			toks := c17ManyTokens()[:cs.N]
			w := container.NewWriter()
			for i, t := range toks {
				if i == cs.Bad {
					p := splitEnvelope(t.Sealed)
					sig := append([]byte{}, p.Sig...)
					sig[len(sig)/2] ^= 0x04
					bad := assembleWithSig(sig, sigPayloadNode(p.Header, p.Tag, nMap(p.Payload...)))
					w.AddSealed(refCID(bad), bad)
					continue
				}
				w.AddSealed(t.Cid, t.Sealed)
			}
			data, err := writeContainer(w, cs.Format, false)
			if err != nil {
				panic(err)
			}
			ctx.States(1)
			ctx.Nontrivial(1)
			// several attempts: a reader that verifies entries concurrently decides by timing
			for attempt := 0; attempt < 4; attempt++ {
				ctx.Eval(1)
				ctx.Trans(1)
				r, err := readContainer(data, cs.Format, cs.Stream)
				if err == nil {
					ctx.Outcome("accepted")
					ctx.Failf(cs, "corrupt-container-accepted/large/"+cs.Format, "a %s container of %d tokens whose token #%d has a flipped signature bit is read without error (%d entries returned)", cs.Format, cs.N, cs.Bad, len(r))
					return
				}
			}
			ctx.Outcome("rejected")
		},
	}
}

func C17() *engine.Check {
	return &engine.Check{
		Property: "C17",
		Level:    "model_checking",
		Subs:     []*engine.Sub{c17RoundtripSub(), c17CountSub(), c17SizeSub(), c17PrivateSub(), c17BigBadSub(), c17CorruptSub(), c17WrongCidSub(), c17RawCarSub(), carLabelSub("C17"), c17LongIDSub(), c17BigSub(), c17SigLenSub(), c17StdReaderSub(), c17SeqSub(), c17ConcSub(), concRaceSub("C17")},
		Assumptions: []string{
			"token pool of 4 sealed tokens (3 signature algorithms): every subset in every insertion order; plus sets of n distinct Ed25519 delegations for every n up to 40 and around 128 and 256",
			"the CBOR container format does not store CIDs, so a wrong CID given to AddSealed is invisible there; only CAR readers can and must detect a CID that does not hash to the data",
		},
	}
}

// ---- principals with the longest identifiers ----

type c17LongIDCase struct {
	Format  string `json:"format"`
	WStream bool   `json:"w_stream"`
	RStream bool   `json:"r_stream"`
}

func c17LongIDSub() *engine.Sub {
	return &engine.Sub{
		Name:  "longest-identifiers",
		Rule:  "(also: a delegation and an invocation whose metadata / arguments hold maps of the shape DAG-JSON reserves - {\"/\": text}, {\"/\": {\"bytes\": text}} - which are ordinary maps in DAG-CBOR) a container holding a delegation whose audience is the did:key of an RSA-8192 public key (about 1430 characters, the longest identifier the DID package produces) and a delegation whose not-before and expiration bounds lie inside one wall-clock second (nbf < exp in memory, equal on the wire) next to two ordinary tokens, written and read in the four formats x byte-slice / stream variants: the reader holds exactly the tokens added (what the library writes it reads); non-trivial = all",
		Bound: func(string) string { return "4 formats x 2 writers x 2 readers" },
		Gen: func(tier string, emit func(any) bool) {
			for _, f := range []string{"car", "car64", "cbor", "cbor64"} {
				for _, ws := range []bool{false, true} {
					for _, rs := range []bool{false, true} {
						if !emit(&c17LongIDCase{f, ws, rs}) {
							return
						}
					}
				}
			}
		},
		NewCase: func() any { return &c17LongIDCase{} },
		Run: func(ctx *engine.Ctx, c any) {
			cs := c.(*c17LongIDCase)
			names := []string{"dlg", "dlgrsa8k", "inv", "dlgsamesec", "dlgslash", "invslash"}
			w := container.NewWriter()
			for _, n := range names {
				t := ioToken(n)
				w.AddSealed(t.Cid, t.Sealed)
			}
			data, err := writeContainer(w, cs.Format, cs.WStream)
			ctx.States(1)
			ctx.Nontrivial(1)
			ctx.Eval(1)
			ctx.Trans(1)
			if err != nil {
				ctx.Failf(cs, "write-fails/"+cs.Format, "writing a container with a long identifier fails: %v", err)
				return
			}
			r, err := readContainer(data, cs.Format, cs.RStream)
			if err != nil {
				ctx.Outcome("read-fails")
				ctx.Failf(cs, "read-fails/long-identifier/"+cs.Format, "a container the library wrote (a delegation addressed to an RSA-8192 did:key) cannot be read back (r-stream=%v): %v", cs.RStream, err)
				return
			}
			ctx.Outcome("ok")
			if containerView(r) != expectedSetView(names) {
				ctx.Failf(cs, "wrong-set/long-identifier/"+cs.Format, "reading back gives a different set")
			}
		},
	}
}

// ---- the stream readers fed by standard-library readers that are not at their start ----

type c17StdReaderCase struct {
	Format string `json:"format"`
	Flavor string `json:"flavor"`
	Prefix int    `json:"prefix"` // bytes in front of the container that the caller has consumed already
}

func c17StdReaderSub() *engine.Sub {
	flavors := []string{"bytes.Reader", "strings.Reader", "io.SectionReader", "bytes.Buffer", "bufio.Reader", "io.LimitedReader", "bytes.Reader-after-Seek", "io.MultiReader"}
	return &engine.Sub{
		Name: "standard-readers-not-at-their-start",
		Rule: "the four stream readers fed by the standard library's own reader types positioned behind a prefix the caller has already consumed (0, 1, 7, 4096 bytes: a length header, an earlier message): *bytes.Reader and *strings.Reader after reading or seeking past the prefix, *io.SectionReader over the container's range and after a partial read, *bytes.Buffer, *bufio.Reader, *io.LimitedReader, io.MultiReader - types that also expose Size / Len / Seek / WriteTo, none of which describes what is LEFT to read: the tokens are those the byte-slice reader returns for the same bytes; non-trivial = prefix > 0",
		Bound: func(string) string {
			return fmt.Sprintf("4 formats x %d reader flavours x 4 prefix lengths", len(flavors))
		},
		Gen: func(tier string, emit func(any) bool) {
			for _, f := range []string{"car", "car64", "cbor", "cbor64"} {
				for _, fl := range flavors {
					for _, p := range []int{0, 1, 7, 4096} {
						if !emit(&c17StdReaderCase{f, fl, p}) {
							return
						}
					}
				}
			}
		},
		NewCase: func() any { return &c17StdReaderCase{} },
		Run: func(ctx *engine.Ctx, c any) {
			cs := c.(*c17StdReaderCase)
			names := []string{"dlg", "inv", "dlg3"}
			data := buildContainer(cs.Format, names).Data
			all := append(bytes.Repeat([]byte{'#'}, cs.Prefix), data...)
			skip := func(r io.Reader) io.Reader {
				if cs.Prefix > 0 {
					if _, err := io.ReadFull(r, make([]byte, cs.Prefix)); err != nil {
						panic(err)
					}
				}
				return r
			}
			var r io.Reader
			switch cs.Flavor {
			case "bytes.Reader":
				r = skip(bytes.NewReader(all))
			case "strings.Reader":
				r = skip(strings.NewReader(string(all)))
			case "io.SectionReader":
				// a section that starts one byte early, the caller having read that byte (prefix 0: the exact range)
				lead := 0
				if cs.Prefix > 0 {
					lead = 1
				}
				sr := io.NewSectionReader(bytes.NewReader(append(all, "trailing bytes outside the section"...)), int64(cs.Prefix-lead), int64(len(data)+lead))
				if lead > 0 {
					sr.Read(make([]byte, 1))
				}
				r = sr
			case "bytes.Buffer":
				r = skip(bytes.NewBuffer(all))
			case "bufio.Reader":
				r = skip(bufio.NewReaderSize(bytes.NewReader(all), 16))
			case "io.LimitedReader":
				r = skip(&io.LimitedReader{R: bytes.NewReader(append(all, "beyond the limit"...)), N: int64(len(all))})
			case "bytes.Reader-after-Seek":
				br := bytes.NewReader(all)
				br.Seek(int64(cs.Prefix), io.SeekStart)
				r = br
			default:
				r = skip(io.MultiReader(bytes.NewReader(all[:cs.Prefix+len(data)/2]), strings.NewReader(string(all[cs.Prefix+len(data)/2:]))))
			}
			want, err := readContainer(data, cs.Format, false)
			if err != nil {
				panic(err)
			}
			var got container.Reader
			switch cs.Format {
			case "car":
				got, err = container.FromCarReader(r)
			case "car64":
				got, err = container.FromCarBase64Reader(r)
			case "cbor":
				got, err = container.FromCborReader(r)
			default:
				got, err = container.FromCborBase64Reader(r)
			}
			ctx.States(1)
			ctx.Eval(1)
			ctx.Trans(1)
			if cs.Prefix > 0 {
				ctx.Nontrivial(1)
			}
			if err != nil {
				ctx.Outcome("read-fails")
				ctx.Failf(cs, "stream-reader-fails/"+cs.Flavor, "the %s stream reader fails on a %s positioned behind a %d-byte prefix, the byte-slice reader accepts the same bytes: %v", cs.Format, cs.Flavor, cs.Prefix, err)
				return
			}
			ctx.Outcome("ok")
			if containerView(got) != containerView(want) {
				ctx.Failf(cs, "stream-reader-differs/"+cs.Flavor, "the %s stream reader returns another set from a %s positioned behind a %d-byte prefix than the byte-slice reader", cs.Format, cs.Flavor, cs.Prefix)
			}
		},
	}
}
