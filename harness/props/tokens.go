package props

import (
	"bytes"
	"encoding/hex"
	"fmt"
	"math"
	"sort"
	"strings"
	"time"
	_ "time/tzdata" // zones with daylight saving, independent of the host

	"github.com/ipfs/go-cid"
	"github.com/ipld/go-ipld-prime"
	"github.com/ipld/go-ipld-prime/codec/dagcbor"
	"github.com/ipld/go-ipld-prime/datamodel"
	"github.com/multiformats/go-multihash"

	"github.com/ucan-wg/go-ucan/did"
	"github.com/ucan-wg/go-ucan/pkg/args"
	"github.com/ucan-wg/go-ucan/pkg/command"
	"github.com/ucan-wg/go-ucan/pkg/meta"
	"github.com/ucan-wg/go-ucan/pkg/policy"
	"github.com/ucan-wg/go-ucan/pkg/policy/literal"
	"github.com/ucan-wg/go-ucan/token/delegation"
	"github.com/ucan-wg/go-ucan/token/invocation"

	"verifharness/fixtures"
)

// The constructible-token universe shared by C06 - C10, C17 - C19.

// TokSpec describes a token by the option values that deviate from the base token.
type TokSpec struct {
	Kind string            `json:"kind"` // "dlg" | "inv"
	Alg  string            `json:"alg"`
	Key  int               `json:"key"`
	Opts map[string]string `json:"opts,omitempty"` // option name -> value label (absent = base value)
}

func (s TokSpec) String() string {
	var ks []string
	for k := range s.Opts {
		ks = append(ks, k)
	}
	sort.Strings(ks)
	var parts []string
	for _, k := range ks {
		parts = append(parts, k+"="+s.Opts[k])
	}
	return fmt.Sprintf("%s/%s#%d{%s}", s.Kind, s.Alg, s.Key, strings.Join(parts, ","))
}

type optDef struct {
	Name   string
	Values []string // Values[0] is the base value
}

var (
	encKey = bytes.Repeat([]byte{0x42}, 32)

	tokValueLabels = []string{"bool", "int0", "int1", "int-1", "int53max", "int53min", "float1.5", "float1.0", "float-0", "float-min", "float-max",
		"str-empty", "str-ascii", "str-utf8", "str-latin1", "map-slash", "bytes-empty", "bytes", "list", "map", "link", "null"}

	timeLabels = []string{"absent", "whole", "subsec", "in-past", "2^53-1", "2^53", "y9999", "maxtime", "zero", "epoch", "unix-1", "unix1", "subsec-up", "zone+5h30", "zone-11h-subsec", "dst-repeat-west-1st", "dst-repeat-west-2nd", "dst-repeat-east-1st", "dst-repeat-east-2nd"}
)

func tokValue(label string) any {
	switch label {
	case "bool":
		return true
	case "int0":
		return 0
	case "int1":
		return 1
	case "int-1":
		return -1
	case "int53max":
		return int64(1<<53 - 1)
	case "int53min":
		return int64(-(1<<53 - 1))
	case "float1.5":
		return 1.5
	case "float1.0":
		return 1.0
	case "float-0":
		return math.Copysign(0, -1)
	case "float-min":
		return 5e-324
	case "float-max":
		return 1.79e308
	case "str-empty":
		return ""
	case "str-ascii":
		return "abc"
	case "str-utf8":
		return "héllo→日本"
	case "map-slash": // a map whose only key is "/": the shape DAG-JSON reserves for links and bytes
		return map[string]any{"/": "not-a-cid"}
	case "map-slash-bytes": // the same for the bytes form, nested one level down
		return map[string]any{"blob": map[string]any{"/": map[string]any{"bytes": "aGVsbG8"}}, "parent": map[string]any{"/": cidPool[41].String()}}
	case "str-latin1": // a Go string that is not valid UTF-8 (legacy-encoded text): constructors accept any Go string
		return "caf\xe9 \xff"
	case "str-repl": // well-formed text that contains the replacement character itself (what lossy conversions turn broken bytes into)
		return "caf\uFFFD au lait \uFFFD"
	case "str-dlgtag": // a value that reads like the type tag of the OTHER token kind
		return "ucan/dlg@1.0.0-rc.1"
	case "str-invtag":
		return "ucan/inv@1.0.0-rc.1"
	case "str-astral": // characters of 1, 2, 3 and 4 bytes, the 4-byte ones at several alignments
		return "a\U0001F600é\U0001D11E→\U0001F600\U0001F601x\U00010000"
	case "bytes-empty":
		return []byte{}
	case "bytes":
		return []byte{1, 2, 3, 0xff}
	case "list":
		return []any{1, "a", []any{2}}
	case "map":
		return map[string]any{"a": 1, "b": map[string]any{"c": []any{true}}}
	case "link":
		return cidPool[41]
	case "null":
		return literal.Null()
	case "int2^53":
		return basicInt(1 << 53)
	case "str-600":
		return strings.Repeat("0123456789", 60)
	case "str-1023":
		return strings.Repeat("0123456789abcdef", 64)[:1023]
	case "str-1024":
		return strings.Repeat("0123456789abcdef", 64)
	case "str-5k":
		return strings.Repeat("0123456789abcdef", 320)
	case "bytes-1024":
		return bytes.Repeat([]byte{0x5a}, 1024)
	case "bytes-70k":
		return bytes.Repeat([]byte{0xab, 0xcd, 0xef, 0x01, 0x23, 0x45, 0x67}, 10000)
	}
	panic("bad value label " + label)
}

func basicInt(i int64) datamodel.Node { return nInt(i) }

// isIntegralFloat tells whether the label denotes a float the DAG-JSON codec prints without a fraction.
func isIntegralFloat(label string) bool { return label == "float1.0" || label == "float-0" }

// mustZone loads a zone from the time zone database embedded in the binary (time/tzdata).
func mustZone(name string) *time.Location {
	l, err := time.LoadLocation(name)
	if err != nil {
		panic("harness: " + err.Error())
	}
	return l
}

func tokTime(label string) (time.Time, bool) {
	switch label {
	case "whole":
		return time.Date(2200, 1, 1, 0, 0, 0, 0, time.UTC), true
	case "subsec":
		return time.Date(2200, 1, 1, 0, 0, 0, 250_000_000, time.UTC), true
	case "2^53-1":
		return time.Unix(1<<53-1, 0), true
	case "2^53":
		return time.Unix(1<<53, 0), true
	case "y9999":
		return time.Date(9999, 12, 31, 23, 59, 59, 0, time.UTC), true
	case "maxtime":
		return time.Unix(1<<63-62135596801, 999999999), true
	case "zero": // the zero value of time.Time (year 1): a present bound that happens to be a zero value
		return time.Time{}, true
	case "epoch":
		return time.Unix(0, 0), true
	case "unix-1":
		return time.Unix(-1, 0), true
	case "unix1":
		return time.Unix(1, 0), true
	case "zone+5h30": // the same kind of instant, expressed in another time zone
		return time.Date(2200, 6, 1, 12, 0, 0, 0, time.FixedZone("X", 5*3600+1800)), true
	case "zone-11h-subsec":
		return time.Date(2200, 6, 1, 12, 0, 0, 999_999_999, time.FixedZone("Y", -11*3600)), true
	// instants inside the wall-clock hour that a daylight-saving zone goes through twice when the clocks are set back
	case "dst-repeat-west-1st":
		return time.Date(2031, 11, 2, 5, 30, 0, 0, time.UTC).In(mustZone("America/New_York")), true
	case "dst-repeat-west-2nd":
		return time.Date(2031, 11, 2, 6, 30, 0, 0, time.UTC).In(mustZone("America/New_York")), true
	case "dst-repeat-east-1st":
		return time.Date(2031, 10, 26, 0, 30, 0, 0, time.UTC).In(mustZone("Europe/Berlin")), true
	case "dst-repeat-east-2nd":
		return time.Date(2031, 10, 26, 1, 30, 0, 0, time.UTC).In(mustZone("Europe/Berlin")), true
	case "subsec-up": // a fraction above one half
		return time.Date(2200, 1, 1, 0, 0, 0, 750_000_000, time.UTC), true
	}
	return time.Time{}, false
}

func tokPolicy(label string) policy.Policy {
	switch label {
	case "empty":
		return nil
	case "eq":
		return policy.MustConstruct(policy.Equal(".a", literal.Int(1)))
	case "nested":
		return policy.MustConstruct(
			policy.And(policy.Or(policy.Equal(".a", literal.String("x")), policy.Not(policy.Like(".b?", `a*\*`))), policy.GreaterThanOrEqual(".c[0]", literal.Float(1.5))),
			policy.Any(".l", policy.All(".[]", policy.LessThan(".", literal.Int(-3)))),
		)
	case "int53max":
		return policy.MustConstruct(policy.Equal(".a", literal.Int(1<<53-1)), policy.LessThan(".b", literal.Int(-(1<<53-1))))
	case "int53over":
		return policy.MustConstruct(policy.Equal(".a", literal.Int(1<<53)))
	case "values":
		m := nMap(kv{"k", nList(nInt(1), nStr("s"), nBool(true))}, kv{"z", nNull()})
		return policy.MustConstruct(policy.Equal(".a", m), policy.Equal(".b", literal.Bytes([]byte{9})), policy.Equal(".c", literal.Null()), policy.Equal(".d", literal.LinkCid(cidPool[42])))
	}
	switch label {
	case "stars": // runs of wildcards, escaped and not
		return policy.MustConstruct(policy.Like(".a", "a**b"), policy.Like(".b", "a***b"), policy.Like(".c", "****"), policy.Not(policy.Like(".d", `*\***\*`)),
			policy.Any(".l", policy.Like(".", `a\****b*****`)), policy.Like(".e", `\***`))
	case "quoted-selectors": // quoted field names holding escaped quotes, dots, brackets, question marks, backslashes
		return policy.MustConstruct(policy.Equal(`.["a\".b"]`, literal.Int(1)), policy.Equal(`.meta["x\"]["y"]`, literal.Int(2)), policy.Like(`.["say \"hi\""]`, "h*"),
			policy.Any(`.["l[0]"]?`, policy.Equal(`.["\"?"]`, literal.Int(3))), policy.Not(policy.Equal(`.["a.b"]["c\"[0]\"."]`, literal.Int(4))))
	case "ordering-non-numbers": // the constructors take any literal on the right of an ordering operator
		m := nMap(kv{"k", nInt(1)})
		return policy.MustConstruct(policy.GreaterThan(".name", literal.String("m")), policy.LessThanOrEqual(".b", nBool(true)), policy.GreaterThanOrEqual(".c", literal.Null()),
			policy.Not(policy.LessThan(".d", literal.Bytes([]byte{1}))), policy.Any(".l", policy.GreaterThan(".", literal.LinkCid(cidPool[42]))),
			policy.Or(policy.LessThan(".e", nList(nInt(1))), policy.GreaterThan(".f", m)))
	}
	panic("bad policy label " + label)
}

func nil2() datamodel.Node { return literal.Null() }

func tokCommand(label string) command.Command {
	switch label {
	case "/a", "/", "/a/b":
		return command.Command(label)
	case "New(a,b)":
		return command.New("a", "b")
	case "New()":
		return command.New()
	case "New(A)":
		return command.New("A")
	case "New(a/b)":
		return command.New("a/b")
	case "New(a/)":
		return command.New("a/")
	case "Top.Join(é)":
		return command.Top().Join("é")
	case "New(a,b )":
		return command.New("a", "b ")
	case "New( a)":
		return command.New(" a")
	case "cast(/a\\n)":
		return command.Command("/a\n")
	case "cast(/a\\tb/c)":
		return command.Command("/a\tb/c")
	case "New(a\u00a0)":
		return command.New("a\u00a0")
	}
	panic("bad command label " + label)
}

var tokCommandLabels = []string{"/a", "/", "/a/b", "New(a,b)", "New()", "New(A)", "New(a/b)", "New(a/)", "Top.Join(é)", "New(a,b )", "New( a)", "cast(/a\\n)", "cast(/a\\tb/c)", "New(a\u00a0)"}

func metaLabels() []string {
	r := []string{"none"}
	for _, v := range tokValueLabels {
		r = append(r, "k="+v)
	}
	return append(r, "k=int2^53", "k=encrypted", "keys:c,a,b", "keys:b,a", "keys:a,b,c")
}

func argsLabels() []string {
	r := []string{"none"}
	for _, v := range tokValueLabels {
		r = append(r, "k="+v)
	}
	return append(r, "include:int2^53", "include:nested-int2^53", "keys:c,a,b", "keys:b,a", "keys:a,b,c")
}

func dlgOptDefs() []optDef {
	return []optDef{
		{"sub", []string{"iss", "undef", "other", "root", "nokey"}}, // "root": built with delegation.Root (subject = issuer); "nokey": a DID that parses but holds no usable key
		{"aud", []string{"other", "self", "nokey"}},
		{"cmd", tokCommandLabels},
		{"pol", []string{"empty", "eq", "nested", "int53max", "int53over", "values", "stars", "ordering-non-numbers", "quoted-selectors"}},
		{"nbf", timeLabels},
		{"exp", timeLabels},
		{"meta", metaLabels()},
		{"nonce", []string{"auto", "12", "64"}},
	}
}

func invOptDefs() []optDef {
	return []optDef{
		{"sub", []string{"other", "iss"}},
		{"aud", []string{"none", "third", "sub", "nokey"}},
		{"cmd", tokCommandLabels},
		{"args", argsLabels()},
		{"prf", []string{"1", "0", "3", "odd"}},
		{"exp", timeLabels},
		{"iat", []string{"auto", "none", "whole", "subsec", "2^53", "zero", "epoch", "unix-1", "subsec-up", "zone+5h30", "zone-11h-subsec", "dst-repeat-west-1st", "dst-repeat-west-2nd", "dst-repeat-east-1st", "dst-repeat-east-2nd"}},
		{"meta", metaLabels()},
		{"nonce", []string{"auto", "12", "64", "empty"}},
		{"cause", []string{"nil", "cid"}},
	}
}

func optDefsOf(kind string) []optDef {
	if kind == "dlg" {
		return dlgOptDefs()
	}
	return invOptDefs()
}

// otherPrincipal returns a DID different from the issuer key.
// unusableDID is a did:key that did.Parse accepts although no public key can be extracted from it (an Ed25519
// multicodec in front of 31 key bytes): a principal is an identifier; tokens naming it travel like any other.
func unusableDID() did.DID {
	for _, body := range [][]byte{bytes.Repeat([]byte{7}, 31), bytes.Repeat([]byte{7}, 33)} {
		d, err := did.Parse(didKeyString(uvarint(0xed), body))
		if err != nil {
			continue
		}
		if _, err := d.PubKey(); err != nil {
			return d
		}
	}
	panic("harness: no did:key found that parses without holding a usable key")
}

func otherPrincipal(k *fixtures.Key, n int) did.DID {
	ks := fixtures.ByAlg("ed25519")
	d := ks[n%len(ks)].DID
	if d == k.DID {
		d = ks[(n+1)%len(ks)].DID
	}
	return d
}

func applyKV(label string, add func(k string, v any) error, addEnc func(k string, v string) error) error {
	switch {
	case label == "none":
		return nil
	case label == "k=encrypted":
		return addEnc("k", "secret-plaintext-0123456789")
	case label == "bounds":
		// integers and string lengths on both sides of every CBOR head-width boundary
		for i, v := range []int64{23, 24, 255, 256, 65535, 65536, 4294967295, 4294967296, -24, -25, -256, -257, -65536, -65537, -4294967296, -4294967297} {
			if err := add(fmt.Sprintf("i%02d", i), v); err != nil {
				return err
			}
		}
		for _, n := range []int{23, 24, 255, 256} {
			if err := add(fmt.Sprintf("s%d", n), strings.Repeat("x", n)); err != nil {
				return err
			}
			if err := add(fmt.Sprintf("b%d", n), bytes.Repeat([]byte{7}, n)); err != nil {
				return err
			}
		}
		return add("l24", []int{0, 1, 2, 3, 4, 5, 6, 7, 8, 9, 10, 11, 12, 13, 14, 15, 16, 17, 18, 19, 20, 21, 22, 23})
	case strings.HasPrefix(label, "k="):
		return add("k", tokValue(strings.TrimPrefix(label, "k=")))
	case strings.HasPrefix(label, "keys:"):
		for i, k := range strings.Split(strings.TrimPrefix(label, "keys:"), ",") {
			if err := add(k, i+1); err != nil {
				return err
			}
		}
		return nil
	}
	panic("bad kv label " + label)
}

// ---- size-threshold options ("size:<field>" -> n): one field of the token grown to exactly n ----

// SizeFields lists, per token kind, the fields that can be grown and the sizes of each tier.
func SizeFields(kind string) []string {
	common := []string{"meta-str", "meta-bytes", "meta-count", "meta-list", "nonce", "cmd-segs", "cmd-len"}
	if kind == "dlg" {
		return append(common, "pol-count", "pol-depth", "pol-and-width", "sel-len", "like-len", "pol-lit-str")
	}
	return append(common, "arg-str", "arg-bytes", "arg-list", "arg-map", "args-count", "arg-depth", "prf")
}

func SizesFor(field, tier string) []int {
	switch field {
	case "pol-depth", "arg-depth":
		if tier == "thorough" {
			return []int{2, 8, 31, 32, 33, 64, 128, 256, 512}
		}
		return []int{2, 8, 32, 64, 256}
	case "cmd-segs", "args-count", "meta-count", "pol-count", "pol-and-width", "prf":
		if tier == "thorough" {
			return []int{2, 23, 24, 25, 127, 128, 255, 256, 257, 1024, 4096}
		}
		return []int{23, 24, 255, 256, 1024}
	case "nonce":
		return []int{12, 13, 23, 24, 32, 64, 255, 256, 4096}
	}
	if tier == "thorough" {
		return []int{0, 1, 23, 24, 25, 255, 256, 257, 1023, 1024, 4095, 4096, 4097, 65535, 65536, 65537, 1 << 20}
	}
	return []int{23, 24, 255, 256, 1024, 4096, 65535, 65536}
}

func growCommand(field string, n int) command.Command {
	if field == "cmd-segs" {
		return command.Command(strings.Repeat("/s", n))
	}
	return command.Command("/" + strings.Repeat("c", n))
}

func growPolicy(field string, n int) policy.Policy {
	switch field {
	case "pol-count":
		cons := make([]policy.Constructor, n)
		for i := range cons {
			cons[i] = policy.Equal(".a", literal.Int(int64(i)))
		}
		return policy.MustConstruct(cons...)
	case "pol-depth":
		c := policy.Equal(".a", literal.Int(1))
		for i := 0; i < n; i++ {
			switch i % 3 {
			case 0:
				c = policy.Not(c)
			case 1:
				c = policy.And(c)
			default:
				c = policy.Any(".l", c)
			}
		}
		return policy.MustConstruct(c)
	case "pol-and-width":
		cons := make([]policy.Constructor, n)
		for i := range cons {
			cons[i] = policy.GreaterThan(".b", literal.Int(int64(i)))
		}
		return policy.MustConstruct(policy.Or(policy.And(cons...)))
	case "sel-len":
		return policy.MustConstruct(policy.Equal("."+strings.Repeat("f", n), literal.Int(1)))
	case "like-len":
		return policy.MustConstruct(policy.Like(".a", strings.Repeat("p", n)+`\**`))
	case "pol-lit-str":
		return policy.MustConstruct(policy.Equal(".a", literal.String(strings.Repeat("v", n))))
	}
	panic(field)
}

func growValue(field string, n int) any {
	switch strings.TrimPrefix(strings.TrimPrefix(field, "arg-"), "meta-") {
	case "str":
		return strings.Repeat("s", n)
	case "bytes":
		return bytes.Repeat([]byte{0xb7}, n)
	case "list":
		l := make([]int, n)
		for i := range l {
			l[i] = i % 7
		}
		return l
	case "map":
		m := make(map[string]int, n)
		for i := 0; i < n; i++ {
			m[fmt.Sprintf("k%06d", i)] = i
		}
		return m
	case "depth":
		var v any = 1
		for i := 0; i < n; i++ {
			if i%2 == 0 {
				v = []any{v}
			} else {
				v = map[string]any{"d": v}
			}
		}
		return v
	}
	panic(field)
}

// sizeOption returns the "size:<field>" option of the spec, if any.
func sizeOption(spec TokSpec) (string, int, bool) {
	for k, v := range spec.Opts {
		if strings.HasPrefix(k, "size:") {
			n := 0
			fmt.Sscanf(v, "%d", &n)
			return strings.TrimPrefix(k, "size:"), n, true
		}
	}
	return "", 0, false
}

// BuildToken constructs the token described by spec with the public constructors.
// It returns the token (a *delegation.Token or *invocation.Token), the signing key, and the constructor's error.
func BuildToken(spec TokSpec) (any, *fixtures.Key, error) {
	k := fixtures.Get(spec.Alg, spec.Key)
	if k.Err != nil {
		return nil, k, fmt.Errorf("did.FromPubKey: %w", k.Err)
	}
	opt := func(name, base string) string {
		if v, ok := spec.Opts[name]; ok {
			return v
		}
		return base
	}
	if spec.Kind == "dlg" {
		var opts []delegation.Option
		switch opt("sub", "iss") {
		case "iss":
			opts = append(opts, delegation.WithSubject(k.DID))
		case "other":
			opts = append(opts, delegation.WithSubject(otherPrincipal(k, 2)))
		case "nokey":
			opts = append(opts, delegation.WithSubject(unusableDID()))
		}
		aud := otherPrincipal(k, 1)
		if opt("aud", "other") == "self" {
			aud = k.DID
		}
		if opt("aud", "other") == "nokey" {
			aud = unusableDID()
		}
		if opt("aud", "other") == "rsa8192" { // the longest did:key there is (~1430 characters): a synthetic RSA-8192 public key
			pk, _, err := syntheticRsaPub(8192, 65537)
			if err != nil {
				return nil, k, err
			}
			if aud, err = did.FromPubKey(pk); err != nil {
				return nil, k, err
			}
		}
		for _, f := range []string{"nbf", "exp"} {
			l := opt(f, "absent")
			switch {
			case l == "absent":
			case l == "in-past":
				if f == "nbf" {
					opts = append(opts, delegation.WithNotBeforeIn(-time.Hour))
				} else {
					opts = append(opts, delegation.WithExpirationIn(-time.Hour))
				}
			default:
				t, _ := tokTime(l)
				if f == "nbf" {
					opts = append(opts, delegation.WithNotBefore(t))
				} else {
					opts = append(opts, delegation.WithExpiration(t))
				}
			}
		}
		if l := opt("meta", "none"); l != "none" {
			l := l
			opts = append(opts, func(t *delegation.Token) error {
				return applyKV(l,
					func(k string, v any) error { return delegation.WithMeta(k, v)(t) },
					func(k, v string) error { return delegation.WithEncryptedMetaString(k, v, encKey)(t) })
			})
		}
		switch opt("nonce", "auto") {
		case "12":
			opts = append(opts, delegation.WithNonce([]byte("0123456789ab")))
		case "64":
			opts = append(opts, delegation.WithNonce(bytes.Repeat([]byte{0xab}, 64)))
		default:
			if l := opt("nonce", "auto"); strings.HasPrefix(l, "ctr:") {
				opts = append(opts, delegation.WithNonce([]byte("verif-ctr-"+l[4:]+"-0123456")))
			}
		}
		cmd, pol := tokCommand(opt("cmd", "/a")), tokPolicy(opt("pol", "empty"))
		if f, n, ok := sizeOption(spec); ok {
			switch {
			case strings.HasPrefix(f, "cmd-"):
				cmd = growCommand(f, n)
			case strings.HasPrefix(f, "pol-") || f == "sel-len" || f == "like-len":
				pol = growPolicy(f, n)
			case f == "nonce":
				opts = append(opts, delegation.WithNonce(bytes.Repeat([]byte{0x5c}, n)))
			case f == "meta-count":
				for i := 0; i < n; i++ {
					opts = append(opts, delegation.WithMeta(fmt.Sprintf("m%06d", i), i))
				}
			case strings.HasPrefix(f, "meta-"):
				opts = append(opts, delegation.WithMeta("big", growValue(f, n)))
			}
		}
		var t *delegation.Token
		var err error
		if opt("sub", "iss") == "root" {
			t, err = delegation.Root(k.DID, aud, cmd, pol, opts...)
		} else {
			t, err = delegation.New(k.DID, aud, cmd, pol, opts...)
		}
		if err != nil {
			return nil, k, err
		}
		return t, k, nil
	}
	// invocation
	sub := otherPrincipal(k, 1)
	if opt("sub", "other") == "iss" {
		sub = k.DID
	}
	var opts []invocation.Option
	switch opt("aud", "none") {
	case "third":
		opts = append(opts, invocation.WithAudience(otherPrincipal(k, 3)))
	case "sub":
		opts = append(opts, invocation.WithAudience(sub))
	case "nokey":
		opts = append(opts, invocation.WithAudience(unusableDID()))
	}
	if l := opt("args", "none"); l != "none" {
		l := l
		switch l {
		case "include:int2^53":
			a := args.New()
			a.Keys = append(a.Keys, "k")
			a.Values["k"] = nInt(1 << 53)
			opts = append(opts, invocation.WithArguments(a))
		case "include:nested-int2^53":
			a := args.New()
			a.Keys = append(a.Keys, "k")
			a.Values["k"] = nList(nMap(kv{"x", nInt(-(1 << 53))}))
			opts = append(opts, invocation.WithArguments(a))
		default:
			opts = append(opts, func(t *invocation.Token) error {
				return applyKV(l, func(k string, v any) error { return invocation.WithArgument(k, v)(t) }, nil)
			})
		}
	}
	var prf []cid.Cid
	switch opt("prf", "1") {
	case "1":
		prf = []cid.Cid{cidPool[0]}
	case "0":
		prf = []cid.Cid{}
	case "3":
		prf = []cid.Cid{cidPool[2], cidPool[0], cidPool[1]}
	case "odd": // links of other CID flavours: the proof list of a token is a list of links, whatever they address
		h512, _ := multihash.Sum([]byte("verif"), multihash.SHA2_512, -1)
		ident, _ := multihash.Sum([]byte("verif"), multihash.IDENTITY, -1)
		prf = []cid.Cid{cid.NewCidV1(cid.Raw, cidPool[0].Hash()), cid.NewCidV0(cidPool[1].Hash()), cidPool[2], cid.NewCidV1(cid.DagCBOR, h512), cid.NewCidV1(cid.DagCBOR, ident), cid.NewCidV1(cid.DagJSON, cidPool[3].Hash())}
	}
	if l := opt("exp", "absent"); l != "absent" {
		if l == "in-past" {
			opts = append(opts, invocation.WithExpirationIn(-time.Hour))
		} else {
			t, _ := tokTime(l)
			opts = append(opts, invocation.WithExpiration(t))
		}
	}
	switch l := opt("iat", "auto"); l {
	case "auto":
	case "none":
		opts = append(opts, invocation.WithoutInvokedAt())
	default:
		t, _ := tokTime(l)
		opts = append(opts, invocation.WithInvokedAt(t))
	}
	if l := opt("meta", "none"); l != "none" {
		l := l
		opts = append(opts, func(t *invocation.Token) error {
			return applyKV(l,
				func(k string, v any) error { return invocation.WithMeta(k, v)(t) },
				func(k, v string) error { return invocation.WithEncryptedMetaString(k, v, encKey)(t) })
		})
	}
	switch opt("nonce", "auto") {
	case "12":
		opts = append(opts, invocation.WithNonce([]byte("0123456789ab")))
	case "64":
		opts = append(opts, invocation.WithNonce(bytes.Repeat([]byte{0xab}, 64)))
	case "empty":
		opts = append(opts, invocation.WithEmptyNonce())
	default:
		if l := opt("nonce", "auto"); strings.HasPrefix(l, "ctr:") {
			opts = append(opts, invocation.WithNonce([]byte("verif-ctr-"+l[4:]+"-0123456")))
		}
	}
	if opt("cause", "nil") == "cid" {
		c := cidPool[43]
		opts = append(opts, invocation.WithCause(&c))
	}
	cmd := tokCommand(opt("cmd", "/a"))
	if f, n, ok := sizeOption(spec); ok {
		switch {
		case strings.HasPrefix(f, "cmd-"):
			cmd = growCommand(f, n)
		case f == "nonce":
			opts = append(opts, invocation.WithNonce(bytes.Repeat([]byte{0x5c}, n)))
		case f == "prf":
			prf = make([]cid.Cid, n)
			for i := range prf {
				prf[i] = synthCid(1000 + i)
			}
		case f == "args-count":
			for i := 0; i < n; i++ {
				opts = append(opts, invocation.WithArgument(fmt.Sprintf("a%06d", i), i))
			}
		case f == "meta-count":
			for i := 0; i < n; i++ {
				opts = append(opts, invocation.WithMeta(fmt.Sprintf("m%06d", i), i))
			}
		case strings.HasPrefix(f, "arg-"):
			opts = append(opts, invocation.WithArgument("big", growValue(f, n)))
		case strings.HasPrefix(f, "meta-"):
			opts = append(opts, invocation.WithMeta("big", growValue(f, n)))
		}
	}
	t, err := invocation.New(k.DID, sub, cmd, prf, opts...)
	if err != nil {
		return nil, k, err
	}
	return t, k, nil
}

// TokView is a comparable projection of every field of a token.
type TokView struct {
	Kind  string
	Iss   string
	Aud   string
	Sub   string
	Cmd   string
	Pol   string
	Args  map[string]string
	Meta  map[string]string
	Prf   []string
	Nonce string
	Nbf   string
	Exp   string
	Iat   string
	Cause string
}

func cborHex(n datamodel.Node) string {
	if n == nil {
		return "<nil>"
	}
	b, err := ipld.Encode(n, dagcbor.Encode)
	if err != nil {
		return "<unencodable:" + err.Error() + ">"
	}
	return hex.EncodeToString(b)
}

func didStr(d did.DID) string {
	if !d.Defined() {
		return "<undef>"
	}
	return d.String()
}

func unixStr(t *time.Time) string {
	if t == nil {
		return "<absent>"
	}
	return fmt.Sprint(t.Unix())
}

// metaGetters renders what the typed metadata getters return for a key, and checks them against
// the node itself: a getter of kind K returns the node's value iff the node is of kind K.
func metaGetters(m meta.ReadOnly, k string, n datamodel.Node) (string, []string) {
	var bad []string
	var parts []string
	chk := func(name string, kind datamodel.Kind, got string, err error, want string) {
		if n.Kind() == kind {
			if err != nil || got != want {
				bad = append(bad, fmt.Sprintf("%s(%q) = %s, %v on a %s node holding %s", name, k, got, err, n.Kind(), want))
			}
			parts = append(parts, name+"="+got)
		} else if err == nil {
			bad = append(bad, fmt.Sprintf("%s(%q) succeeds (%s) on a %s node", name, k, got, n.Kind()))
		}
	}
	b, err := m.GetBool(k)
	wb, _ := n.AsBool()
	chk("GetBool", datamodel.Kind_Bool, fmt.Sprint(b), err, fmt.Sprint(wb))
	s, err := m.GetString(k)
	ws, _ := n.AsString()
	chk("GetString", datamodel.Kind_String, fmt.Sprintf("%q", s), err, fmt.Sprintf("%q", ws))
	i, err := m.GetInt64(k)
	wi, _ := n.AsInt()
	chk("GetInt64", datamodel.Kind_Int, fmt.Sprint(i), err, fmt.Sprint(wi))
	f, err := m.GetFloat64(k)
	wf, _ := n.AsFloat()
	chk("GetFloat64", datamodel.Kind_Float, fmt.Sprintf("%x", f), err, fmt.Sprintf("%x", wf))
	x, err := m.GetBytes(k)
	wx, _ := n.AsBytes()
	chk("GetBytes", datamodel.Kind_Bytes, hex.EncodeToString(x), err, hex.EncodeToString(wx))
	g, err := m.GetNode(k)
	if err != nil || cborHex(g) != cborHex(n) {
		bad = append(bad, fmt.Sprintf("GetNode(%q) differs from the iterated node: %v", k, err))
	}
	if _, err := m.GetNode(k + "-absent"); err == nil {
		bad = append(bad, "GetNode of an absent key succeeds")
	}
	return strings.Join(parts, ","), bad
}

// AccessorProblems lists disagreements between a token's typed accessors and its iterated content.
func AccessorProblems(tok any) []string {
	var bad []string
	var m meta.ReadOnly
	switch t := tok.(type) {
	case *delegation.Token:
		m = t.Meta()
	case *invocation.Token:
		m = t.Meta()
		for k, n := range t.Arguments().Iter() {
			g, err := t.Arguments().GetNode(k)
			if err != nil || cborHex(g) != cborHex(n) {
				bad = append(bad, fmt.Sprintf("Arguments().GetNode(%q) differs from the iterated node: %v", k, err))
			}
		}
		if _, err := t.Arguments().GetNode("no-such-key"); err == nil {
			bad = append(bad, "Arguments().GetNode of an absent key succeeds")
		}
	default:
		return nil
	}
	for k, n := range m.Iter() {
		_, b := metaGetters(m, k, n)
		bad = append(bad, b...)
	}
	return bad
}

// ViewOf projects a token through its public accessors.
func ViewOf(tok any) TokView {
	switch t := tok.(type) {
	case *delegation.Token:
		v := TokView{Kind: "dlg", Iss: didStr(t.Issuer()), Aud: didStr(t.Audience()), Sub: didStr(t.Subject()), Cmd: t.Command().String(),
			Nonce: hex.EncodeToString(t.Nonce()), Nbf: unixStr(t.NotBefore()), Exp: unixStr(t.Expiration()), Meta: map[string]string{}}
		pn, err := t.Policy().ToIPLD()
		if err != nil {
			v.Pol = "<error:" + err.Error() + ">"
		} else {
			v.Pol = cborHex(pn)
		}
		for k, n := range t.Meta().Iter() {
			g, _ := metaGetters(t.Meta(), k, n)
			v.Meta[k] = cborHex(n) + "/" + g
		}
		return v
	case *invocation.Token:
		v := TokView{Kind: "inv", Iss: didStr(t.Issuer()), Aud: didStr(t.Audience()), Sub: didStr(t.Subject()), Cmd: t.Command().String(),
			Nonce: hex.EncodeToString(t.Nonce()), Exp: unixStr(t.Expiration()), Iat: unixStr(t.InvokedAt()), Meta: map[string]string{}, Args: map[string]string{}}
		for k, n := range t.Arguments().Iter() {
			v.Args[k] = cborHex(n)
		}
		for k, n := range t.Meta().Iter() {
			g, _ := metaGetters(t.Meta(), k, n)
			v.Meta[k] = cborHex(n) + "/" + g
		}
		for _, c := range t.Proof() {
			v.Prf = append(v.Prf, c.String())
		}
		if t.Cause() != nil {
			v.Cause = t.Cause().String()
		}
		return v
	}
	return TokView{Kind: fmt.Sprintf("<%T>", tok)}
}

// DiffViews lists the fields on which two views differ.
func DiffViews(a, b TokView) []string {
	var d []string
	chk := func(name, x, y string) {
		if x != y {
			d = append(d, name)
		}
	}
	chk("kind", a.Kind, b.Kind)
	chk("iss", a.Iss, b.Iss)
	chk("aud", a.Aud, b.Aud)
	chk("sub", a.Sub, b.Sub)
	chk("cmd", a.Cmd, b.Cmd)
	chk("pol", a.Pol, b.Pol)
	chk("nonce", a.Nonce, b.Nonce)
	chk("nbf", a.Nbf, b.Nbf)
	chk("exp", a.Exp, b.Exp)
	chk("iat", a.Iat, b.Iat)
	chk("cause", a.Cause, b.Cause)
	chk("prf", strings.Join(a.Prf, ","), strings.Join(b.Prf, ","))
	chk("args", mapStr(a.Args), mapStr(b.Args))
	chk("meta", mapStr(a.Meta), mapStr(b.Meta))
	return d
}

func mapStr(m map[string]string) string {
	var ks []string
	for k := range m {
		ks = append(ks, k)
	}
	sort.Strings(ks)
	var b strings.Builder
	for _, k := range ks {
		fmt.Fprintf(&b, "%q=%s;", k, m[k])
	}
	return b.String()
}

// specsWithDeviations enumerates base + all specs with at most d deviating options.
func specsWithDeviations(kind string, d int, emit func(opts map[string]string) bool) {
	defs := optDefsOf(kind)
	cur := map[string]string{}
	var rec func(i, left int) bool
	rec = func(i, left int) bool {
		if i == len(defs) {
			cp := map[string]string{}
			for k, v := range cur {
				cp[k] = v
			}
			return emit(cp)
		}
		if !rec(i+1, left) {
			return false
		}
		if left > 0 {
			for _, v := range defs[i].Values[1:] {
				cur[defs[i].Name] = v
				if !rec(i+1, left-1) {
					return false
				}
			}
			delete(cur, defs[i].Name)
		}
		return true
	}
	rec(0, d)
}
