package props

import "verifharness/engine"

// Registry maps a property id to its check constructor.
var Registry = map[string]func(seed int64) *engine.Check{
	"C01": func(int64) *engine.Check { return C01() },
	"C02": func(int64) *engine.Check { return C02() },
	"C03": func(int64) *engine.Check { return C03() },
	"C04": func(int64) *engine.Check { return C04() },
	"C05": func(int64) *engine.Check { return C05() },
	"C06": func(int64) *engine.Check { return C06() },
	"C07": func(int64) *engine.Check { return C07() },
	"C16": func(int64) *engine.Check { return C16() },
	"C08": func(int64) *engine.Check { return C08() },
	"C09": func(int64) *engine.Check { return C09() },
	"C10": func(int64) *engine.Check { return C10() },
	"C11": func(int64) *engine.Check { return C11() },
	"C12": func(int64) *engine.Check { return C12() },
	"C13": func(int64) *engine.Check { return C13() },
	"C14": func(int64) *engine.Check { return C14() },
	"C17": func(int64) *engine.Check { return C17() },
	"C18": func(int64) *engine.Check { return C18() },
	"C20": func(int64) *engine.Check { return C20() },
	"C19": func(int64) *engine.Check { return C19() },
	"C15": func(int64) *engine.Check { return C15() },
}

// WorkerMain is the entry point of the crash-isolated worker (C09, E5).
func WorkerMain(args []string) int { return workerMain(args) }
