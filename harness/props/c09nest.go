package props

import (
	"fmt"
	"time"

	"github.com/ipld/go-ipld-prime/datamodel"

	"github.com/ucan-wg/go-ucan/pkg/policy"
	"github.com/ucan-wg/go-ucan/pkg/policy/literal"

	"verifharness/engine"
)

// Quantifiers nested as deep as the data they run over: the work of a match is linear in policy x data; a
// matcher that evaluates a level twice under some outcome doubles per level and does not come back.

type c09NestCase struct {
	Depth int    `json:"depth"`
	Quant string `json:"quant"` // any | all | alternating | any-under-not
	Inner string `json:"inner"` // no-data | false | true | optional-missing
	Width int    `json:"width"` // elements per list level
}

func (c *c09NestCase) Weight() int { return c.Depth }

func c09NestSub() *engine.Sub {
	return &engine.Sub{
		Name:      "quantifiers-nested-as-deep-as-the-data",
		HangLimit: 20 * time.Second,
		Rule:      "d nested quantifiers (any, all, alternating, any under not; d = 4 ... 96) over lists nested d deep (1 or 2 elements per level; with 2 elements per level d <= 16), the innermost statement being true, false, without data (a field of a non-map) or over a missing optional field: Policy.Match and PartialMatch return - a case that does not come back within 20 s is the violation does-not-terminate (the unchanged tree needs microseconds); non-trivial = all",
		Bound:     func(string) string { return "8 depths x 4 quantifier patterns x 4 innermost outcomes x 2 widths" },
		Gen: func(tier string, emit func(any) bool) {
			for _, d := range []int{4, 8, 16, 24, 32, 48, 64, 96} {
				for _, q := range []string{"any", "all", "alternating", "any-under-not"} {
					for _, in := range []string{"no-data", "false", "true", "optional-missing"} {
						for _, w := range []int{1, 2} {
							if w == 2 && d > 16 {
								continue
							}
							if !emit(&c09NestCase{Depth: d, Quant: q, Inner: in, Width: w}) {
								return
							}
						}
					}
				}
			}
		},
		NewCase: func() any { return &c09NestCase{} },
		Run: func(ctx *engine.Ctx, c any) {
			cs := c.(*c09NestCase)
			var cons policy.Constructor
			switch cs.Inner {
			case "no-data":
				cons = policy.Equal(".x", literal.Int(1))
			case "false":
				cons = policy.Equal(".", literal.Int(2))
			case "true":
				cons = policy.Equal(".", literal.Int(1))
			default:
				cons = policy.Equal(".x?", literal.Int(1))
			}
			for i := 0; i < cs.Depth; i++ {
				useAny := cs.Quant == "any" || cs.Quant == "any-under-not" || (cs.Quant == "alternating" && i%2 == 0)
				if useAny {
					cons = policy.Any(".", cons)
				} else {
					cons = policy.All(".", cons)
				}
				if cs.Quant == "any-under-not" && i%4 == 3 {
					cons = policy.Not(policy.Not(cons))
				}
			}
			var data datamodel.Node = nInt(1)
			for i := 0; i < cs.Depth; i++ {
				if cs.Width == 1 {
					data = nList(data)
				} else {
					data = nList(data, data)
				}
			}
			pol := policy.MustConstruct(cons)
			ctx.States(1)
			ctx.Nontrivial(1)
			ctx.Eval(2)
			ctx.Trans(int64(cs.Depth))
			if pan, stack := callNoPanic(func() {
				m, _ := pol.Match(data)
				pm, _ := pol.PartialMatch(data)
				ctx.Outcome(fmt.Sprint(m, pm))
			}); pan != nil {
				ctx.Failf(cs, "panic/"+panicSite(stack), "matching %d nested quantifiers panics: %v", cs.Depth, pan)
			}
		},
	}
}
