package props

import (
	"fmt"
	"time"

	"github.com/ipfs/go-cid"

	"github.com/ucan-wg/go-ucan/pkg/policy"
	"github.com/ucan-wg/go-ucan/pkg/policy/literal"
	"github.com/ucan-wg/go-ucan/token/delegation"
	"github.com/ucan-wg/go-ucan/token/invocation"
	verifclock "github.com/ucan-wg/go-ucan/verifshim/clock"

	"verifharness/engine"
)

// E7 - the clock as an environment the explorer owns. The build overlay redirects every time.Now() of
// go-ucan to verifshim/clock; here a source is installed whose every reading is a choice: the same instant
// as the previous reading (default) or another instant of a menu around the one bound B of the case
// (B-1s, B-1ns, B+1ns, B+1s) - time passing, or the clock being stepped back, between two readings that
// one authorization check takes. All sequences of readings are enumerated.

type clockCase struct {
	Dev   string `json:"dev"`   // none | link | subject | firstAud | root
	Bound string `json:"bound"` // nbf | exp
	On    int    `json:"on"`    // token carrying the bound: 0 leaf, 1 root, 2 invocation (exp only)
	Start int    `json:"start"` // menu index of the first reading
	// replay
	Prefix []int `json:"prefix,omitempty"`
	API    int   `json:"api,omitempty"`
}

func (c *clockCase) Weight() int { return len(c.Prefix) }

var clockB = time.Date(2200, 1, 1, 0, 0, 0, 0, time.UTC)

func clockMenu() []time.Time {
	return []time.Time{clockB.Add(-time.Second), clockB.Add(-time.Nanosecond), clockB.Add(time.Nanosecond), clockB.Add(time.Second)}
}

// clockSub: prop C01 charges alignment deviations that are allowed, C04 charges allowed checks none of whose
// readings lies inside the window, C05 (dir complete) charges denied checks all of whose readings lie inside.
func clockSub(prop string) *engine.Sub {
	name := "clock-moves-during-the-check"
	if prop == "C05" {
		name += "-completeness"
	}
	return &engine.Sub{
		Name:   name,
		Serial: true,
		Rule:   "E7: every time.Now() of the library is a choice point of the explorer (build overlay: time.Now -> verifshim/clock). Two-link chains, correctly aligned or with one deviation (broken link, wrong subject, wrong first audience, root not issued by its subject; for C02: the leaf or the root link grants a narrower command than the one passed on below it), one token (leaf, root or invocation) carrying one bound B (nbf or exp); every sequence of clock readings over {B-1s, B-1ns, B+1ns, B+1s}, starting at each of them - time passing or being stepped back between the readings one check takes; both APIs. C01, C02: a chain with a deviation is never allowed, whatever the clock does. C04: a check none of whose readings lies inside the window is not allowed - also when the chain has two windows that never overlap (leaf or invocation expiring at B, root active from B on: no reading is inside both). C05: a check all of whose readings lie inside the window of a conforming chain is allowed; non-trivial = executions in which two readings differ",
		Bound: func(string) string {
			return "5 deviations (C02: 2) x 5 (bound, token) placements x 4 first readings x all reading sequences (4 options per reading) x 2 APIs"
		},
		Setup: func(string) error { chainInit(); return nil },
		Gen: func(tier string, emit func(any) bool) {
			devs := []string{"none", "link", "subject", "firstAud", "root"}
			if prop == "C04" || prop == "C05" {
				devs = []string{"none"}
			}
			if prop == "C02" {
				devs = []string{"cmdLeaf", "cmdRoot"}
			}
			for _, dev := range devs {
				bos := [][2]any{{"nbf", 0}, {"nbf", 1}, {"exp", 0}, {"exp", 1}, {"exp", 2}}
				if prop == "C04" {
					bos = append(bos, [2]any{"split", 0}, [2]any{"split", 2})
				}
				for _, bo := range bos {
					for st := 0; st < 4; st++ {
						if !emit(&clockCase{Dev: dev, Bound: bo[0].(string), On: bo[1].(int), Start: st}) {
							return
						}
					}
				}
			}
		},
		NewCase: func() any { return &clockCase{} },
		Run: func(ctx *engine.Ctx, c any) {
			cs := c.(*clockCase)
			menu := clockMenu()
			li, la, ls, ri := 1, 2, 0, 0
			mk := func(iss, aud, sub int, on bool, cmd string) *delegation.Token {
				var opts []delegation.Option
				if on && cs.Bound == "nbf" {
					opts = append(opts, delegation.WithNotBefore(clockB))
				}
				if on && cs.Bound == "exp" {
					opts = append(opts, delegation.WithExpiration(clockB))
				}
				// "split": two windows that never overlap - the token named by On (leaf or invocation) expires at B, the root
				// becomes active at B: there is no instant at which the whole chain is valid
				if cs.Bound == "split" && on {
					opts = append(opts, delegation.WithExpiration(clockB))
				}
				if cs.Bound == "split" && iss == ri && aud == 1 && !on {
					opts = append(opts, delegation.WithNotBefore(clockB))
				}
				return mustDlg(iss, aud, sub, cmd, nil, opts...)
			}
			lcmd, rcmd := "/a", "/a"
			switch cs.Dev {
			case "link":
				li = 2
			case "subject":
				ls = 1
			case "firstAud":
				la = 1
			case "root":
				ri = 2
			case "cmdLeaf": // the leaf link grants /a/b only, /a is invoked
				lcmd = "/a/b"
			case "cmdRoot": // the root link grants /a/b only, the leaf link passes /a on
				rcmd = "/a/b"
			}
			leaf, root := mk(li, la, ls, cs.On == 0, lcmd), mk(ri, 1, 0, cs.On == 1, rcmd)
			ld := &sliceLoader{cids: []cid.Cid{cidPool[0], cidPool[1]}, toks: []*delegation.Token{leaf, root}}
			iopts := []invocation.Option{invocation.WithNonce(fixedNonce), invocation.WithoutInvokedAt()}
			if cs.On == 2 {
				iopts = append(iopts, invocation.WithExpiration(clockB))
			}
			inv, err := invocation.New(prin(2), prin(0), "/a", []cid.Cid{cidPool[0], cidPool[1]}, iopts...)
			if err != nil {
				panic(err)
			}
			inside := func(t time.Time) bool {
				switch cs.Bound {
				case "nbf":
					return t.After(clockB)
				case "split":
					return false // before B the root is not active yet, after B the other token has expired
				}
				return t.Before(clockB)
			}
			ctx.States(1)
			for api := 0; api < 2; api++ {
				if cs.Prefix != nil && api != cs.API {
					continue
				}
				var readings []time.Time
				var verdict error
				run := func(env *engine.Env) {
					readings = readings[:0]
					cur := cs.Start
					restore := verifclock.Install(func() time.Time {
						if k := env.Choose(len(menu)); k > 0 {
							cur = (cur + k) % len(menu)
						}
						readings = append(readings, menu[cur])
						return menu[cur]
					})
					if api == 0 {
						verdict = inv.ExecutionAllowed(ld)
					} else {
						verdict = inv.ExecutionAllowedWithArgsHook(ld, identityHook)
					}
					restore()
				}
				judge := func(env *engine.Env) {
					ctx.Eval(1)
					ctx.Trans(int64(len(readings)))
					moved := false
					allIn, allOut := true, true
					for i, r := range readings {
						if i > 0 && !r.Equal(readings[i-1]) {
							moved = true
						}
						if inside(r) {
							allOut = false
						} else {
							allIn = false
						}
					}
					if moved {
						ctx.Nontrivial(1)
					}
					ctx.Outcome(fmt.Sprintf("%s/readings=%d", errLabel(verdict), len(readings)))
					rc := &clockCase{Dev: cs.Dev, Bound: cs.Bound, On: cs.On, Start: cs.Start, Prefix: append([]int{}, env.Taken...), API: api}
					var rs []string
					for _, r := range readings {
						rs = append(rs, fmt.Sprintf("B%+dns", r.Sub(clockB).Nanoseconds()))
					}
					switch prop {
					case "C01", "C02":
						if cs.Dev != "none" && verdict == nil {
							ctx.Failf(rc, "allowed-despite:"+cs.Dev+"/clock-moves-during-the-check", "a chain with deviation %q (%s=B on token %d) is allowed when the clock reads %v during the check", cs.Dev, cs.Bound, cs.On, rs)
						}
					case "C04":
						if verdict == nil && allOut && len(readings) > 0 {
							ctx.Failf(rc, "time-not-enforced/clock-moves-during-the-check", "allowed although every clock reading of the check (%v) lies outside the window (%s=B on token %d)", rs, cs.Bound, cs.On)
						}
						if verdict == nil && len(readings) == 0 {
							ctx.Failf(rc, "time-not-enforced/clock-never-read", "allowed without a single clock reading although token %d carries %s=B", cs.On, cs.Bound)
						}
					case "C05":
						if verdict != nil && allIn {
							ctx.Failf(rc, "conforming-denied:"+errLabel(verdict)+"/clock-moves-during-the-check", "denied although every clock reading of the check (%v) lies inside the window (%s=B on token %d): %v", rs, cs.Bound, cs.On, verdict)
						}
					}
				}
				if cs.Prefix != nil {
					env := &engine.Env{Prefix: cs.Prefix}
					run(env)
					judge(env)
					continue
				}
				if _, _, err := engine.ExploreEnv(6, 100000, run, judge); err != nil {
					panic(err)
				}
			}
		},
	}
}

// ---- histories of checks across a bound, under the controlled clock ----

type clockHistCase struct {
	Bound string `json:"bound"` // nbf | exp
	On    int    `json:"on"`    // 0 leaf, 1 root, 2 invocation (exp only)
	Seq   []int  `json:"seq"`   // menu index of the clock during check k
	Kind  []int  `json:"kind"`  // check k uses: 0 the shared invocation token, 1 a fresh one, 2 a fresh one whose arguments violate the leaf's policy
}

func (c *clockHistCase) Weight() int { return len(c.Seq) }

// clockHistSub: sequences of checks on the SAME token objects while the (controlled) clock stands at chosen
// instants around the bound - forwards, backwards, back and forth. Every verdict is the reference's for the
// instant of that check; nothing may be remembered from an earlier instant.
func clockHistSub(prop string) *engine.Sub {
	name := "checks-across-virtual-expiry"
	if prop == "C05" {
		name += "-completeness"
	}
	return &engine.Sub{
		Name:   name,
		Serial: true,
		Rule:   "E7: one two-link chain and its invocation, one of the three tokens carrying one bound B (nbf or exp); three authorization checks in a row on the same delegation objects - each with the shared invocation token, a fresh one, or a fresh one that the leaf's policy refuses - while the controlled clock stands at an instant chosen per check from {B-1s, B-1ns, B+1ns, B+1s} (all 64 sequences: time passing, standing still, being stepped back), ExecutionAllowed and ExecutionAllowedWithArgsHook alternating; plus IsValidNow of the bounded token before every check: each verdict is the reference's for the instant of that check (C04: not allowed outside the window; C05: allowed inside); non-trivial = sequences that cross the bound",
		Bound: func(string) string {
			return "5 (bound, token) placements x 64 clock sequences x 27 invocation patterns x 3 checks"
		},
		Setup: func(string) error { chainInit(); return nil },
		Gen: func(tier string, emit func(any) bool) {
			for _, bo := range [][2]any{{"nbf", 0}, {"nbf", 1}, {"exp", 0}, {"exp", 1}, {"exp", 2}} {
				for a := 0; a < 4; a++ {
					for b := 0; b < 4; b++ {
						for c := 0; c < 4; c++ {
							for f := 0; f < 27; f++ {
								if !emit(&clockHistCase{Bound: bo[0].(string), On: bo[1].(int), Seq: []int{a, b, c}, Kind: []int{f % 3, f / 3 % 3, f / 9}}) {
									return
								}
							}
						}
					}
				}
			}
		},
		NewCase: func() any { return &clockHistCase{} },
		Run: func(ctx *engine.Ctx, c any) {
			cs := c.(*clockHistCase)
			menu := clockMenu()
			mk := func(iss, aud int, on bool) *delegation.Token {
				var opts []delegation.Option
				if on && cs.Bound == "nbf" {
					opts = append(opts, delegation.WithNotBefore(clockB))
				}
				if on && cs.Bound == "exp" {
					opts = append(opts, delegation.WithExpiration(clockB))
				}
				var pol policy.Policy
				if aud == 2 {
					pol = policy.MustConstruct(policy.Equal(".x", literal.Int(1)))
				}
				return mustDlg(iss, aud, 0, "/a", pol, opts...)
			}
			leaf, root := mk(1, 2, cs.On == 0), mk(0, 1, cs.On == 1)
			ld := &sliceLoader{cids: []cid.Cid{cidPool[0], cidPool[1]}, toks: []*delegation.Token{leaf, root}}
			mkInv := func(x int) *invocation.Token {
				iopts := []invocation.Option{invocation.WithNonce(fixedNonce), invocation.WithoutInvokedAt(), invocation.WithArgument("x", x)}
				if cs.On == 2 {
					iopts = append(iopts, invocation.WithExpiration(clockB))
				}
				inv, err := invocation.New(prin(2), prin(0), "/a", []cid.Cid{cidPool[0], cidPool[1]}, iopts...)
				if err != nil {
					panic(err)
				}
				return inv
			}
			shared := mkInv(1)
			inside := func(t time.Time) bool {
				if cs.Bound == "nbf" {
					return t.After(clockB)
				}
				return t.Before(clockB)
			}
			now := menu[0]
			restore := verifclock.Install(func() time.Time { return now })
			defer restore()
			ctx.States(1)
			crosses := false
			for k, mi := range cs.Seq {
				if k > 0 && inside(menu[mi]) != inside(menu[cs.Seq[k-1]]) {
					crosses = true
				}
			}
			if crosses {
				ctx.Nontrivial(1)
			}
			for k, mi := range cs.Seq {
				now = menu[mi]
				inv := shared
				switch cs.Kind[k] {
				case 1:
					inv = mkInv(1)
				case 2:
					inv = mkInv(2)
				}
				var nowValid bool
				switch cs.On {
				case 0:
					nowValid = leaf.IsValidNow()
				case 1:
					nowValid = root.IsValidNow()
				default:
					nowValid = inv.IsValidNow()
				}
				var verdict error
				if k%2 == 0 {
					verdict = inv.ExecutionAllowed(ld)
				} else {
					verdict = inv.ExecutionAllowedWithArgsHook(ld, identityHook)
				}
				ctx.Eval(2)
				ctx.Trans(1)
				ctx.Outcome(errLabel(verdict))
				want := inside(now)
				at := fmt.Sprintf("B%+dns", now.Sub(clockB).Nanoseconds())
				if cs.Kind[k] == 2 {
					// refused by the policy whatever the clock says; it is in the history for what it may leave behind
					if verdict == nil {
						ctx.Failf(cs, "allowed-despite-policy/in-a-clock-history", "check #%d of the history %v / %v: an invocation whose arguments violate the leaf's policy is allowed", k, cs.Seq, cs.Kind)
					}
					continue
				}
				if prop == "C04" {
					if verdict == nil && !want {
						ctx.Failf(cs, "time-not-enforced/after-earlier-checks-at-other-instants", "check #%d of the history %v (clock at %s) is allowed although token %d is outside its window (%s=B)", k, cs.Seq, at, cs.On, cs.Bound)
					}
					if nowValid && !want {
						ctx.Failf(cs, "valid-outside-window/IsValidNow-after-earlier-checks", "IsValidNow of token %d says valid with the clock at %s (%s=B), history %v", cs.On, at, cs.Bound, cs.Seq)
					}
				} else {
					if verdict != nil && want {
						ctx.Failf(cs, "conforming-denied:"+errLabel(verdict)+"/after-earlier-checks-at-other-instants", "check #%d of the history %v (clock at %s) is denied although every token is inside its window: %v", k, cs.Seq, at, verdict)
					}
					if !nowValid && want {
						ctx.Failf(cs, "invalid-inside-window/IsValidNow-after-earlier-checks", "IsValidNow of token %d says invalid with the clock at %s (%s=B), history %v", cs.On, at, cs.Bound, cs.Seq)
					}
				}
			}
		},
	}
}
