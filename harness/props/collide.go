package props

import (
	"fmt"
	"hash/adler32"
	"hash/crc32"
	"hash/fnv"
	"sync"
)

// Texts that collide under the 32-bit hash functions of the standard library: a table, cache or interning map
// keyed by such a hash (with or without the length) confuses the two texts of a pair. The pairs are found by
// enumeration of gen(0), gen(1), ... (all of one length), deterministically, once per process.

type collidingPair struct {
	Hash string
	A, B string
}

var collideHashes = []struct {
	Name string
	Sum  func(string) uint64
}{
	{"fnv32a", func(s string) uint64 { h := fnv.New32a(); h.Write([]byte(s)); return uint64(h.Sum32()) }},
	{"fnv32", func(s string) uint64 { h := fnv.New32(); h.Write([]byte(s)); return uint64(h.Sum32()) }},
	{"crc32-ieee", func(s string) uint64 { return uint64(crc32.ChecksumIEEE([]byte(s))) }},
	{"crc32-castagnoli", func(s string) uint64 { return uint64(crc32.Checksum([]byte(s), crc32.MakeTable(crc32.Castagnoli))) }},
	{"adler32", func(s string) uint64 { return uint64(adler32.Checksum([]byte(s))) }},
	{"fnv64a-folded", func(s string) uint64 {
		h := fnv.New64a()
		h.Write([]byte(s))
		v := h.Sum64()
		return (v >> 32) ^ (v & 0xffffffff)
	}},
	{"fnv64a-low32", func(s string) uint64 { h := fnv.New64a(); h.Write([]byte(s)); return h.Sum64() & 0xffffffff }},
}

var (
	collideMu    sync.Mutex
	collideCache = map[string][]collidingPair{}
)

// collidingTexts returns perHash pairs of distinct equal-length texts gen(i), gen(j) for each hash function.
func collidingTexts(family string, gen func(i int) string, perHash int) []collidingPair {
	return collidingTextsFor(family, gen, perHash, nil)
}

// collidingTextsFor restricts the search to the named hash functions (nil = all).
func collidingTextsFor(family string, gen func(i int) string, perHash int, only []string) []collidingPair {
	collideMu.Lock()
	defer collideMu.Unlock()
	if r, ok := collideCache[family]; ok {
		return r
	}
	var out []collidingPair
	for _, h := range collideHashes {
		if only != nil && !containsStr(only, h.Name) {
			continue
		}
		seen := make(map[uint64]int, 1<<18)
		found := 0
		for i := 0; i < 1<<21 && found < perHash; i++ {
			s := gen(i)
			v := h.Sum(s)
			if j, ok := seen[v]; ok {
				out = append(out, collidingPair{Hash: h.Name, A: gen(j), B: s})
				found++
				continue
			}
			seen[v] = i
		}
		if found < perHash {
			panic(fmt.Sprintf("harness: only %d colliding pairs for %s/%s", found, family, h.Name))
		}
	}
	// re-verify: distinct texts, same length, same sum
	for _, p := range out {
		for _, h := range collideHashes {
			if h.Name == p.Hash && (p.A == p.B || len(p.A) != len(p.B) || h.Sum(p.A) != h.Sum(p.B)) {
				panic("harness: bad colliding pair " + p.A + " " + p.B)
			}
		}
	}
	collideCache[family] = out
	return out
}

func containsStr(l []string, s string) bool {
	for _, x := range l {
		if x == s {
			return true
		}
	}
	return false
}
