package props

import (
	"fmt"
	"unicode"
	"unicode/utf8"

	"github.com/ucan-wg/go-ucan/pkg/command"
	"github.com/ucan-wg/go-ucan/token"

	"verifharness/engine"
	"verifharness/fixtures"
)

// Commands over the whole of Unicode: command.Parse / IsValid on "/"+c and "/x"+c+"/y" for EVERY code point c
// (and every lone byte 0x80..0xff), and - for every code point that has any case mapping or is a letter-like
// number / symbol - as the cmd of a well-signed delegation offered to the decoders: a value or an error, no panic.

type c09CmdCase struct {
	Lo int `json:"lo"` // block of code points [Lo, Hi)
	Hi int `json:"hi"`
	R  int `json:"r,omitempty"` // replay: one code point (-1-b = lone byte b)
}

func (c *c09CmdCase) Weight() int { return c.Hi - c.Lo }

func c09CmdSub() *engine.Sub {
	return &engine.Sub{
		Name: "commands-over-every-code-point",
		Rule: "command.Parse and IsValid on /c, /xc/y and /c/ for every Unicode code point c (0 .. 0x10FFFF without surrogates) and every lone byte 0x80 .. 0xff; for every c with a case mapping (ToLower, ToUpper or ToTitle changes it) or of category Lt, Nl, So, Lm, Mn: additionally as the cmd field of a delegation signed correctly by the issuer, offered to token.FromSealed: every call returns; an error can be printed; non-trivial = all",
		Bound: func(string) string {
			return "1,112,064 code points + 128 lone bytes x 3 shapes x 2 functions; ~4,000 signed tokens"
		},
		Gen: func(tier string, emit func(any) bool) {
			for lo := 0; lo < 0x110000; lo += 0x4000 {
				if !emit(&c09CmdCase{Lo: lo, Hi: lo + 0x4000}) {
					return
				}
			}
			emit(&c09CmdCase{Lo: -128, Hi: 0})
		},
		NewCase: func() any { return &c09CmdCase{} },
		Run: func(ctx *engine.Ctx, c any) {
			cs := c.(*c09CmdCase)
			p := c10BasePayload("dlg", "ed25519")
			key := fixtures.Get("ed25519", 0)
			ctx.States(1)
			one := func(r int) {
				var ch string
				interesting := false
				if r < 0 {
					ch = string([]byte{byte(-r - 1 + 0x80)})
					interesting = true
				} else {
					if r >= 0xD800 && r <= 0xDFFF {
						return
					}
					ru := rune(r)
					ch = string(ru)
					interesting = unicode.ToLower(ru) != ru || unicode.ToUpper(ru) != ru || unicode.ToTitle(ru) != ru ||
						unicode.In(ru, unicode.Lt, unicode.Nl, unicode.So, unicode.Lm, unicode.Mn) || ru == utf8.RuneError
				}
				ctx.Nontrivial(1)
				for _, s := range []string{"/" + ch, "/x" + ch + "/y", "/" + ch + "/"} {
					ctx.Eval(2)
					if pan, stack := callNoPanic(func() {
						if _, err := command.Parse(s); err != nil {
							_ = err.Error()
						}
						_ = command.IsValid(s)
					}); pan != nil {
						ctx.Outcome("panic")
						ctx.Failf(&c09CmdCase{Lo: cs.Lo, Hi: cs.Hi, R: r}, "panic/"+panicSite(stack), "command.Parse(%q) panics: %v", s, pan)
						return
					}
				}
				if !interesting {
					return
				}
				var es []kv
				for _, e := range p.Payload {
					if e.K == "cmd" {
						es = append(es, kv{"cmd", nStr("/x" + ch + "/y")})
					} else {
						es = append(es, e)
					}
				}
				sealed := assemble(key, sigPayloadNode(p.Header, p.Tag, nMap(es...)))
				ctx.Eval(1)
				ctx.Trans(1)
				if pan, stack := callNoPanic(func() {
					if _, _, err := token.FromSealed(sealed); err != nil {
						_ = err.Error()
					}
				}); pan != nil {
					ctx.Outcome("panic")
					ctx.Failf(&c09CmdCase{Lo: cs.Lo, Hi: cs.Hi, R: r}, "panic/"+panicSite(stack), "token.FromSealed panics on a well-signed delegation whose cmd is %q: %v", "/x"+ch+"/y", pan)
				}
			}
			if cs.R != 0 {
				one(cs.R)
				return
			}
			for r := cs.Lo; r < cs.Hi; r++ {
				one(r)
			}
			ctx.Outcome(fmt.Sprintf("block-done"))
		},
	}
}
