package props

import (
	"fmt"
	"unicode/utf8"

	"github.com/ucan-wg/go-ucan/pkg/policy"
	"github.com/ucan-wg/go-ucan/pkg/policy/literal"

	"verifharness/engine"
	"verifharness/refmodel"
)

// Symbols outside ASCII: lone bytes that are not UTF-8 (0xff, 0xfe), the two bytes of é (0xc3 0xa9) as
// separate symbols - so that patterns and strings can end in the middle of a character -, and U+FFFD
// (what a decoder would put in place of an invalid byte). Cases carry symbol indexes: the texts
// themselves do not survive a JSON replay file.
var c13ByteAlphabet = []string{"a", "*", `\`, "\xff", "\xfe", "\xc3", "\xa9", "\xef\xbf\xbd", "\n"}

type c13BytesCase struct {
	Pat    []int `json:"pat"`
	Str    []int `json:"str,omitempty"` // nil = every string of the bound
	StrLen int   `json:"str_len"`
}

func (c *c13BytesCase) Weight() int { return len(c.Pat) + len(c.Str) }

func c13Text(idx []int) string {
	var b []byte
	for _, k := range idx {
		b = append(b, c13ByteAlphabet[k]...)
	}
	return string(b)
}

func allIndexLists(k, maxLen int, emit func([]int) bool) {
	var rec func(cur []int) bool
	rec = func(cur []int) bool {
		if !emit(append([]int{}, cur...)) {
			return false
		}
		if len(cur) == maxLen {
			return true
		}
		for i := 0; i < k; i++ {
			if !rec(append(cur, i)) {
				return false
			}
		}
		return true
	}
	rec(nil)
}

func c13BytesSub() *engine.Sub {
	return &engine.Sub{
		Name:   "like-on-bytes-outside-ascii",
		Repeat: true,
		Rule:   `every pattern x every string over the symbols {a, *, \, 0xff, 0xfe, 0xc3, 0xa9, U+FFFD, line feed}: strings that are not UTF-8, that end inside a multi-byte character, or that hold the replacement character; a string is a sequence of bytes and every byte other than an unescaped * and the escaping \ stands for itself (0xff is not 0xfe, neither is U+FFFD, * may stand for a part of a character and for line feeds); constructor-built and FromIPLD-built statements; oracle = dynamic programming over bytes; non-trivial = pattern or string is not valid UTF-8`,
		Bound: func(t string) string {
			return fmt.Sprintf("patterns of <= %d symbols x strings of <= %d symbols over 9 symbols", tierN(t, 3, 4), tierN(t, 4, 5))
		},
		Gen: func(tier string, emit func(any) bool) {
			allIndexLists(len(c13ByteAlphabet), tierN(tier, 3, 4), func(p []int) bool {
				return emit(&c13BytesCase{Pat: p, StrLen: tierN(tier, 4, 5)})
			})
		},
		NewCase: func() any { return &c13BytesCase{} },
		Run: func(ctx *engine.Ctx, c any) {
			cs := c.(*c13BytesCase)
			pat := c13Text(cs.Pat)
			toks, okRef := refmodel.GlobParse(pat)
			pol, err := policy.Construct(policy.Like(".", pat))
			pol2, err2 := policy.FromIPLD(likeNode(".", pat))
			ctx.Eval(2)
			ctx.States(1)
			if (err == nil) != okRef || (err2 == nil) != okRef {
				ctx.Failf(&c13BytesCase{Pat: cs.Pat, Str: []int{}, StrLen: cs.StrLen}, "glob/constructor-acceptance", "pattern %q: constructor error=%v, FromIPLD error=%v, but the reference says valid=%v", pat, err, err2, okRef)
				return
			}
			if !okRef {
				ctx.Outcome("pattern-rejected")
				return
			}
			one := func(si []int) {
				s := c13Text(si)
				node := literal.String(s)
				got, _ := pol.Match(node)
				got2, _ := pol2.Match(node)
				want := refmodel.GlobMatch(toks, s)
				ctx.Eval(2)
				ctx.Trans(1)
				if !validUTF8(pat) || !validUTF8(s) {
					ctx.Nontrivial(1)
				}
				ctx.Outcome(fmt.Sprint(got))
				if got != want || got2 != want {
					side := "false-negative"
					if !want {
						side = "false-positive"
					}
					ctx.Failf(&c13BytesCase{Pat: cs.Pat, Str: append([]int{}, si...), StrLen: cs.StrLen}, "glob/"+side+"/bytes-outside-ascii", "like %q on %q = %v / %v, the glob language over bytes says %v", pat, s, got, got2, want)
				}
			}
			if cs.Str != nil {
				one(cs.Str)
				return
			}
			allIndexLists(len(c13ByteAlphabet), cs.StrLen, func(si []int) bool { one(si); return true })
		},
	}
}

func validUTF8(s string) bool { return utf8.ValidString(s) }
