package props

import (
	"fmt"
	verifclock "github.com/ucan-wg/go-ucan/verifshim/clock"
	"os"
	"time"

	"github.com/ipfs/go-cid"

	"github.com/ucan-wg/go-ucan/pkg/container"
	"github.com/ucan-wg/go-ucan/pkg/policy"
	"github.com/ucan-wg/go-ucan/pkg/policy/literal"
	"github.com/ucan-wg/go-ucan/token/delegation"
	"github.com/ucan-wg/go-ucan/token/invocation"

	"verifharness/engine"
	"verifharness/fixtures"
)

// Instants, all far in the future so that constructors accept them.
var (
	c04T0     = time.Date(2200, 1, 1, 0, 0, 0, 0, time.UTC)
	c04Bounds = [5]time.Time{{}, c04T0.Add(1000 * time.Second), c04T0.Add(2000 * time.Second), c04T0.Add(3000 * time.Second), c04T0.Add(4000 * time.Second)}
	c04Nbf    = []int{0, 1, 3} // 0 = absent, else index into c04Bounds
	c04Exp    = []int{0, 2, 4}
	// Delegations keep the sub-second part of their bounds in memory (the wire format is second-granular):
	// three of the four delegation bounds carry a fraction. Invocation expirations are rounded to whole
	// seconds by their constructor, so the invocation keeps the whole-second bounds.
	c04DBounds = [5]time.Time{{}, c04Bounds[1].Add(250 * time.Millisecond), c04Bounds[2].Add(750 * time.Millisecond), c04Bounds[3], c04Bounds[4].Add(500 * time.Millisecond)}
)

// c04Floor is the bound as a decoded token carries it (whole seconds).
func c04Floor(b [5]time.Time) [5]time.Time {
	for i := 1; i < 5; i++ {
		b[i] = time.Unix(b[i].Unix(), 0).UTC()
	}
	return b
}

func c04Probes() []time.Time {
	var ps []time.Time
	ps = append(ps, c04T0.AddDate(-100, 0, 0))
	for b := 1; b <= 4; b++ {
		t := c04Bounds[b]
		ps = append(ps, t.Add(-time.Second), t.Add(-time.Nanosecond), t, t.Add(time.Nanosecond), t.Add(time.Second))
		if d := c04DBounds[b]; !d.Equal(t) {
			// around the fractional bound of the delegations, and the other end of its wall-clock second
			ps = append(ps, d.Add(-time.Nanosecond), d, d.Add(time.Nanosecond), t.Add(time.Second-time.Nanosecond))
		}
	}
	ps = append(ps, c04T0.AddDate(100, 0, 0))
	// special values of time.Time: the zero value (year 1), the same instant as a Unix time, the Unix epoch
	ps = append(ps, time.Time{}, time.Unix(-62135596800, 0), time.Unix(0, 0), time.Unix(0, 1))
	// the same instants expressed in two other time zones: validity is a property of the instant
	n := len(ps)
	for _, z := range []*time.Location{time.FixedZone("east", 14*3600), time.FixedZone("west", -12*3600+1800)} {
		for _, p := range ps[:n] {
			ps = append(ps, p.In(z))
		}
	}
	return ps
}

// three-valued reference: +1 must be valid, -1 must be invalid, 0 don't care (exactly on a bound).
func c04Ref(nbf, exp int, at time.Time) int { return c04RefB(&c04Bounds, nbf, exp, at) }

func c04RefB(bounds *[5]time.Time, nbf, exp int, at time.Time) int {
	res := 1
	if nbf != 0 {
		switch {
		case at.Before(bounds[nbf]):
			return -1
		case at.Equal(bounds[nbf]):
			res = 0
		}
	}
	if exp != 0 {
		switch {
		case at.After(bounds[exp]):
			return -1
		case at.Equal(bounds[exp]):
			res = 0
		}
	}
	return res
}

func c04Dlg(iss, aud, sub, win int) *delegation.Token {
	nbf, exp := c04Nbf[win/3], c04Exp[win%3]
	var opts []delegation.Option
	if nbf != 0 {
		opts = append(opts, delegation.WithNotBefore(c04DBounds[nbf]))
	}
	if exp != 0 {
		opts = append(opts, delegation.WithExpiration(c04DBounds[exp]))
	}
	return mustDlg(iss, aud, sub, "/a", nil, opts...)
}

type c04Case struct {
	Wins   []int `json:"wins"`    // window id (nbf*3+exp) per link, leaf first
	InvExp int   `json:"inv_exp"` // 0 absent, 2, 4
	Probe  int   `json:"probe"`   // -1 = all probes
	Layout int   `json:"layout"`  // principal layout of the chain (layoutHolder)
}

func (c *c04Case) Weight() int { return len(c.Wins) }

func c04ChainSub(name, dir string, qn, tn int) *engine.Sub {
	probes := c04Probes()
	return &engine.Sub{
		Name: name,
		Rule: "every assignment of windows {nbf in -,t1,t3} x {exp in -,t2,t4} to each link (three of the four delegation bounds carry a sub-second fraction, which an in-memory delegation keeps) for every principal layout (straight chain; the subject re-delegating to itself above the first subject-issued link), invocation expiry in {-,t2,t4}, probed at 34 instants x 3 time zones (1s / 1ns before, on, after every bound; far past/future) through the verif-tagged export of verifyTimeBoundAt; exactly-on-a-bound is don't-care; non-trivial = at least one bound present",
		Bound: func(t string) string {
			return fmt.Sprintf("chains of 1..%d links, 9 windows per link, 3 invocation expiries, 102 probes (34 instants x 3 zones)", tierN(t, qn, tn))
		},
		Setup: func(string) error { chainInit(); return nil },
		Gen: func(tier string, emit func(any) bool) {
			for n := 1; n <= tierN(tier, qn, tn); n++ {
				idx := make([]int, n)
				for {
					for _, ie := range []int{0, 2, 4} {
						for lay := 0; lay < layoutCount(n); lay++ {
							if !emit(&c04Case{Wins: append([]int{}, idx...), InvExp: ie, Probe: -1, Layout: lay}) {
								return
							}
						}
					}
					i := n - 1
					for i >= 0 {
						idx[i]++
						if idx[i] < 9 {
							break
						}
						idx[i] = 0
						i--
					}
					if i < 0 {
						break
					}
				}
			}
		},
		NewCase: func() any { return &c04Case{Probe: -1} },
		Run: func(ctx *engine.Ctx, c any) {
			cs := c.(*c04Case)
			n := len(cs.Wins)
			dlgs := make([]*delegation.Token, n)
			prf := make([]cid.Cid, n)
			any := cs.InvExp != 0
			for i := 0; i < n; i++ {
				dlgs[i] = c04Dlg(layoutHolder(cs.Layout, n, i+1), layoutHolder(cs.Layout, n, i), 0, cs.Wins[i])
				prf[i] = cidPool[i]
				if cs.Wins[i] != 0 {
					any = true
				}
			}
			opts := []invocation.Option{invocation.WithNonce(fixedNonce), invocation.WithoutInvokedAt()}
			if cs.InvExp != 0 {
				opts = append(opts, invocation.WithExpiration(c04Bounds[cs.InvExp]))
			}
			inv, err := invocation.New(prin(layoutHolder(cs.Layout, n, 0)), prin(0), "/a", prf, opts...)
			if err != nil {
				panic(err)
			}
			ctx.States(1)
			if any {
				ctx.Nontrivial(1)
			}
			for pi, at := range probes {
				if cs.Probe >= 0 && pi != cs.Probe {
					continue
				}
				ctx.Eval(1)
				ctx.Trans(1)
				e := invocation.VerifTimeBoundAt(inv, at, dlgs)
				// reference
				worst, allValid := 1, true
				where := "invocation"
				r := c04Ref(0, cs.InvExp, at)
				if r < worst {
					worst = r
				}
				if r != 1 {
					allValid = false
				}
				for i := 0; i < n; i++ {
					r := c04RefB(&c04DBounds, c04Nbf[cs.Wins[i]/3], c04Exp[cs.Wins[i]%3], at)
					if r < worst {
						worst = r
						switch {
						case i == 0:
							where = "leaf-link"
						case i == n-1:
							where = "root-link"
						default:
							where = "inner-link"
						}
						if n == 1 {
							where = "single-link"
						}
					}
					if r != 1 {
						allValid = false
					}
				}
				ctx.Outcome(errLabel(e))
				rc := &c04Case{Wins: cs.Wins, InvExp: cs.InvExp, Probe: pi, Layout: cs.Layout}
				if dir == "sound" && e == nil && worst == -1 {
					ctx.Failf(rc, "time-not-enforced@"+where, "time check passed at %s although the %s is outside its window (wins=%v invExp=%d)", at.Format(time.RFC3339Nano), where, cs.Wins, cs.InvExp)
				}
				if dir == "complete" && e != nil && allValid {
					ctx.Failf(rc, "time-denied-valid", "time check failed at %s although every token is strictly inside its window (wins=%v invExp=%d): %v", at.Format(time.RFC3339Nano), cs.Wins, cs.InvExp, e)
				}
			}
		},
	}
}

type c04SingleCase struct {
	Kind   string `json:"kind"` // "dlg" | "inv"
	Win    int    `json:"win"`
	Sealed bool   `json:"sealed"` // probe the token after seal -> unseal
	Probe  int    `json:"probe"`
}

func c04SingleSub(dir string) *engine.Sub {
	probes := c04Probes()
	return &engine.Sub{
		Name:   "single-token-window",
		Repeat: true,
		Rule:   "IsValidAt of every delegation window (9) and invocation expiry (3), constructed and after seal->unseal, at 38 probe instants (the zero time.Time and the Unix epoch among them; the library's clock stands inside the window meanwhile, E7), each expressed in UTC and in two other time zones (+14h, -11h30); strictly inside => valid, strictly outside => invalid, on a bound don't care; non-trivial = at least one bound present",
		Bound: func(string) string {
			return "9+3 windows x {constructed, sealed+unsealed} x 114 probes (38 instants x 3 zones)"
		},
		Setup: func(string) error { chainInit(); return nil },
		Gen: func(tier string, emit func(any) bool) {
			for _, sealed := range []bool{false, true} {
				for w := 0; w < 9; w++ {
					if !emit(&c04SingleCase{Kind: "dlg", Win: w, Sealed: sealed, Probe: -1}) {
						return
					}
				}
				for _, w := range []int{0, 2, 4} {
					if !emit(&c04SingleCase{Kind: "inv", Win: w, Sealed: sealed, Probe: -1}) {
						return
					}
				}
			}
		},
		NewCase: func() any { return &c04SingleCase{Probe: -1} },
		Run: func(ctx *engine.Ctx, c any) {
			cs := c.(*c04SingleCase)
			key := fixtures.Get("ed25519", 0)
			var valid func(time.Time) bool
			nbf, exp := 0, 0
			if cs.Kind == "dlg" {
				nbf, exp = c04Nbf[cs.Win/3], c04Exp[cs.Win%3]
				d := c04Dlg(0, 1, 0, cs.Win)
				if cs.Sealed {
					b, _, err := d.ToSealed(key.Priv)
					if err != nil {
						panic(err)
					}
					d2, _, err := delegation.FromSealed(b)
					if err != nil {
						ctx.Failf(cs, "roundtrip-failed", "delegation with window %d does not survive seal/unseal: %v", cs.Win, err)
						return
					}
					d = d2
				}
				valid = d.IsValidAt
			} else {
				exp = cs.Win
				opts := []invocation.Option{invocation.WithNonce(fixedNonce), invocation.WithoutInvokedAt()}
				if exp != 0 {
					opts = append(opts, invocation.WithExpiration(c04Bounds[exp]))
				}
				inv, err := invocation.New(prin(0), prin(0), "/a", []cid.Cid{cidPool[0]}, opts...)
				if err != nil {
					panic(err)
				}
				if cs.Sealed {
					b, _, err := inv.ToSealed(key.Priv)
					if err != nil {
						panic(err)
					}
					i2, _, err := invocation.FromSealed(b)
					if err != nil {
						ctx.Failf(cs, "roundtrip-failed", "invocation with expiry %d does not survive seal/unseal: %v", cs.Win, err)
						return
					}
					inv = i2
				}
				valid = inv.IsValidAt
			}
			ctx.States(1)
			if nbf != 0 || exp != 0 {
				ctx.Nontrivial(1)
			}
			// E7: while the probes are asked the library's clock stands INSIDE every window (T0 + 3500 s: after both
			// not-before bounds, before the last expiration) - an instant handed to IsValidAt is the instant that is judged,
			// whatever the clock says, also when it is the zero time.Time or the Unix epoch
			restoreClock := verifclock.InstallLocal(func() time.Time { return c04T0.Add(3500 * time.Second) })
			defer restoreClock()
			// probes are asked in ascending order, then again in descending order on the same token:
			// the answer for an instant must not depend on which instants were asked before
			first := map[int]bool{}
			order := make([]int, 0, 2*len(probes))
			for pi := range probes {
				order = append(order, pi)
			}
			for pi := len(probes) - 1; pi >= 0; pi-- {
				order = append(order, pi)
			}
			for step, pi := range order {
				at := probes[pi]
				if cs.Probe >= 0 && pi != cs.Probe && step < len(probes) {
					// replay of a single probe: still walk the whole history, but only judge the requested one
				}
				ctx.Eval(1)
				ctx.Trans(1)
				got := valid(at)
				if step >= len(probes) {
					if got != first[pi] {
						ctx.Failf(&c04SingleCase{Kind: cs.Kind, Win: cs.Win, Sealed: cs.Sealed, Probe: pi}, "validity-depends-on-earlier-queries/"+cs.Kind, "%s(nbf=%d,exp=%d).IsValidAt(%s) answered %v first and %v after later instants had been asked on the same token", cs.Kind, nbf, exp, at.Format(time.RFC3339Nano), first[pi], got)
					}
					continue
				}
				first[pi] = got
				bounds := c04Bounds
				if cs.Kind == "dlg" {
					bounds = c04DBounds
					if cs.Sealed {
						bounds = c04Floor(c04DBounds)
					}
				}
				want := c04RefB(&bounds, nbf, exp, at)
				ctx.Outcome(fmt.Sprintf("valid=%v", got))
				rc := &c04SingleCase{Kind: cs.Kind, Win: cs.Win, Sealed: cs.Sealed, Probe: pi}
				if dir == "sound" && got && want == -1 {
					side := "after-expiration"
					if nbf != 0 && at.Before(bounds[nbf]) {
						side = "before-notbefore"
					}
					ctx.Failf(rc, "valid-outside-window/"+cs.Kind+"/"+side, "%s(nbf=%d,exp=%d,sealed=%v).IsValidAt(%s)=true", cs.Kind, nbf, exp, cs.Sealed, at.Format(time.RFC3339Nano))
				}
				if dir == "sound" && !got && want == 1 {
					ctx.Failf(rc, "invalid-inside-window/"+cs.Kind, "%s(nbf=%d,exp=%d,sealed=%v).IsValidAt(%s)=false", cs.Kind, nbf, exp, cs.Sealed, at.Format(time.RFC3339Nano))
				}
			}
		},
	}
}

// Real-clock alphabet: bounds 10 years away from now on either side.
const c04TenYears = 10 * 365 * 24 * time.Hour

// window ids: 0 none, 1 expired 10y ago, 2 not active for 10y, 3 [-10y,+10y]
func c04RealDlg(iss, aud, sub, win int) *delegation.Token {
	return c04RealDlgM(iss, aud, sub, win, c04TenYears, "/a")
}

func c04RealDlgM(iss, aud, sub, win int, margin time.Duration, cmd string) *delegation.Token {
	var opts []delegation.Option
	switch win {
	case 1:
		opts = append(opts, delegation.WithExpirationIn(-margin))
	case 2:
		opts = append(opts, delegation.WithNotBeforeIn(margin))
	case 3:
		opts = append(opts, delegation.WithNotBeforeIn(-margin), delegation.WithExpirationIn(margin))
	}
	return mustDlg(iss, aud, sub, cmd, nil, opts...)
}

// c04Cmds: the command carried by every token of a real-clock case. /ucan/revoke is the command of the
// revocation specification, / the top command: the time bounds hold whatever is being invoked.
var c04Cmds = []string{"/a", "/ucan/revoke", "/ucan/revoke/now", "/"}

type c04RealCase struct {
	Wins   []int `json:"wins"`
	Inv    int   `json:"inv"` // 0 none, 1 expired, 3 valid
	Iat    int   `json:"iat"` // issue time of the invocation: 0 absent, 1 now (constructor default), 2 twenty years ago, 3 in twenty years
	Layout int   `json:"layout"`
	Cmd    int   `json:"cmd"`  // index into c04Cmds
	Self   bool  `json:"self"` // empty proof list only: the invoker is the subject itself
}

func (c *c04RealCase) Weight() int { return len(c.Wins) }

func c04RealSub(name, dir string, qn, tn int) *engine.Sub {
	return c04RealSubZ(name, dir, qn, tn, time.UTC, c04TenYears)
}

// c04RealSubZ: the real-clock universe with the process' local time zone set to zone and bounds `margin`
// away from now (a verifier must compare instants; the zone it runs in is irrelevant).
func c04RealSubZ(name, dir string, qn, tn int, zone *time.Location, margin time.Duration) *engine.Sub {
	return c04RealSubE(name, dir, qn, tn, zone, margin, nil)
}

// c04RealSubE: evalEnv, if not nil, lists environment settings; the tokens of a case are built with the
// environment as it is, the verdict is then taken once per setting.
func c04RealSubE(name, dir string, qn, tn int, zone *time.Location, margin time.Duration, evalEnv [][2]string) *engine.Sub {
	return &engine.Sub{
		Name:   name,
		Serial: zone != time.UTC,
		Rule:   "[process time zone " + zone.String() + ", bounds " + margin.String() + " away from now] real ExecutionAllowed (wall clock), every principal layout, with every assignment of {no bound, expired 10y ago, active in 10y, [-10y,+10y]} to each link and {none, expired, valid} to the invocation, whose issue time (iat) is absent, now, 20 years ago or in 20 years (it is not a validity bound and must not move the instant of the check); the command of all tokens is /a and - for chains of up to 2 links - also /ucan/revoke, /ucan/revoke/now and /; invocations without any proof (issued by the subject itself or by someone else; expired or not) are included and never allowed; verdict cannot depend on when the check runs; non-trivial = exactly one invalid element or none",
		Bound: func(t string) string {
			return fmt.Sprintf("chains of 1..%d links, 4 windows per link, 3 invocation expiry settings x 4 issue times", tierN(t, qn, tn))
		},
		Setup: func(string) error { chainInit(); time.Local = zone; return nil },
		Gen: func(tier string, emit func(any) bool) {
			if dir == "sound" {
				// empty proof lists: never allowed anyway (C01); in particular not when the invocation has expired
				for _, iv := range []int{0, 1, 3} {
					for iat := 0; iat < 4; iat++ {
						for cmd := range c04Cmds {
							for _, self := range []bool{true, false} {
								if !emit(&c04RealCase{Wins: []int{}, Inv: iv, Iat: iat, Cmd: cmd, Self: self}) {
									return
								}
							}
						}
					}
				}
			}
			for n := 1; n <= tierN(tier, qn, tn); n++ {
				idx := make([]int, n)
				for {
					for _, iv := range []int{0, 1, 3} {
						for iat := 0; iat < 4; iat++ {
							for lay := 0; lay < layoutCount(n); lay++ {
								if lay > 0 && iat > 1 {
									continue
								}
								for cmd := range c04Cmds {
									if cmd > 0 && (n > 2 || iat > 1) {
										continue
									}
									if !emit(&c04RealCase{Wins: append([]int{}, idx...), Inv: iv, Iat: iat, Layout: lay, Cmd: cmd}) {
										return
									}
								}
							}
						}
					}
					i := n - 1
					for i >= 0 {
						idx[i]++
						if idx[i] < 4 {
							break
						}
						idx[i] = 0
						i--
					}
					if i < 0 {
						break
					}
				}
			}
		},
		NewCase: func() any { return &c04RealCase{} },
		Run: func(ctx *engine.Ctx, c any) {
			cs := c.(*c04RealCase)
			n := len(cs.Wins)
			ld := &sliceLoader{}
			prf := make([]cid.Cid, n)
			invalid := 0
			where := ""
			for i := 0; i < n; i++ {
				ld.cids = append(ld.cids, cidPool[i])
				ld.toks = append(ld.toks, c04RealDlgM(layoutHolder(cs.Layout, n, i+1), layoutHolder(cs.Layout, n, i), 0, cs.Wins[i], margin, c04Cmds[cs.Cmd]))
				prf[i] = cidPool[i]
				if cs.Wins[i] == 1 || cs.Wins[i] == 2 {
					invalid++
					if where == "" {
						switch {
						case n == 1:
							where = "single-link"
						case i == 0:
							where = "leaf-link"
						case i == n-1:
							where = "root-link"
						default:
							where = "inner-link"
						}
					}
				}
			}
			opts := []invocation.Option{invocation.WithNonce(fixedNonce)}
			// the issue time is not a validity bound: the check happens now, whatever the invoker wrote into iat
			switch cs.Iat {
			case 0:
				opts = append(opts, invocation.WithoutInvokedAt())
			case 2:
				opts = append(opts, invocation.WithInvokedAtIn(-2*c04TenYears))
			case 3:
				opts = append(opts, invocation.WithInvokedAtIn(2*c04TenYears))
			}
			switch cs.Inv {
			case 1:
				opts = append(opts, invocation.WithExpirationIn(-margin))
				invalid++
				if where == "" {
					where = "invocation"
				}
			case 3:
				opts = append(opts, invocation.WithExpirationIn(margin))
			}
			invoker := layoutHolder(cs.Layout, n, 0)
			if n == 0 {
				invalid++ // no proof at all
				where = "empty-proof-list"
				if cs.Inv == 1 {
					where = "expired-invocation/empty-proof-list"
				}
				if !cs.Self {
					invoker = 1
				}
			}
			inv, err := invocation.New(prin(invoker), prin(0), commandOf(c04Cmds[cs.Cmd]), prf, opts...)
			if err != nil {
				panic(err)
			}
			ctx.States(1)
			ctx.Trans(int64(n))
			if invalid <= 1 {
				ctx.Nontrivial(1)
			}
			settings := evalEnv
			if settings == nil {
				settings = [][2]string{{"", ""}}
			}
			for _, env := range settings {
				envTag := ""
				restore := func() {}
				if env[0] != "" {
					old, had := os.LookupEnv(env[0])
					os.Setenv(env[0], env[1])
					envTag = "/with-" + env[0]
					restore = func() {
						if had {
							os.Setenv(env[0], old)
						} else {
							os.Unsetenv(env[0])
						}
					}
				}
				e1, e2 := bothVerdicts(inv, ld)
				if dir == "sound" && invalid > 0 {
					oddHooksRefuse(ctx, cs, inv, ld, "the "+where+" is expired or not yet active")
					loaderPanicsRefuse(ctx, cs, inv, ld, inv.Proof(), "the "+where+" is expired or not yet active")
				}
				restore()
				ctx.Eval(2)
				ctx.Outcome(errLabel(e1))
				for _, e := range []error{e1, e2} {
					if dir == "sound" && e == nil && invalid > 0 {
						ctx.Failf(cs, "real-clock/time-not-enforced@"+where+envTag, "ExecutionAllowed allowed a chain whose %s is expired / not yet active (wins=%v inv=%d iat=%d cmd=%s self-issued=%v)", where, cs.Wins, cs.Inv, cs.Iat, c04Cmds[cs.Cmd], cs.Self)
					}
					if dir == "complete" && e != nil && invalid == 0 {
						ctx.Failf(cs, "real-clock/denied-valid:"+errLabel(e)+envTag, "ExecutionAllowed denied a chain whose tokens are all valid now (wins=%v inv=%d iat=%d): %v", cs.Wins, cs.Inv, cs.Iat, e)
					}
				}
			}
		},
	}
}

type c04EpochCase struct {
	Kind  string `json:"kind"`  // dlg | inv
	Field string `json:"field"` // exp | nbf
	Sec   int64  `json:"sec"`   // bound in Unix seconds
}

// c04EpochSub: decoded tokens whose bounds sit at "magic" Unix seconds (0, +/-1), which no
// constructor can produce for a delegation; built with the harness' envelope assembler.
func c04EpochSub() *engine.Sub {
	return &engine.Sub{
		Name:  "decoded-bounds-near-epoch",
		Rule:  "well-signed delegations / invocations whose exp (or nbf) is Unix second -1, 0 or 1 (a present bound that happens to equal a zero value), or lies on either side of the powers of ten and two between 10^9 and 2^53-1 (incl. the present instant written in milliseconds and in microseconds: a bound is a number of SECONDS whatever its magnitude), decoded and probed 1 s / 1 ns before, on and after the bound, far away, now, and at the instants the value would denote as milli- / microseconds; non-trivial = all",
		Bound: func(string) string { return "{dlg.exp, dlg.nbf, inv.exp} x 25 bound values x 11 probes" },
		Gen: func(tier string, emit func(any) bool) {
			for _, kf := range [][2]string{{"dlg", "exp"}, {"dlg", "nbf"}, {"inv", "exp"}} {
				now := time.Now().Unix()
				secs := []int64{-1, 0, 1,
					// both sides of every power of ten and two at which a "this must be milliseconds / microseconds" or a
					// 32-bit heuristic would kick in; the present instant expressed in milliseconds and microseconds
					999_999_999, 1_000_000_000, 1<<31 - 1, 1 << 31, 1<<32 - 1, 1 << 32, 9_999_999_999, 10_000_000_000, 99_999_999_999, 100_000_000_000,
					999_999_999_999, 1_000_000_000_000, 1_500_000_000_000, now * 1000, 9_999_999_999_999, 10_000_000_000_000,
					999_999_999_999_999, 1_000_000_000_000_000, now * 1_000_000, 1<<53 - 1}
				for _, sec := range secs {
					if !emit(&c04EpochCase{kf[0], kf[1], sec}) {
						return
					}
				}
			}
		},
		NewCase: func() any { return &c04EpochCase{} },
		Run: func(ctx *engine.Ctx, c any) {
			cs := c.(*c04EpochCase)
			p := c10BasePayload(cs.Kind, "ed25519")
			key := fixtures.Get("ed25519", 0)
			var es []kv
			for _, e := range p.Payload {
				switch {
				case e.K == cs.Field:
					es = append(es, kv{e.K, nInt(cs.Sec)})
				case e.K == "exp":
					es = append(es, kv{"exp", nNull()})
				case e.K == "nbf", e.K == "iat":
				default:
					es = append(es, e)
				}
			}
			sealed := assemble(key, sigPayloadNode(p.Header, p.Tag, nMap(es...)))
			var valid func(time.Time) bool
			if cs.Kind == "dlg" {
				d, _, err := delegation.FromSealed(sealed)
				if err != nil {
					ctx.Outcome("rejected")
					ctx.Failf(cs, "epoch-bound-rejected", "a delegation with %s=%d is rejected: %v", cs.Field, cs.Sec, err)
					return
				}
				valid = d.IsValidAt
			} else {
				i, _, err := invocation.FromSealed(sealed)
				if err != nil {
					ctx.Outcome("rejected")
					ctx.Failf(cs, "epoch-bound-rejected", "an invocation with %s=%d is rejected: %v", cs.Field, cs.Sec, err)
					return
				}
				valid = i.IsValidAt
			}
			ctx.States(1)
			ctx.Nontrivial(1)
			b := time.Unix(cs.Sec, 0)
			for _, at := range []time.Time{b.AddDate(-50, 0, 0), b.Add(-time.Second), b.Add(-time.Nanosecond), b, b.Add(time.Nanosecond), b.Add(time.Second), b.AddDate(50, 0, 0), time.Now(), time.Unix(cs.Sec/1000, 0), time.Unix(cs.Sec/1000+1, 0), time.Unix(cs.Sec/1_000_000+1, 0)} {
				ctx.Eval(1)
				ctx.Trans(1)
				got := valid(at)
				want := 0
				switch {
				case cs.Field == "exp" && at.After(b), cs.Field == "nbf" && at.Before(b):
					want = -1
				case !at.Equal(b):
					want = 1
				}
				ctx.Outcome(fmt.Sprintf("valid=%v", got))
				if got && want == -1 {
					ctx.Failf(cs, "valid-outside-window/"+cs.Kind+"/"+cs.Field+"-at-epoch", "decoded %s with %s=%d is valid at %s", cs.Kind, cs.Field, cs.Sec, at.UTC().Format(time.RFC3339Nano))
				}
				if !got && want == 1 {
					ctx.Failf(cs, "invalid-inside-window/"+cs.Kind+"/"+cs.Field+"-at-epoch", "decoded %s with %s=%d is invalid at %s", cs.Kind, cs.Field, cs.Sec, at.UTC().Format(time.RFC3339Nano))
				}
			}
		},
	}
}

type c04ExpiryCase struct {
	Which string `json:"which"` // invocation | leaf | root
	Pre   string `json:"pre"`   // what happens before the wait: same-token-allowed | other-policy-refused | other-command-refused | other-missing-delegation | other-allowed | nothing
}

// c04AcrossExpirySub: the one sub-check that lets real time pass. A chain that is valid now and
// expires shortly is checked after the expiry - on the SAME token value that was allowed before, or
// for the first time after ANOTHER check (allowed, or refused for each kind of reason) ran before the
// wait. Only "allowed after the expiry" is a violation; if a first check that should be allowed is
// not (slow machine) the case is inconclusive, so the verdict cannot depend on speed.
func c04AcrossExpirySub() *engine.Sub {
	return &engine.Sub{
		Name:    "checks-across-real-expiry",
		Replays: 1,
		Serial:  true,
		Rule:    "ExecutionAllowed and ExecutionAllowedWithArgsHook on a 2-link chain whose invocation / leaf delegation / root delegation expires 0.3 s (delegations) or 1.5 s (invocation: whole-second rounding) after construction. Before the wait one of: the same token is checked (expected allowed, otherwise inconclusive); another invocation is checked and allowed / refused by policy / refused by command / refused for a missing delegation; nothing. After the expiry the expiring chain is checked: it must be denied (no time-dependent verdict or check instant survives a call); non-trivial = conclusive cases",
		Bound: func(string) string {
			return "3 expiring positions x 6 histories (invocation: 2) x 2 APIs, about 8 s of real time"
		},
		Gen: func(tier string, emit func(any) bool) {
			for _, w := range []string{"leaf", "root", "invocation"} {
				pres := []string{"same-token-allowed", "other-policy-refused", "other-command-refused", "other-missing-delegation", "other-allowed", "nothing"}
				if w == "invocation" {
					pres = []string{"same-token-allowed", "other-policy-refused"}
				}
				for _, p := range pres {
					if !emit(&c04ExpiryCase{w, p}) {
						return
					}
				}
			}
		},
		NewCase: func() any { return &c04ExpiryCase{} },
		Run: func(ctx *engine.Ctx, c any) {
			cs := c.(*c04ExpiryCase)
			chainInit()
			life, slack := 300*time.Millisecond, 150*time.Millisecond
			if cs.Which == "invocation" {
				life, slack = 1500*time.Millisecond, 1100*time.Millisecond
			}
			start := time.Now()
			var lo, ro []delegation.Option
			var io []invocation.Option
			switch cs.Which {
			case "leaf":
				lo = append(lo, delegation.WithExpirationIn(life))
			case "root":
				ro = append(ro, delegation.WithExpirationIn(life))
			default:
				io = append(io, invocation.WithExpirationIn(life))
			}
			ld := &sliceLoader{cids: []cid.Cid{cidPool[0], cidPool[1]}, toks: []*delegation.Token{mustDlg(1, 2, 0, "/a", nil, lo...), mustDlg(0, 1, 0, "/a", nil, ro...)}}
			io = append(io, invocation.WithNonce(fixedNonce), invocation.WithArgument("x", 1))
			inv, err := invocation.New(prin(2), prin(0), "/a", []cid.Cid{cidPool[0], cidPool[1]}, io...)
			if err != nil {
				panic(err)
			}
			// the other invocation: a chain without time bounds
			polX2 := policy.MustConstruct(policy.Equal(".x", literal.Int(2)))
			old := &sliceLoader{cids: []cid.Cid{cidPool[2], cidPool[3]}, toks: []*delegation.Token{mustDlg(1, 2, 0, "/a", nil), mustDlg(0, 1, 0, "/a", nil)}}
			ocmd := "/a"
			switch cs.Pre {
			case "other-policy-refused":
				old.toks[0] = mustDlg(1, 2, 0, "/a", polX2)
			case "other-command-refused":
				ocmd = "/b"
			case "other-missing-delegation":
				old.cids, old.toks = old.cids[:1], old.toks[:1]
			}
			other, err := invocation.New(prin(2), prin(0), commandOf(ocmd), []cid.Cid{cidPool[2], cidPool[3]}, invocation.WithNonce(fixedNonce), invocation.WithArgument("x", 1))
			if err != nil {
				panic(err)
			}
			ctx.States(1)
			switch cs.Pre {
			case "same-token-allowed":
				e1, e2 := bothVerdicts(inv, ld)
				ctx.Eval(2)
				if e1 != nil || e2 != nil {
					ctx.Outcome("inconclusive-first-check-denied")
					return
				}
			case "nothing":
			default:
				e1, e2 := bothVerdicts(other, old)
				ctx.Eval(2)
				want := map[string]string{"other-policy-refused": "ErrPolicyNotSatisfied", "other-command-refused": "ErrCommandNotCovered", "other-missing-delegation": "ErrMissingDelegation", "other-allowed": "allowed"}[cs.Pre]
				if errLabel(e1) != want || errLabel(e2) != want {
					panic(fmt.Sprintf("harness: the preceding check %s answered %s / %s", cs.Pre, errLabel(e1), errLabel(e2)))
				}
			}
			ctx.Nontrivial(1)
			time.Sleep(time.Until(start.Add(life + slack)))
			a1 := inv.ExecutionAllowed(ld)
			if cs.Pre != "same-token-allowed" && cs.Pre != "nothing" {
				// once more the other check, then the hook variant of the expiring one
				other.ExecutionAllowed(old)
			}
			a2 := inv.ExecutionAllowedWithArgsHook(ld, identityHook)
			ctx.Eval(2)
			ctx.Trans(2)
			if a1 == nil || a2 == nil {
				ctx.Outcome("allowed-after-expiry")
				ctx.Failf(cs, "stale-verdict/allowed-after-"+cs.Which+"-expired/"+cs.Pre, "a chain whose %s expired %.2f s ago is allowed (ExecutionAllowed: %v, WithArgsHook: %v); before the wait: %s", cs.Which, time.Since(start.Add(life)).Seconds(), a1, a2, cs.Pre)
				return
			}
			ctx.Outcome("denied-after-expiry")
		},
	}
}

func C04() *engine.Check {
	return &engine.Check{
		Property: "C04",
		Level:    "model_checking",
		Subs: []*engine.Sub{
			c04SingleSub("sound"),
			c04ChainSub("chain-time-bounds", "sound", 3, 5),
			c04RealSub("real-clock", "sound", 3, 6),
			c04RealSubZ("real-clock-zone-west", "sound", 2, 3, time.FixedZone("verif-west", -11*3600), 2*time.Hour),
			c04RealSubZ("real-clock-zone-east", "sound", 2, 3, time.FixedZone("verif-east", 13*3600+1800), 2*time.Hour),
			c04RealEnvSub("real-clock-hostile-environment", "sound"),
			clockSub("C04"),
			clockHistSub("C04"),
			c04RenewSub("sound"),
			longChainSub("C04"),
			c04EpochSub(),
			c04AcrossExpirySub(),
			authConcSub("C04"),
			concRaceSub("C04"),
		},
		Assumptions: []string{
			"chain-level instants are injected through invocation.VerifTimeBoundAt (build tag verif), a one-line export of verifyTimeBoundAt; the real-clock sub-check covers the wiring of the time stage into ExecutionAllowed with bounds 10 years away from now",
			"behaviour exactly on a bound is not decided by the property (don't care)",
		},
	}
}

// c04RealEnvSub: the real-clock universe (chains of up to 2 links) run once per hostile environment setting -
// variables that build tools, test tools and C libraries use to fake or fix "now", the time zone or the
// locale. A verifier decides on the machine's clock, whatever the environment of the process says.
func c04RealEnvSub(name, dir string) *engine.Sub {
	envs := [][2]string{
		{"SOURCE_DATE_EPOCH", "0"}, {"SOURCE_DATE_EPOCH", "946684800"}, {"SOURCE_DATE_EPOCH", "4102444800"}, {"SOURCE_DATE_EPOCH", "32503680000"},
		{"FAKETIME", "@2000-01-01 00:00:00"}, {"FAKETIME", "+20y"}, {"TZ", "Pacific/Kiritimati"}, {"TZ", "UTC+12"}, {"ZONEINFO", "/nonexistent"},
		{"LC_ALL", "tr_TR.UTF-8"}, {"LANG", "C"}, {"GO_UCAN_NOW", "946684800"}, {"UCAN_NOW", "4102444800"}, {"NOW", "0"}, {"TEST_NOW", "4102444800"},
	}
	sub := c04RealSubE(name, dir, 2, 2, time.UTC, c04TenYears, envs)
	sub.Serial = true
	sub.Rule = "[the tokens of a case are built first; the verdict is then taken once per environment setting: SOURCE_DATE_EPOCH (1970, 2000, 2100, 3000), FAKETIME, TZ, ZONEINFO, LC_ALL, LANG and four *NOW variables, set for the duration of the check] " + sub.Rule
	return sub
}

// ---- a container.Reader as loader that holds several issues of the same grant ----

type c04RenewCase struct {
	N       int  `json:"n"`        // chain length (1 or 2)
	Pos     int  `json:"pos"`      // link that exists in two issues
	Other   int  `json:"other"`    // the other issue: 0 = no expiry, 1 = expires in 10 years, 2 = not yet active variant (referenced issue is active, other is not-before in 10y)
	RefsOld bool `json:"refs_old"` // the proof list names the expired (resp. the not-yet-active) issue
	Format  int  `json:"format"`   // 0 CBOR, 1 CAR
}

func (c *c04RenewCase) Weight() int { return c.N }

func c04RenewSub(dir string) *engine.Sub {
	name := "container-loader-with-renewed-grants"
	if dir == "complete" {
		name += "-completeness"
	}
	return &engine.Sub{
		Name: name,
		Rule: "the loader is a container.Reader (CBOR and CAR) that holds the chain's delegations and, for one link, TWO issues of the same grant (same issuer, audience, subject, command, policy; different nonce): one that is not valid now (expired 10 years ago, or not active for another 10 years) and one that is (no bound, or bounds 10 years away). The invocation's proof list names one of the two by its CID: the check is decided on the token the proof list names - denied for the invalid issue (C04), allowed for the valid one (C05) - whatever else the container holds; non-trivial = all",
		Bound: func(string) string {
			return "chains of 1..2 links x renewed position x 3 kinds of second issue x {names old, names new} x 2 formats x 2 APIs"
		},
		Setup: func(string) error { chainInit(); return nil },
		Gen: func(tier string, emit func(any) bool) {
			for n := 1; n <= 2; n++ {
				for pos := 0; pos < n; pos++ {
					for other := 0; other < 3; other++ {
						for _, old := range []bool{true, false} {
							for f := 0; f < 2; f++ {
								if !emit(&c04RenewCase{N: n, Pos: pos, Other: other, RefsOld: old, Format: f}) {
									return
								}
							}
						}
					}
				}
			}
		},
		NewCase: func() any { return &c04RenewCase{} },
		Run: func(ctx *engine.Ctx, c any) {
			cs := c.(*c04RenewCase)
			keys := fixtures.ByAlg("ed25519")
			w := container.NewWriter()
			prf := make([]cid.Cid, cs.N)
			seal := func(i int, nonce string, opts ...delegation.Option) cid.Cid {
				iss, aud := alignedHolder(cs.N, i+1), alignedHolder(cs.N, i)
				o := append([]delegation.Option{delegation.WithNonce([]byte(nonce)), delegation.WithSubject(prin(0))}, opts...)
				d, err := delegation.New(prin(iss), prin(aud), "/a", nil, o...)
				if err != nil {
					panic(err)
				}
				b, c, err := d.ToSealed(keys[iss].Priv)
				if err != nil {
					panic(err)
				}
				w.AddSealed(c, b)
				return c
			}
			for i := 0; i < cs.N; i++ {
				if i != cs.Pos {
					prf[i] = seal(i, "renew-nonce-plain")
					continue
				}
				var invalid, valid cid.Cid
				switch cs.Other {
				case 0:
					invalid = seal(i, "renew-nonce-old1", delegation.WithExpirationIn(-c04TenYears))
					valid = seal(i, "renew-nonce-new1")
				case 1:
					invalid = seal(i, "renew-nonce-old2", delegation.WithExpirationIn(-c04TenYears))
					valid = seal(i, "renew-nonce-new2", delegation.WithExpirationIn(c04TenYears))
				default:
					invalid = seal(i, "renew-nonce-old3", delegation.WithNotBeforeIn(c04TenYears))
					valid = seal(i, "renew-nonce-new3", delegation.WithNotBeforeIn(-c04TenYears))
				}
				if cs.RefsOld {
					prf[i] = invalid
				} else {
					prf[i] = valid
				}
			}
			var rd container.Reader
			var err error
			if cs.Format == 0 {
				var b []byte
				if b, err = w.ToCbor(); err == nil {
					rd, err = container.FromCbor(b)
				}
			} else {
				var b []byte
				if b, err = w.ToCar(); err == nil {
					rd, err = container.FromCar(b)
				}
			}
			if err != nil {
				panic(err)
			}
			inv, err := invocation.New(prin(alignedHolder(cs.N, 0)), prin(0), "/a", prf, invocation.WithNonce(fixedNonce), invocation.WithoutInvokedAt())
			if err != nil {
				panic(err)
			}
			ctx.States(1)
			ctx.Nontrivial(1)
			ctx.Trans(int64(cs.N))
			e1, e2 := bothVerdicts(inv, rd)
			ctx.Eval(2)
			ctx.Outcome(errLabel(e1))
			for _, e := range []error{e1, e2} {
				if dir == "sound" && cs.RefsOld && e == nil {
					ctx.Failf(cs, "time-not-enforced/another-issue-of-the-grant-in-the-container", "allowed although the proof list names an issue of link %d that is not valid now (the container also holds a valid issue of the same grant)", cs.Pos)
				}
				if dir == "complete" && !cs.RefsOld && e != nil {
					ctx.Failf(cs, "conforming-denied:"+errLabel(e)+"/another-issue-of-the-grant-in-the-container", "denied although the proof list names the valid issue of link %d (the container also holds an invalid issue of the same grant): %v", cs.Pos, e)
				}
			}
		},
	}
}
