package props

import (
	"fmt"
	"math"
	"strings"
	"time"

	"github.com/ipfs/go-cid"
	"github.com/ipld/go-ipld-prime/datamodel"
	"github.com/ipld/go-ipld-prime/node/basicnode"

	"github.com/ucan-wg/go-ucan/pkg/policy"
	"github.com/ucan-wg/go-ucan/pkg/policy/literal"
	"github.com/ucan-wg/go-ucan/token/delegation"
	"github.com/ucan-wg/go-ucan/token/invocation"

	"verifharness/engine"
	"verifharness/fixtures"
)

// C05: generate rule-conforming chains only and require that each is accepted,
// whatever the authorization-irrelevant invocation fields are.

var c05Cmds = []string{"/", "/a", "/a/b"}

func c05Policies() []policy.Policy {
	return []policy.Policy{
		nil,
		policy.MustConstruct(policy.Equal(".x", literal.Int(1))),
		policy.MustConstruct(policy.Equal(".z?", literal.Int(1))),
		policy.MustConstruct(policy.Like(".y", "a*")),
	}
}

// c05Link is one delegation step from the current holder to Aud.
type c05Link struct {
	Aud int `json:"aud"`
	Cmd int `json:"cmd"` // index into c05Cmds, non-decreasing from root to leaf
	Pol int `json:"pol"`
	Win int `json:"win"` // 0 none, 3 [-10y,+10y]
}

// Irrelevant-field alphabet; value 0 is the base value of every field.
var c05FieldSizes = []int{4, 2, 2, 2, 4, 2, 3}

const (
	fAud = iota
	fMeta
	fNonce
	fCause
	fIat
	fExp
	fCmd // invoked command: 0 = same as leaf, 1/2 = one/two segments deeper
)

type c05Case struct {
	Root    int       `json:"root"`  // the subject (root issuer)
	Links   []c05Link `json:"links"` // root first
	Expand  int       `json:"expand"`
	Reduced bool      `json:"reduced"`          // reduced link alphabet for deep chains
	Fields  []int     `json:"fields,omitempty"` // replay only: one specific irrelevant-field assignment
}

func (c *c05Case) Weight() int { return len(c.Links) }

func c05InvOpts(fields []int, leafCmd int) ([]invocation.Option, string, bool) {
	opts := []invocation.Option{}
	if a := fields[fAud]; a > 0 {
		opts = append(opts, invocation.WithAudience(prin(a-1)))
	}
	if fields[fMeta] == 1 {
		opts = append(opts, invocation.WithMeta("note", "hello"), invocation.WithMeta("n", 7))
	}
	if fields[fNonce] == 1 {
		opts = append(opts, invocation.WithNonce([]byte("0123456789abcdef")))
	} else {
		opts = append(opts, invocation.WithNonce(fixedNonce))
	}
	if fields[fCause] == 1 {
		c := cidPool[40]
		opts = append(opts, invocation.WithCause(&c))
	}
	switch fields[fIat] {
	case 0: // auto (now)
	case 1:
		opts = append(opts, invocation.WithoutInvokedAt())
	case 2:
		opts = append(opts, invocation.WithInvokedAtIn(-c04TenYears))
	case 3:
		opts = append(opts, invocation.WithInvokedAtIn(c04TenYears))
	}
	if fields[fExp] == 1 {
		opts = append(opts, invocation.WithExpirationIn(c04TenYears))
	}
	cmd := c05Cmds[leafCmd]
	for k := 0; k < fields[fCmd]; k++ {
		if cmd == "/" {
			cmd = "/a"
		} else {
			cmd += "/b"
		}
	}
	return opts, cmd, true
}

// c05FieldAssignments enumerates all assignments with at most d deviating fields.
func c05FieldAssignments(d int, emit func([]int)) {
	n := len(c05FieldSizes)
	cur := make([]int, n)
	var rec func(i, left int)
	rec = func(i, left int) {
		if i == n {
			emit(cur)
			return
		}
		cur[i] = 0
		rec(i+1, left)
		if left > 0 {
			for v := 1; v < c05FieldSizes[i]; v++ {
				cur[i] = v
				rec(i+1, left-1)
			}
			cur[i] = 0
		}
	}
	rec(0, d)
}

func c05Sub(qDepth, tDepth int) *engine.Sub {
	pols := c05Policies()
	return &engine.Sub{
		Name: "conforming-chains",
		Rule: "explicit-state generation of rule-conforming chains only: root (iss=sub=s) delegates to any principal (self-delegation and repeats allowed) with any attenuating command, a policy satisfied by the arguments and an open or [-10y,+10y] window; in every state the holder invokes with every assignment of the irrelevant fields (audience, meta, nonce, cause, iat, exp, deeper command) having at most d deviations from the base; every execution must be allowed; non-trivial = every state (all are conforming by construction)",
		Bound: func(t string) string {
			if t == "thorough" {
				return fmt.Sprintf("full link alphabet to depth 3 with <=2 deviating fields; reduced link alphabet (policy in {none, ==}, no window) to depth %d with <=1 deviating field; 3 principals", tDepth)
			}
			return fmt.Sprintf("full link alphabet to depth %d with <=1 deviating field; 3 principals", qDepth)
		},
		Setup: func(string) error { chainInit(); return nil },
		Gen: func(tier string, emit func(any) bool) {
			fullDepth := qDepth
			if tier == "thorough" {
				fullDepth = 3
			}
			gen := func(depth int, reduced bool) bool {
				for root := 0; root < 3; root++ {
					// first link choices emitted as separate block cases
					for aud := 0; aud < 3; aud++ {
						for cmd := 0; cmd < 3; cmd++ {
							for pol := 0; pol < 4; pol++ {
								for _, win := range []int{0, 3} {
									if reduced && (pol > 1 || win != 0) {
										continue
									}
									if !emit(&c05Case{Root: root, Links: []c05Link{{aud, cmd, pol, win}}, Expand: depth - 1, Reduced: reduced}) {
										return false
									}
								}
							}
						}
					}
				}
				return true
			}
			if !gen(fullDepth, false) {
				return
			}
			if tier == "thorough" {
				gen(tDepth, true)
			}
		},
		NewCase: func() any { return &c05Case{} },
		Run: func(ctx *engine.Ctx, c any) {
			cs := c.(*c05Case)
			d := 1
			if ctx.Tier == "thorough" && !cs.Reduced {
				d = 2
			}
			var toks []*delegation.Token
			var rec func(links []c05Link, holder int, left int)
			eval := func(links []c05Link, holder int) {
				n := len(links)
				ld := &sliceLoader{}
				prf := make([]cid.Cid, n)
				for i := 0; i < n; i++ { // proof order: leaf first
					ld.cids = append(ld.cids, cidPool[i])
					ld.toks = append(ld.toks, toks[i])
					prf[n-1-i] = cidPool[i]
				}
				ctx.States(1)
				ctx.Nontrivial(1)
				// read-only queries about other instants must not influence the decision taken now
				for _, d := range toks[:n] {
					d.IsValidAt(time.Now().Add(30 * 365 * 24 * time.Hour))
					d.IsValidAt(time.Unix(0, 0))
					d.IsValidNow()
				}
				run := func(fields []int) {
					opts, cmd, _ := c05InvOpts(fields, links[n-1].Cmd)
					opts = append(opts, invocation.WithArgument("x", 1), invocation.WithArgument("y", "ab"))
					inv, err := invocation.New(prin(holder), prin(cs.Root), commandOf(cmd), prf, opts...)
					if err != nil {
						panic(err)
					}
					e1, e2 := bothVerdicts(inv, ld)
					ctx.Eval(2)
					ctx.Outcome(errLabel(e1))
					for _, e := range []error{e1, e2} {
						if e != nil {
							dev := "base"
							for i, v := range fields {
								if v != 0 {
									dev = []string{"audience", "meta", "nonce", "cause", "iat", "exp", "deeper-command"}[i]
									break
								}
							}
							rc := &c05Case{Root: cs.Root, Links: append([]c05Link{}, links...), Reduced: cs.Reduced, Fields: append([]int{}, fields...)}
							ctx.Failf(rc, "conforming-denied:"+errLabel(e)+"/"+dev, "rule-conforming chain denied: root=p%d links=%+v holder=p%d fields=%v cmd=%s: %v", cs.Root, links, holder, fields, cmd, e)
						}
					}
				}
				if cs.Fields != nil {
					run(cs.Fields)
					return
				}
				c05FieldAssignments(d, run)
			}
			rec = func(links []c05Link, holder int, left int) {
				eval(links, holder)
				if left == 0 {
					return
				}
				last := links[len(links)-1]
				for aud := 0; aud < 3; aud++ {
					for cmd := last.Cmd; cmd < 3; cmd++ {
						for pol := 0; pol < 4; pol++ {
							for _, win := range []int{0, 3} {
								if cs.Reduced && (pol > 1 || win != 0) {
									continue
								}
								ctx.Trans(1)
								toks = append(toks, c05Tok(holder, aud, cs.Root, cmd, pols[pol], win))
								rec(append(links, c05Link{aud, cmd, pol, win}), aud, left-1)
								toks = toks[:len(toks)-1]
							}
						}
					}
				}
			}
			// build the given prefix
			holder := cs.Root
			for _, l := range cs.Links {
				toks = append(toks, c05Tok(holder, l.Aud, cs.Root, l.Cmd, pols[l.Pol], l.Win))
				holder = l.Aud
			}
			links := append(make([]c05Link, 0, len(cs.Links)+cs.Expand), cs.Links...)
			rec(links, holder, cs.Expand)
		},
	}
}

func c05Tok(iss, aud, sub, cmd int, pol policy.Policy, win int) *delegation.Token {
	var opts []delegation.Option
	if win == 3 {
		opts = append(opts, delegation.WithNotBeforeIn(-c04TenYears), delegation.WithExpirationIn(c04TenYears))
	}
	if iss == sub && win == 0 {
		// the dedicated constructor for root delegations (subject = issuer)
		t, err := delegation.Root(prin(iss), prin(aud), commandOf(c05Cmds[cmd]), pol, delegation.WithNonce(fixedNonce))
		if err != nil {
			panic(err)
		}
		return t
	}
	return mustDlg(iss, aud, sub, c05Cmds[cmd], pol, opts...)
}

var _ = time.Second

// ---- a richer universe of satisfied policies ----

// c05TrueStatements are statements that are true, by the classical reading of the policy
// language, for the arguments {x:1, f:1.5, y:"ab", s:"a*b\\c", l:[1,2,3], m:{k:"v"}, e:[], r:"backup"+60x"_"+"v2.tar", q:400x"a"+"b"}.
// One statement per operator / selector / pattern feature.
func c05TrueStatements() []policy.Constructor {
	return []policy.Constructor{
		policy.Equal(".x", literal.Int(1)),
		policy.Equal(".y", literal.String("ab")),
		policy.Equal(".m.k", literal.String("v")),
		policy.Equal(".l[0]", literal.Int(1)),
		policy.Equal(".l[-1]", literal.Int(3)),
		policy.Equal(".l[1:]", nList(nInt(2), nInt(3))),
		policy.Equal(".nope?", literal.Int(7)),
		policy.GreaterThan(".x", literal.Int(0)),
		policy.GreaterThanOrEqual(".x", literal.Int(1)),
		policy.LessThan(".x", literal.Int(2)),
		policy.LessThanOrEqual(".f", literal.Float(1.5)),
		policy.GreaterThan(".f", literal.Float(1.25)),
		policy.Like(".y", "ab"),
		policy.Like(".y", "a*"),
		policy.Like(".y", "*b"),
		policy.Like(".y", "*"),
		policy.Like(".y", `a\b`),
		policy.Like(".y", `\a\b`),
		policy.Like(".s", `a\*b\\c`),
		policy.Like(".s", `a\**`),
		policy.Like(".s", `*\\c`),
		policy.Like(".r", "*__v2.tar"),
		policy.Like(".r", "backup*_v2.tar"),
		policy.Like(".q", "*aab"),
		policy.Like(".q", "*"+strings.Repeat("a", 33)+"b"),
		policy.Not(policy.Equal(".x", literal.Int(2))),
		policy.Not(policy.Like(".y", "b*")),
		policy.And(policy.Equal(".x", literal.Int(1)), policy.Like(".y", "a*b")),
		policy.And(),
		policy.Or(policy.Equal(".x", literal.Int(2)), policy.Equal(".y", literal.String("ab"))),
		policy.All(".l", policy.GreaterThan(".", literal.Int(0))),
		policy.All(".e", policy.Equal(".", literal.Int(9))),
		policy.Any(".l", policy.Equal(".", literal.Int(3))),
		policy.Any(".m[]", policy.Like(".", "v")),
		policy.Not(policy.Any(".e", policy.Equal(".", literal.Int(1)))),
		// strings are sliced by character: t = U+1F600 (outside the BMP), a, U+0301 (a combining mark), b, c
		policy.Equal(".t[0:2]", literal.String("\U0001F600a")),
		policy.Equal(".t[1:3]", literal.String("a\u0301")),
		policy.Equal(".t[-2:]", literal.String("bc")),
		policy.Like(".t[1:]", "a*c"),
		policy.Equal(".t[2:][1:]", literal.String("bc")),
		// the two zeros are one number
		policy.Equal(".z", literal.Float(0)),
		policy.Equal(".pz", literal.Float(math.Copysign(0, -1))),
		policy.Equal(".zl", nList(basicnode.NewFloat(0), basicnode.NewFloat(math.Copysign(0, -1)))),
		policy.GreaterThanOrEqual(".z", literal.Float(0)),
		policy.LessThanOrEqual(".pz", literal.Float(math.Copysign(0, -1))),
		policy.Not(policy.LessThan(".z", literal.Float(0))),
		// indexes and slices on bytes, from either end
		policy.Equal(".blob[-1]", literal.Int(254)),
		policy.Equal(".blob[1]", literal.Int(2)),
		policy.Equal(".blob[-4]", literal.Int(1)),
		policy.Equal(".blob[-2:]", literal.Bytes([]byte{0x7f, 0xfe})),
		policy.GreaterThan(".blob[-2]", literal.Int(126)),
		// equality of values nested 70 and 200 levels deep (alternating lists and maps)
		policy.Equal(".deep70", c05Deep(70)),
		policy.Equal(".deep200", c05Deep(200)),
		policy.Not(policy.Equal(".deep70", c05Deep(69))),
	}
}

// c05Deep is a value nested n container levels deep (list, map, list, ...) around the integer 1.
func c05Deep(n int) datamodel.Node {
	var v datamodel.Node = nInt(1)
	for i := 0; i < n; i++ {
		if i%2 == 0 {
			v = nList(v)
		} else {
			v = nMap(kv{"k", v})
		}
	}
	return v
}

type c05PolCase struct {
	Stmts []int `json:"stmts"` // root first: one statement index per link
	Two   bool  `json:"two"`   // the leaf link carries a second statement (Stmts[len-1]+1 mod n)
}

func (c *c05PolCase) Weight() int { return len(c.Stmts) }

func c05PolicySub() *engine.Sub {
	stmts := c05TrueStatements()
	return &engine.Sub{
		Name: "satisfied-policy-universe",
		Rule: "rule-conforming chains of 1..2 links (quick; 3 thorough) whose policies are drawn from " + fmt.Sprint(len(stmts)) + " statements that are true for the invocation's arguments under the classical reading - one per operator, selector form (field, nested field, index, negative index, slice, optional, iterator) and pattern feature (literal, prefix/suffix star, escapes without and with stars, escaped backslash), plus slices of a string holding a character outside the BMP and a combining mark (by character) and comparisons between the two floating-point zeros (one number), indexes and slices on bytes from either end, equality of values nested 70 and 200 levels deep; every such invocation must be allowed; non-trivial = all",
		Bound: func(t string) string {
			return fmt.Sprintf("%d true statements per link, chains of 1..%d links, leaf policy of 1 or 2 statements", len(stmts), tierN(t, 2, 3))
		},
		Setup: func(string) error { chainInit(); return nil },
		Gen: func(tier string, emit func(any) bool) {
			n := len(stmts)
			for a := 0; a < n; a++ {
				for _, two := range []bool{false, true} {
					if !emit(&c05PolCase{Stmts: []int{a}, Two: two}) {
						return
					}
				}
			}
			for a := 0; a < n; a++ {
				for b := 0; b < n; b++ {
					if !emit(&c05PolCase{Stmts: []int{a, b}}) {
						return
					}
				}
			}
			if tier == "thorough" {
				for a := 0; a < n; a++ {
					for b := 0; b < n; b++ {
						for c := 0; c < n; c++ {
							if !emit(&c05PolCase{Stmts: []int{a, b, c}}) {
								return
							}
						}
					}
				}
			}
		},
		NewCase: func() any { return &c05PolCase{} },
		Run: func(ctx *engine.Ctx, c any) {
			cs := c.(*c05PolCase)
			n := len(cs.Stmts)
			ld := &sliceLoader{}
			prf := make([]cid.Cid, n)
			for i := 0; i < n; i++ { // link i: root first; holders p0 -> p1 -> p2 -> p0 ...
				cons := []policy.Constructor{stmts[cs.Stmts[i]]}
				if cs.Two && i == n-1 {
					cons = append(cons, stmts[(cs.Stmts[i]+1)%len(stmts)])
				}
				pol, err := policy.Construct(cons...)
				if err != nil {
					panic(err)
				}
				ld.cids = append(ld.cids, cidPool[i])
				ld.toks = append(ld.toks, mustDlg(i%3, (i+1)%3, 0, "/a", pol))
				prf[n-1-i] = cidPool[i]
			}
			inv, err := invocation.New(prin(n%3), prin(0), "/a", prf, invocation.WithNonce(fixedNonce),
				invocation.WithArgument("x", 1), invocation.WithArgument("f", 1.5), invocation.WithArgument("y", "ab"), invocation.WithArgument("s", `a*b\c`),
				invocation.WithArgument("l", []int{1, 2, 3}), invocation.WithArgument("m", map[string]string{"k": "v"}), invocation.WithArgument("e", []int{}),
				invocation.WithArgument("r", "backup"+strings.Repeat("_", 60)+"v2.tar"), invocation.WithArgument("q", strings.Repeat("a", 400)+"b"),
				invocation.WithArgument("t", "\U0001F600a\u0301bc"), invocation.WithArgument("z", math.Copysign(0, -1)), invocation.WithArgument("pz", 0.0), invocation.WithArgument("zl", []float64{math.Copysign(0, -1), 0}),
				invocation.WithArgument("blob", []byte{0x01, 0x02, 0x7f, 0xfe}), invocation.WithArgument("deep70", c05Deep(70)), invocation.WithArgument("deep200", c05Deep(200)))
			if err != nil {
				panic(err)
			}
			ctx.States(1)
			ctx.Nontrivial(1)
			ctx.Trans(int64(n))
			e1, e2 := bothVerdicts(inv, ld)
			ctx.Eval(2)
			ctx.Outcome(errLabel(e1))
			for _, e := range []error{e1, e2} {
				if e != nil {
					ctx.Failf(cs, "conforming-denied:"+errLabel(e)+"/satisfied-policy", "chain whose policies (statements %v, root first) are all satisfied by the arguments is denied: %v", cs.Stmts, e)
					return
				}
			}
		},
	}
}

func C05() *engine.Check {
	return &engine.Check{
		Property: "C05",
		Level:    "model_checking",
		Subs: []*engine.Sub{
			c05Sub(3, 5),
			c05PolicySub(),
			c05LenSub(),
			longChainSub("C05"),
			c01Sub("principal-universe-completeness", "complete", 3, 4),
			c01SealedSub("sealed-tokens-through-container-completeness", "complete", 2, 3),
			c02Sub("command-universe-completeness", "complete", 4, 5),
			c02SeqSub("complete"),
			c03Sub("policy-universe-completeness", "complete"),
			c03HookSub("args-hook-completeness", "complete"),
			c03SeqSub("same-token-sequences-completeness", "complete"),
			c03SharedSub("policies-sharing-one-array-completeness", "complete"),
			c03ValuesSub("complete"),
			c04ChainSub("time-universe-completeness", "complete", 3, 5),
			c04RealSub("real-clock-completeness", "complete", 3, 6),
			c04RealSubZ("real-clock-zone-west-completeness", "complete", 2, 3, time.FixedZone("verif-west", -11*3600), 2*time.Hour),
			c04RealSubZ("real-clock-zone-east-completeness", "complete", 2, 3, time.FixedZone("verif-east", 13*3600+1800), 2*time.Hour),
			c04RealEnvSub("real-clock-hostile-environment-completeness", "complete"),
			clockSub("C05"),
			clockHistSub("C05"),
			c04RenewSub("complete"),
			authConcSub("C05"),
			concRaceSub("C05"),
		},
		Assumptions: []string{
			"the completeness direction of the C01-C04 universes is charged here: whenever the reference says no rule is violated the implementation must allow",
			"time windows are either absent or end 10 years from now on either side, so the verdict cannot depend on when the check runs",
		},
	}
}

// ---- one delegation object, arguments of different lengths ----

type c05LenCase struct {
	Stmt    int   `json:"stmt"`
	Seq     []int `json:"seq"`     // argument sets, one check each, on the SAME delegation objects
	Decoded bool  `json:"decoded"` // the delegation went through seal -> unseal
}

func (c *c05LenCase) Weight() int { return len(c.Seq) }

func c05LenSub() *engine.Sub {
	stmts := []policy.Constructor{
		policy.Equal(".tags[-1:]", nList(nStr("prod"))),
		policy.Any(".tags[-2:]", policy.Equal(".", literal.String("prod"))),
		policy.Like(".name[-4:]", ".exe"),
		policy.Not(policy.Equal(".tags[-1:]", nList())),
		policy.Equal(".tags[-1]", literal.String("prod")),
		policy.All(".tags[1:]", policy.Like(".", "*")),
		policy.Equal(".name[1:][-3:]", literal.String("exe")),
	}
	argSets := []struct {
		tags []string
		name string
	}{
		{[]string{"v1", "prod"}, "a.exe"}, {[]string{"v1", "eu", "prod"}, "café.exe"}, {[]string{"prod"}, ".exe"},
		{[]string{"a", "b", "c", "d", "prod"}, "日本語-long-name.exe"},
	}
	return &engine.Sub{
		Name:  "same-delegation-across-argument-lengths",
		Rule:  "one delegation object (in memory, or sealed and decoded once) whose policy has a selector with a negative or open slice bound / a negative index - 7 statements that hold for each of 4 argument sets whose lists and strings have different lengths - serves every sequence of three invocations (64 sequences, ExecutionAllowed and ExecutionAllowedWithArgsHook alternating): every check is allowed, whatever lengths the same parsed selector met before; non-trivial = sequences in which the lengths differ",
		Bound: func(string) string { return "7 statements x 64 sequences of 4 argument sets x {in memory, decoded}" },
		Setup: func(string) error { chainInit(); return nil },
		Gen: func(tier string, emit func(any) bool) {
			for s := range stmts {
				for a := 0; a < 4; a++ {
					for b := 0; b < 4; b++ {
						for c := 0; c < 4; c++ {
							for _, dec := range []bool{false, true} {
								if !emit(&c05LenCase{Stmt: s, Seq: []int{a, b, c}, Decoded: dec}) {
									return
								}
							}
						}
					}
				}
			}
		},
		NewCase: func() any { return &c05LenCase{} },
		Run: func(ctx *engine.Ctx, c any) {
			cs := c.(*c05LenCase)
			pol := policy.MustConstruct(stmts[cs.Stmt])
			d := mustDlg(0, 1, 0, "/a", pol)
			if cs.Decoded {
				b, _, err := d.ToSealed(fixtures.ByAlg("ed25519")[0].Priv)
				if err != nil {
					panic(err)
				}
				if d, _, err = delegation.FromSealed(b); err != nil {
					panic(err)
				}
			}
			ld := &sliceLoader{cids: []cid.Cid{cidPool[0]}, toks: []*delegation.Token{d}}
			ctx.States(1)
			if cs.Seq[0] != cs.Seq[1] || cs.Seq[1] != cs.Seq[2] {
				ctx.Nontrivial(1)
			}
			for k, ai := range cs.Seq {
				as := argSets[ai]
				inv, err := invocation.New(prin(1), prin(0), "/a", []cid.Cid{cidPool[0]}, invocation.WithNonce(fixedNonce), invocation.WithoutInvokedAt(),
					invocation.WithArgument("tags", as.tags), invocation.WithArgument("name", as.name))
				if err != nil {
					panic(err)
				}
				var e error
				if k%2 == 0 {
					e = inv.ExecutionAllowed(ld)
				} else {
					e = inv.ExecutionAllowedWithArgsHook(ld, identityHook)
				}
				ctx.Eval(1)
				ctx.Trans(1)
				ctx.Outcome(errLabel(e))
				if e != nil {
					ctx.Failf(cs, "conforming-denied:"+errLabel(e)+"/after-arguments-of-another-length", "check #%d of the sequence %v on one delegation (statement #%d, decoded=%v): arguments %v / %q satisfy the policy, yet the invocation is denied: %v", k, cs.Seq, cs.Stmt, cs.Decoded, as.tags, as.name, e)
					return
				}
			}
		},
	}
}
