package props

import (
	"fmt"

	"github.com/ipfs/go-cid"

	"github.com/ucan-wg/go-ucan/token/delegation"
	"github.com/ucan-wg/go-ucan/token/invocation"

	"verifharness/engine"
	"verifharness/refmodel"
)

// Command lattice: equal, parent, child, sibling, textual-prefix-only, top.
// /σ and /ς are distinct valid commands whose only letters are case-fold partners of each other.
// /a/.., /a/./b and /a//b are valid commands whose segments "..", "." and "" are ordinary opaque segments.
var c02Lattice = []string{"/", "/a", "/a/b", "/a/b/c", "/a/c", "/ab", "/ab/c", "/b", "/σ", "/ς", "/a/..", "/a/./b", "/a//b", "/ucan", "/ucan/revoke"}

// sliceLoader resolves proof CIDs positionally by linear search.
type sliceLoader struct {
	cids []cid.Cid
	toks []*delegation.Token
}

func (l *sliceLoader) GetDelegation(c cid.Cid) (*delegation.Token, error) {
	for i := range l.cids {
		if l.cids[i] == c {
			if l.toks[i] == nil {
				return nil, delegation.ErrDelegationNotFound
			}
			return l.toks[i], nil
		}
	}
	return nil, delegation.ErrDelegationNotFound
}

// alignedHolder returns q_i of a correctly aligned chain of n links:
// invoker = q_0, d_i = (iss q_{i+1}, aud q_i), subject = q_n = p0.
func alignedHolder(n, i int) int { return (n - i) % 3 }

type c02Case struct {
	Cmds      []int `json:"cmds"`      // [invocation, d0 (leaf), ..., d_{n-1} (root)] indexes into the lattice
	Powerline int   `json:"powerline"` // 0 = none; k > 0: link k-1 (never the root) carries no subject
}

func (c *c02Case) Weight() int { return len(c.Cmds) }

func c02Sub(name, dir string, qn, tn int) *engine.Sub {
	return &engine.Sub{
		Name:   name,
		Repeat: true,
		Rule:   "every assignment of lattice commands {/, /a, /a/b, /a/b/c, /a/c, /ab, /ab/c, /b, /σ, /ς (two distinct lower-case commands that only differ by case-fold partners), /a/.., /a/./b, /a//b (dot and empty segments are ordinary segments, not path navigation), /ucan, /ucan/revoke (the namespace the UCAN specifications use for their own commands obeys the same rule)} to the invocation and to each link of a principal-aligned chain (chains of 2 - 3 links also with one non-root link that names no subject); non-trivial = at most one link fails the reference cover relation",
		Bound: func(t string) string {
			return fmt.Sprintf("chains of 1..%d links, %d commands per position", tierN(t, qn, tn), len(c02Lattice))
		},
		Setup: func(string) error { chainInit(); return nil },
		Gen: func(tier string, emit func(any) bool) {
			for n := 1; n <= tierN(tier, qn, tn); n++ {
				idx := make([]int, n+1)
				for {
					if !emit(&c02Case{Cmds: append([]int{}, idx...)}) {
						return
					}
					// the same chain with one non-root link that names no subject (a "powerline" delegation): such a
					// chain is refused anyway (C01); in particular it must not be allowed when a command is widened
					if n >= 2 && n <= 3 {
						for k := 1; k < n; k++ {
							if !emit(&c02Case{Cmds: append([]int{}, idx...), Powerline: k}) {
								return
							}
						}
					}
					i := n
					for i >= 0 {
						idx[i]++
						if idx[i] < len(c02Lattice) {
							break
						}
						idx[i] = 0
						i--
					}
					if i < 0 {
						break
					}
				}
			}
		},
		NewCase: func() any { return &c02Case{} },
		Run: func(ctx *engine.Ctx, c any) {
			cs := c.(*c02Case)
			n := len(cs.Cmds) - 1
			ld := &sliceLoader{}
			prf := make([]cid.Cid, n)
			for i := 0; i < n; i++ {
				sub := 0
				if cs.Powerline == i+1 {
					sub = -1
				}
				d := mustDlg(alignedHolder(n, i+1), alignedHolder(n, i), sub, c02Lattice[cs.Cmds[i+1]], nil)
				ld.cids = append(ld.cids, cidPool[i])
				ld.toks = append(ld.toks, d)
				prf[i] = cidPool[i]
			}
			inv, err := invocation.New(prin(alignedHolder(n, 0)), prin(0), commandOf(c02Lattice[cs.Cmds[0]]), prf,
				invocation.WithNonce(fixedNonce), invocation.WithoutInvokedAt())
			if err != nil {
				panic(err)
			}
			// reference: first position whose command is not covered by the next one towards the root
			bad := 0
			firstBad := -1
			for i := 0; i < n; i++ {
				if !refmodel.CmdCovers(c02Lattice[cs.Cmds[i+1]], c02Lattice[cs.Cmds[i]]) {
					bad++
					if firstBad < 0 {
						firstBad = i
					}
				}
			}
			ctx.States(1)
			ctx.Trans(int64(n))
			if bad <= 1 {
				ctx.Nontrivial(1)
			}
			e1, e2 := bothVerdicts(inv, ld)
			ctx.Eval(2)
			ctx.Outcome(errLabel(e1))
			for k, e := range []error{e1, e2} {
				api := [2]string{"ExecutionAllowed", "ExecutionAllowedWithArgsHook"}[k]
				if dir == "sound" && e == nil && bad > 0 {
					pos := "inner"
					switch {
					case firstBad == 0:
						pos = "leaf"
					case firstBad == n-1:
						pos = "root"
					}
					ctx.Failf(cs, "command-widened@"+pos, "%s allowed %s although link %d (%s) does not cover %s", api, c02Describe(cs), firstBad, c02Lattice[cs.Cmds[firstBad+1]], c02Lattice[cs.Cmds[firstBad]])
				}
				if dir == "complete" && e != nil && bad == 0 && cs.Powerline == 0 {
					ctx.Failf(cs, "denied-attenuating:"+errLabel(e), "%s denied the attenuating command sequence %s: %v", api, c02Describe(cs), e)
				}
			}
		},
	}
}

// ---- sequences of invocations against the SAME delegation objects ----

type c02SeqCase struct {
	Chain []int `json:"chain"` // commands of the links, leaf first
	Seq   []int `json:"seq"`   // invoked commands, one fresh invocation each
}

func (c *c02SeqCase) Weight() int { return len(c.Seq) }

func c02SeqSub(dir string) *engine.Sub {
	name := "shared-delegations-sequences"
	if dir == "complete" {
		name += "-completeness"
	}
	return &engine.Sub{
		Name: name,
		Rule: "one chain of 1..2 delegation OBJECTS (every assignment of lattice commands) serves a sequence of three invocations (every triple of lattice commands, each a fresh invocation token, checked with both APIs): every verdict must be the reference's for that invocation, whatever was asked of the same delegations before (an allowed check, a refused one, the same refused one again); non-trivial = sequences with differing verdicts",
		Bound: func(string) string {
			L := len(c02Lattice)
			return fmt.Sprintf("%d + %d chains x %d command triples", L, L*L, L*L*L)
		},
		Setup: func(string) error { chainInit(); return nil },
		Gen: func(tier string, emit func(any) bool) {
			L := len(c02Lattice)
			var chains [][]int
			for a := 0; a < L; a++ {
				chains = append(chains, []int{a})
			}
			for a := 0; a < L; a++ {
				for b := 0; b < L; b++ {
					chains = append(chains, []int{a, b})
				}
			}
			for _, ch := range chains {
				for x := 0; x < L; x++ {
					if !emit(&c02SeqCase{Chain: ch, Seq: []int{x, -1, -1}}) {
						return
					}
				}
			}
		},
		NewCase: func() any { return &c02SeqCase{} },
		Run: func(ctx *engine.Ctx, c any) {
			cs := c.(*c02SeqCase)
			n := len(cs.Chain)
			L := len(c02Lattice)
			var seqs [][]int
			if cs.Seq[1] >= 0 {
				seqs = [][]int{cs.Seq}
			} else {
				for y := 0; y < L; y++ {
					for z := 0; z < L; z++ {
						seqs = append(seqs, []int{cs.Seq[0], y, z})
					}
				}
			}
			chainOK := true
			for i := 0; i+1 < n; i++ {
				if !refmodel.CmdCovers(c02Lattice[cs.Chain[i+1]], c02Lattice[cs.Chain[i]]) {
					chainOK = false
				}
			}
			for _, seq := range seqs {
				// fresh delegation objects per sequence, shared by its three invocations
				ld := &sliceLoader{}
				prf := make([]cid.Cid, n)
				for i := 0; i < n; i++ {
					ld.cids = append(ld.cids, cidPool[i])
					ld.toks = append(ld.toks, mustDlg(alignedHolder(n, i+1), alignedHolder(n, i), 0, c02Lattice[cs.Chain[i]], nil))
					prf[i] = cidPool[i]
				}
				ctx.States(1)
				verdicts := map[bool]bool{}
				for k, x := range seq {
					inv, err := invocation.New(prin(alignedHolder(n, 0)), prin(0), commandOf(c02Lattice[x]), prf, invocation.WithNonce(fixedNonce), invocation.WithoutInvokedAt())
					if err != nil {
						panic(err)
					}
					want := chainOK && refmodel.CmdCovers(c02Lattice[cs.Chain[0]], c02Lattice[x])
					verdicts[want] = true
					e1, e2 := bothVerdicts(inv, ld)
					ctx.Eval(2)
					ctx.Trans(1)
					ctx.Outcome(errLabel(e1))
					rc := &c02SeqCase{Chain: cs.Chain, Seq: seq}
					for _, e := range []error{e1, e2} {
						if dir == "sound" && e == nil && !want {
							ctx.Failf(rc, "command-widened/after-earlier-checks-on-the-same-delegations", "invocation #%d (%s) of the sequence %v against chain %v is allowed although the chain does not cover it", k, c02Lattice[x], seq, cs.Chain)
						}
						if dir == "complete" && e != nil && want {
							ctx.Failf(rc, "denied-attenuating/after-earlier-checks-on-the-same-delegations", "invocation #%d (%s) of the sequence %v against chain %v is denied although the chain covers it: %v", k, c02Lattice[x], seq, cs.Chain, e)
						}
					}
				}
				if len(verdicts) > 1 {
					ctx.Nontrivial(1)
				}
			}
		},
	}
}

func c02Describe(cs *c02Case) string {
	s := "inv " + c02Lattice[cs.Cmds[0]]
	for i := 1; i < len(cs.Cmds); i++ {
		s += " <- " + c02Lattice[cs.Cmds[i]]
	}
	return s
}

func C02() *engine.Check {
	return &engine.Check{
		Property: "C02",
		Level:    "model_checking",
		Subs:     []*engine.Sub{c02Sub("command-attenuation", "sound", 4, 6), c02SeqSub("sound"), longChainSub("C02")},
		Assumptions: []string{
			"principals are aligned correctly, policies empty, no time bounds: only the command rule can fire",
			"reference cover relation = segment-prefix order (refmodel.CmdCovers), independent of Command.Covers",
		},
	}
}
