package props

import (
	"fmt"

	"github.com/ipfs/go-cid"

	"github.com/ucan-wg/go-ucan/token/delegation"
	"github.com/ucan-wg/go-ucan/token/invocation"

	"verifharness/engine"
	"verifharness/refmodel"
)

// Command lattice: equal, parent, child, sibling, textual-prefix-only, top.
var c02Lattice = []string{"/", "/a", "/a/b", "/a/b/c", "/a/c", "/ab", "/ab/c", "/b"}

// sliceLoader resolves proof CIDs positionally by linear search.
type sliceLoader struct {
	cids []cid.Cid
	toks []*delegation.Token
}

func (l *sliceLoader) GetDelegation(c cid.Cid) (*delegation.Token, error) {
	for i := range l.cids {
		if l.cids[i] == c {
			if l.toks[i] == nil {
				return nil, delegation.ErrDelegationNotFound
			}
			return l.toks[i], nil
		}
	}
	return nil, delegation.ErrDelegationNotFound
}

// alignedHolder returns q_i of a correctly aligned chain of n links:
// invoker = q_0, d_i = (iss q_{i+1}, aud q_i), subject = q_n = p0.
func alignedHolder(n, i int) int { return (n - i) % 3 }

type c02Case struct {
	Cmds []int `json:"cmds"` // [invocation, d0 (leaf), ..., d_{n-1} (root)] indexes into the lattice
}

func (c *c02Case) Weight() int { return len(c.Cmds) }

func c02Sub(name, dir string, qn, tn int) *engine.Sub {
	return &engine.Sub{
		Name:   name,
		Repeat: true,
		Rule:   "every assignment of lattice commands {/, /a, /a/b, /a/b/c, /a/c, /ab, /ab/c, /b} to the invocation and to each link of a principal-aligned chain; non-trivial = at most one link fails the reference cover relation",
		Bound: func(t string) string {
			return fmt.Sprintf("chains of 1..%d links, 8 commands per position", tierN(t, qn, tn))
		},
		Setup: func(string) error { chainInit(); return nil },
		Gen: func(tier string, emit func(any) bool) {
			for n := 1; n <= tierN(tier, qn, tn); n++ {
				idx := make([]int, n+1)
				for {
					if !emit(&c02Case{Cmds: append([]int{}, idx...)}) {
						return
					}
					i := n
					for i >= 0 {
						idx[i]++
						if idx[i] < len(c02Lattice) {
							break
						}
						idx[i] = 0
						i--
					}
					if i < 0 {
						break
					}
				}
			}
		},
		NewCase: func() any { return &c02Case{} },
		Run: func(ctx *engine.Ctx, c any) {
			cs := c.(*c02Case)
			n := len(cs.Cmds) - 1
			ld := &sliceLoader{}
			prf := make([]cid.Cid, n)
			for i := 0; i < n; i++ {
				d := mustDlg(alignedHolder(n, i+1), alignedHolder(n, i), 0, c02Lattice[cs.Cmds[i+1]], nil)
				ld.cids = append(ld.cids, cidPool[i])
				ld.toks = append(ld.toks, d)
				prf[i] = cidPool[i]
			}
			inv, err := invocation.New(prin(alignedHolder(n, 0)), prin(0), commandOf(c02Lattice[cs.Cmds[0]]), prf,
				invocation.WithNonce(fixedNonce), invocation.WithoutInvokedAt())
			if err != nil {
				panic(err)
			}
			// reference: first position whose command is not covered by the next one towards the root
			bad := 0
			firstBad := -1
			for i := 0; i < n; i++ {
				if !refmodel.CmdCovers(c02Lattice[cs.Cmds[i+1]], c02Lattice[cs.Cmds[i]]) {
					bad++
					if firstBad < 0 {
						firstBad = i
					}
				}
			}
			ctx.States(1)
			ctx.Trans(int64(n))
			if bad <= 1 {
				ctx.Nontrivial(1)
			}
			e1, e2 := bothVerdicts(inv, ld)
			ctx.Eval(2)
			ctx.Outcome(errLabel(e1))
			for k, e := range []error{e1, e2} {
				api := [2]string{"ExecutionAllowed", "ExecutionAllowedWithArgsHook"}[k]
				if dir == "sound" && e == nil && bad > 0 {
					pos := "inner"
					switch {
					case firstBad == 0:
						pos = "leaf"
					case firstBad == n-1:
						pos = "root"
					}
					ctx.Failf(cs, "command-widened@"+pos, "%s allowed %s although link %d (%s) does not cover %s", api, c02Describe(cs), firstBad, c02Lattice[cs.Cmds[firstBad+1]], c02Lattice[cs.Cmds[firstBad]])
				}
				if dir == "complete" && e != nil && bad == 0 {
					ctx.Failf(cs, "denied-attenuating:"+errLabel(e), "%s denied the attenuating command sequence %s: %v", api, c02Describe(cs), e)
				}
			}
		},
	}
}

func c02Describe(cs *c02Case) string {
	s := "inv " + c02Lattice[cs.Cmds[0]]
	for i := 1; i < len(cs.Cmds); i++ {
		s += " <- " + c02Lattice[cs.Cmds[i]]
	}
	return s
}

func C02() *engine.Check {
	return &engine.Check{
		Property: "C02",
		Level:    "model_checking",
		Subs:     []*engine.Sub{c02Sub("command-attenuation", "sound", 4, 6), longChainSub("C02")},
		Assumptions: []string{
			"principals are aligned correctly, policies empty, no time bounds: only the command rule can fire",
			"reference cover relation = segment-prefix order (refmodel.CmdCovers), independent of Command.Covers",
		},
	}
}
