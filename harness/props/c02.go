package props

import (
	"fmt"

	"github.com/ipfs/go-cid"

	"github.com/ucan-wg/go-ucan/token/delegation"
	"github.com/ucan-wg/go-ucan/token/invocation"

	"verifharness/engine"
	"verifharness/fixtures"
	"verifharness/refmodel"
)

// Command lattice: equal, parent, child, sibling, textual-prefix-only, top.
// /σ and /ς are distinct valid commands whose only letters are case-fold partners of each other.
// /a/.., /a/./b and /a//b are valid commands whose segments "..", "." and "" are ordinary opaque segments.
var c02Lattice = []string{"/", "/a", "/a/b", "/a/b/c", "/a/c", "/ab", "/ab/c", "/b", "/σ", "/ς", "/a/..", "/a/./b", "/a//b", "/ucan", "/ucan/revoke", "/σ/a"}

// sliceLoader resolves proof CIDs positionally by linear search.
type sliceLoader struct {
	cids []cid.Cid
	toks []*delegation.Token
}

func (l *sliceLoader) GetDelegation(c cid.Cid) (*delegation.Token, error) {
	for i := range l.cids {
		if l.cids[i] == c {
			if l.toks[i] == nil {
				return nil, delegation.ErrDelegationNotFound
			}
			return l.toks[i], nil
		}
	}
	return nil, delegation.ErrDelegationNotFound
}

// alignedHolder returns q_i of a correctly aligned chain of n links:
// invoker = q_0, d_i = (iss q_{i+1}, aud q_i), subject = q_n = p0.
func alignedHolder(n, i int) int { return (n - i) % 3 }

type c02Case struct {
	Cmds      []int `json:"cmds"`      // [invocation, d0 (leaf), ..., d_{n-1} (root)] indexes into the lattice
	Powerline int   `json:"powerline"` // 0 = none; k > 0: link k-1 (never the root) carries no subject
	Self      int   `json:"self"`      // 0 = none; k > 0: link k-1 (never the root) is issued by its own audience (P -> P, P not the subject)
}

func (c *c02Case) Weight() int { return len(c.Cmds) }

func c02Sub(name, dir string, qn, tn int) *engine.Sub {
	return &engine.Sub{
		Name:   name,
		Repeat: true,
		Rule:   "every assignment of lattice commands {/, /a, /a/b, /a/b/c, /a/c, /ab, /ab/c, /b, /σ, /ς (two distinct lower-case commands that only differ by case-fold partners), /a/.., /a/./b, /a//b (dot and empty segments are ordinary segments, not path navigation), /ucan, /ucan/revoke (the namespace the UCAN specifications use for their own commands obeys the same rule), /σ/a (a child of a command that is not ASCII)} to the invocation and to each link of a principal-aligned chain (chains of 2 - 3 links also with one non-root link that names no subject, and with one non-root link that a principal other than the subject issues to itself); non-trivial = at most one link fails the reference cover relation",
		Bound: func(t string) string {
			return fmt.Sprintf("chains of 1..%d links, %d commands per position", tierN(t, qn, tn), len(c02Lattice))
		},
		Setup: func(string) error { chainInit(); return nil },
		Gen: func(tier string, emit func(any) bool) {
			for n := 1; n <= tierN(tier, qn, tn); n++ {
				idx := make([]int, n+1)
				for {
					if !emit(&c02Case{Cmds: append([]int{}, idx...)}) {
						return
					}
					// the same chain with one non-root link that names no subject (a "powerline" delegation): such a
					// chain is refused anyway (C01); in particular it must not be allowed when a command is widened
					if n >= 2 && n <= 3 {
						for k := 1; k < n; k++ {
							if !emit(&c02Case{Cmds: append([]int{}, idx...), Powerline: k}) {
								return
							}
							// the same positions with a link that a principal other than the subject issues to itself (a "refresh" of
							// its own grant): it is a link like any other, with a command that has to cover and be covered
							if c02Holders(n, k)[k] != 0 {
								if !emit(&c02Case{Cmds: append([]int{}, idx...), Self: k}) {
									return
								}
							}
						}
					}
					i := n
					for i >= 0 {
						idx[i]++
						if idx[i] < len(c02Lattice) {
							break
						}
						idx[i] = 0
						i--
					}
					if i < 0 {
						break
					}
				}
			}
		},
		NewCase: func() any { return &c02Case{} },
		Run: func(ctx *engine.Ctx, c any) {
			cs := c.(*c02Case)
			n := len(cs.Cmds) - 1
			ld := &sliceLoader{}
			prf := make([]cid.Cid, n)
			h := c02Holders(n, cs.Self)
			for i := 0; i < n; i++ {
				sub := 0
				if cs.Powerline == i+1 {
					sub = -1
				}
				d := mustDlg(h[i+1], h[i], sub, c02Lattice[cs.Cmds[i+1]], nil)
				ld.cids = append(ld.cids, cidPool[i])
				ld.toks = append(ld.toks, d)
				prf[i] = cidPool[i]
			}
			inv, err := invocation.New(prin(h[0]), prin(0), commandOf(c02Lattice[cs.Cmds[0]]), prf,
				invocation.WithNonce(fixedNonce), invocation.WithoutInvokedAt())
			if err != nil {
				panic(err)
			}
			// reference: first position whose command is not covered by the next one towards the root
			bad := 0
			firstBad := -1
			for i := 0; i < n; i++ {
				if !refmodel.CmdCovers(c02Lattice[cs.Cmds[i+1]], c02Lattice[cs.Cmds[i]]) {
					bad++
					if firstBad < 0 {
						firstBad = i
					}
				}
			}
			ctx.States(1)
			ctx.Trans(int64(n))
			if bad <= 1 {
				ctx.Nontrivial(1)
			}
			e1, e2 := bothVerdicts(inv, ld)
			ctx.Eval(2)
			ctx.Outcome(errLabel(e1))
			if dir == "sound" && bad > 0 && n <= 3 {
				oddHooksRefuse(ctx, cs, inv, ld, "a link of "+c02Describe(cs)+" widens the command")
				if n <= 2 {
					loaderPanicsRefuse(ctx, cs, inv, ld, prf, "a link of "+c02Describe(cs)+" widens the command")
				}
			}
			for k, e := range []error{e1, e2} {
				api := [2]string{"ExecutionAllowed", "ExecutionAllowedWithArgsHook"}[k]
				if dir == "sound" && e == nil && bad > 0 {
					pos := "inner"
					switch {
					case firstBad == 0:
						pos = "leaf"
					case firstBad == n-1:
						pos = "root"
					}
					ctx.Failf(cs, "command-widened@"+pos, "%s allowed %s although link %d (%s) does not cover %s", api, c02Describe(cs), firstBad, c02Lattice[cs.Cmds[firstBad+1]], c02Lattice[cs.Cmds[firstBad]])
				}
				if dir == "complete" && e != nil && bad == 0 && cs.Powerline == 0 {
					ctx.Failf(cs, "denied-attenuating:"+errLabel(e), "%s denied the attenuating command sequence %s: %v", api, c02Describe(cs), e)
				}
			}
		},
	}
}

// ---- sequences of invocations against the SAME delegation objects ----

type c02SeqCase struct {
	Chain []int `json:"chain"` // commands of the links, leaf first
	Seq   []int `json:"seq"`   // invoked commands, one fresh invocation each
}

func (c *c02SeqCase) Weight() int { return len(c.Seq) }

func c02SeqSub(dir string) *engine.Sub {
	name := "shared-delegations-sequences"
	if dir == "complete" {
		name += "-completeness"
	}
	return &engine.Sub{
		Name: name,
		Rule: "one chain of 1..2 delegation OBJECTS (every assignment of lattice commands) serves a sequence of three invocations (every triple of lattice commands, each a fresh invocation token, checked with both APIs): every verdict must be the reference's for that invocation, whatever was asked of the same delegations before (an allowed check, a refused one, the same refused one again); non-trivial = sequences with differing verdicts",
		Bound: func(string) string {
			L := len(c02Lattice)
			return fmt.Sprintf("%d + %d chains x %d command triples", L, L*L, L*L*L)
		},
		Setup: func(string) error { chainInit(); return nil },
		Gen: func(tier string, emit func(any) bool) {
			L := len(c02Lattice)
			var chains [][]int
			for a := 0; a < L; a++ {
				chains = append(chains, []int{a})
			}
			for a := 0; a < L; a++ {
				for b := 0; b < L; b++ {
					chains = append(chains, []int{a, b})
				}
			}
			for _, ch := range chains {
				for x := 0; x < L; x++ {
					if !emit(&c02SeqCase{Chain: ch, Seq: []int{x, -1, -1}}) {
						return
					}
				}
			}
		},
		NewCase: func() any { return &c02SeqCase{} },
		Run: func(ctx *engine.Ctx, c any) {
			cs := c.(*c02SeqCase)
			n := len(cs.Chain)
			L := len(c02Lattice)
			var seqs [][]int
			if cs.Seq[1] >= 0 {
				seqs = [][]int{cs.Seq}
			} else {
				for y := 0; y < L; y++ {
					for z := 0; z < L; z++ {
						seqs = append(seqs, []int{cs.Seq[0], y, z})
					}
				}
			}
			chainOK := true
			for i := 0; i+1 < n; i++ {
				if !refmodel.CmdCovers(c02Lattice[cs.Chain[i+1]], c02Lattice[cs.Chain[i]]) {
					chainOK = false
				}
			}
			for _, seq := range seqs {
				// fresh delegation objects per sequence, shared by its three invocations
				ld := &sliceLoader{}
				prf := make([]cid.Cid, n)
				for i := 0; i < n; i++ {
					ld.cids = append(ld.cids, cidPool[i])
					ld.toks = append(ld.toks, mustDlg(alignedHolder(n, i+1), alignedHolder(n, i), 0, c02Lattice[cs.Chain[i]], nil))
					prf[i] = cidPool[i]
				}
				ctx.States(1)
				verdicts := map[bool]bool{}
				for k, x := range seq {
					inv, err := invocation.New(prin(alignedHolder(n, 0)), prin(0), commandOf(c02Lattice[x]), prf, invocation.WithNonce(fixedNonce), invocation.WithoutInvokedAt())
					if err != nil {
						panic(err)
					}
					want := chainOK && refmodel.CmdCovers(c02Lattice[cs.Chain[0]], c02Lattice[x])
					verdicts[want] = true
					e1, e2 := bothVerdicts(inv, ld)
					ctx.Eval(2)
					ctx.Trans(1)
					ctx.Outcome(errLabel(e1))
					rc := &c02SeqCase{Chain: cs.Chain, Seq: seq}
					for _, e := range []error{e1, e2} {
						if dir == "sound" && e == nil && !want {
							ctx.Failf(rc, "command-widened/after-earlier-checks-on-the-same-delegations", "invocation #%d (%s) of the sequence %v against chain %v is allowed although the chain does not cover it", k, c02Lattice[x], seq, cs.Chain)
						}
						if dir == "complete" && e != nil && want {
							ctx.Failf(rc, "denied-attenuating/after-earlier-checks-on-the-same-delegations", "invocation #%d (%s) of the sequence %v against chain %v is denied although the chain covers it: %v", k, c02Lattice[x], seq, cs.Chain, e)
						}
					}
				}
				if len(verdicts) > 1 {
					ctx.Nontrivial(1)
				}
			}
		},
	}
}

// c02Holders returns q_0 .. q_n of an aligned chain of n links (link i: issuer q_{i+1}, audience q_i, q_n = p0 the
// subject); with self = k > 0, link k-1 is issued by its own audience (q_k = q_{k-1}) and the other links are aligned around it.
func c02Holders(n, self int) []int {
	h := make([]int, n+1)
	if self == 0 {
		for i := range h {
			h[i] = alignedHolder(n, i)
		}
		return h
	}
	for i := 0; i < self; i++ {
		h[i] = alignedHolder(n-1, i)
	}
	for i := self; i <= n; i++ {
		h[i] = alignedHolder(n-1, i-1)
	}
	return h
}

func c02Describe(cs *c02Case) string {
	s := "inv " + c02Lattice[cs.Cmds[0]]
	for i := 1; i < len(cs.Cmds); i++ {
		s += " <- " + c02Lattice[cs.Cmds[i]]
	}
	return s
}

func C02() *engine.Check {
	return &engine.Check{
		Property: "C02",
		Level:    "model_checking",
		Subs:     []*engine.Sub{c02Sub("command-attenuation", "sound", 4, 5), c02SeqSub("sound"), c02LoopSub("sound"), c02WsSub("sound"), clockSub("C02"), longChainSub("C02"), authConcSub("C02"), concRaceSub("C02")},
		Assumptions: []string{
			"principals are aligned correctly, policies empty, no time bounds: only the command rule can fire",
			"reference cover relation = segment-prefix order (refmodel.CmdCovers), independent of Command.Covers",
		},
	}
}

// ---- chains in which the same delegation occurs twice (a principal loop) ----

type c02LoopCase struct {
	Cmds  []int `json:"cmds"`  // lattice indexes: invocation, A, B, root
	Loops int   `json:"loops"` // how often the pair (A, B) is repeated before the final A and the root
}

func (c *c02LoopCase) Weight() int { return c.Loops }

// c02LoopSub: prf = [A, B, A, root] (or [A, B, A, B, A, root]) with A = p1 -> p2 and B = p2 -> p1: every link is
// aligned, A's CID occurs several times. The command rule holds between every two consecutive entries.
func c02LoopSub(dir string) *engine.Sub {
	name := "chains-with-a-repeated-delegation"
	if dir == "complete" {
		name += "-completeness"
	}
	return &engine.Sub{
		Name:   name,
		Repeat: true,
		Rule:   "proof lists [A, B, A, root] and [A, B, A, B, A, root] in which A (p1 -> p2) and B (p2 -> p1) delegate back and forth, so that the SAME delegation (same CID) occurs two or three times; every assignment of lattice commands to the invocation, A, B and the root: allowed only if every entry covers the one before it (A <= B <= A forces equal commands); non-trivial = at most one link fails",
		Bound: func(string) string {
			return fmt.Sprintf("%d^4 command assignments x 2 loop counts x 2 APIs", len(c02Lattice))
		},
		Setup: func(string) error { chainInit(); return nil },
		Gen: func(tier string, emit func(any) bool) {
			L := len(c02Lattice)
			for i := 0; i < L; i++ {
				for a := 0; a < L; a++ {
					for b := 0; b < L; b++ {
						for loops := 1; loops <= 2; loops++ {
							if !emit(&c02LoopCase{Cmds: []int{i, a, b, -1}, Loops: loops}) {
								return
							}
						}
					}
				}
			}
		},
		NewCase: func() any { return &c02LoopCase{} },
		Run: func(ctx *engine.Ctx, c any) {
			cs := c.(*c02LoopCase)
			roots := []int{cs.Cmds[3]}
			if cs.Cmds[3] < 0 {
				roots = roots[:0]
				for r := range c02Lattice {
					roots = append(roots, r)
				}
			}
			for _, r := range roots {
				A := mustDlg(1, 2, 0, c02Lattice[cs.Cmds[1]], nil)
				B := mustDlg(2, 1, 0, c02Lattice[cs.Cmds[2]], nil)
				root := mustDlg(0, 1, 0, c02Lattice[r], nil)
				ld := &sliceLoader{cids: []cid.Cid{cidPool[0], cidPool[1], cidPool[2]}, toks: []*delegation.Token{A, B, root}}
				prf := []cid.Cid{cidPool[0]}
				seq := []int{cs.Cmds[1]}
				for k := 0; k < cs.Loops; k++ {
					prf = append(prf, cidPool[1], cidPool[0])
					seq = append(seq, cs.Cmds[2], cs.Cmds[1])
				}
				prf = append(prf, cidPool[2])
				seq = append(seq, r)
				inv, err := invocation.New(prin(2), prin(0), commandOf(c02Lattice[cs.Cmds[0]]), prf, invocation.WithNonce(fixedNonce), invocation.WithoutInvokedAt())
				if err != nil {
					panic(err)
				}
				bad := 0
				prev := cs.Cmds[0]
				for _, cur := range seq {
					if !refmodel.CmdCovers(c02Lattice[cur], c02Lattice[prev]) {
						bad++
					}
					prev = cur
				}
				ctx.States(1)
				ctx.Trans(int64(len(seq)))
				if bad <= 1 {
					ctx.Nontrivial(1)
				}
				e1, e2 := bothVerdicts(inv, ld)
				ctx.Eval(2)
				ctx.Outcome(errLabel(e1))
				rc := &c02LoopCase{Cmds: []int{cs.Cmds[0], cs.Cmds[1], cs.Cmds[2], r}, Loops: cs.Loops}
				for _, e := range []error{e1, e2} {
					if dir == "sound" && e == nil && bad > 0 {
						ctx.Failf(rc, "command-widened/repeated-delegation", "allowed inv %s <- A %s <- B %s <- A ... <- root %s (%d loops) although %d links do not cover the entry before them", c02Lattice[cs.Cmds[0]], c02Lattice[cs.Cmds[1]], c02Lattice[cs.Cmds[2]], c02Lattice[r], cs.Loops, bad)
					}
					if dir == "complete" && e != nil && bad == 0 {
						ctx.Failf(rc, "denied-attenuating/repeated-delegation", "denied inv %s <- A %s <- B %s <- A ... <- root %s (%d loops) although every link covers the entry before it: %v", c02Lattice[cs.Cmds[0]], c02Lattice[cs.Cmds[1]], c02Lattice[cs.Cmds[2]], c02Lattice[r], cs.Loops, e)
					}
				}
			}
		},
	}
}

// ---- decoded chains over commands that differ in white space only ----

var c02WsLattice = []string{"/", "/a", "/a\n", "/a\r", "/a\r\n", "/a ", "/a\t", "/a/b", "/a\n/b", "/a /b", "/a\u00a0", "/a\ufeff", "/\ufeffa"}

type c02WsCase struct {
	Cmds []int `json:"cmds"` // [invocation, d0 (leaf), ..., root] indexes into c02WsLattice
}

func (c *c02WsCase) Weight() int { return len(c.Cmds) }

func c02WsSub(dir string) *engine.Sub {
	name := "decoded-chains-over-white-space-variants"
	if dir == "complete" {
		name += "-completeness"
	}
	return &engine.Sub{
		Name:   name,
		Repeat: true,
		Rule:   "chains of 1 - 2 links whose commands are /a and its white-space variants (/a + LF, CR, CRLF, blank, TAB, NBSP, BOM; /a + LF + /b; a BOM before a; all valid, all different commands), every token sealed and decoded again before the check (a decoder must hand back the command that was signed): reference = segment-prefix order on the exact texts; non-trivial = at most one link fails",
		Bound: func(string) string {
			return fmt.Sprintf("%d commands per position, chains of 1..2 links, sealed + decoded", len(c02WsLattice))
		},
		Setup: func(string) error { chainInit(); return nil },
		Gen: func(tier string, emit func(any) bool) {
			L := len(c02WsLattice)
			for a := 0; a < L; a++ {
				for b := 0; b < L; b++ {
					if !emit(&c02WsCase{Cmds: []int{a, b}}) {
						return
					}
					for c := 0; c < L; c++ {
						if !emit(&c02WsCase{Cmds: []int{a, b, c}}) {
							return
						}
					}
				}
			}
		},
		NewCase: func() any { return &c02WsCase{} },
		Run: func(ctx *engine.Ctx, c any) {
			cs := c.(*c02WsCase)
			n := len(cs.Cmds) - 1
			keys := fixtures.ByAlg("ed25519")
			ld := &sliceLoader{}
			prf := make([]cid.Cid, n)
			for i := 0; i < n; i++ {
				d := mustDlg(alignedHolder(n, i+1), alignedHolder(n, i), 0, c02WsLattice[cs.Cmds[i+1]], nil)
				data, _, err := d.ToSealed(keys[alignedHolder(n, i+1)].Priv)
				if err != nil {
					panic(err)
				}
				dec, _, err := delegation.FromSealed(data)
				if err != nil {
					ctx.Outcome("decode-refused")
					if dir == "complete" {
						ctx.Failf(cs, "valid-command-refused-by-decoder", "a delegation with the valid command %q does not unseal: %v", c02WsLattice[cs.Cmds[i+1]], err)
					}
					return
				}
				ld.cids, ld.toks = append(ld.cids, cidPool[i]), append(ld.toks, dec)
				prf[i] = cidPool[i]
			}
			inv, err := invocation.New(prin(alignedHolder(n, 0)), prin(0), commandOf(c02WsLattice[cs.Cmds[0]]), prf, invocation.WithNonce(fixedNonce), invocation.WithoutInvokedAt())
			if err != nil {
				panic(err)
			}
			idata, _, err := inv.ToSealed(keys[alignedHolder(n, 0)].Priv)
			if err != nil {
				panic(err)
			}
			if inv, _, err = invocation.FromSealed(idata); err != nil {
				ctx.Outcome("decode-refused")
				return
			}
			bad := 0
			for i := 0; i < n; i++ {
				if !refmodel.CmdCovers(c02WsLattice[cs.Cmds[i+1]], c02WsLattice[cs.Cmds[i]]) {
					bad++
				}
			}
			ctx.States(1)
			ctx.Trans(int64(n))
			if bad <= 1 {
				ctx.Nontrivial(1)
			}
			e1, e2 := bothVerdicts(inv, ld)
			ctx.Eval(2)
			ctx.Outcome(errLabel(e1))
			var names []string
			for _, k := range cs.Cmds {
				names = append(names, fmt.Sprintf("%q", c02WsLattice[k]))
			}
			for _, e := range []error{e1, e2} {
				if dir == "sound" && e == nil && bad > 0 {
					ctx.Failf(cs, "command-widened/white-space-variant", "allowed the decoded chain %v (invocation first) although %d links do not cover the command before them", names, bad)
				}
				if dir == "complete" && e != nil && bad == 0 {
					ctx.Failf(cs, "denied-attenuating/white-space-variant", "denied the decoded chain %v (invocation first) although every link covers the command before it: %v", names, e)
				}
			}
		},
	}
}
