package props

import (
	"time"

	"bytes"
	"encoding/json"
	"fmt"
	verifclock "github.com/ucan-wg/go-ucan/verifshim/clock"
	"io"
	"os"
	"os/exec"
	"reflect"
	"strings"
	"sync"
	"sync/atomic"

	"github.com/ipfs/go-cid"
	"github.com/libp2p/go-libp2p/core/crypto"

	"github.com/ucan-wg/go-ucan/did"
	"github.com/ucan-wg/go-ucan/pkg/args"
	"github.com/ucan-wg/go-ucan/pkg/command"
	"github.com/ucan-wg/go-ucan/pkg/container"
	"github.com/ucan-wg/go-ucan/pkg/meta"
	"github.com/ucan-wg/go-ucan/pkg/policy"
	"github.com/ucan-wg/go-ucan/pkg/policy/literal"
	"github.com/ucan-wg/go-ucan/pkg/policy/selector"
	"github.com/ucan-wg/go-ucan/token"
	"github.com/ucan-wg/go-ucan/token/delegation"
	"github.com/ucan-wg/go-ucan/token/invocation"
	"github.com/ucan-wg/go-ucan/verifshim/sched"

	"verifharness/c20ops"
	"verifharness/engine"
	"verifharness/fixtures"
	"verifharness/refmodel"
)

// E6 call lists: the calls of each property whose answers must not depend on what else the
// process is doing. Every call renders its result canonically; where a reference model exists
// the expected rendering comes from it, otherwise from the call run alone.

// upper-triangle-free selection: all ordered pairs (i, j), i != j, plus (i, i).
func allPairs(_ string, n int) [][2]int {
	var r [][2]int
	for i := 0; i < n; i++ {
		for j := 0; j < n; j++ {
			r = append(r, [2]int{i, j})
		}
	}
	return r
}

func c15ConcSub() *engine.Sub {
	return engine.ConcurrentSubSweep("concurrent-calls", "Covers / Parse / Join from two logical threads",
		func(tier string) []engine.Call {
			var cs []engine.Call
			cmds := []string{"/", "/a", "/a/b", "/a/b/c", "/ab", "/ab/c", "/b", "/a/c", "/σ", "/ς", "/" + strings.Repeat("x", 40), "/" + strings.Repeat("x", 40) + "/y"}
			for _, x := range cmds {
				for _, y := range cmds {
					x, y := x, y
					cs = append(cs, engine.Call{Name: fmt.Sprintf("Covers(%.8s,%.8s)#%d", x, y, len(cs)), Want: fmt.Sprint(refmodel.CmdCovers(x, y)),
						Run: func() string { return fmt.Sprint(command.Command(x).Covers(command.Command(y))) }})
				}
			}
			for _, s := range []string{"/a/b", "/A", "a", "/a/", "/é/É", "/" + strings.Repeat("long", 30)} {
				s := s
				cs = append(cs, engine.Call{Name: "Parse(" + s[:min(len(s), 8)] + ")", Want: fmt.Sprint(refmodel.CmdValid(s)),
					Run: func() string { _, err := command.Parse(s); return fmt.Sprint(err == nil) }})
			}
			for _, segs := range c15LongSegLists()[:8] {
				segs := segs
				cs = append(cs, engine.Call{Name: fmt.Sprintf("Join(%d segs, %d bytes)", len(segs), len(strings.Join(segs, ""))),
					Run: func() string { return string(command.Command("/r").Join(segs...)) }})
			}
			return cs
		},
		func(tier string, n int) [][2]int {
			// every call against a spread of partners (all pairs would be 158^2)
			var r [][2]int
			step := 7
			if tier == "thorough" {
				step = 2
			}
			for i := 0; i < n; i++ {
				for j := i % step; j < n; j += step {
					r = append(r, [2]int{i, j})
				}
			}
			return r
		},
		func(tier string, n int) []int {
			step := 5
			if tier == "thorough" {
				step = 1
			}
			var r []int
			for i := 0; i < n; i += step {
				r = append(r, i)
			}
			return r
		}, 2, 3)
}

func c13ConcSub() *engine.Sub {
	return engine.ConcurrentSub("concurrent-like-matching", "like policies built and matched from two logical threads, on shared and on private Policy values",
		func(tier string) []engine.Call {
			pats := []string{"a*", "*b", "a*b", `a\*b`, "*", "ab", `\\*`, "*" + strings.Repeat("z", 20), strings.Repeat("q", 33) + "*"}
			strs := []string{"ab", "a*b", "b", strings.Repeat("z", 40), strings.Repeat("q", 40), "a" + strings.Repeat("y", 40) + "b", `\x`}
			var cs []engine.Call
			shared := make([]policy.Policy, len(pats))
			for i, p := range pats {
				shared[i] = policy.MustConstruct(policy.Like(".", p))
			}
			for i, p := range pats {
				toks, _ := refmodel.GlobParse(p)
				for _, s := range strs {
					i, p, s := i, p, s
					want := fmt.Sprint(refmodel.GlobMatch(toks, s))
					cs = append(cs, engine.Call{Name: fmt.Sprintf("shared[%.6s].Match(%.6s)#%d", p, s, len(cs)), Want: want,
						Run: func() string { ok, _ := shared[i].Match(literal.String(s)); return fmt.Sprint(ok) }})
					cs = append(cs, engine.Call{Name: fmt.Sprintf("Like(%.6s)+Match(%.6s)#%d", p, s, len(cs)), Want: want,
						Run: func() string {
							pol, err := policy.Construct(policy.Like(".", p))
							if err != nil {
								return "error:" + err.Error()
							}
							ok, _ := pol.Match(literal.String(s))
							return fmt.Sprint(ok)
						}})
				}
			}
			return cs
		},
		func(tier string, n int) [][2]int {
			// calls come in blocks of 14 per pattern (7 strings x {shared policy, private policy}): every pair
			// inside a block (the same Policy value on two different strings), plus a stride across blocks
			var r [][2]int
			step := 9
			if tier == "thorough" {
				step = 3
			}
			for i := 0; i < n; i++ {
				for j := 0; j < n; j++ {
					if i/14 == j/14 || j%step == i%step {
						r = append(r, [2]int{i, j})
					}
				}
			}
			return r
		}, 2, 3)
}

func c12ConcSub() *engine.Sub {
	return engine.ConcurrentSub("concurrent-select", "selector.Parse and Select from two logical threads, on shared and on freshly parsed selectors",
		func(tier string) []engine.Call {
			texts := []string{".", ".a", ".a.b", ".a[0]", ".a[-1]", ".[1:]", ".[-2:]", ".[:-1]", ".a[1:2]", ".[]", ".a?", ".a[5]?", `.["a"]`, ".a[0:99]"}
			data := []namedNode{
				{"str-multibyte", nStr("héllo→日本語-wörld")}, {"str-long", nStr(strings.Repeat("abcdé", 12))}, {"list6", nList(nInt(1), nInt(2), nInt(3), nInt(4), nInt(5), nInt(6))},
				{"bytes", nBytes([]byte{9, 8, 7, 6, 5})}, {"{a:[1,2,3]}", nMap(kv{"a", nList(nInt(1), nInt(2), nInt(3))})}, {`{a:"héllo"}`, nMap(kv{"a", nStr("héllo")})},
				{"{a:{b:2}}", nMap(kv{"a", nMap(kv{"b", nInt(2)})})}, {"{a:1,b:2}", nMap(kv{"a", nInt(1)}, kv{"b", nInt(2)})},
			}
			var cs []engine.Call
			shared := map[string]selector.Selector{}
			for _, t := range texts {
				s, err := selector.Parse(t)
				if err != nil {
					panic(err)
				}
				shared[t] = s
			}
			for _, t := range texts {
				for _, d := range data {
					t, d := t, d
					out := func(sel selector.Selector) string {
						n, err := sel.Select(d.Node)
						switch {
						case err != nil:
							return "error"
						case n == nil:
							return "no-value"
						}
						return cborHex(n)
					}
					cs = append(cs, engine.Call{Name: fmt.Sprintf("shared(%s).Select(%s)", t, d.Name), Run: func() string { return out(shared[t]) }})
					cs = append(cs, engine.Call{Name: fmt.Sprintf("Parse(%s).Select(%s)", t, d.Name), Run: func() string {
						s, err := selector.Parse(t)
						if err != nil {
							return "parse-error"
						}
						return s.String() + "=>" + out(s)
					}})
				}
			}
			return cs
		},
		func(tier string, n int) [][2]int {
			var r [][2]int
			step := 13
			if tier == "thorough" {
				step = 4
			}
			for i := 0; i < n; i++ {
				for j := i % step; j < n; j += step {
					r = append(r, [2]int{i, j})
				}
			}
			return r
		}, 2, 3)
}

func c11ConcSub() *engine.Sub {
	return engine.ConcurrentSub("concurrent-policy-matching", "Policy.Match / PartialMatch from two logical threads: the same Policy value on different data, and policies decoded from IPLD inside the call",
		func(tier string) []engine.Call {
			pols := map[string]policy.Policy{
				"eq":      policy.MustConstruct(policy.Equal(".a", literal.Int(1))),
				"and":     policy.MustConstruct(policy.And(policy.Like(".s", "a*"), policy.Equal(".a", literal.Int(1)), policy.GreaterThan(".b?", literal.Int(0)))),
				"or-like": policy.MustConstruct(policy.Or(policy.Like(".s", "*"+strings.Repeat("z", 20)), policy.Like(".s", "b*"))),
				"all":     policy.MustConstruct(policy.All(".l", policy.GreaterThan(".", literal.Int(0)))),
				"any-neg": policy.MustConstruct(policy.Any(".l[-2:]", policy.Equal(".", literal.Int(3)))),
				"not":     policy.MustConstruct(policy.Not(policy.Equal(".a", literal.Int(2)))),
				"slice":   policy.MustConstruct(policy.Equal(".s[1:3]", literal.String("bc"))),
			}
			datas := []namedNode{
				{"d1", nMap(kv{"a", nInt(1)}, kv{"s", nStr("abcd")}, kv{"l", nList(nInt(1), nInt(2), nInt(3))})},
				{"d2", nMap(kv{"a", nInt(2)}, kv{"s", nStr("b" + strings.Repeat("z", 40))}, kv{"l", nList(nInt(3), nInt(0), nInt(9), nInt(9), nInt(9))}, kv{"b", nInt(5)})},
				{"d3", nMap(kv{"s", nStr(strings.Repeat("z", 40))}, kv{"l", nList()})},
				{"d4", nMap(kv{"a", nInt(1)}, kv{"s", nStr("xbcd")}, kv{"l", nList(nInt(3))})},
			}
			var names []string
			for k := range pols {
				names = append(names, k)
			}
			sortStrings(names)
			var cs []engine.Call
			for _, pn := range names {
				for _, d := range datas {
					p, d, pn := pols[pn], d, pn
					cs = append(cs, engine.Call{Name: pn + ".Match(" + d.Name + ")", Run: func() string {
						ok, leaf := p.Match(d.Node)
						pm, _ := p.PartialMatch(d.Node)
						return fmt.Sprint(ok, leaf != nil, pm)
					}})
					cs = append(cs, engine.Call{Name: "FromIPLD(" + pn + ").Match(" + d.Name + ")", Run: func() string {
						n, err := p.ToIPLD()
						if err != nil {
							return "toipld-error"
						}
						q, err := policy.FromIPLD(n)
						if err != nil {
							return "fromipld-error"
						}
						ok, _ := q.Match(d.Node)
						return fmt.Sprint(ok, q.String() == p.String())
					}})
				}
			}
			return cs
		}, allPairs, 2, 3)
}

func c16ConcSub() *engine.Sub {
	return engine.ConcurrentSubSweep("concurrent-did-conversions", "did.Parse / PubKey / ToPubKey / FromPubKey from two logical threads",
		func(tier string) []engine.Call {
			var cs []engine.Call
			for _, k := range fixtures.All() {
				if k.Err != nil {
					continue
				}
				k := k
				s := k.DID.String()
				cs = append(cs, engine.Call{Name: fmt.Sprintf("Parse+PubKey(%s#%d)", k.Alg, k.Idx), Want: "ok:" + s, Run: func() string {
					d, err := did.Parse(s)
					if err != nil {
						return "parse-error"
					}
					pk, err := d.PubKey()
					if err != nil {
						return "pubkey-error"
					}
					if !pk.Equals(k.Pub) {
						return "other-key"
					}
					return "ok:" + d.String()
				}})
				cs = append(cs, engine.Call{Name: fmt.Sprintf("FromPubKey+ToPubKey(%s#%d)", k.Alg, k.Idx), Want: "ok:" + s, Run: func() string {
					d, err := did.FromPubKey(k.Pub)
					if err != nil {
						return "frompubkey-error"
					}
					pk, err := did.ToPubKey(d.String())
					if err != nil || !pk.Equals(k.Pub) {
						return "topubkey-differs"
					}
					return "ok:" + d.String()
				}})
			}
			// 300 further principals (synthetic Ed25519 keys): enough distinct identifiers to churn any table
			for i := 0; i < 300; i++ {
				raw := make([]byte, 32)
				for j := range raw {
					raw[j] = byte(i*131 + j*7 + i>>3)
				}
				pk, err := crypto.UnmarshalEd25519PublicKey(raw)
				if err != nil {
					panic(err)
				}
				s := didKeyString(uvarint(0xed), raw)
				cs = append(cs, engine.Call{Name: fmt.Sprintf("Parse+PubKey(synthetic#%d)", i), Want: "ok:" + s, Run: func() string {
					d, err := did.Parse(s)
					if err != nil {
						return "parse-error"
					}
					k2, err := d.PubKey()
					if err != nil {
						return "pubkey-error"
					}
					if !k2.Equals(pk) {
						return "other-key"
					}
					return "ok:" + d.String()
				}})
			}
			for _, bad := range []string{"did:key:z6Mk", "did:web:x", "did:key:zQ3shokFTS3brHcDQrn82RUDfCZESWL1ZdCEJwekUDPQiYBme"} {
				bad := bad
				cs = append(cs, engine.Call{Name: "Parse(" + bad[:min(len(bad), 14)] + ")", Run: func() string {
					d, err := did.Parse(bad)
					if err != nil {
						return "rejected"
					}
					_, err = d.PubKey()
					return fmt.Sprint("parsed, pubkey err=", err != nil)
				}})
			}
			return cs
		},
		func(tier string, n int) [][2]int {
			// all pairs among the fixture calls; the synthetic principals only meet the SWEEP
			var r [][2]int
			for i := 0; i < n; i++ {
				for j := 0; j < n; j++ {
					if (i < 32 || i >= 332) && (j < 32 || j >= 332) {
						r = append(r, [2]int{i, j})
					}
				}
			}
			return r
		},
		func(tier string, n int) []int {
			step := 25
			if tier == "thorough" {
				step = 4
			}
			var r []int
			for i := 0; i < n; i += step {
				r = append(r, i)
			}
			return r
		}, 2, 3)
}

// tokensForConc returns sealed artefacts of several kinds / algorithms.
func tokensForConc() []*sealedTok {
	var r []*sealedTok
	for _, n := range []string{"dlg", "inv", "dlg2", "inv2", "dlg3"} {
		r = append(r, ioToken(n))
	}
	return r
}

func c06ConcSub() *engine.Sub {
	return engine.ConcurrentSub("concurrent-decoding", "genuine and tampered tokens decoded, and tokens sealed, from two logical threads",
		func(tier string) []engine.Call {
			var cs []engine.Call
			for _, t := range tokensForConc() {
				t := t
				want := viewString(t.Tok, nil)
				cs = append(cs, engine.Call{Name: "FromSealed(" + t.Name + ")", Want: "ok:" + want, Run: func() string {
					tk, _, err := token.FromSealed(t.Sealed)
					if err != nil {
						return "error:" + err.Error()
					}
					return "ok:" + viewString(tk, nil)
				}})
				cs = append(cs, engine.Call{Name: "FromDagJson(" + t.Name + ")", Want: "ok:" + want, Run: func() string {
					tk, err := token.FromDagJson(t.JSON)
					if err != nil {
						return "error:" + err.Error()
					}
					return "ok:" + viewString(tk, nil)
				}})
				// the same envelope with one payload byte changed (inside the nonce), old signature kept
				bad := append([]byte{}, t.Sealed...)
				if i := bytes.Index(bad, []byte("0123456789ab")); i >= 0 {
					bad[i+3] ^= 1
				} else {
					bad[len(bad)-5] ^= 1
				}
				cs = append(cs, engine.Call{Name: "FromSealed(tampered " + t.Name + ")", Want: "rejected", Run: func() string {
					if _, _, err := token.FromSealed(bad); err != nil {
						return "rejected"
					}
					return "ACCEPTED"
				}})
				// a token being sealed while the other thread decodes (whatever sealing does - encode, sign, read back -
				// a decode that happens meanwhile is judged like any other)
				cs = append(cs, engine.Call{Name: "ToSealed(" + t.Name + ")", Want: "sealed", Run: func() string {
					if _, _, err := t.Tok.(sealer).ToSealed(t.Key.Priv); err != nil {
						return "error:" + err.Error()
					}
					return "sealed"
				}})
				cs = append(cs, engine.Call{Name: "ToDagJson(" + t.Name + ")", Want: "sealed", Run: func() string {
					if _, err := t.Tok.(sealer).ToDagJson(t.Key.Priv); err != nil {
						return "error:" + err.Error()
					}
					return "sealed"
				}})
			}
			return cs
		}, allPairs, 2, 3)
}

// fewProbes: SWEEP probes for call lists whose calls are expensive and execute many sync operations.
func fewProbes(tier string, n int) []int {
	k := 4
	if tier == "thorough" {
		k = 24
	}
	var r []int
	for i := 0; i < k && i*(n/k+1) < n; i++ {
		r = append(r, i*(n/k+1))
	}
	return r
}

func c17ConcSub() *engine.Sub {
	return engine.ConcurrentSubSweep("concurrent-container-io", "containers written and read from two logical threads",
		func(tier string) []engine.Call {
			var cs []engine.Call
			sets := [][]string{{"dlg"}, {"dlg", "inv"}, {"dlg2", "inv2", "dlg3"}, {}}
			for _, set := range sets {
				for _, f := range []string{"car", "cbor", "car64", "cbor64"} {
					set, f := set, f
					w := container.NewWriter()
					for _, n := range set {
						t := ioToken(n)
						w.AddSealed(t.Cid, t.Sealed)
					}
					data, err := writeContainer(w, f, false)
					if err != nil {
						panic(err)
					}
					want := expectedSetView(set)
					for _, stream := range []bool{false, true} {
						stream := stream
						cs = append(cs, engine.Call{Name: fmt.Sprintf("read %s%v stream=%v", f, set, stream), Want: want, Run: func() string {
							r, err := readContainer(data, f, stream)
							if err != nil {
								return "error:" + err.Error()
							}
							return containerView(r)
						}})
					}
					cs = append(cs, engine.Call{Name: fmt.Sprintf("write+read %s%v", f, set), Want: want, Run: func() string {
						w := container.NewWriter()
						for _, n := range set {
							t := ioToken(n)
							w.AddSealed(t.Cid, t.Sealed)
						}
						b, err := writeContainer(w, f, true)
						if err != nil {
							return "write-error:" + err.Error()
						}
						r, err := readContainer(b, f, false)
						if err != nil {
							return "error:" + err.Error()
						}
						return containerView(r)
					}})
				}
			}
			return cs
		},
		func(tier string, n int) [][2]int {
			var r [][2]int
			step := 5
			if tier == "thorough" {
				step = 2
			}
			for i := 0; i < n; i++ {
				for j := i % step; j < n; j += step {
					r = append(r, [2]int{i, j})
				}
			}
			return r
		}, fewProbes, 2, 3)
}

func c08ConcSub() *engine.Sub {
	return engine.ConcurrentSub("concurrent-sealing", "tokens sealed (buffered and streaming) and unsealed from two logical threads: bytes, CIDs and their agreement",
		func(tier string) []engine.Call {
			var cs []engine.Call
			for _, n := range []string{"dlg", "inv", "dlgbig", "dlg3"} {
				t := ioToken(n)
				if t.Key.Alg != "ed25519" {
					continue
				}
				want := "ok:" + t.Cid.String()
				cs = append(cs, engine.Call{Name: "ToSealed(" + n + ")", Want: want, Run: func() string {
					b, c, err := t.Tok.(sealer).ToSealed(t.Key.Priv)
					if err != nil {
						return "error:" + err.Error()
					}
					if !bytes.Equal(b, t.Sealed) || refCID(b) != c {
						return "bytes-or-cid-differ:" + c.String()
					}
					return "ok:" + c.String()
				}})
				cs = append(cs, engine.Call{Name: "ToSealedWriter(" + n + ")", Want: want, Run: func() string {
					var buf bytes.Buffer
					c, err := t.Tok.(writerSealer).ToSealedWriter(&buf, t.Key.Priv)
					if err != nil {
						return "error:" + err.Error()
					}
					if !bytes.Equal(buf.Bytes(), t.Sealed) || refCID(buf.Bytes()) != c {
						return "bytes-or-cid-differ:" + c.String()
					}
					return "ok:" + c.String()
				}})
				cs = append(cs, engine.Call{Name: "FromSealedReader(" + n + ")", Want: want, Run: func() string {
					_, c, err := token.FromSealedReader(&chunkReader{data: t.Sealed, chunk: 64})
					if err != nil {
						return "error:" + err.Error()
					}
					return "ok:" + c.String()
				}})
				cs = append(cs, engine.Call{Name: "ToSealedWriter(" + n + ", failing sink)", Want: "error", Run: func() string {
					_, err := t.Tok.(writerSealer).ToSealedWriter(&engine.PosWriter{FailCall: 1}, t.Key.Priv)
					if err != nil {
						return "error"
					}
					return "no-error"
				}})
			}
			return cs
		}, allPairs, 2, 3)
}

func c19ConcSub() *engine.Sub {
	return engine.ConcurrentSub("concurrent-encrypted-metadata", "encrypted metadata added and read from two logical threads: round trip, refusal with another key, and freshness of every ciphertext",
		func(tier string) []engine.Call {
			k1, k2 := bytes.Repeat([]byte{0x11}, 32), bytes.Repeat([]byte{0x22}, 32)
			m := meta.NewMeta()
			if err := m.AddEncrypted("s", "shared-secret-plaintext-0123456789", k1); err != nil {
				panic(err)
			}
			if err := m.AddEncrypted("b", []byte("other-secret-plaintext-9876543210"), k2); err != nil {
				panic(err)
			}
			seen := map[string]bool{}
			var seenMu sync.Mutex // (the harness' own bookkeeping; the real sync package)
			var cs []engine.Call
			for _, plain := range []string{"shared-secret-plaintext-0123456789", "x"} {
				for ki, key := range [][]byte{k1, k2} {
					plain, key, ki := plain, key, ki
					cs = append(cs, engine.Call{Name: fmt.Sprintf("AddEncrypted+Get(%d bytes, k%d)", len(plain), ki+1), Want: "ok", Run: func() string {
						mm := meta.NewMeta()
						if err := mm.AddEncrypted("k", plain, key); err != nil {
							return "add-error:" + err.Error()
						}
						raw, _ := mm.GetBytes("k")
						seenMu.Lock()
						dup := seen[string(raw)]
						seen[string(raw)] = true
						seenMu.Unlock()
						if dup {
							return "CIPHERTEXT-REPEATED"
						}
						got, err := mm.GetEncryptedString("k", key)
						if err != nil || got != plain {
							return fmt.Sprintf("roundtrip-differs:%q,%v", got, err)
						}
						other := k1
						if ki == 0 {
							other = k2
						}
						if _, err := mm.GetEncryptedString("k", other); err == nil {
							return "READABLE-WITH-OTHER-KEY"
						}
						return "ok"
					}})
				}
			}
			cs = append(cs, engine.Call{Name: "shared.Get(s,k1)", Want: "shared-secret-plaintext-0123456789", Run: func() string {
				v, err := m.GetEncryptedString("s", k1)
				if err != nil {
					return "error"
				}
				return v
			}})
			cs = append(cs, engine.Call{Name: "shared.Get(s,k2)", Want: "refused", Run: func() string {
				if v, err := m.GetEncryptedString("s", k2); err == nil {
					return "READ:" + v
				}
				return "refused"
			}})
			cs = append(cs, engine.Call{Name: "shared.Get(b,k2)", Want: "other-secret-plaintext-9876543210", Run: func() string {
				v, err := m.GetEncryptedBytes("b", k2)
				if err != nil {
					return "error"
				}
				return string(v)
			}})
			cs = append(cs, engine.Call{Name: "shared.Get(b,k1)", Want: "refused", Run: func() string {
				if v, err := m.GetEncryptedBytes("b", k1); err == nil {
					return "READ:" + string(v)
				}
				return "refused"
			}})
			return cs
		}, allPairs, 2, 3)
}

// chainConcCalls: authorization decisions over different chains and arguments.
func c03ConcSub() *engine.Sub {
	return engine.ConcurrentSub("concurrent-authorization", "ExecutionAllowed / ExecutionAllowedWithArgsHook on different invocations (allowed and denied for each kind of reason) from two logical threads",
		func(tier string) []engine.Call {
			chainInit()
			polX := policy.MustConstruct(policy.Equal(".x", literal.Int(1)))
			polY := policy.MustConstruct(policy.Like(".y", "a*"), policy.Any(".l[-2:]", policy.GreaterThan(".", literal.Int(1))))
			type chain struct {
				name string
				dl   []*delegation.Token // leaf first
				cmd  string
				args map[string]any
				iss  int
			}
			polL := policy.MustConstruct(policy.Any(".l[-2:]", policy.GreaterThan(".", literal.Int(1))))
			polYonly := policy.MustConstruct(policy.Like(".y", "a*"))
			_ = polY
			rootX, rootOpen := mustDlg(0, 1, 0, "/a", polX), mustDlg(0, 1, 0, "/a", nil)
			leafY, leafL, leafOpen := mustDlg(1, 2, 0, "/a/b", polYonly), mustDlg(1, 2, 0, "/a/b", polL), mustDlg(1, 2, 0, "/a/b", nil)
			leafWide := mustDlg(1, 2, 0, "/", nil)
			foreign := mustDlg(2, 1, 2, "/a", nil)
			argSets := []struct {
				name string
				a    map[string]any
			}{
				{"ok", map[string]any{"x": 1, "y": "ab", "l": []int{1, 2, 3}}},
				{"x-violated", map[string]any{"x": 2, "y": "ab", "l": []int{1, 2, 3}}},
				{"y-violated", map[string]any{"x": 1, "y": "zz", "l": []int{1, 2, 3}}},
				{"l-violated", map[string]any{"x": 1, "y": "ab", "l": []int{5, 5, 5, 5, 0, 0}}},
			}
			okArgs := argSets[0].a
			var chains []chain
			for _, cc := range []struct {
				name string
				dl   []*delegation.Token
				cmd  string
				iss  int
			}{
				{"[leafY,rootX]", []*delegation.Token{leafY, rootX}, "/a/b", 2}, {"[leafL,rootX]", []*delegation.Token{leafL, rootX}, "/a/b", 2},
				{"[leafOpen,rootOpen]", []*delegation.Token{leafOpen, rootOpen}, "/a/b", 2}, {"[leafY,rootOpen]", []*delegation.Token{leafY, rootOpen}, "/a/b", 2},
				{"[rootX]", []*delegation.Token{rootX}, "/a", 1}, {"[rootOpen]", []*delegation.Token{rootOpen}, "/a", 1},
			} {
				for _, as := range argSets {
					chains = append(chains, chain{cc.name + "/" + as.name, cc.dl, cc.cmd, as.a, cc.iss})
				}
			}
			chains = append(chains,
				chain{"denied-command", []*delegation.Token{leafY, rootX}, "/a/c", okArgs, 2},
				chain{"denied-widening", []*delegation.Token{leafWide, rootX}, "/a", okArgs, 2},
				chain{"denied-principal", []*delegation.Token{foreign, rootX}, "/a", okArgs, 1},
				chain{"denied-no-proof", nil, "/a", okArgs, 1},
			)
			var cs []engine.Call
			for _, ch := range chains {
				ch := ch
				ld := &sliceLoader{}
				var prf []cid.Cid
				for i, d := range ch.dl {
					ld.cids = append(ld.cids, cidPool[50+i])
					ld.toks = append(ld.toks, d)
					prf = append(prf, cidPool[50+i])
				}
				opts := []invocation.Option{invocation.WithNonce(fixedNonce), invocation.WithoutInvokedAt()}
				for _, k := range []string{"x", "y", "l"} {
					opts = append(opts, invocation.WithArgument(k, ch.args[k]))
				}
				inv, err := invocation.New(prin(ch.iss), prin(0), commandOf(ch.cmd), prf, opts...)
				if err != nil {
					panic(err)
				}
				cs = append(cs, engine.Call{Name: ch.name, Run: func() string { return errLabel(inv.ExecutionAllowed(ld)) }})
				if !strings.HasSuffix(ch.name, "/ok") && !strings.HasSuffix(ch.name, "/y-violated") {
					continue
				}
				cs = append(cs, engine.Call{Name: ch.name + "/hook", Run: func() string { return errLabel(inv.ExecutionAllowedWithArgsHook(ld, identityHook)) }})
				cs = append(cs, engine.Call{Name: ch.name + "/fresh-token", Run: func() string {
					inv2, err := invocation.New(prin(ch.iss), prin(0), commandOf(ch.cmd), prf, opts...)
					if err != nil {
						return "ctor-error"
					}
					return errLabel(inv2.ExecutionAllowed(ld))
				}})
			}
			return cs
		}, allPairs, 2, 3)
}

// ---- free-running race-detector pass over the E6 call lists ----

type concRaceCase struct {
	Only string `json:"only,omitempty"` // replay: a single sub-test name
}

// concRaceSub runs `go test -race ./racepass -run TestConcCalls` for one property: the same calls the
// cooperative scheduler interleaves, free-running, two goroutines per sub-test (a call against a
// sweep over all calls, a call against itself, sweep against sweep). A sub-test marked failed by the
// detector - or a test process killed by the runtime ("concurrent map writes") - is a violation.
func concRaceSub(prop string) *engine.Sub {
	return &engine.Sub{
		Name:    "race-detector-pass",
		Serial:  true,
		Replays: 1,
		Rule:    "free-running pass for what the cooperative scheduler cannot see (accesses without any synchronization): after a sequential warm-up of all calls (twice), every 1/40th call of the concurrent sub-checks' call lists runs against a concurrent sweep over all calls and against itself, and two sweeps run against each other, each in two goroutines released by a barrier, as sub-tests of `go test -race ./racepass` built from /repo's working tree (same build overlay; in race builds the shim's Pool is the real sync.Pool and free-running shim operations are exactly the real primitives, so the detector sees the real happens-before edges). The detector's verdict is happens-before based; non-trivial = all",
		Bound: func(string) string {
			return "<= 40 calls x {vs sweep, vs itself} + sweep vs sweep, per concurrent sub-check of the property"
		},
		Gen: func(tier string, emit func(any) bool) {
			emit(&concRaceCase{})
		},
		NewCase: func() any { return &concRaceCase{} },
		Run: func(ctx *engine.Ctx, c any) {
			cs := c.(*concRaceCase)
			args := []string{"test", "-vet=off", "-tags", "verif", "-race", "-count=1", "-json", "-run", "TestConcCalls"}
			if ov := os.Getenv("VERIF_OVERLAY"); ov != "" {
				args = append(args, "-overlay", ov)
			}
			args = append(args, "./racepass")
			cmd := exec.Command("go", args...)
			cmd.Dir = harnessDir()
			cmd.Env = append(os.Environ(), "GOFLAGS=-mod=mod", "GOPROXY=off", "GOSUMDB=off", "GOTOOLCHAIN=local", "VERIF_RACE_PROP="+prop)
			if cs.Only != "" {
				cmd.Env = append(cmd.Env, "VERIF_RACE_ONLY="+cs.Only)
			}
			var out, errb bytes.Buffer
			cmd.Stdout, cmd.Stderr = &out, &errb
			runErr := cmd.Run()
			type ev struct{ Action, Test, Output string }
			ran, failed := map[string]bool{}, map[string]bool{}
			raceOut := map[string]string{}
			var all strings.Builder
			parsed := 0
			for _, line := range strings.Split(out.String(), "\n") {
				var e ev
				if json.Unmarshal([]byte(line), &e) != nil {
					continue
				}
				parsed++
				if e.Action == "output" && all.Len() < 1<<20 {
					all.WriteString(e.Output)
				}
				if e.Test == "" {
					continue
				}
				switch e.Action {
				case "run":
					ran[e.Test] = true
				case "fail":
					failed[e.Test] = true
				case "output":
					if len(raceOut[e.Test]) < 1<<16 {
						raceOut[e.Test] += e.Output
					}
				}
			}
			ctx.States(1)
			if strings.Contains(all.String(), "fatal error:") || strings.Contains(errb.String(), "fatal error:") {
				// the runtime killed the test process: concurrent map access, memory corruption
				msg := all.String() + errb.String()
				if i := strings.Index(msg, "fatal error:"); i >= 0 {
					msg = msg[i:]
				}
				ctx.Outcome("process-killed")
				ctx.Failf(cs, "process-dies-under-concurrency", "the free-running concurrent pass is killed by the Go runtime: %.300s", strings.ReplaceAll(msg, "\n", " | "))
				return
			}
			if parsed == 0 || len(ran) == 0 {
				panic(fmt.Sprintf("harness: go test -race produced no results (err=%v): %.2000s", runErr, errb.String()+out.String()))
			}
			for t := range ran {
				if !strings.Contains(t, "/") {
					continue
				}
				ctx.Eval(1)
				ctx.Trans(1)
				ctx.Nontrivial(1)
				if !failed[t] {
					ctx.Outcome("no-race")
					continue
				}
				ctx.Outcome("race-reported")
				name := strings.TrimPrefix(t, "TestConcCalls/")
				if raceLocations(raceOut[t]) == "unlocated" {
					// neither access has a go-ucan frame on its stack: the harness' own bookkeeping races
					panic(fmt.Sprintf("harness: data race outside go-ucan in sub-test %s: %.1500s", name, raceOut[t]))
				}
				ctx.Failf(&concRaceCase{Only: name}, "data-race/"+raceLocations(raceOut[t]), "the race detector reports a data race while running %s between %s", name, raceLocations(raceOut[t]))
			}
		},
	}
}

// manySelectors parses n selectors never seen before in this process (enough distinct inputs to fill,
// rotate and evict whatever table a parser may keep), then parses again the n it introduced on its
// previous invocation (entries that have aged by one generation), and reports how many of the 2n came
// back printing as they were written.
var selectorBatch [4]atomic.Int64

func manySelectors(slot, n int) string {
	base := selectorBatch[slot].Add(int64(n)) - int64(n)
	ok := 0
	one := func(i int64) {
		t := fmt.Sprintf(".k%d_%07d[%d]", slot, i, i%7)
		s, err := selector.Parse(t)
		if err == nil && s.String() == t {
			ok++
		}
	}
	for i := base; i < base+int64(n); i++ {
		one(i)
	}
	for i := base - int64(n); i < base; i++ {
		if i >= 0 {
			one(i)
		} else {
			ok++
		}
	}
	return fmt.Sprintf("%d/%d", ok, 2*n)
}

func c09ConcSub() *engine.Sub {
	return engine.ConcurrentSub("concurrent-untrusted-input", "decoders given valid and hostile input from two logical threads: each returns what it returns alone, nothing panics or deadlocks",
		func(tier string) []engine.Call {
			var cs []engine.Call
			guard := func(f func() string) func() string {
				return func() (r string) {
					defer func() {
						if p := recover(); p != nil {
							r = fmt.Sprintf("PANIC: %v", p)
						}
					}()
					return f()
				}
			}
			for _, t := range tokensForConc() {
				t := t
				cs = append(cs, engine.Call{Name: "FromSealed(" + t.Name + ")", Want: "ok", Run: guard(func() string {
					if _, _, err := token.FromSealed(t.Sealed); err != nil {
						return "error"
					}
					return "ok"
				})})
				for _, cut := range []int{1, len(t.Sealed) / 2, len(t.Sealed) - 1} {
					cut := cut
					cs = append(cs, engine.Call{Name: fmt.Sprintf("FromSealed(%s[:%d])", t.Name, cut), Want: "error", Run: guard(func() string {
						if _, _, err := token.FromSealed(t.Sealed[:cut]); err != nil {
							return "error"
						}
						return "ok"
					})})
				}
				// a signature of the right shape that does not verify, and an empty one
				p := splitEnvelope(t.Sealed)
				for _, sig := range [][]byte{bytes.Repeat([]byte{0x30}, len(p.Sig)), {}, reverse(append([]byte{}, p.Sig...))} {
					bad := assembleWithSig(sig, sigPayloadNode(p.Header, p.Tag, nMap(p.Payload...)))
					cs = append(cs, engine.Call{Name: fmt.Sprintf("FromSealed(%s, %d-byte bad signature)", t.Name, len(sig)), Want: "error", Run: guard(func() string {
						if _, _, err := token.FromSealed(bad); err != nil {
							return "error"
						}
						return "ok"
					})})
				}
			}
			for _, js := range []string{`[["==", ".a", 1]]`, `[["==", 42, 1]]`, `[["like", ".a", "a\\"]]`, `[["and", [["not", ["any", ".l", [">", ".", 1]]]]]]`, `[["nope"]]`, `{`} {
				js := js
				cs = append(cs, engine.Call{Name: "policy.FromDagJson(" + js + ")", Run: guard(func() string {
					p, err := policy.FromDagJson(js)
					if err != nil {
						return "error"
					}
					ok, _ := p.Match(nMap(kv{"a", nInt(1)}, kv{"l", nList(nInt(2))}))
					return fmt.Sprint("ok:", ok)
				})})
			}
			for _, t := range []string{".a.b[0]", ".a[", `.["x`, ".[1:2]?", "..", ".a?.b?[-1]"} {
				t := t
				cs = append(cs, engine.Call{Name: "selector.Parse(" + t + ")", Run: guard(func() string {
					s, err := selector.Parse(t)
					if err != nil {
						return "error"
					}
					n, err := s.Select(nMap(kv{"a", nMap(kv{"b", nList(nInt(7))})}))
					return fmt.Sprint(s.String(), n != nil, err != nil)
				})})
			}
			// batches small and large relative to any plausible table size, so that the previous batch is
			// sometimes still current, sometimes aged by one generation, sometimes gone
			for slot, n := range []int{40, 300, 700, 1100} {
				slot, n := slot, n
				cs = append(cs, engine.Call{Name: fmt.Sprintf("selector.Parse(%d new + the previous %d)", n, n), Want: fmt.Sprintf("%d/%d", 2*n, 2*n), Run: guard(func() string { return manySelectors(slot, n) })})
			}
			for _, d := range []string{"did:key:z6MkhaXgBZDvotDkL5257faiztiGiC2QtKLGpbnnEGta2doK", "did:key:z", "did:key:zQ3shokFTS3brHcDQrn82RUDfCZESWL1ZdCEJwekUDPQiYBme", "did:key:z6Mk"} {
				d := d
				cs = append(cs, engine.Call{Name: "did.Parse+PubKey(" + d[:min(len(d), 16)] + ")", Run: guard(func() string {
					x, err := did.Parse(d)
					if err != nil {
						return "error"
					}
					_, err = x.PubKey()
					return fmt.Sprint("parsed, pubkey ok=", err == nil)
				})})
			}
			return cs
		}, allPairs, 2, 3)
}

func c10ConcSub() *engine.Sub {
	return engine.ConcurrentSub("concurrent-construction", "constructors and decoders given in-range and out-of-range integers (flat, nested, deep) from two logical threads: what is stored is what was supplied, what is out of range is refused",
		func(tier string) []engine.Call {
			k := fixtures.Get("ed25519", 0)
			deep := func(v any, n int) any {
				for i := 0; i < n; i++ {
					v = []any{v}
				}
				return v
			}
			big := int64(1) << 60
			vals := []struct {
				name string
				v    any
				ok   bool
			}{
				{"7", 7, true}, {"2^53-1", int64(1<<53 - 1), true}, {"2^60", big, false}, {"[2^60]", []any{big}, false},
				{"[[2^60],deep(1,300)]", []any{[]any{big}, deep(1, 300)}, false}, {"deep(5,300)", deep(5, 300), true}, {"deep(2^60,70)", deep(big, 70), false},
				{"{a:[1,2],b:{c:2^53}}", map[string]any{"a": []int{1, 2}, "b": map[string]any{"c": int64(1 << 53)}}, false}, {"str", "hello", true}, {"list", []int{1, 2, 3}, true},
			}
			var cs []engine.Call
			for _, v := range vals {
				v := v
				want := "rejected"
				if v.ok {
					s, _ := goShape(reflect.ValueOf(v.v))
					want = "stored:" + s
				}
				cs = append(cs, engine.Call{Name: "invocation.New(arg " + v.name + ")", Want: want, Run: func() string {
					t, err := invocation.New(k.DID, otherPrincipal(k, 1), "/a", []cid.Cid{cidPool[0]}, invocation.WithNonce(fixedNonce), invocation.WithArgument("v", v.v))
					if err != nil {
						return "rejected"
					}
					n, err := t.Arguments().GetNode("v")
					if err != nil {
						return "lost"
					}
					return "stored:" + nodeShape(n)
				}})
				cs = append(cs, engine.Call{Name: "args.Add(" + v.name + ")", Want: want, Run: func() string {
					a := args.New()
					if err := a.Add("v", v.v); err != nil {
						return "rejected"
					}
					n, _ := a.GetNode("v")
					return "stored:" + nodeShape(n)
				}})
			}
			// a correctly signed invocation whose argument holds 2^60, and a well-formed one
			for _, name := range []string{"int=2^53", "int1"} {
				p := c10BasePayload("inv", "ed25519")
				var es []kv
				for _, e := range p.Payload {
					if e.K == "args" {
						v := nInt(1)
						if name == "int=2^53" {
							v = nInt(1 << 53)
						}
						e = kv{"args", nMap(kv{"k", nList(v)})}
					}
					es = append(es, e)
				}
				sealed := assemble(k, sigPayloadNode(p.Header, p.Tag, nMap(es...)))
				want := "decoded"
				if name == "int=2^53" {
					want = "rejected"
				}
				cs = append(cs, engine.Call{Name: "invocation.FromSealed(args " + name + ")", Want: want, Run: func() string {
					if _, _, err := invocation.FromSealed(sealed); err != nil {
						return "rejected"
					}
					return "decoded"
				}})
			}
			return cs
		}, allPairs, 2, 3)
}

// seamReader / seamWriter: the caller's stream, whose every Read / Write is a scheduling point (a
// network connection or pipe on which the goroutine may be descheduled).
type seamReader struct {
	data []byte
	pos  int
	step int
}

func (r *seamReader) Read(p []byte) (int, error) {
	sched.Point("io.Read")
	if r.pos >= len(r.data) {
		return 0, io.EOF
	}
	n := r.step
	if n <= 0 || n > len(p) {
		n = len(p)
	}
	if n > len(r.data)-r.pos {
		n = len(r.data) - r.pos
	}
	copy(p, r.data[r.pos:r.pos+n])
	r.pos += n
	return n, nil
}

type seamSink struct {
	buf bytes.Buffer
	n   int
}

// (a point at the first 8 writes and then at every 16th: encoders issue hundreds of tiny writes)
func (w *seamSink) Write(p []byte) (int, error) {
	w.n++
	if w.n <= 8 || w.n%16 == 0 {
		sched.Point("io.Write")
	}
	return w.buf.Write(p)
}

func c18ConcSub() *engine.Sub {
	return engine.ConcurrentSubSweep("concurrent-streams", "tokens and containers read from / written to streams whose every Read / Write is a scheduling point, from two logical threads",
		func(tier string) []engine.Call {
			var cs []engine.Call
			for _, set := range [][]string{{"dlg", "inv"}, {"dlg3", "dlgbig"}} {
				for _, f := range []string{"car", "car64", "cbor", "cbor64"} {
					set, f := set, f
					w := container.NewWriter()
					for _, n := range set {
						t := ioToken(n)
						w.AddSealed(t.Cid, t.Sealed)
					}
					data, err := writeContainer(w, f, false)
					if err != nil {
						panic(err)
					}
					want := expectedSetView(set)
					cs = append(cs, engine.Call{Name: fmt.Sprintf("stream-read %s%v", f, set), Want: want, Run: func() string {
						rd := &seamReader{data: data, step: 257}
						var r container.Reader
						var err error
						switch f {
						case "car":
							r, err = container.FromCarReader(rd)
						case "car64":
							r, err = container.FromCarBase64Reader(rd)
						case "cbor":
							r, err = container.FromCborReader(rd)
						default:
							r, err = container.FromCborBase64Reader(rd)
						}
						if err != nil {
							return "error:" + err.Error()
						}
						return containerView(r)
					}})
					cs = append(cs, engine.Call{Name: fmt.Sprintf("stream-write %s%v", f, set), Want: want, Run: func() string {
						w := container.NewWriter()
						for _, n := range set {
							t := ioToken(n)
							w.AddSealed(t.Cid, t.Sealed)
						}
						var sink seamSink
						var err error
						switch f {
						case "car":
							err = w.ToCarWriter(&sink)
						case "car64":
							err = w.ToCarBase64Writer(&sink)
						case "cbor":
							err = w.ToCborWriter(&sink)
						default:
							err = w.ToCborBase64Writer(&sink)
						}
						if err != nil {
							return "write-error:" + err.Error()
						}
						r, err := readContainer(sink.buf.Bytes(), f, false)
						if err != nil {
							return "error:" + err.Error()
						}
						return containerView(r)
					}})
				}
			}
			for _, n := range []string{"dlg", "inv", "dlgbig", "dlg3"} {
				t := ioToken(n)
				want := "ok:" + t.Cid.String() + ":" + viewString(t.Tok, nil)
				cs = append(cs, engine.Call{Name: "FromSealedReader(" + n + ")", Want: want, Run: func() string {
					tk, c, err := token.FromSealedReader(&seamReader{data: t.Sealed, step: 61})
					if err != nil {
						return "error:" + err.Error()
					}
					return "ok:" + c.String() + ":" + viewString(tk, nil)
				}})
				cs = append(cs, engine.Call{Name: "ToSealedWriter(" + n + ")", Want: "ok:" + t.Cid.String(), Run: func() string {
					var sink seamSink
					c, err := t.Tok.(writerSealer).ToSealedWriter(&sink, t.Key.Priv)
					if err != nil {
						return "error:" + err.Error()
					}
					if t.Key.Alg == "ed25519" && !bytes.Equal(sink.buf.Bytes(), t.Sealed) {
						return "bytes-differ"
					}
					if refCID(sink.buf.Bytes()) != c {
						return "cid-differs"
					}
					return "ok:" + c.String()
				}})
			}
			return cs
		},
		func(tier string, n int) [][2]int {
			var r [][2]int
			step := 4
			if tier == "thorough" {
				step = 1
			}
			for i := 0; i < n; i++ {
				for j := i % step; j < n; j += step {
					r = append(r, [2]int{i, j})
				}
			}
			return r
		}, func(string, int) []int { return nil }, 1, 2)
}

// ---- C20: read-only operations on shared tokens under the controlled scheduler (E6) ----

func c20ConcSub() *engine.Sub {
	return engine.ConcurrentSubSweep("concurrent-read-only-operations", "every read-only operation of C20's alphabet on ONE shared set of tokens (invocation + 2-link chain, decoded, keys a b c), plus authorization checks and Policy.Match against a shared delegation whose policy is nested 40 levels deep (two checks in flight are 80 levels deep together), from two logical threads",
		func(tier string) []engine.Call {
			var cs []engine.Call
			// a deep policy: not(not(...(== .x 1))) with an even number of nots
			cons := policy.Equal(".x", literal.Int(1))
			for i := 0; i < 40; i++ {
				cons = policy.Not(cons)
			}
			deep := mustDlg(0, 1, 0, "/a", policy.MustConstruct(cons))
			ld := &sliceLoader{cids: []cid.Cid{cidPool[60]}, toks: []*delegation.Token{deep}}
			for _, x := range []int{1, 2} {
				inv, err := invocation.New(prin(1), prin(0), "/a", []cid.Cid{cidPool[60]}, invocation.WithNonce(fixedNonce), invocation.WithoutInvokedAt(), invocation.WithArgument("x", x))
				if err != nil {
					panic(err)
				}
				cs = append(cs, engine.Call{Name: fmt.Sprintf("ExecutionAllowed(x=%d) against the shared 40-deep delegation", x), Run: func() string { return errLabel(inv.ExecutionAllowed(ld)) }},
					engine.Call{Name: fmt.Sprintf("ExecutionAllowedWithArgsHook(x=%d) against the shared 40-deep delegation", x), Run: func() string { return errLabel(inv.ExecutionAllowedWithArgsHook(ld, identityHook)) }})
			}
			data := nMap(kv{"x", nInt(1)})
			cs = append(cs, engine.Call{Name: "Match of the shared 40-deep policy", Run: func() string {
				ok, _ := deep.Policy().Match(data)
				pm, _ := deep.Policy().PartialMatch(data)
				return fmt.Sprint(ok, pm)
			}})
			// (the deep calls come first: they are the ones with many scheduling points, if there are any at all)
			f := c20ops.NewFixture(c20ops.Variant{Keys: []string{"a", "b", "c"}, Decoded: true})
			for _, op := range c20ops.Ops() {
				op := op
				cs = append(cs, engine.Call{Name: op.Name, Run: func() string { return op.Run(f, nil) }})
			}
			return cs
		}, allPairs, fewProbes, 2, 3)
}

// ---- E6 for the authorization path shared by C01, C02, C04 and C05 ----

// authConcSub: authorization checks over chains that are valid, or deviate in exactly the way the property is
// about (and in the other ways), run from two logical threads under the controlled scheduler: every result is
// the one the call gives alone.
func authConcSub(prop string) *engine.Sub {
	return engine.ConcurrentSub("concurrent-authorization-checks", "ExecutionAllowed / ExecutionAllowedWithArgsHook on DIFFERENT invocations of the same invoker over chains of 1 - 3 links of the same principals - valid ones, and ones with a broken link, a wrong subject, a widened command, an expired / not yet active link at each position, a delegation the loader does not have; chains of one length use the same proof CIDs, each invocation with its own loader - from two logical threads",
		func(tier string) []engine.Call {
			chainInit()
			past := time.Now().Add(-time.Hour)
			type chain struct {
				name string
				dl   []*delegation.Token // leaf first
				miss int                 // index of a delegation the loader lacks, -1 = none
			}
			valid := func(n int, cmd string) []*delegation.Token {
				var r []*delegation.Token
				for i := 0; i < n; i++ {
					r = append(r, mustDlg(alignedHolder(n, i+1), alignedHolder(n, i), 0, cmd, nil))
				}
				return r
			}
			expiredAt := func(n, k int, nbf bool) []*delegation.Token {
				r := valid(n, "/a")
				// constructors refuse bounds in the past: the token is built under a clock that reads two hours ago
				restore := verifclock.InstallLocal(func() time.Time { return time.Now().Add(-2 * time.Hour) })
				defer restore()
				if nbf {
					r[k] = mustDlg(alignedHolder(n, k+1), alignedHolder(n, k), 0, "/a", nil, delegation.WithNotBefore(time.Now().Add(24*time.Hour)))
				} else {
					r[k] = mustDlg(alignedHolder(n, k+1), alignedHolder(n, k), 0, "/a", nil, delegation.WithExpiration(past))
				}
				return r
			}
			var chains []chain
			for n := 1; n <= 3; n++ {
				chains = append(chains, chain{fmt.Sprintf("valid-%d", n), valid(n, "/a"), -1})
				for k := 0; k < n; k++ {
					chains = append(chains, chain{fmt.Sprintf("expired-%d@%d", n, k), expiredAt(n, k, false), -1})
				}
				chains = append(chains, chain{fmt.Sprintf("not-yet-active-%d@0", n), expiredAt(n, 0, true), -1})
				chains = append(chains, chain{fmt.Sprintf("missing-%d@%d", n, n-1), valid(n, "/a"), n - 1})
			}
			broken := valid(3, "/a")
			broken[1] = mustDlg(alignedHolder(3, 0), alignedHolder(3, 1), 0, "/a", nil) // issuer is not the audience of the next link
			wrongSub := valid(2, "/a")
			wrongSub[0] = mustDlg(alignedHolder(2, 1), alignedHolder(2, 0), 1, "/a", nil)
			widen := valid(2, "/a")
			widen[1] = mustDlg(alignedHolder(2, 2), alignedHolder(2, 1), 0, "/a/b", nil)
			chains = append(chains, chain{"broken-link-3", broken, -1}, chain{"wrong-subject-2", wrongSub, -1}, chain{"widened-2", widen, -1})
			var cs []engine.Call
			for _, ch := range chains {
				ch := ch
				n := len(ch.dl)
				ld := &sliceLoader{}
				var prf []cid.Cid
				for i, d := range ch.dl {
					c := synthCid(1000 + n*4 + i) // the chains of one length name their proofs by the same CIDs, each invocation has its own loader
					prf = append(prf, c)
					if i != ch.miss {
						ld.cids, ld.toks = append(ld.cids, c), append(ld.toks, d)
					}
				}
				inv, err := invocation.New(prin(alignedHolder(n, 0)), prin(0), "/a", prf, invocation.WithNonce(fixedNonce), invocation.WithoutInvokedAt())
				if err != nil {
					panic(err)
				}
				cs = append(cs, engine.Call{Name: ch.name, Run: func() string { return errLabel(inv.ExecutionAllowed(ld)) }})
				if strings.HasPrefix(ch.name, "valid") || strings.HasPrefix(ch.name, "expired") {
					cs = append(cs, engine.Call{Name: ch.name + "/hook", Run: func() string { return errLabel(inv.ExecutionAllowedWithArgsHook(ld, identityHook)) }})
				}
			}
			_ = prop
			return cs
		}, allPairs, 2, 3)
}
