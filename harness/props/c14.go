package props

import (
	"encoding/hex"
	"encoding/json"
	"fmt"
	"regexp"
	"strconv"
	"strings"

	"github.com/ipld/go-ipld-prime"
	"github.com/ipld/go-ipld-prime/codec/dagcbor"
	"github.com/ipld/go-ipld-prime/codec/dagjson"
	"github.com/ipld/go-ipld-prime/datamodel"

	"github.com/ucan-wg/go-ucan/pkg/policy"
	"github.com/ucan-wg/go-ucan/pkg/policy/selector"

	"verifharness/engine"
)

var c14Alphabet = []string{".", "[", "]", `"`, "?", ":", "-", "0", "1", "a", "_", `\`, "*", " "}

// the one normalisation of the printer: '?' directly after an identity dot is dropped
var c14IdentOpt = regexp.MustCompile(`\.\?+(\.|\[|$)`)

// leading zeros of an integer inside brackets carry no meaning; a printer may drop them
var c14LeadingZeros = regexp.MustCompile(`([\[:]-?)0+([0-9])`)

var c14Decimal = regexp.MustCompile(`^-?[0-9]+$`)

var c14BracketGrammar = regexp.MustCompile(`^(|-?[0-9]+|-?[0-9]*:-?[0-9]*)$`)

func c14Normalise(s string) string {
	for {
		n := c14IdentOpt.ReplaceAllString(s, ".$1")
		n = c14LeadingZeros.ReplaceAllString(n, "$1$2")
		if n == s {
			return n
		}
		s = n
	}
}

type c14SelCase struct {
	S   string `json:"s"`
	Hex string `json:"hex,omitempty"` // the text in hex, for texts that are not valid UTF-8 (S is then only descriptive)
	Big int    `json:"big,omitempty"` // 1 + index of the big-integer form: the accepted selector is also resolved on [0..12]
}

// c14BigForms: selector shapes around one integer v that is larger than any list; want = what resolving the
// shape on the 13-element list [0..12] gives if the text is accepted ("all", "none", "error", "tail" = [1..12], "skip")
var c14BigForms = []struct{ Form, Want string }{
	{".[%s]", "error"}, {".[-%s]", "error"}, {".[0:%s]", "all"}, {".[%s:]", "none"}, {".[-%s:]", "all"}, {".[1:-%s]", "none"}, {".[%s:%s]", "none"}, {".[1:%s]", "tail"}, {".[0%s]", "error"},
}

// c14ByteNames: quoted field names made of bytes outside ASCII - not UTF-8, ending inside a character, the
// replacement character itself, composed and decomposed spellings of one glyph.
var c14ByteNames = []string{"k\xff", "\xff", "\xfe\xff", "\xc3", "k\xc3\xa9", "k\xef\xbf\xbd", "e\xcc\x81", "\xc3\xa9", "\xed\xa0\x80", "\xf0\x9f\x98\x80", "\xf0\x9f\x98", "\xc0\xaf"}

func (c *c14SelCase) Weight() int { return len(c.S) }

type segView struct {
	Str      string
	Identity bool
	Optional bool
	Iterator bool
	Slice    []int64
	Field    string
	Index    int
}

func viewOf(sel selector.Selector) []segView {
	var r []segView
	for _, s := range sel {
		r = append(r, segView{s.String(), s.Identity(), s.Optional(), s.Iterator(), s.Slice(), s.Field(), s.Index()})
	}
	return r
}

// sameMeaning compares two parsed selectors segment by segment, ignoring the
// optional flag of identity segments (the printer's normalisation).
func sameMeaning(a, b selector.Selector) bool {
	va, vb := viewOf(a), viewOf(b)
	if len(va) != len(vb) {
		return false
	}
	for i := range va {
		x, y := va[i], vb[i]
		if x.Identity != y.Identity || x.Iterator != y.Iterator || x.Field != y.Field || x.Index != y.Index || fmt.Sprint(x.Slice) != fmt.Sprint(y.Slice) {
			return false
		}
		if !x.Identity && x.Optional != y.Optional {
			return false
		}
	}
	return true
}

func c14SelectorSub() *engine.Sub {
	data := selectorData()
	return &engine.Sub{
		Name:   "selector-text",
		Repeat: true,
		Rule:   `every string over {. [ ] " ? : - 0 1 a _ \ * space} up to the length bound offered to selector.Parse, plus every bracket content of up to 6 symbols over {0 1 - :} with two or more colons (in .[...] and .a[...]?), plus every integer of up to 4 digits over {0 1 7 8 9} with and without sign as index and slice bound (an accepted integer means what its digits say in base ten), plus every pair of slices in a row with bounds over {none, 0, 1, 2, -1}, plus 12 quoted field names made of bytes outside ASCII (not UTF-8, ending inside a character, U+FFFD, composed / decomposed spellings) in 6 selector shapes, and 19 integers at and beyond 2^31, 2^32, 2^53, 2^63, 2^64, 2^65 and 2^128 (also n + 2^64 for small n) as index and slice bounds in 9 shapes; for every accepted string: printing reproduces the text (up to '?' after an identity dot), the printed text parses to the same segments with identical Select results on 33 values, every segment re-parsed alone has the same meaning, and every unquoted bracket is empty, one integer or lo:hi with one colon (an independent three-line grammar); non-trivial = accepted strings`,
		Bound: func(t string) string {
			return fmt.Sprintf("all strings of length <=%d over 14 symbols", tierN(t, 5, 8))
		},
		Gen: func(tier string, emit func(any) bool) {
			n := tierN(tier, 5, 8)
			// strings not starting with '.' are rejected by the first test of Parse; they are
			// still enumerated up to length 3 to confirm that, and beyond that only '.'-prefixed
			// strings are generated (the others share the same first-character rejection).
			allStrings(c14Alphabet, 3, func(s string) bool { return emit(&c14SelCase{S: s}) })
			allStrings(c14Alphabet, n-1, func(s string) bool {
				if len(s) < 3 {
					return true
				}
				return emit(&c14SelCase{S: "." + s})
			})
			// integers at and beyond every machine boundary as index and slice bounds (a bound that is accepted is the
			// bound that is printed; one that does not fit is rejected, never wrapped or clamped silently)
			for _, v := range []string{"9007199254740991", "9007199254740992", "2147483647", "2147483648", "4294967295", "4294967296", "4294967298",
				"9223372036854775807", "9223372036854775808", "18446744073709551615", "18446744073709551616", "18446744073709551618", "18446744073709551617",
				"27670116110564327423", "36893488147419103232", "36893488147419103234", "100000000000000000000", "340282366920938463463374607431768211458", "99999999999999999999999999999999999999999"} {
				for fi, form := range c14BigForms {
					if !emit(&c14SelCase{S: strings.ReplaceAll(form.Form, "%s", v), Big: fi + 1}) {
						return
					}
				}
			}
			// bracket contents over {0 1 - :} with two or more colons (a third slice part, a step): all of them, in two positions
			allStrings([]string{"0", "1", "-", ":"}, 6, func(in string) bool {
				if strings.Count(in, ":") < 2 {
					return true
				}
				return emit(&c14SelCase{S: ".[" + in + "]"}) && emit(&c14SelCase{S: ".a[" + in + "]?"})
			})
			// integers of up to 4 digits over {0 1 7 8 9}, with and without a sign, as index and as slice bounds: digits are decimal
			allStrings([]string{"0", "1", "7", "8", "9"}, 4, func(d string) bool {
				if d == "" {
					return true
				}
				for _, sg := range []string{"", "-"} {
					if !emit(&c14SelCase{S: ".[" + sg + d + "]"}) || !emit(&c14SelCase{S: ".[" + sg + d + ":]"}) || !emit(&c14SelCase{S: ".a[:" + sg + d + "]?"}) {
						return false
					}
				}
				return true
			})
			// two slices in a row, each bound absent or one of 0, 1, 2, -1: a bound left open is open, whatever the slice before it said
			bs := []string{"", "0", "1", "2", "-1"}
			for _, a := range bs {
				for _, b := range bs {
					for _, c := range bs {
						for _, d := range bs {
							if !emit(&c14SelCase{S: ".[" + a + ":" + b + "][" + c + ":" + d + "]"}) || !emit(&c14SelCase{S: ".a[" + a + ":" + b + "]?[" + c + ":" + d + "]"}) {
								return
							}
						}
					}
				}
			}
			for _, name := range c14ByteNames {
				for _, form := range []string{`.["%s"]`, `.a["%s"]`, `.["%s"]?`, `.["%s"][0]`, `.["%s"]["%s"]`, `.["a"]["%s"]?[1:]`} {
					t := strings.ReplaceAll(form, "%s", name)
					if !emit(&c14SelCase{S: strconv.QuoteToASCII(t), Hex: hex.EncodeToString([]byte(t))}) {
						return
					}
				}
			}
		},
		NewCase: func() any { return &c14SelCase{} },
		Run: func(ctx *engine.Ctx, c any) {
			cs := c.(*c14SelCase)
			if cs.Hex != "" {
				b, err := hex.DecodeString(cs.Hex)
				if err != nil {
					panic(err)
				}
				cs = &c14SelCase{S: string(b), Hex: cs.Hex}
			}
			ctx.Eval(1)
			ctx.States(1)
			ctx.Trans(1)
			sel, err := selector.Parse(cs.S)
			if err != nil {
				ctx.Outcome("rejected")
				return
			}
			ctx.Nontrivial(1)
			printed := sel.String()
			if printed != cs.S && c14Normalise(printed) != c14Normalise(cs.S) {
				ctx.Outcome("accepted-lossy")
				cls := "selector/part-dropped"
				if strings.Count(cs.S, `"`)%2 == 1 || strings.Contains(cs.S, `\"`) {
					cls = "selector/unterminated-quote-dropped"
				}
				ctx.Failf(cs, cls, "Parse(%q) accepted, but prints as %q: part of the text was dropped or altered", cs.S, printed)
				return
			}
			ctx.Outcome("accepted")
			if cs.Big > 0 {
				// an accepted bound means what its digits say: it is larger than the list
				var list datamodel.Node
				for _, d := range data {
					if d.Name == "[0..12]" {
						list = d.Node
					}
				}
				got, gerr := sel.Select(list)
				ctx.Eval(1)
				want := c14BigForms[cs.Big-1].Want
				ok := false
				switch want {
				case "error":
					ok = gerr != nil
				case "all":
					ok = gerr == nil && got != nil && got.Kind() == datamodel.Kind_List && got.Length() == 13
				case "none":
					ok = gerr == nil && got != nil && got.Kind() == datamodel.Kind_List && got.Length() == 0
				case "tail":
					ok = gerr == nil && got != nil && got.Kind() == datamodel.Kind_List && got.Length() == 12
				}
				if !ok {
					ctx.Failf(cs, "selector/bound-not-taken-at-face-value", "Parse(%q) accepted, but on the list [0..12] it resolves to %s (error %v) where a bound of that size gives %q", cs.S, nodeJSON(got), gerr, want)
					return
				}
			}
			sel2, err := selector.Parse(printed)
			ctx.Eval(1)
			if err != nil {
				ctx.Failf(cs, "selector/printed-form-rejected", "Parse(%q) accepted, its printed form %q is rejected: %v", cs.S, printed, err)
				return
			}
			if !sameMeaning(sel, sel2) {
				ctx.Failf(cs, "selector/printed-form-differs", "Parse(%q) and Parse of its printed form %q have different segments: %+v vs %+v", cs.S, printed, viewOf(sel), viewOf(sel2))
				return
			}
			if printed != cs.S {
				for _, d := range data {
					a, ea := sel.Select(d.Node)
					b, eb := sel2.Select(d.Node)
					ctx.Eval(2)
					if (ea == nil) != (eb == nil) || (a == nil) != (b == nil) || (a != nil && b != nil && !ipld.DeepEqual(a, b)) {
						ctx.Failf(cs, "selector/printed-form-selects-differently", "%q and its printed form %q select differently on %s", cs.S, printed, d.Name)
						return
					}
				}
			}
			// every segment re-parsed alone keeps its meaning
			for _, sg := range sel {
				if sg.Identity() {
					continue
				}
				// a bracket that is not a quoted name holds nothing, one integer, or two optional integers around ONE colon
				if b := strings.TrimSuffix(sg.String(), "?"); strings.HasPrefix(b, "[") && strings.HasSuffix(b, "]") && !strings.HasPrefix(b, `["`) {
					// ... and the integers mean what their digits say in base ten
					if in := b[1 : len(b)-1]; c14Decimal.MatchString(in) {
						if want, err := strconv.ParseInt(in, 10, 64); err == nil && int64(sg.Index()) != want {
							ctx.Failf(cs, "selector/index-not-taken-at-face-value", "Parse(%q) accepted the index segment %q and reads it as %d; its digits say %d", cs.S, sg.String(), sg.Index(), want)
							return
						}
					} else if parts := strings.Split(in, ":"); len(parts) == 2 && len(sg.Slice()) == 2 {
						for k, pt := range parts {
							if c14Decimal.MatchString(pt) {
								if want, err := strconv.ParseInt(pt, 10, 64); err == nil && sg.Slice()[k] != want {
									ctx.Failf(cs, "selector/bound-not-taken-at-face-value", "Parse(%q) accepted the slice segment %q and reads bound %d as %d; its digits say %d", cs.S, sg.String(), k, sg.Slice()[k], want)
									return
								}
							}
						}
					}
					if in := b[1 : len(b)-1]; !c14BracketGrammar.MatchString(in) {
						ctx.Failf(cs, "selector/accepted-outside-grammar", "Parse(%q) accepted the bracket segment %q, which is neither empty, an integer, nor lo:hi - it is read as %+v, so part of it means nothing", cs.S, sg.String(), viewOf(selector.Selector{sg}))
						return
					}
				}
				t := sg.String()
				if !strings.HasPrefix(t, ".") {
					t = "." + t
				}
				one, err := selector.Parse(t)
				ctx.Eval(1)
				if err != nil {
					ctx.Failf(cs, "selector/segment-not-reparsable", "segment %q of %q is rejected when parsed alone: %v", sg.String(), cs.S, err)
					return
				}
				last := one[len(one)-1:]
				if !sameMeaning(selector.Selector{sg}, last) {
					ctx.Failf(cs, "selector/segment-meaning-context-dependent", "segment %q of %q means %+v in context but %+v alone", sg.String(), cs.S, viewOf(selector.Selector{sg}), viewOf(last))
					return
				}
			}
		},
	}
}

// ---- policies ----

type c14PolCase struct {
	JSON string `json:"json"` // DAG-JSON of the policy node
}

func (c *c14PolCase) Weight() int { return len(c.JSON) }

func c14Args(depth int) []string {
	// argument kinds: string (selector-like, pattern-like, operator-like), list, int, map, null
	base := []string{`"."`, `".a"`, `".a?"`, `".?"`, `"a*"`, `"\\"`, `"\\**"`, `"a**b"`, `"\\\\*"`, `"x"`, `1`, `null`, `{}`, `[]`, `true`,
		// DAG-JSON forms of bytes and links, and maps that merely look like them
		`{"/":{"bytes":"AQI"}}`, `{"/":"bafyreigdyrzt5sfp7udm7hu76uh7y26nf3efuylqabf3oclgtqy55fbzdi"}`, `{"/":{"bytes":""}}`, `{"x":{"/":{"bytes":"AQI"}}}`, `[{"/":{"bytes":"/w"}}]`, `1.5`}
	if depth > 0 {
		base = append(base, c14Statements(depth-1)...)
		// a list of statements (operand of and/or)
		st := c14Statements(depth - 1)
		for i := 0; i < len(st) && i < 6; i++ {
			base = append(base, "["+st[i]+"]")
		}
		if len(st) >= 2 {
			base = append(base, "["+st[0]+","+st[1]+"]")
		}
	}
	return base
}

var c14Ops = []string{"==", "<", "<=", ">", ">=", "not", "and", "or", "like", "all", "any", "nope"}

// c14OtherOps: operator names a policy reader must not take for one of the eleven.
var c14OtherOps = []string{"every", "some", "none", "eq", "neq", "ne", "!=", "=", "===", "gt", "gte", "lt", "lte", "≥", "≤", "AND", "OR", "NOT", "And", "Or", "Not", "All", "Any", "ALL", "ANY", "Like", "LIKE", "glob", "match", "in", "&&", "||", "!", " ==", "== ", "all ", " any", "", "not\u0000", "＝＝"}

var c14StmtMemo = map[int][]string{}

// c14Statements enumerates statement-shaped JSON: every operator x arity 1..4 x argument kinds.
func c14Statements(depth int) []string {
	if v, ok := c14StmtMemo[depth]; ok {
		return v
	}
	var res []string
	args := c14Args(depth)
	if depth > 0 && len(args) > 40 {
		// keep nesting affordable: nested arguments are a fixed subset
		args = append(args[:12:12], pick(args[12:], 28)...)
	}
	for _, op := range c14Ops {
		res = append(res, `["`+op+`"]`)
		for _, a := range args {
			res = append(res, `["`+op+`",`+a+`]`)
		}
		// second element: selector-like strings, a non-string, and - the operand shapes of not / and / or -
		// a statement, a list of statements and the empty list, each followed by a third element
		// (the two bytes literals hold the texts "." and ".a": a selector is a string, not bytes that read like one)
		sels := []string{`"."`, `".a"`, `".a?"`, `".?"`, `"x"`, `1`, `["==",".a",1]`, `[["==",".a",1]]`, `[]`, `{"/":{"bytes":"Lg"}}`, `{"/":{"bytes":"LmE"}}`}
		for _, a := range sels {
			for _, b := range args {
				res = append(res, `["`+op+`",`+a+`,`+b+`]`)
			}
		}
		res = append(res, `["`+op+`",".a",1,2]`, `["`+op+`",["==",".a",1],["==",".b",2],["==",".c",3]]`, `["`+op+`",[["==",".a",1]],[["==",".b",2]],1]`)
	}
	res = append(res, `[1,".a",1]`, `[null,".a"]`, `"=="`, `{}`)
	c14StmtMemo[depth] = res
	return res
}

func pick(s []string, n int) []string {
	if len(s) <= n {
		return s
	}
	var r []string
	step := len(s) / n
	for i := 0; i < len(s) && len(r) < n; i += step {
		r = append(r, s[i])
	}
	return r
}

func c14PolicySub() *engine.Sub {
	return &engine.Sub{
		Name:   "policy-ipld-roundtrip",
		Repeat: true,
		Rule:   "policies = lists of <=2 statements built from every operator (11 + one unknown) x arity 1..4 x argument kinds (selector-like/pattern-like strings, int, null, map, list, nested statements), plus 40 other operator names (aliases from other policy languages and drafts, other letter cases, blanks) in 8 well-formed statement shapes, offered as DAG-JSON text to policy.FromDagJson and as a node to policy.FromIPLD; rejected, or ToIPLD(FromIPLD(n)) deep-equals n up to selector normalisation and String() does not fail; non-trivial = accepted",
		Bound: func(t string) string {
			return fmt.Sprintf("statement nesting depth <=%d, policies of 0..2 statements", tierN(t, 1, 2))
		},
		Gen: func(tier string, emit func(any) bool) {
			st := c14Statements(tierN(tier, 1, 2))
			if !emit(&c14PolCase{JSON: `[]`}) {
				return
			}
			for _, s := range st {
				if !emit(&c14PolCase{JSON: `[` + s + `]`}) {
					return
				}
			}
			// pairs: every statement with a small fixed set of partners, both orders
			partners := []string{`["==",".a",1]`, `["not",["==",".a",1]]`, `["nope",1]`}
			for _, s := range st {
				for _, p := range partners {
					if !emit(&c14PolCase{JSON: `[` + s + `,` + p + `]`}) {
						return
					}
					if !emit(&c14PolCase{JSON: `[` + p + `,` + s + `]`}) {
						return
					}
				}
			}
			// operator names that are NOT the eleven operators - names from other policy languages and earlier
			// drafts, other letter cases, surrounding blanks - in every well-formed statement shape: they are
			// rejected, or whatever is accepted is written back under the name it was read with
			for _, op := range c14OtherOps {
				qb, _ := json.Marshal(op)
				q := string(qb)
				for _, shape := range []string{`[%s,".a",1]`, `[%s,".a","a*"]`, `[%s,["==",".a",1]]`, `[%s,[["==",".a",1],["==",".b",2]]]`, `[%s,".l",["==",".",1]]`, `["not",[%s,".l",["==",".",1]]]`, `["and",[[%s,".a",1]]]`, `["any",".l",[%s,".",1]]`} {
					if !emit(&c14PolCase{JSON: "[" + fmt.Sprintf(shape, q) + "]"}) {
						return
					}
				}
			}
			for _, top := range []string{`{}`, `1`, `null`, `"x"`, `[[]]`, `[[[]]]`} {
				if !emit(&c14PolCase{JSON: top}) {
					return
				}
			}
		},
		NewCase: func() any { return &c14PolCase{} },
		Run: func(ctx *engine.Ctx, c any) {
			cs := c.(*c14PolCase)
			ctx.States(1)
			ctx.Trans(1)
			node, err := ipld.Decode([]byte(cs.JSON), dagjson.Decode)
			if err != nil {
				panic(fmt.Sprintf("harness: bad policy JSON %s: %v", cs.JSON, err))
			}
			p1, e1 := policy.FromIPLD(node)
			p2, e2 := policy.FromDagJson(cs.JSON)
			ctx.Eval(2)
			if (e1 == nil) != (e2 == nil) {
				ctx.Failf(cs, "policy/ipld-vs-dagjson-acceptance", "FromIPLD error=%v but FromDagJson error=%v for %s", e1, e2, cs.JSON)
				return
			}
			if e1 != nil {
				ctx.Outcome("rejected")
				return
			}
			ctx.Nontrivial(1)
			ctx.Outcome("accepted")
			for k, p := range []policy.Policy{p1, p2} {
				back, err := p.ToIPLD()
				ctx.Eval(1)
				if err != nil {
					ctx.Failf(cs, "policy/toipld-fails", "accepted policy %s cannot be written back: %v", cs.JSON, err)
					return
				}
				if !ipld.DeepEqual(c14NormPolicy(node), c14NormPolicy(back)) {
					ctx.Failf(cs, "policy/roundtrip-differs", "policy %s (decoder %d) is written back as %s", cs.JSON, k, nodeJSON(back))
					return
				}
				_ = p.String()
				// second generation must be a fixpoint
				p3, err := policy.FromIPLD(back)
				if err != nil {
					ctx.Failf(cs, "policy/written-form-rejected", "policy %s written back as %s is rejected: %v", cs.JSON, nodeJSON(back), err)
					return
				}
				back2, _ := p3.ToIPLD()
				if !ipld.DeepEqual(back, back2) {
					ctx.Failf(cs, "policy/roundtrip-not-idempotent", "policy %s: second round trip differs", cs.JSON)
					return
				}
			}
		},
	}
}

// c14NormPolicy applies the selector normalisation to every string that sits in
// selector position of a statement-shaped list; everything else is kept as is.
func c14NormPolicy(n datamodel.Node) datamodel.Node {
	switch n.Kind() {
	case datamodel.Kind_List:
		var items []datamodel.Node
		it := n.ListIterator()
		for !it.Done() {
			_, v, _ := it.Next()
			items = append(items, v)
		}
		if len(items) == 3 && items[0].Kind() == datamodel.Kind_String && items[1].Kind() == datamodel.Kind_String {
			op, _ := items[0].AsString()
			switch op {
			case "==", "<", "<=", ">", ">=", "like", "all", "any":
				s, _ := items[1].AsString()
				items[1] = nStr(c14Normalise(s))
			}
		}
		for i := range items {
			items[i] = c14NormPolicy(items[i])
		}
		return nList(items...)
	default:
		return n
	}
}

type c14CtorCase struct {
	Ctor string `json:"ctor"`
	Sel  string `json:"sel"`
}

// c14CtorSelSub: every policy constructor that takes a selector, with valid and invalid
// selector texts: the constructor must fail exactly when selector.Parse fails, and what it
// accepts must survive the IPLD round trip.
func c14CtorSelSub() *engine.Sub {
	ctors := map[string]func(sel string) policy.Constructor{
		"Equal":              func(s string) policy.Constructor { return policy.Equal(s, nInt(1)) },
		"GreaterThan":        func(s string) policy.Constructor { return policy.GreaterThan(s, nInt(1)) },
		"GreaterThanOrEqual": func(s string) policy.Constructor { return policy.GreaterThanOrEqual(s, nInt(1)) },
		"LessThan":           func(s string) policy.Constructor { return policy.LessThan(s, nInt(1)) },
		"LessThanOrEqual":    func(s string) policy.Constructor { return policy.LessThanOrEqual(s, nInt(1)) },
		"Like":               func(s string) policy.Constructor { return policy.Like(s, "a*") },
		"All":                func(s string) policy.Constructor { return policy.All(s, policy.Equal(".", nInt(1))) },
		"Any":                func(s string) policy.Constructor { return policy.Any(s, policy.Equal(".", nInt(1))) },
		"Not(Equal)":         func(s string) policy.Constructor { return policy.Not(policy.Equal(s, nInt(1))) },
		"And(Equal,All)": func(s string) policy.Constructor {
			return policy.And(policy.Equal(".a", nInt(1)), policy.All(s, policy.Equal(".", nInt(1))))
		},
		"Or(Any)":         func(s string) policy.Constructor { return policy.Or(policy.Any(s, policy.Like(".", "*"))) },
		"All(inner)":      func(s string) policy.Constructor { return policy.All(".l", policy.Equal(s, nInt(1))) },
		"Any(inner-like)": func(s string) policy.Constructor { return policy.Any(".l", policy.Like(s, "*")) },
	}
	var names []string
	for k := range ctors {
		names = append(names, k)
	}
	sortStrings(names)
	return &engine.Sub{
		Name: "constructors-vs-selector-texts",
		Rule: "13 constructor shapes (every constructor that takes a selector, alone and nested) x every string over the selector alphabet up to length 4 plus a list of longer valid / invalid selectors: policy.Construct fails exactly when selector.Parse rejects the text; an accepted policy converts to IPLD, is accepted by FromIPLD and matches identically afterwards; non-trivial = texts accepted by selector.Parse",
		Bound: func(string) string {
			return "13 constructor shapes x (all strings of length <=4 over 14 symbols + 24 longer texts)"
		},
		Gen: func(tier string, emit func(any) bool) {
			extra := []string{"tags", ".tags[", ".tags..[]", ".tags ", ".a.b", ".a[0]?", `.["a b"]`, ".a[1:2]", ".[]", ".a?.b?", ".a[", ".a]", `.a"`, `.a["b`, ".é", "a", "", " .a", ".a\n", ".a[-1]", ".a[:]", ".a[1:", ".a..b", ".?"}
			for _, n := range names {
				ok := true
				allStrings(c14Alphabet, 4, func(s string) bool {
					ok = emit(&c14CtorCase{Ctor: n, Sel: s})
					return ok
				})
				if !ok {
					return
				}
				for _, e := range extra {
					if !emit(&c14CtorCase{Ctor: n, Sel: e}) {
						return
					}
				}
			}
		},
		NewCase: func() any { return &c14CtorCase{} },
		Run: func(ctx *engine.Ctx, c any) {
			cs := c.(*c14CtorCase)
			ctx.States(1)
			ctx.Eval(1)
			ctx.Trans(1)
			_, perr := selector.Parse(cs.Sel)
			p, cerr := policy.Construct(ctors[cs.Ctor](cs.Sel))
			if perr == nil {
				ctx.Nontrivial(1)
			}
			switch {
			case perr != nil && cerr == nil:
				ctx.Outcome("constructor-accepts-invalid-selector")
				ctx.Failf(cs, "constructor-accepts-invalid-selector/"+cs.Ctor, "policy.%s built with the invalid selector %q returns no error (selector.Parse: %v)", cs.Ctor, cs.Sel, perr)
				return
			case perr == nil && cerr != nil:
				ctx.Outcome("constructor-rejects-valid-selector")
				ctx.Failf(cs, "constructor-rejects-valid-selector/"+cs.Ctor, "policy.%s rejects the valid selector %q: %v", cs.Ctor, cs.Sel, cerr)
				return
			case cerr != nil:
				ctx.Outcome("rejected")
				return
			}
			ctx.Outcome("accepted")
			n, err := p.ToIPLD()
			if err != nil {
				ctx.Failf(cs, "constructed/toipld-fails", "policy.%s(%q) cannot be converted to IPLD: %v", cs.Ctor, cs.Sel, err)
				return
			}
			p2, err := policy.FromIPLD(n)
			if err != nil {
				ctx.Failf(cs, "constructed/fromipld-rejects", "policy.%s(%q) written as %s is rejected by FromIPLD: %v", cs.Ctor, cs.Sel, nodeJSON(n), err)
				return
			}
			for _, d := range selectorData()[:12] {
				m1, pm1 := mp(p, d.Node)
				m2, pm2 := mp(p2, d.Node)
				ctx.Eval(4)
				if m1 != m2 || pm1 != pm2 {
					ctx.Failf(cs, "constructed/matching-changes", "policy.%s(%q) matches %s differently after the IPLD round trip", cs.Ctor, cs.Sel, d.Name)
					return
				}
			}
		},
	}
}

// ---- long selectors, and parse results kept while later parses happen ----

type c14LongCase struct {
	Unit string `json:"unit"` // the segment text that is repeated
	N    int    `json:"n"`
}

func (c *c14LongCase) Weight() int { return c.N }

func c14LongSub() *engine.Sub {
	return &engine.Sub{
		Name:   "long-selectors",
		Repeat: true,
		Rule:   "selectors made of n segments (units .f, .a?, [0], [\"k\"], [1:] and a mix) for n on both sides of 16, 24, 256, 1024, 1026 and 4096, through selector.Parse and inside a policy read with policy.FromDagJson: rejected, or parsed into exactly n segments that print back as written (and the policy writes the selector back in full); non-trivial = accepted",
		Bound:  func(string) string { return "6 units x 16 lengths (2..4097) x {Parse, policy.FromDagJson}" },
		Gen: func(tier string, emit func(any) bool) {
			for _, u := range []string{".f", ".a?", "[0]", `["k"]`, "[1:]", "mix"} {
				for _, n := range []int{2, 15, 16, 17, 23, 24, 25, 255, 256, 257, 1023, 1024, 1025, 1026, 4096, 4097} {
					if !emit(&c14LongCase{Unit: u, N: n}) {
						return
					}
				}
			}
		},
		NewCase: func() any { return &c14LongCase{} },
		Run: func(ctx *engine.Ctx, c any) {
			cs := c.(*c14LongCase)
			var sb strings.Builder
			units := []string{cs.Unit}
			if cs.Unit == "mix" {
				units = []string{".f", "[0]?", `["k"]`, ".g?", "[1:3]"}
			}
			for i := 0; i < cs.N; i++ {
				u := units[i%len(units)]
				if i == 0 && strings.HasPrefix(u, "[") {
					sb.WriteString(".")
				}
				sb.WriteString(u)
			}
			text := sb.String()
			ctx.States(1)
			ctx.Eval(2)
			ctx.Trans(1)
			sel, err := selector.Parse(text)
			if err != nil {
				ctx.Outcome("rejected")
			} else {
				ctx.Nontrivial(1)
				ctx.Outcome("accepted")
				segs := 0
				for _, sg := range sel {
					if !sg.Identity() {
						segs++
					}
				}
				if segs != cs.N || c14Normalise(sel.String()) != c14Normalise(text) {
					ctx.Failf(cs, "selector/part-dropped/long", "a selector of %d segments (%s...) parses into %d segments printing as %d bytes instead of %d", cs.N, text[:min(len(text), 20)], segs, len(sel.String()), len(text))
				}
			}
			js, _ := json.Marshal(text)
			pol, perr := policy.FromDagJson(`[["==", ` + string(js) + `, 1]]`)
			if (perr == nil) != (err == nil) {
				ctx.Failf(cs, "policy/selector-acceptance-differs", "selector of %d segments: Parse err=%v but policy.FromDagJson err=%v", cs.N, err, perr)
			} else if perr == nil {
				back, err := pol.ToIPLD()
				if err != nil {
					ctx.Failf(cs, "policy/toipld-fails", "policy with a %d-segment selector cannot be written back: %v", cs.N, err)
					return
				}
				st, _ := back.LookupByIndex(0)
				sn, _ := st.LookupByIndex(1)
				got, _ := sn.AsString()
				if c14Normalise(got) != c14Normalise(text) {
					ctx.Failf(cs, "policy/roundtrip-differs/long-selector", "policy with a %d-segment selector writes back a selector of %d bytes instead of %d", cs.N, len(got), len(text))
				}
			}
		},
	}
}

type c14KeptCase struct {
	Order []int `json:"order"` // indexes into c14KeptTexts, parsed in this order, all results kept
}

func c14KeptTexts() []string {
	mk := func(n int, u string) string { return strings.Repeat(u, n) }
	return []string{".a", mk(5, ".b"), mk(16, ".c"), mk(17, ".d"), mk(33, ".e"), mk(65, ".f?"), mk(130, ".g") + "[0]", `.["x"]` + mk(20, "[1:]")}
}

func c14KeptSub() *engine.Sub {
	texts := c14KeptTexts()
	return &engine.Sub{
		Name:   "parse-results-kept",
		Serial: true,
		Rule:   "first a ladder (17, 33, 65, ... 2049 segments, each followed by a short selector: the first sub-check of the process, so that any scratch space grows here), then selectors of 1, 5, 16, 17, 33, 65, 131 and 21 segments parsed one after the other in every order of 4 out of 8 (and policies with two such selectors are read); ALL parsed values are kept and, after the last parse, each must still print as its own text and have its own number of segments: a parsed selector is a value, not a view of a buffer that later parses reuse; non-trivial = all",
		Bound: func(string) string {
			return "1680 ordered selections of 4 out of 8 selector texts; 56 policies with two statements"
		},
		Gen: func(tier string, emit func(any) bool) {
			// first of all a ladder: ever longer selectors, each followed by a short one (Order = nil)
			if !emit(&c14KeptCase{}) {
				return
			}
			n := len(texts)
			for a := 0; a < n; a++ {
				for b := 0; b < n; b++ {
					for c := 0; c < n; c++ {
						for d := 0; d < n; d++ {
							if a == b || a == c || a == d || b == c || b == d || c == d {
								continue
							}
							if !emit(&c14KeptCase{Order: []int{a, b, c, d}}) {
								return
							}
						}
					}
				}
			}
			for a := 0; a < n; a++ {
				for b := 0; b < n; b++ {
					if a != b && !emit(&c14KeptCase{Order: []int{a, b}}) {
						return
					}
				}
			}
		},
		NewCase: func() any { return &c14KeptCase{} },
		Run: func(ctx *engine.Ctx, c any) {
			cs := c.(*c14KeptCase)
			ctx.States(1)
			ctx.Nontrivial(1)
			if len(cs.Order) == 2 {
				// a policy whose two statements carry the two selectors
				j0, _ := json.Marshal(texts[cs.Order[0]])
				j1, _ := json.Marshal(texts[cs.Order[1]])
				src := `[["==", ` + string(j0) + `, 1], ["like", ` + string(j1) + `, "a*"]]`
				pol, err := policy.FromDagJson(src)
				ctx.Eval(1)
				if err != nil {
					ctx.Failf(cs, "policy/rejects-wellformed", "policy.FromDagJson(%.60s...) fails: %v", src, err)
					return
				}
				back, err := pol.ToIPLD()
				if err != nil {
					ctx.Failf(cs, "policy/toipld-fails", "%v", err)
					return
				}
				for k := 0; k < 2; k++ {
					st, _ := back.LookupByIndex(int64(k))
					sn, _ := st.LookupByIndex(1)
					got, _ := sn.AsString()
					if c14Normalise(got) != c14Normalise(texts[cs.Order[k]]) {
						ctx.Outcome("kept-differs")
						ctx.Failf(cs, "policy/roundtrip-differs/kept-selector", "statement %d of a two-statement policy is written back with selector %.40s... instead of %.40s...", k, got, texts[cs.Order[k]])
						return
					}
				}
				ctx.Outcome("kept-ok")
				return
			}
			if cs.Order == nil {
				var ladder []string
				for k, n := 0, 17; n <= 2100; k, n = k+1, n*2-1 {
					ladder = append(ladder, strings.Repeat(".q", n), strings.Repeat(".s", k%5+1))
				}
				var ks []selector.Selector
				for _, t := range ladder {
					sel, err := selector.Parse(t)
					ctx.Eval(1)
					if err != nil {
						ctx.Failf(cs, "selector/rejects-wellformed", "Parse of a %d-byte selector fails: %v", len(t), err)
						return
					}
					ks = append(ks, sel)
				}
				for k, t := range ladder {
					if ks[k].String() != t {
						ctx.Outcome("kept-differs")
						ctx.Failf(cs, "selector/kept-result-changed", "ladder step %d: a selector of %d segments prints as %.30s... after the later parses (longer selectors, each followed by a short one)", k, len(t)/2, ks[k].String())
						return
					}
				}
				ctx.Outcome("kept-ok")
				return
			}
			var kept []selector.Selector
			for _, i := range cs.Order {
				sel, err := selector.Parse(texts[i])
				ctx.Eval(1)
				ctx.Trans(1)
				if err != nil {
					ctx.Failf(cs, "selector/rejects-wellformed", "Parse(%.40s...) fails: %v", texts[i], err)
					return
				}
				kept = append(kept, sel)
			}
			for k, i := range cs.Order {
				if c14Normalise(kept[k].String()) != c14Normalise(texts[i]) {
					ctx.Outcome("kept-differs")
					ctx.Failf(cs, "selector/kept-result-changed", "the selector parsed at step %d (%.30s..., %d bytes) prints as %.30s... (%d bytes) after the later parses of the sequence %v", k, texts[i], len(texts[i]), kept[k].String(), len(kept[k].String()), cs.Order)
					return
				}
			}
			ctx.Outcome("kept-ok")
		},
	}
}

func C14() *engine.Check {
	return &engine.Check{
		Property: "C14",
		Level:    "model_checking",
		Subs:     []*engine.Sub{c14KeptSub(), c14SelectorSub(), c14LongSub(), c14PolicySub(), c14ConstructedSub(), c14SharedSub(), c14CtorSelSub(), selCollideSub("C14")},
		Assumptions: []string{
			"rejected selector texts carry no obligation; accepted normalisations of the printed form: '?' after an identity dot dropped, leading zeros of bracketed integers dropped; anything else counts as a dropped or altered part",
			"policy nodes are generated from a grammar of statement shapes (operator x arity x argument kind), not from arbitrary IPLD",
		},
	}
}

func c14ConstructedSub() *engine.Sub {
	var data []c11Datum
	setup := func(string) error {
		data = c11Data([]string{"-", "0", "1", "2", `"a"`, "1.5", "NaN", "[1]"}, []string{"-", `"a"`}, []string{"-", "[1,2]", "[1,{x:1}]"})
		return nil
	}
	return &engine.Sub{
		Name:  "constructed-policy-roundtrip",
		Rule:  "every atom and composite statement of C11's universe built with the policy constructors: ToIPLD succeeds, FromIPLD(ToIPLD(p)) succeeds, writes back deep-equal, and has identical Match/PartialMatch on 48 data; also through DAG-JSON text; non-trivial = all",
		Bound: func(t string) string { return "C11 atoms (288) + C11 composites of the tier x 48 data" },
		Setup: setup,
		Gen: func(tier string, emit func(any) bool) {
			for _, a := range c11Atoms() {
				if !emit(&c11Case{S: a}) {
					return
				}
			}
			c11Composites(tier, func(s St) bool { return emit(&c11Case{S: s}) })
		},
		NewCase: func() any { return &c11Case{} },
		Run: func(ctx *engine.Ctx, c any) {
			cs := c.(*c11Case)
			if len(data) == 0 {
				setup(ctx.Tier)
			}
			ctx.States(1)
			ctx.Trans(1)
			ctx.Nontrivial(1)
			p := cs.S.policy()
			n, err := p.ToIPLD()
			ctx.Eval(1)
			if err != nil {
				ctx.Outcome("toipld-error")
				ctx.Failf(cs, "constructed/toipld-fails", "policy [%s] cannot be converted to IPLD: %v", cs.S, err)
				return
			}
			p2, err := policy.FromIPLD(n)
			if err != nil {
				ctx.Outcome("fromipld-error")
				ctx.Failf(cs, "constructed/fromipld-rejects", "policy [%s] written as %s is rejected by FromIPLD: %v", cs.S, nodeJSON(n), err)
				return
			}
			n2, err := p2.ToIPLD()
			if err != nil || !ipld.DeepEqual(n, n2) {
				ctx.Failf(cs, "constructed/second-write-differs", "policy [%s]: IPLD form changes across a round trip: %s vs %s", cs.S, nodeJSON(n), nodeJSON(n2))
				return
			}
			var p3 policy.Policy
			if js, err := ipld.Encode(n, dagjson.Encode); err == nil && !strings.Contains(cs.S.String(), "1.0") {
				// (an integral float literal is re-read as an int by the DAG-JSON codec, a dependency issue outside this property)
				p3, err = policy.FromDagJson(string(js))
				if err != nil {
					ctx.Failf(cs, "constructed/dagjson-rejects", "policy [%s] written as DAG-JSON %s is rejected: %v", cs.S, js, err)
					return
				}
			}
			ctx.Outcome("roundtrip-ok")
			for _, d := range data {
				ctx.Eval(4)
				m1, pm1 := mp(p, d.Node)
				m2, pm2 := mp(p2, d.Node)
				if m1 != m2 || pm1 != pm2 {
					ctx.Failf(&c11Case{S: cs.S, Data: d.Name}, "constructed/matching-changes", "policy [%s] on %s: (%v,%v) before and (%v,%v) after the IPLD round trip", cs.S, d.Name, m1, pm1, m2, pm2)
					return
				}
				if p3 != nil {
					m3, pm3 := mp(p3, d.Node)
					if m1 != m3 || pm1 != pm3 {
						ctx.Failf(&c11Case{S: cs.S, Data: d.Name}, "constructed/matching-changes-dagjson", "policy [%s] on %s: (%v,%v) before and (%v,%v) after the DAG-JSON round trip", cs.S, d.Name, m1, pm1, m3, pm3)
						return
					}
				}
			}
		},
	}
}

// c14SharedSub: constructed == statements whose literal IS the node the selector resolves to in the data (a
// policy derived from the arguments it is checked against), through the in-memory and the DAG-CBOR round trip.
func c14SharedSub() *engine.Sub {
	vals := c11SharedVals()
	return &engine.Sub{
		Name:  "constructed-policy-sharing-nodes-with-data",
		Rule:  "== statements (bare, negated, under all, inside a list literal) built with the constructors from a literal that is the very node the selector resolves to in the data (13 values: lists and maps with and without a NaN at depth 1..3, scalars, links): Match / PartialMatch are the same before and after ToIPLD -> FromIPLD, and before and after ToIPLD -> DAG-CBOR bytes -> FromIPLD (a round trip that creates fresh nodes); non-trivial = values holding a NaN",
		Bound: func(string) string { return fmt.Sprintf("%d values x 4 statement forms x 2 round trips", len(vals)) },
		Gen: func(tier string, emit func(any) bool) {
			for v := range vals {
				for f := 0; f < 4; f++ {
					if !emit(&c11SharedCase{Val: v, Form: f}) {
						return
					}
				}
			}
		},
		NewCase: func() any { return &c11SharedCase{} },
		Run: func(ctx *engine.Ctx, c any) {
			cs := c.(*c11SharedCase)
			x := vals[cs.Val]()
			data := nMap(kv{"v", x}, kv{"w", nList(x, x)}, kv{"u", nList(x)})
			var cons policy.Constructor
			switch cs.Form {
			case 0:
				cons = policy.Equal(".v", x)
			case 1:
				cons = policy.Not(policy.Equal(".v", x))
			case 2:
				cons = policy.All(".w", policy.Equal(".", x))
			default:
				cons = policy.Equal(".u", nList(x))
			}
			p := policy.MustConstruct(cons)
			ctx.States(1)
			if refDeepEqual(x, x) == triDC {
				ctx.Nontrivial(1)
			}
			n, err := p.ToIPLD()
			if err != nil {
				ctx.Failf(cs, "constructed/toipld-fails", "form %d on value #%d: %v", cs.Form, cs.Val, err)
				return
			}
			m1, pm1 := mp(p, data)
			check := func(how string, q policy.Policy) {
				m2, pm2 := mp(q, data)
				ctx.Eval(2)
				ctx.Trans(1)
				ctx.Outcome(fmt.Sprint(m1, m2))
				if m1 != m2 || pm1 != pm2 {
					ctx.Failf(cs, "constructed/matching-changes-"+how, "form %d on value #%d (literal = the data's own node): (%v,%v) as constructed, (%v,%v) after the %s round trip", cs.Form, cs.Val, m1, pm1, m2, pm2, how)
				}
			}
			if p2, err := policy.FromIPLD(n); err != nil {
				ctx.Failf(cs, "constructed/fromipld-rejects", "form %d on value #%d: %v", cs.Form, cs.Val, err)
			} else {
				check("ipld", p2)
			}
			b, err := ipld.Encode(n, dagcbor.Encode)
			if err != nil {
				ctx.Outcome("dagcbor-cannot-carry-it")
				return
			}
			n3, err := ipld.Decode(b, dagcbor.Decode)
			if err != nil {
				ctx.Outcome("dagcbor-cannot-carry-it")
				return
			}
			if p3, err := policy.FromIPLD(n3); err != nil {
				ctx.Failf(cs, "constructed/fromipld-rejects", "form %d on value #%d after DAG-CBOR: %v", cs.Form, cs.Val, err)
			} else {
				check("dag-cbor", p3)
			}
		},
	}
}
