package props

import (
	"bytes"
	"crypto/sha256"
	"encoding/asn1"
	"encoding/binary"
	"encoding/hex"
	"fmt"
	"math/big"
	"strings"

	"github.com/decred/dcrd/dcrec/secp256k1/v4"
	dcrecdsa "github.com/decred/dcrd/dcrec/secp256k1/v4/ecdsa"

	"github.com/ipfs/go-cid"
	"github.com/ipld/go-ipld-prime"
	"github.com/ipld/go-ipld-prime/codec/dagcbor"
	"github.com/ipld/go-ipld-prime/codec/dagjson"
	"github.com/ipld/go-ipld-prime/datamodel"
	"github.com/multiformats/go-multihash"

	"github.com/ucan-wg/go-ucan/pkg/container"
	"github.com/ucan-wg/go-ucan/token"
	"github.com/ucan-wg/go-ucan/token/delegation"
	"github.com/ucan-wg/go-ucan/token/invocation"

	"verifharness/engine"
	"verifharness/fixtures"
)

type namedDecoder struct {
	Name string
	Fn   func(b []byte) (any, error)
}

func c06Decoders(kind, codec string) []namedDecoder {
	if codec == "json" {
		return []namedDecoder{
			{"token.FromDagJson", func(b []byte) (any, error) { return token.FromDagJson(b) }},
			{"typed.FromDagJson", func(b []byte) (any, error) {
				if kind == "dlg" {
					return delegation.FromDagJson(b)
				}
				return invocation.FromDagJson(b)
			}},
			{"token.FromDagJsonReader", func(b []byte) (any, error) { return token.FromDagJsonReader(bytes.NewReader(b)) }},
		}
	}
	return []namedDecoder{
		{"token.FromSealed", func(b []byte) (any, error) { t, _, err := token.FromSealed(b); return t, err }},
		{"typed.FromSealed", func(b []byte) (any, error) {
			if kind == "dlg" {
				t, _, err := delegation.FromSealed(b)
				return t, err
			}
			t, _, err := invocation.FromSealed(b)
			return t, err
		}},
		{"token.FromSealedReader", func(b []byte) (any, error) { t, _, err := token.FromSealedReader(bytes.NewReader(b)); return t, err }},
		{"token.FromDagCbor", func(b []byte) (any, error) { return token.FromDagCbor(b) }},
		{"typed.FromDagCbor", func(b []byte) (any, error) {
			if kind == "dlg" {
				return delegation.FromDagCbor(b)
			}
			return invocation.FromDagCbor(b)
		}},
		{"typed.FromDagCborReader", func(b []byte) (any, error) {
			if kind == "dlg" {
				return delegation.FromDagCborReader(bytes.NewReader(b))
			}
			return invocation.FromDagCborReader(bytes.NewReader(b))
		}},
		{"typed.FromIPLD", func(b []byte) (any, error) {
			n, err := ipld.Decode(b, dagcbor.Decode)
			if err != nil {
				return nil, err
			}
			if kind == "dlg" {
				return delegation.FromIPLD(n)
			}
			return invocation.FromIPLD(n)
		}},
	}
}

// c06ContainerDecoders: the same bytes offered inside a container, alone or next to an invocation that is
// genuinely signed by some other party (the forger) and names the CID of those bytes as its proof. A
// container reader is a decoder: what it returns must have passed verification of its OWN signature.
func c06ContainerDecoders() []namedDecoder {
	via := func(format string, pin bool) func(b []byte) (any, error) {
		return func(b []byte) (any, error) {
			h := sha256.Sum256(b)
			mh, _ := multihash.Encode(h[:], multihash.SHA2_256)
			c := cid.NewCidV1(cid.DagCBOR, mh)
			w := container.NewWriter()
			w.AddSealed(c, b)
			pinCid := cid.Undef
			if pin {
				forger := fixtures.Get("ed25519", 2)
				inv, err := invocation.New(forger.DID, forger.DID, "/pin", []cid.Cid{c}, invocation.WithNonce(fixedNonce), invocation.WithoutInvokedAt())
				if err != nil {
					panic(err)
				}
				data, pc, err := inv.ToSealed(forger.Priv)
				if err != nil {
					panic(err)
				}
				w.AddSealed(pc, data)
				pinCid = pc
			}
			var rd container.Reader
			var err error
			if format == "car" {
				var out []byte
				if out, err = w.ToCar(); err == nil {
					rd, err = container.FromCar(out)
				}
			} else {
				var out []byte
				if out, err = w.ToCbor(); err == nil {
					rd, err = container.FromCbor(out)
				}
			}
			if err != nil {
				return nil, err
			}
			for tc, t := range rd.GetAllDelegations() {
				if tc != pinCid {
					return t, nil
				}
			}
			for tc, t := range rd.GetAllInvocations() {
				if tc != pinCid {
					return t, nil
				}
			}
			return nil, fmt.Errorf("the container reader succeeds without returning the entry")
		}
	}
	return []namedDecoder{
		{"container.FromCbor", via("cbor", false)},
		{"container.FromCbor(next to an invocation whose proof list names the entry)", via("cbor", true)},
		{"container.FromCar(next to an invocation whose proof list names the entry)", via("car", true)},
	}
}

// keyForIssuer finds the fixture key whose DID prints as iss.
func keyForIssuer(iss string) *fixtures.Key {
	for _, k := range fixtures.All() {
		if k.Err == nil && k.DID.String() == iss {
			return k
		}
	}
	return nil
}

// independentlyVerified re-checks an accepted envelope without go-ucan's envelope
// package: the header must be the one of the issuer's key type and the signature
// must verify, under the issuer's fixture key, over the canonical DAG-CBOR
// encoding of the decoded {h, payload} map.
func independentlyVerified(data []byte, codec string, view TokView) (bool, string) {
	var n datamodel.Node
	var err error
	if codec == "json" {
		n, err = ipld.Decode(data, dagjson.Decode)
	} else {
		n, err = ipld.Decode(data, dagcbor.Decode)
	}
	if err != nil {
		return false, "accepted input does not decode: " + err.Error()
	}
	sigN, err := n.LookupByIndex(0)
	if err != nil {
		return false, "no signature element"
	}
	sig, err := sigN.AsBytes()
	if err != nil {
		return false, "signature is not bytes"
	}
	sp, err := n.LookupByIndex(1)
	if err != nil {
		return false, "no SigPayload element"
	}
	k := keyForIssuer(view.Iss)
	if k == nil {
		return false, "issuer " + view.Iss + " is not a fixture principal (content was altered)"
	}
	hN, err := sp.LookupByString("h")
	if err != nil {
		return false, "no header"
	}
	h, _ := hN.AsBytes()
	if !bytes.Equal(h, headerFor(k.Alg)) {
		return false, fmt.Sprintf("header %x is not the header of the issuer's key type (%s)", h, k.Alg)
	}
	ok, err := k.Pub.Verify(mustEncodeCbor(sp), sig)
	if err != nil || !ok {
		return false, "signature does not verify under the issuer's key over the canonical encoding of the decoded header+payload"
	}
	return true, ""
}

type c06Artefact struct {
	Kind  string `json:"kind"`
	Alg   string `json:"alg"`
	Codec string `json:"codec"`
	Large bool   `json:"large,omitempty"` // the token carries one string value of 5120 bytes
}

var c06SpecOpts = map[string]map[string]string{
	"dlg": {"pol": "eq", "meta": "k=str-repl", "nonce": "12", "exp": "whole", "nbf": "in-past"},
	"inv": {"args": "k=int1", "meta": "k=str-repl", "nonce": "12", "iat": "whole", "exp": "whole", "cause": "cid", "aud": "third"},
}

func c06Bytes(a c06Artefact) []byte {
	id := "c06/" + a.Kind + "/" + a.Alg + "/" + a.Codec + fmt.Sprint(a.Large)
	headerMu.Lock()
	defer headerMu.Unlock()
	if b, ok := baseCache[id]; ok {
		return b
	}
	opts := c06SpecOpts[a.Kind]
	if a.Large {
		opts = map[string]string{}
		for k, v := range c06SpecOpts[a.Kind] {
			opts[k] = v
		}
		if a.Kind == "inv" {
			opts["args"] = "k=str-5k"
		} else {
			opts["meta"] = "k=str-5k"
		}
	}
	tok, key, err := BuildToken(TokSpec{Kind: a.Kind, Alg: a.Alg, Opts: opts})
	if err != nil {
		panic(err)
	}
	var b []byte
	if a.Codec == "json" {
		b, err = tok.(sealer).ToDagJson(key.Priv)
	} else {
		b, _, err = tok.(sealer).ToSealed(key.Priv)
	}
	if err != nil {
		panic(err)
	}
	baseCache[id] = b
	return b
}

type c06Case struct {
	Art  c06Artefact `json:"art"`
	Op   string      `json:"op"`  // bitflip | subst | delete | insert | truncate | none
	Off  int         `json:"off"` // byte offset
	Val  int         `json:"val"` // -1 = all values of the operation at this offset
	Orig string      `json:"orig,omitempty"`
}

func c06Mutate(orig []byte, op string, off, val int) []byte {
	switch op {
	case "none":
		return append([]byte{}, orig...)
	case "bitflip":
		m := append([]byte{}, orig...)
		m[off] ^= 1 << uint(val)
		return m
	case "subst":
		m := append([]byte{}, orig...)
		m[off] = byte(val)
		return m
	case "delete":
		return append(append([]byte{}, orig[:off]...), orig[off+1:]...)
	case "insert":
		return append(append(append([]byte{}, orig[:off]...), byte(val)), orig[off:]...)
	case "truncate":
		return append([]byte{}, orig[:off]...)
	}
	panic(op)
}

func c06ValRange(op string) int {
	switch op {
	case "bitflip":
		return 8
	case "subst", "insert":
		return 256
	}
	return 1
}

// c06Check runs every decoder on mutated and applies the oracle.
func c06Check(ctx *engine.Ctx, art c06Artefact, origView TokView, orig, mutated []byte, rc func() any, tag string) {
	c06CheckC(ctx, art, origView, orig, mutated, rc, tag, true)
}

func c06CheckC(ctx *engine.Ctx, art c06Artefact, origView TokView, orig, mutated []byte, rc func() any, tag string, containers bool) {
	decs := c06Decoders(art.Kind, art.Codec)
	if containers && art.Codec == "cbor" {
		decs = append(decs, c06ContainerDecoders()...)
	}
	for _, d := range decs {
		ctx.Eval(1)
		ctx.Trans(1)
		got, err := d.Fn(mutated)
		if err != nil {
			ctx.Outcome("rejected")
			continue
		}
		v := ViewOf(got)
		if diff := DiffViews(origView, v); len(diff) > 0 {
			ctx.Outcome("accepted-altered-content")
			ctx.Failf(rc(), "altered-content-accepted/"+tag, "%s accepts modified bytes and returns a token that differs from what the issuer signed on %v", d.Name, diff)
			continue
		}
		if ok, why := independentlyVerified(mutated, art.Codec, v); !ok {
			ctx.Outcome("accepted-unverifiable")
			ctx.Failf(rc(), "unverifiable-accepted/"+tag, "%s accepts bytes that fail independent verification: %s", d.Name, why)
			continue
		}
		ctx.Outcome("accepted-same-content")
	}
}

func c06ByteSub() *engine.Sub {
	arts := func(tier string) []c06Artefact {
		algs := []string{"ed25519", "secp256k1", "p256", "rsa2048"}
		if tier == "thorough" {
			algs = []string{"ed25519", "secp256k1", "p256", "p384", "p521", "rsa2048"}
		}
		var r []c06Artefact
		for _, alg := range algs {
			for _, kind := range []string{"dlg", "inv"} {
				for _, codec := range []string{"cbor", "json"} {
					r = append(r, c06Artefact{kind, alg, codec, false})
				}
			}
		}
		// tokens with one value of 5120 bytes (every byte of a long value is signed): bit flips only
		r = append(r, c06Artefact{"inv", "ed25519", "cbor", true}, c06Artefact{"dlg", "ed25519", "json", true})
		if tier == "thorough" {
			r = append(r, c06Artefact{"dlg", "ed25519", "cbor", true}, c06Artefact{"inv", "ed25519", "json", true})
		}
		return r
	}
	return &engine.Sub{
		Name: "byte-level-corruption",
		Rule: "for each sealed artefact ({delegation, invocation} x algorithm x {DAG-CBOR sealed bytes, DAG-JSON text}; plus Ed25519 tokens with one 5120-byte string value: bit flips only, in quick the lowest and highest bit of every byte of two of the four artefacts): the unmodified bytes, every single-bit flip, every single-byte deletion, every truncation length, and (Ed25519, secp256k1 and P-256 artefacts in thorough; the Ed25519 artefacts in quick) every byte substitution and every single-byte insertion at every offset, through every decoder (7 CBOR / 3 JSON entry points; for deletions and truncations (Ed25519 artefacts: also bit flips) of the sealed bytes also through container.FromCbor / FromCar, alone and next to a genuinely signed invocation of another party whose proof list names the CID of the modified bytes): error, or a token whose every field equals the original's and which passes an independent signature re-verification; non-trivial = mutations that some decoder accepts or that reach signature verification",
		Bound: func(t string) string {
			if t == "thorough" {
				return "6 algorithms x 2 kinds x 2 codecs; bit flips, deletions, truncations at every offset for all; 255 substitutions and 256 insertions at every offset for Ed25519, secp256k1 and P-256"
			}
			return "3 algorithms x 2 kinds x 2 codecs; bit flips, deletions, truncations everywhere; substitutions and insertions on the Ed25519 artefacts"
		},
		Gen: func(tier string, emit func(any) bool) {
			for _, a := range arts(tier) {
				b := c06Bytes(a)
				oh := ""
				if a.Alg != "ed25519" && a.Alg != "rsa2048" {
					oh = hex.EncodeToString(b)
				}
				if !emit(&c06Case{Art: a, Op: "none", Val: -1, Orig: oh}) {
					return
				}
				ops := []string{"bitflip", "delete", "truncate"}
				if a.Alg == "ed25519" || (tier == "thorough" && (a.Alg == "secp256k1" || a.Alg == "p256")) {
					ops = append(ops, "subst", "insert")
				}
				if a.Large {
					ops = []string{"bitflip"}
				}
				for _, op := range ops {
					n := len(b)
					if op == "insert" {
						n++
					}
					for off := 0; off < n; off++ {
						if a.Large && tier != "thorough" {
							// quick: the lowest and the highest bit of every byte
							if !emit(&c06Case{Art: a, Op: op, Off: off, Val: 0, Orig: oh}) || !emit(&c06Case{Art: a, Op: op, Off: off, Val: 7, Orig: oh}) {
								return
							}
							continue
						}
						if !emit(&c06Case{Art: a, Op: op, Off: off, Val: -1, Orig: oh}) {
							return
						}
					}
				}
			}
		},
		NewCase: func() any { return &c06Case{Val: -1} },
		Run: func(ctx *engine.Ctx, c any) {
			cs := c.(*c06Case)
			orig := c06Bytes(cs.Art)
			if cs.Orig != "" {
				orig, _ = hex.DecodeString(cs.Orig)
			}
			var origTok any
			var err error
			if cs.Art.Codec == "json" {
				origTok, err = token.FromDagJson(orig)
			} else {
				origTok, err = token.FromDagCbor(orig)
			}
			if err != nil {
				// the genuine, freshly sealed artefact is rejected: cannot happen on a deterministic
				// library (C07 would report it for every token); reported here so that a decoder
				// that fails intermittently is a finding and not a harness crash
				ctx.Outcome("genuine-artefact-rejected")
				ctx.Failf(cs, "genuine-artefact-rejected", "the unmodified %s artefact of %s/%s is rejected: %v", cs.Art.Codec, cs.Art.Kind, cs.Art.Alg, err)
				return
			}
			origView := ViewOf(origTok)
			ctx.States(1)
			lo, hi := 0, c06ValRange(cs.Op)
			if cs.Val >= 0 {
				lo, hi = cs.Val, cs.Val+1
			}
			for v := lo; v < hi; v++ {
				if cs.Op == "subst" && byte(v) == orig[cs.Off] {
					continue
				}
				m := c06Mutate(orig, cs.Op, cs.Off, v)
				if cs.Op != "none" {
					ctx.Nontrivial(1)
				}
				v := v
				c06CheckC(ctx, cs.Art, origView, orig, m, func() any {
					return &c06Case{Art: cs.Art, Op: cs.Op, Off: cs.Off, Val: v, Orig: cs.Orig}
				}, cs.Op+"/"+cs.Art.Codec, cs.Op == "none" || cs.Op == "delete" || cs.Op == "truncate" || (cs.Op == "bitflip" && cs.Art.Alg == "ed25519"))
			}
		},
	}
}

// ---- structured rewrites ----

type c06RewriteCase struct {
	Kind string `json:"kind"`
	Alg  string `json:"alg"`
	Rw   string `json:"rw"`
	Arg  string `json:"arg,omitempty"`
	N    int    `json:"n,omitempty"`
}

func c06FieldAlternatives(kind string) []kv {
	other := fixtures.Get("ed25519", 3).DID.String()
	alts := []kv{
		{"iss", nStr(other)}, {"aud", nStr(other)}, {"sub", nStr(other)},
		{"cmd", nStr("/b")}, {"cmd", nStr("/")}, {"nonce", nBytes([]byte("BBBBBBBBBBBB"))},
		{"meta", nMap(kv{"k", nStr("changed")})}, {"exp", nInt(4102444801)}, {"exp", nNull()},
	}
	if kind == "dlg" {
		alts = append(alts, kv{"pol", nList()}, kv{"pol", nList(nList(nStr("=="), nStr(".a"), nInt(2)))}, kv{"nbf", nInt(1)})
	} else {
		alts = append(alts, kv{"args", nMap(kv{"k", nInt(2)})}, kv{"args", nMap()}, kv{"prf", nList()}, kv{"prf", nList(nLink(5))}, kv{"iat", nInt(5)}, kv{"cause", nLink(6)})
	}
	return alts
}

func c06RewriteSub() *engine.Sub {
	return &engine.Sub{
		Name:  "structured-rewrites",
		Rule:  "envelopes rebuilt with the harness' own assembler: every payload field replaced by every alternative value or dropped while keeping the old signature; the same SigPayload signed by another key of the same and of every other algorithm; signed by the issuer and by another key of its algorithm with the signature in the other encodings of its family (ECDSA: fixed-width r||s, s||r, DER; secp256k1 additionally the 65-byte compact recoverable form with every header byte class; Ed25519/RSA: reversed and doubled); the header replaced by every other algorithm's header, truncated, extended, emptied, rewritten with each (and all) of its varints in a non-minimal spelling, or given another payload-encoding segment (DAG-JSON, raw, DAG-PB, CBOR), with the old signature, re-signed by the issuer, and - DAG-JSON - signed by the issuer over the DAG-JSON form of the SigPayload; the signature truncated to every length, emptied, extended; signature and header taken from another valid token of the same issuer; a forged payload (other audience / command) that embeds the genuine signature followed by the genuine signed bytes in its nonce or metadata, under the genuine signature; the forged payload under a signature element that carries the genuine signature next to the bytes it signs (6 layouts), and under every small well-formed DER SEQUENCE{INTEGER r, INTEGER s} with r, s over 8 short contents (empty included, short and long length form) and constant strings of the usual signature lengths; an issuer string that names the victim followed by '#', '?', '/' and another key or DID, signed by that other key. Every decoder - including the container readers, with and without such a 'pinning' invocation next to the entry - must reject, or return the original content with an independently verifiable signature; non-trivial = all",
		Bound: func(t string) string { return "2 kinds x 6 (quick) / 7 (thorough) algorithms" },
		Gen: func(tier string, emit func(any) bool) {
			algs := []string{"ed25519", "secp256k1", "p256", "p384", "p521", "rsa2048"}
			if tier == "thorough" {
				algs = fixtures.Algs()
			}
			for _, alg := range algs {
				for _, kind := range []string{"dlg", "inv"} {
					for i := range c06FieldAlternatives(kind) {
						if !emit(&c06RewriteCase{Kind: kind, Alg: alg, Rw: "field-replaced-old-sig", N: i}) {
							return
						}
					}
					p := splitEnvelope(c06Bytes(c06Artefact{kind, alg, "cbor", false}))
					for i := range p.Payload {
						if !emit(&c06RewriteCase{Kind: kind, Alg: alg, Rw: "field-dropped-old-sig", N: i}) {
							return
						}
					}
					for _, k := range fixtures.All() {
						if !emit(&c06RewriteCase{Kind: kind, Alg: alg, Rw: "signed-by-other-key", Arg: k.Alg, N: k.Idx}) {
							return
						}
					}
					// the same SigPayload signed by the issuer and by another key of the same algorithm, with the
					// signature delivered in the other encodings known for that signature family
					for _, f := range altSigFormats(alg) {
						for _, who := range []string{"other-key", "issuer"} {
							if !emit(&c06RewriteCase{Kind: kind, Alg: alg, Rw: "signature-in-other-format/" + who, Arg: f}) {
								return
							}
						}
					}
					// the genuine signature and the genuine signed bytes embedded in a forged payload (signature wrapping)
					for _, where := range []string{"nonce-tail", "nonce-head", "meta-bytes", "meta-string"} {
						if !emit(&c06RewriteCase{Kind: kind, Alg: alg, Rw: "genuine-signed-bytes-embedded", Arg: where}) {
							return
						}
					}
					// a forged payload under a signature element that carries the genuine signature next to the bytes it signs
					// ("combined mode" of NaCl-style libraries), or next to the forged bytes, or the genuine one doubled
					for _, lay := range []string{"sig+signed", "signed+sig", "sig+forged", "forged+sig", "sig+sig+signed", "sig+envelope"} {
						if !emit(&c06RewriteCase{Kind: kind, Alg: alg, Rw: "signature-carries-message", Arg: lay}) {
							return
						}
					}
					// a forged payload under every small well-formed DER SEQUENCE { INTEGER r, INTEGER s } (r, s over 8 short
					// contents, empty included; short and long length forms) and under constant strings of the usual signature lengths
					for n := 0; n < c06DegenerateCount; n++ {
						if !emit(&c06RewriteCase{Kind: kind, Alg: alg, Rw: "signature-degenerate", N: n}) {
							return
						}
					}
					// an issuer string that names the victim but carries something else after it, signed by another key
					for _, deco := range []string{"#other-multibase", "#other-did", "?other-did", "/other-multibase", "#", " ", "%23other-multibase"} {
						for _, who := range []string{"other-key", "issuer"} {
							if !emit(&c06RewriteCase{Kind: kind, Alg: alg, Rw: "iss-decorated/" + who, Arg: deco}) {
								return
							}
						}
					}
					for _, halg := range fixtures.Algs() {
						for _, resign := range []string{"header-replaced-old-sig", "header-replaced-resigned"} {
							if !emit(&c06RewriteCase{Kind: kind, Alg: alg, Rw: resign, Arg: halg}) {
								return
							}
						}
					}
					for _, hv := range []string{"empty", "truncated", "extended", "first-byte-changed", "unknown", "nonminimal-varint-0", "nonminimal-varint-1", "nonminimal-varint-2", "nonminimal-varint-3", "nonminimal-varint-4", "all-varints-nonminimal"} {
						for _, resign := range []string{"header-replaced-old-sig", "header-replaced-resigned"} {
							if !emit(&c06RewriteCase{Kind: kind, Alg: alg, Rw: resign, Arg: hv}) {
								return
							}
						}
					}
					// the issuer's header with another payload-encoding segment (DAG-JSON, raw, DAG-PB), the signature made by the
					// issuer over the SigPayload in the announced encoding where the harness has one: only signatures over the
					// canonical DAG-CBOR encoding count
					for _, enc := range []string{"payload-encoding-dag-json", "payload-encoding-raw", "payload-encoding-dag-pb", "payload-encoding-cbor"} {
						for _, resign := range []string{"header-replaced-old-sig", "header-replaced-resigned", "header-replaced-signed-over-announced-encoding"} {
							if !emit(&c06RewriteCase{Kind: kind, Alg: alg, Rw: resign, Arg: enc}) {
								return
							}
						}
					}
					for n := 0; n <= len(p.Sig)+2; n++ {
						if !emit(&c06RewriteCase{Kind: kind, Alg: alg, Rw: "signature-length", N: n}) {
							return
						}
					}
					for _, sw := range []string{"sig-from-other-token", "payload-under-other-tag-old-sig", "payload-under-other-tag-resigned"} {
						if !emit(&c06RewriteCase{Kind: kind, Alg: alg, Rw: sw}) {
							return
						}
					}
				}
			}
		},
		NewCase: func() any { return &c06RewriteCase{} },
		Run: func(ctx *engine.Ctx, c any) {
			cs := c.(*c06RewriteCase)
			art := c06Artefact{cs.Kind, cs.Alg, "cbor", false}
			orig := c06Bytes(art)
			key := fixtures.Get(cs.Alg, 0)
			p := splitEnvelope(orig)
			origTok, err := token.FromDagCbor(orig)
			if err != nil {
				// the genuine artefact was produced by ToSealed a moment ago: a decoder that
				// rejects it is a finding (hidden state in the decode path), not a harness error
				ctx.Failf(cs, "genuine-artefact-rejected", "the genuine %s/%s token does not decode: %v", cs.Kind, cs.Alg, err)
				return
			}
			origView := ViewOf(origTok)
			payload := func(entries []kv) datamodel.Node { return nMap(entries...) }
			var mutated []byte
			switch cs.Rw {
			case "field-replaced-old-sig":
				alt := c06FieldAlternatives(cs.Kind)[cs.N]
				var es []kv
				found := false
				for _, e := range p.Payload {
					if e.K == alt.K {
						es = append(es, alt)
						found = true
					} else {
						es = append(es, e)
					}
				}
				if !found {
					es = append(es, alt)
				}
				mutated = assembleWithSig(p.Sig, sigPayloadNode(p.Header, p.Tag, payload(es)))
			case "field-dropped-old-sig":
				var es []kv
				for i, e := range p.Payload {
					if i != cs.N {
						es = append(es, e)
					}
				}
				mutated = assembleWithSig(p.Sig, sigPayloadNode(p.Header, p.Tag, payload(es)))
			case "signed-by-other-key":
				ok := fixtures.Get(cs.Arg, cs.N)
				if ok == key {
					ctx.Outcome("same-key")
					return
				}
				mutated = assemble(ok, sigPayloadNode(p.Header, p.Tag, payload(p.Payload)))
			case "signature-in-other-format/other-key", "signature-in-other-format/issuer":
				signer := key
				if strings.HasSuffix(cs.Rw, "/other-key") {
					switch cs.Alg {
					case "rsa2048":
						signer = fixtures.Get("rsa3072", 0)
					case "rsa3072":
						signer = fixtures.Get("rsa2048", 0)
					default:
						signer = fixtures.Get(cs.Alg, 1)
					}
				}
				sp := sigPayloadNode(p.Header, p.Tag, payload(p.Payload))
				sig := altFormatSignature(signer, cs.Alg, cs.Arg, mustEncodeCbor(sp))
				mutated = assembleWithSig(sig, sp)
			case "genuine-signed-bytes-embedded":
				genuine := mustEncodeCbor(sigPayloadNode(p.Header, p.Tag, payload(p.Payload)))
				blob := append(append([]byte{}, p.Sig...), genuine...)
				other := fixtures.Get("ed25519", 3).DID.String()
				var es []kv
				hasMeta := false
				for _, e := range p.Payload {
					switch {
					case e.K == "aud" || (e.K == "sub" && cs.Kind == "inv"):
						es = append(es, kv{e.K, nStr(other)})
					case e.K == "cmd":
						es = append(es, kv{"cmd", nStr("/forged")})
					case e.K == "nonce" && cs.Arg == "nonce-tail":
						es = append(es, kv{"nonce", nBytes(append([]byte("0123456789ab"), blob...))})
					case e.K == "nonce" && cs.Arg == "nonce-head":
						es = append(es, kv{"nonce", nBytes(append(append([]byte{}, blob...), []byte("0123456789ab")...))})
					case e.K == "meta" && cs.Arg == "meta-bytes":
						hasMeta = true
						es = append(es, kv{"meta", nMap(kv{"z", nBytes(blob)})})
					case e.K == "meta" && cs.Arg == "meta-string":
						hasMeta = true
						es = append(es, kv{"meta", nMap(kv{"z", nStr(string(blob))})})
					default:
						es = append(es, e)
					}
				}
				if !hasMeta && cs.Arg == "meta-bytes" {
					es = append(es, kv{"meta", nMap(kv{"z", nBytes(blob)})})
				}
				if !hasMeta && cs.Arg == "meta-string" {
					es = append(es, kv{"meta", nMap(kv{"z", nStr(string(blob))})})
				}
				mutated = assembleWithSig(p.Sig, sigPayloadNode(p.Header, p.Tag, payload(es)))
			case "signature-carries-message", "signature-degenerate":
				genuine := mustEncodeCbor(sigPayloadNode(p.Header, p.Tag, payload(p.Payload)))
				other := fixtures.Get("ed25519", 3).DID.String()
				var es []kv
				for _, e := range p.Payload {
					switch {
					case e.K == "aud" || (e.K == "sub" && cs.Kind == "inv"):
						es = append(es, kv{e.K, nStr(other)})
					case e.K == "cmd":
						es = append(es, kv{"cmd", nStr("/forged")})
					default:
						es = append(es, e)
					}
				}
				fsp := sigPayloadNode(p.Header, p.Tag, payload(es))
				forged := mustEncodeCbor(fsp)
				var sig []byte
				if cs.Rw == "signature-degenerate" {
					sig = c06DegenerateSig(cs.N)
				} else {
					for _, part := range strings.Split(cs.Arg, "+") {
						switch part {
						case "sig":
							sig = append(sig, p.Sig...)
						case "signed":
							sig = append(sig, genuine...)
						case "forged":
							sig = append(sig, forged...)
						case "envelope":
							sig = append(sig, orig...)
						}
					}
				}
				mutated = assembleWithSig(sig, fsp)
			case "iss-decorated/other-key", "iss-decorated/issuer":
				signer := key
				otherKey := fixtures.Get(cs.Alg, 0)
				switch cs.Alg {
				case "rsa2048":
					otherKey = fixtures.Get("rsa3072", 0)
				case "rsa3072":
					otherKey = fixtures.Get("rsa2048", 0)
				default:
					otherKey = fixtures.Get(cs.Alg, 1)
				}
				if strings.HasSuffix(cs.Rw, "/other-key") {
					signer = otherKey
				}
				odid := otherKey.DID.String()
				deco := strings.NewReplacer("other-multibase", strings.TrimPrefix(odid, "did:key:"), "other-did", odid).Replace(cs.Arg)
				var es []kv
				for _, e := range p.Payload {
					if e.K == "iss" {
						v, _ := e.V.AsString()
						es = append(es, kv{"iss", nStr(v + deco)})
					} else {
						es = append(es, e)
					}
				}
				hdr := p.Header
				if signer != key {
					hdr = headerFor(signer.Alg)
				}
				mutated = assemble(signer, sigPayloadNode(hdr, p.Tag, payload(es)))
			case "header-replaced-old-sig", "header-replaced-resigned", "header-replaced-signed-over-announced-encoding":
				var h []byte
				switch cs.Arg {
				case "payload-encoding-dag-json":
					h = append(append([]byte{}, p.Header[:len(p.Header)-1]...), 0xa9, 0x02)
				case "payload-encoding-raw":
					h = append(append([]byte{}, p.Header[:len(p.Header)-1]...), 0x55)
				case "payload-encoding-dag-pb":
					h = append(append([]byte{}, p.Header[:len(p.Header)-1]...), 0x70)
				case "payload-encoding-cbor":
					h = append(append([]byte{}, p.Header[:len(p.Header)-1]...), 0x51)
				case "empty":
					h = []byte{}
				case "truncated":
					h = p.Header[:len(p.Header)-1]
				case "extended":
					h = append(append([]byte{}, p.Header...), 0x71)
				case "nonminimal-varint-0", "nonminimal-varint-1", "nonminimal-varint-2", "nonminimal-varint-3", "nonminimal-varint-4", "all-varints-nonminimal":
					// the same numbers, the k-th varint (or all) written with a padding group: 0x34 -> 0xb4 0x00
					pos, k := 0, 0
					for pos < len(p.Header) {
						_, n := binary.Uvarint(p.Header[pos:])
						if n <= 0 {
							n = len(p.Header) - pos
						}
						v := append([]byte{}, p.Header[pos:pos+n]...)
						if cs.Arg == "all-varints-nonminimal" || cs.Arg == fmt.Sprintf("nonminimal-varint-%d", k) {
							v[len(v)-1] |= 0x80
							v = append(v, 0x00)
						}
						h = append(h, v...)
						pos += n
						k++
					}
				case "first-byte-changed":
					h = append([]byte{p.Header[0] ^ 1}, p.Header[1:]...)
				case "unknown":
					h = []byte{0x34, 0xff, 0x7f, 0x71}
				default:
					h = headerFor(cs.Arg)
				}
				if bytes.Equal(h, p.Header) {
					ctx.Outcome("same-header")
					return
				}
				sp := sigPayloadNode(h, p.Tag, payload(p.Payload))
				switch {
				case cs.Rw == "header-replaced-old-sig":
					mutated = assembleWithSig(p.Sig, sp)
				case cs.Rw == "header-replaced-signed-over-announced-encoding" && cs.Arg == "payload-encoding-dag-json":
					var buf bytes.Buffer
					if err := dagjson.Encode(sp, &buf); err != nil {
						ctx.Outcome("no-dag-json-form")
						return
					}
					sig, err := key.Priv.Sign(buf.Bytes())
					if err != nil {
						panic(err)
					}
					mutated = assembleWithSig(sig, sp)
				default:
					mutated = assemble(key, sp)
				}
			case "signature-length":
				var sig []byte
				if cs.N <= len(p.Sig) {
					sig = p.Sig[:cs.N]
				} else {
					sig = append(append([]byte{}, p.Sig...), make([]byte, cs.N-len(p.Sig))...)
				}
				if bytes.Equal(sig, p.Sig) {
					ctx.Outcome("same-signature")
					return
				}
				mutated = assembleWithSig(sig, sigPayloadNode(p.Header, p.Tag, payload(p.Payload)))
			case "sig-from-other-token":
				otherKind := "inv"
				if cs.Kind == "inv" {
					otherKind = "dlg"
				}
				op := splitEnvelope(c06Bytes(c06Artefact{otherKind, cs.Alg, "cbor", false}))
				mutated = assembleWithSig(op.Sig, sigPayloadNode(p.Header, p.Tag, payload(p.Payload)))
			case "payload-under-other-tag-old-sig", "payload-under-other-tag-resigned":
				tag := invTag
				if cs.Kind == "inv" {
					tag = dlgTag
				}
				sp := sigPayloadNode(p.Header, tag, payload(p.Payload))
				if cs.Rw == "payload-under-other-tag-old-sig" {
					mutated = assembleWithSig(p.Sig, sp)
				} else {
					mutated = assemble(key, sp)
				}
			default:
				panic(cs.Rw)
			}
			ctx.States(1)
			ctx.Nontrivial(1)
			tag := cs.Rw
			if cs.Rw == "header-replaced-resigned" || cs.Rw == "header-replaced-old-sig" || strings.HasPrefix(cs.Rw, "signature-in-other-format/") || strings.HasPrefix(cs.Rw, "iss-decorated/") || cs.Rw == "genuine-signed-bytes-embedded" {
				tag += "/" + cs.Arg
			}
			c06Check(ctx, art, origView, orig, mutated, func() any { return cs }, tag)
			// the other typed decoder must never accept this envelope either
			other := "inv"
			if cs.Kind == "inv" {
				other = "dlg"
			}
			for _, d := range c06Decoders(other, "cbor")[1:2] {
				ctx.Eval(1)
				if got, err := d.Fn(mutated); err == nil {
					v := ViewOf(got)
					if ok, why := independentlyVerified(mutated, "cbor", v); !ok {
						ctx.Failf(cs, "unverifiable-accepted/other-type/"+tag, "the %s decoder accepts it: %s", other, why)
					}
				}
			}
		},
	}
}

// altSigFormats lists the other known encodings of a signature of the algorithm's family.
func altSigFormats(alg string) []string {
	switch alg {
	case "secp256k1":
		return []string{"raw-rs", "raw-sr", "compact-compressed", "compact-uncompressed", "compact-header-0", "der-of-sha256-by-decred"}
	case "p256", "p384", "p521":
		return []string{"raw-rs", "raw-sr", "raw-rs-unpadded"}
	case "ed25519":
		return []string{"reversed", "doubled", "der-wrapped"}
	default:
		return []string{"reversed", "doubled"}
	}
}

// altFormatSignature signs data with the signer's key and renders the signature in another format.
func altFormatSignature(signer *fixtures.Key, alg, format string, data []byte) []byte {
	sig, err := signer.Priv.Sign(data)
	if err != nil {
		panic(err)
	}
	switch format {
	case "reversed":
		return reverse(append([]byte{}, sig...))
	case "doubled":
		return append(append([]byte{}, sig...), sig...)
	case "der-wrapped":
		b, _ := asn1.Marshal(struct{ R, S *big.Int }{new(big.Int).SetBytes(sig[:32]), new(big.Int).SetBytes(sig[32:])})
		return b
	}
	if strings.HasPrefix(format, "compact-") || format == "der-of-sha256-by-decred" {
		raw, err := signer.Priv.Raw()
		if err != nil {
			panic(err)
		}
		dk := secp256k1.PrivKeyFromBytes(raw)
		h := sha256.Sum256(data)
		switch format {
		case "compact-compressed":
			return dcrecdsa.SignCompact(dk, h[:], true)
		case "compact-uncompressed":
			return dcrecdsa.SignCompact(dk, h[:], false)
		case "compact-header-0":
			c := dcrecdsa.SignCompact(dk, h[:], true)
			c[0] = 0
			return c
		default:
			return dcrecdsa.Sign(dk, h[:]).Serialize()
		}
	}
	// ECDSA DER -> fixed-width forms
	var rs struct{ R, S *big.Int }
	if _, err := asn1.Unmarshal(sig, &rs); err != nil {
		panic(fmt.Sprintf("harness: %s signature is not DER: %v", alg, err))
	}
	n := map[string]int{"secp256k1": 32, "p256": 32, "p384": 48, "p521": 66}[alg]
	r, sv := rs.R.FillBytes(make([]byte, n)), rs.S.FillBytes(make([]byte, n))
	switch format {
	case "raw-rs":
		return append(r, sv...)
	case "raw-sr":
		return append(sv, r...)
	case "raw-rs-unpadded":
		return append(rs.R.Bytes(), rs.S.Bytes()...)
	}
	panic(format)
}

func C06() *engine.Check {
	return &engine.Check{
		Property: "C06",
		Level:    "model_checking",
		Subs:     []*engine.Sub{c06ByteSub(), c06RewriteSub(), c06ConcSub(), concRaceSub("C06")},
		Assumptions: []string{
			"forgeries that need cryptanalysis are outside any enumeration; only key-less manipulations are enumerated",
			"independent re-verification uses libp2p PubKey.Verify over the harness' own canonical DAG-CBOR encoding of the decoded {h, payload} map, and the varsig header observed on a really sealed token of the same key type",
			"a modification that only changes the encoding (accepted with identical content) is C08's business",
		},
	}
}

// Degenerate signatures: every DER SEQUENCE { INTEGER r, INTEGER s } with r, s over 8 short contents (short form,
// and with the sequence length in the long form 81 nn), then constant strings of the usual signature lengths.
var c06DerInts = [][]byte{{}, {0x00}, {0x01}, {0x01, 0x01}, {0x7f}, {0x80}, {0x00, 0x80}, {0xff}}

var c06ConstLens = []int{8, 32, 64, 65, 70, 71, 72, 96, 104, 132, 139, 256, 384}

var c06DegenerateCount = 2*len(c06DerInts)*len(c06DerInts) + 3*len(c06ConstLens)

func c06DegenerateSig(n int) []byte {
	k := len(c06DerInts)
	if n < 2*k*k {
		long := n >= k*k
		n %= k * k
		r, s := c06DerInts[n/k], c06DerInts[n%k]
		body := append([]byte{0x02, byte(len(r))}, r...)
		body = append(body, 0x02, byte(len(s)))
		body = append(body, s...)
		if long {
			return append([]byte{0x30, 0x81, byte(len(body))}, body...)
		}
		return append([]byte{0x30, byte(len(body))}, body...)
	}
	n -= 2 * k * k
	l := c06ConstLens[n/3]
	return bytes.Repeat([]byte{[3]byte{0x00, 0x01, 0xff}[n%3]}, l)
}
