package props

import (
	"encoding/hex"
	"fmt"

	"github.com/ipfs/go-cid"

	"github.com/ucan-wg/go-ucan/pkg/container"

	"verifharness/engine"
	"verifharness/refmodel"
)

// Well-signed tokens in other encodings of the same data: the signature is made over the canonical form of
// the decoded SigPayload, so every data-preserving re-encoding of a sealed token (non-minimal heads,
// indefinite lengths, shorter floats, permuted keys, extra tags, ...) still carries a valid signature and
// reaches whatever comes after signature verification. Here the only question is C09's: no panic.

type c09ReencCase struct {
	Base string  `json:"base"`
	Alg  string  `json:"alg"`
	Re   []reenc `json:"reencs"`
	Orig string  `json:"orig,omitempty"`
}

func (c *c09ReencCase) Weight() int { return len(c.Re) }

func c09ReencSub() *engine.Sub {
	entries := c09Entries()
	return &engine.Sub{
		Name:   "re-encodings-of-well-signed-tokens",
		Repeat: true,
		Rule:   "every single data-preserving re-encoding site (C08's catalogue: non-minimal head widths, indefinite lengths, chunked strings, map key permutations, floats in half / single precision, undefined for null, spurious tags, extra outer element, trailing bytes) - and every pair of a float-narrowing with another site - of 5 sealed base tokens, offered to every entry point that takes sealed bytes and, inside a CBOR and a CAR container, to the container readers: no panic; non-trivial = all",
		Bound: func(string) string {
			return "5 base tokens (Ed25519) x all single sites + pairs with float sites x 9 entry points"
		},
		Gen: func(tier string, emit func(any) bool) {
			for _, base := range []string{"dlg", "inv", "dlg2", "inv-bounds", "dlg-bounds"} {
				orig := c08Base(base, "ed25519")
				oh := hex.EncodeToString(orig)
				root, _, _ := refmodel.ParseCbor(orig)
				sites := reencSites(&root)
				for _, s := range sites {
					if !emit(&c09ReencCase{Base: base, Alg: "ed25519", Re: []reenc{s}, Orig: oh}) {
						return
					}
				}
				for _, f := range sites {
					if f.Kind != "float-width" {
						continue
					}
					for _, s := range sites {
						if s.Kind == f.Kind || pathPrefix(s.Path, f.Path) || pathPrefix(f.Path, s.Path) {
							continue
						}
						if !emit(&c09ReencCase{Base: base, Alg: "ed25519", Re: []reenc{f, s}, Orig: oh}) {
							return
						}
					}
				}
			}
		},
		NewCase: func() any { return &c09ReencCase{} },
		Run: func(ctx *engine.Ctx, c any) {
			cs := c.(*c09ReencCase)
			orig, err := hex.DecodeString(cs.Orig)
			if err != nil || len(orig) == 0 {
				orig = c08Base(cs.Base, cs.Alg)
			}
			mut, ok := encodeReenc(orig, cs.Re)
			ctx.States(1)
			if !ok {
				ctx.Outcome("not-applicable")
				return
			}
			ctx.Nontrivial(1)
			ctx.Trans(1)
			for _, e := range entries {
				switch e.Name {
				case "token.FromSealed", "token.FromSealedReader", "delegation.FromSealed", "invocation.FromSealed", "invocation.FromDagCborReader":
					ctx.Eval(1)
					if pan, stack := callNoPanic(func() { e.Fn(mut) }); pan != nil {
						ctx.Outcome("panic")
						ctx.Failf(cs, "panic/"+panicSite(stack), "%s panics on a re-encoding (%v) of a well-signed token: %v", e.Name, cs.Re, pan)
					} else {
						ctx.Outcome("returned")
					}
				}
			}
			w := container.NewWriter()
			w.AddSealed(refCID(mut), mut)
			for _, f := range []string{"cbor", "car"} {
				var in []byte
				if f == "cbor" {
					in, err = w.ToCbor()
				} else {
					in, err = w.ToCar()
				}
				if err != nil {
					panic(err)
				}
				ctx.Eval(1)
				if pan, stack := callNoPanic(func() {
					if f == "cbor" {
						container.FromCbor(in)
					} else {
						container.FromCar(in)
					}
				}); pan != nil {
					ctx.Outcome("panic")
					ctx.Failf(cs, "panic/"+panicSite(stack), "container reader (%s) panics on a container holding a re-encoding (%v) of a well-signed token: %v", f, cs.Re, pan)
				}
			}
			_ = cid.Undef
			_ = fmt.Sprint
		},
	}
}
