package props

import (
	"bytes"
	"crypto/elliptic"
	"encoding/asn1"
	"encoding/binary"
	"encoding/hex"
	"fmt"
	"io"
	"math"
	"math/big"
	"syscall"
	"unicode/utf8"

	"github.com/decred/dcrd/dcrec/secp256k1/v4"
	"github.com/ipfs/go-cid"
	"github.com/libp2p/go-libp2p/core/crypto"

	"github.com/ucan-wg/go-ucan/token"
	"github.com/ucan-wg/go-ucan/token/delegation"
	"github.com/ucan-wg/go-ucan/token/invocation"

	"verifharness/engine"
	"verifharness/fixtures"
	"verifharness/refmodel"
)

// chunkReader delivers data in chunks of a fixed size; eofWithData returns the last
// chunk together with io.EOF.
type chunkReader struct {
	data        []byte
	pos         int
	chunk       int
	eofWithData bool
}

func (r *chunkReader) Read(p []byte) (int, error) {
	if r.pos >= len(r.data) {
		return 0, io.EOF
	}
	n := r.chunk
	if n <= 0 || n > len(p) {
		n = len(p)
	}
	if n > len(r.data)-r.pos {
		n = len(r.data) - r.pos
	}
	copy(p, r.data[r.pos:r.pos+n])
	r.pos += n
	if r.eofWithData && r.pos == len(r.data) {
		return n, io.EOF
	}
	return n, nil
}

type writerSealer interface {
	ToSealedWriter(io.Writer, crypto.PrivKey) (cid.Cid, error)
}

// ---- part 1: hash arithmetic across all APIs ----

func c08HashSub() *engine.Sub {
	return &engine.Sub{
		Name: "cid-arithmetic",
		Rule: "every token of the d<=1 option universe x algorithm, plus tokens with fields of 600, 1023, 1024, 5120 and 70000 bytes and the size-threshold tokens of C07 (one field grown to 23..4096, two of them to 65536): CID of ToSealed, of ToSealedWriter (vs the bytes the sink received; also into a non-empty buffer, and - base tokens - with one write call interrupted by EINTR / EAGAIN at every position), of FromSealed and FromSealedReader (generic and typed, 6 chunkings) all equal 01 71 12 20 || sha256(bytes) computed with crypto/sha256; non-trivial = constructor-accepted tokens",
		Bound: func(t string) string {
			return "d<=1 option deviations, 4 (quick) / 7 (thorough) algorithms, 6 chunkings"
		},
		Gen: func(tier string, emit func(any) bool) {
			algs := []string{"ed25519", "secp256k1", "p256", "p384"}
			if tier == "thorough" {
				algs = []string{"ed25519", "secp256k1", "p256", "p384", "p521", "rsa2048", "rsa3072"}
			}
			for _, alg := range algs {
				for _, kind := range []string{"dlg", "inv"} {
					ok := true
					specsWithDeviations(kind, 1, func(opts map[string]string) bool {
						ok = emit(&c07Case{Spec: TokSpec{Kind: kind, Alg: alg, Opts: opts}})
						return ok
					})
					if !ok {
						return
					}
				}
			}
			// the plain token under EVERY key algorithm and size of the fixtures: signatures of 64, 70 - 72, 102 - 104, 137 - 139,
			// 256 (RSA-2048: exactly the size at which the head of a CBOR byte string grows), 384 and 512 bytes
			for _, alg := range fixtures.Algs() {
				for _, kind := range []string{"dlg", "inv"} {
					if !emit(&c07Case{Spec: TokSpec{Kind: kind, Alg: alg, Opts: map[string]string{"nonce": "12"}}}) {
						return
					}
				}
			}
			// tokens with large fields: the encoders and hashers see single writes of >= 512, 1024, 4096, 65536 bytes
			for _, kind := range []string{"dlg", "inv"} {
				for _, big := range []string{"k=str-600", "k=str-1023", "k=str-1024", "k=str-5k", "k=bytes-1024", "k=bytes-70k", "bounds"} {
					if !emit(&c07Case{Spec: TokSpec{Kind: kind, Alg: "ed25519", Opts: map[string]string{"meta": big, "nonce": "12"}}}) {
						return
					}
				}
			}
			if !emit(&c07Case{Spec: TokSpec{Kind: "inv", Alg: "p256", Opts: map[string]string{"args": "k=str-5k", "meta": "k=bytes-70k"}}}) {
				return
			}
			// one field grown to a size on either side of the buffer / head-width thresholds
			for _, kind := range []string{"dlg", "inv"} {
				for _, f := range SizeFields(kind) {
					for _, n := range SizesFor(f, "quick") {
						if n > 4096 && tier != "thorough" && f != "meta-bytes" && f != "arg-str" {
							continue
						}
						if !emit(&c07Case{Spec: TokSpec{Kind: kind, Alg: "ed25519", Opts: map[string]string{"size:" + f: fmt.Sprint(n), "nonce": "12"}}}) {
							return
						}
					}
				}
			}
		},
		NewCase: func() any { return &c07Case{} },
		Run: func(ctx *engine.Ctx, c any) {
			cs := c.(*c07Case)
			tok, key, err := BuildToken(cs.Spec)
			ctx.States(1)
			if err != nil {
				ctx.Outcome("constructor-rejected")
				return
			}
			ctx.Nontrivial(1)
			b, c1, err := tok.(sealer).ToSealed(key.Priv)
			ctx.Eval(1)
			if err != nil {
				ctx.Outcome("seal-error")
				return
			}
			want := refCID(b)
			if !c1.Equals(want) {
				ctx.Failf(cs, "cid/tosealed", "ToSealed of %s returned CID %s, content address of the bytes is %s", cs.Spec, c1, want)
			}
			// history on one token: the caller may do what it likes with the returned bytes; sealing
			// the same token again must again return bytes and a CID that belong together
			if len(b) > 10 {
				saved := append([]byte{}, b...)
				b[len(b)/2] ^= 0xff
				b2, c3, err := tok.(sealer).ToSealed(key.Priv)
				ctx.Eval(1)
				if err != nil {
					ctx.Failf(cs, "cid/second-seal-fails", "sealing %s a second time fails: %v", cs.Spec, err)
				} else {
					if !c3.Equals(refCID(b2)) {
						ctx.Failf(cs, "cid/second-seal-cid-not-address-of-bytes", "second ToSealed of %s (after the caller modified the first result) returns a CID that is not the content address of the bytes returned with it", cs.Spec)
					}
					if _, _, err0 := token.FromSealed(saved); err0 != nil {
						// (tokens that do not unseal in the first place are C07's business)
					} else if _, _, err := token.FromSealed(b2); err != nil {
						ctx.Failf(cs, "cid/second-seal-bytes-do-not-unseal", "second ToSealed of %s returns bytes that do not unseal: %v", cs.Spec, err)
					}
				}
				b = saved
			}
			var sink bytes.Buffer
			c2, err := tok.(writerSealer).ToSealedWriter(&sink, key.Priv)
			ctx.Eval(1)
			if err != nil {
				ctx.Failf(cs, "cid/tosealedwriter-error", "ToSealedWriter fails where ToSealed succeeds: %v", err)
			} else {
				if !c2.Equals(refCID(sink.Bytes())) {
					ctx.Failf(cs, "cid/tosealedwriter", "ToSealedWriter of %s returned CID %s, the sink received bytes whose address is %s", cs.Spec, c2, refCID(sink.Bytes()))
				}
				if (cs.Spec.Alg == "ed25519" || cs.Spec.Alg == "rsa2048" || cs.Spec.Alg == "rsa3072") && !bytes.Equal(sink.Bytes(), b) {
					ctx.Failf(cs, "bytes/writer-vs-buffered", "deterministic signer, but ToSealedWriter and ToSealed produce different bytes for %s", cs.Spec)
				}
			}
			// the sink is the caller's: a *bytes.Buffer that already holds something (a frame prefix, an earlier
			// token). The CID is the address of what THIS call wrote.
			var pre bytes.Buffer
			pre.WriteString("frame-prefix:")
			for round := 0; round < 2; round++ {
				before := pre.Len()
				c4, err := tok.(writerSealer).ToSealedWriter(&pre, key.Priv)
				ctx.Eval(1)
				if err != nil {
					ctx.Failf(cs, "cid/tosealedwriter-error", "ToSealedWriter into a non-empty *bytes.Buffer fails: %v", err)
					break
				}
				if wrote := pre.Bytes()[before:]; !c4.Equals(refCID(wrote)) {
					ctx.Failf(cs, "cid/tosealedwriter-nonempty-buffer", "ToSealedWriter of %s into a *bytes.Buffer already holding %d bytes returned CID %s; the %d bytes it appended hash to %s", cs.Spec, before, c4, len(wrote), refCID(wrote))
					break
				}
			}
			// a sink whose Write fails once with an error that invites a retry (EINTR / EAGAIN), taking half of the
			// data or nothing, and accepts everything afterwards: the call may fail; if it reports success, the CID
			// is the address of what the sink holds (base tokens only: one run per write call)
			if len(cs.Spec.Opts) == 0 {
				probe := &engine.PosWriter{}
				if _, err := tok.(writerSealer).ToSealedWriter(probe, key.Priv); err == nil {
					for call := 1; call <= probe.Calls; call++ {
						for _, short := range []bool{false, true} {
							for _, werr := range []error{syscall.EINTR, syscall.EAGAIN} {
								w := &engine.PosWriter{FailCall: call, Short: short, Transient: true, Err: werr}
								c5, err := tok.(writerSealer).ToSealedWriter(w, key.Priv)
								ctx.Eval(1)
								if err == nil && w.Hit && !c5.Equals(refCID(w.Buf)) {
									ctx.Failf(cs, "cid/tosealedwriter-after-interrupted-write", "ToSealedWriter of %s reports success and CID %s after write call %d failed with %v (short=%v); the sink holds %d bytes whose address is %s", cs.Spec, c5, call, werr, short, len(w.Buf), refCID(w.Buf))
								}
							}
						}
					}
				}
			}
			type dec struct {
				name string
				f    func(r io.Reader, b []byte) (cid.Cid, error)
			}
			kind := cs.Spec.Kind
			decs := []dec{
				{"token.FromSealed", func(_ io.Reader, b []byte) (cid.Cid, error) { _, c, err := token.FromSealed(b); return c, err }},
				{"typed.FromSealed", func(_ io.Reader, b []byte) (cid.Cid, error) {
					if kind == "dlg" {
						_, c, err := delegation.FromSealed(b)
						return c, err
					}
					_, c, err := invocation.FromSealed(b)
					return c, err
				}},
			}
			for _, d := range decs {
				got, err := d.f(nil, b)
				ctx.Eval(1)
				ctx.Trans(1)
				if err != nil {
					ctx.Outcome("unseal-error")
					continue // C07's business
				}
				ctx.Outcome("cid-checked")
				if !got.Equals(want) {
					ctx.Failf(cs, "cid/fromsealed", "%s of %s returned CID %s, want %s", d.name, cs.Spec, got, want)
				}
			}
			for _, chunk := range []int{1, 7, 0} {
				for _, ewd := range []bool{false, true} {
					for _, typed := range []bool{false, true} {
						// history: a streaming read that fails half-way (non-EOF error) precedes the real one
						fr := &engine.PosReader{Data: b, FailAt: len(b) / 2, Mode: "error"}
						if typed && kind == "dlg" {
							delegation.FromSealedReader(fr)
						} else if typed {
							invocation.FromSealedReader(fr)
						} else {
							token.FromSealedReader(fr)
						}
						r := &chunkReader{data: b, chunk: chunk, eofWithData: ewd}
						var got cid.Cid
						var err error
						switch {
						case !typed:
							_, got, err = token.FromSealedReader(r)
						case kind == "dlg":
							_, got, err = delegation.FromSealedReader(r)
						default:
							_, got, err = invocation.FromSealedReader(r)
						}
						ctx.Eval(1)
						ctx.Trans(1)
						if err != nil {
							ctx.Outcome("unseal-error")
							continue
						}
						ctx.Outcome("cid-checked")
						if !got.Equals(want) {
							ctx.Failf(cs, "cid/fromsealedreader", "FromSealedReader(typed=%v, chunk=%d, eofWithData=%v) of %s returned CID %s, want %s", typed, chunk, ewd, cs.Spec, got, want)
						}
					}
				}
			}
		},
	}
}

// ---- part 2: canonicity ----

// reenc describes one data-preserving re-encoding site.
type reenc struct {
	Kind string `json:"kind"`
	Path []int  `json:"path,omitempty"`
	Arg  int    `json:"arg,omitempty"`
}

func (r reenc) String() string { return fmt.Sprintf("%s@%v#%d", r.Kind, r.Path, r.Arg) }

// reencSites enumerates every single re-encoding site of an envelope item tree.
func reencSites(root *refmodel.CborItem) []reenc {
	var sites []reenc
	root.Walk(func(path []int, x *refmodel.CborItem) {
		p := append([]int{}, path...)
		switch x.Major {
		case 0, 1, 2, 3, 4, 5, 6:
			if !x.Indef {
				arg := x.Arg
				if x.Major == 2 || x.Major == 3 {
					arg = uint64(len(x.Data))
				}
				for _, w := range []int{1, 2, 4, 8} {
					if w > refmodel.MinWidth(arg) && w > x.Width {
						sites = append(sites, reenc{Kind: "nonminimal-head", Path: p, Arg: w})
					}
				}
			}
		}
		if (x.Major == 0 || x.Major == 1) && x.Arg < 1<<63 {
			// the other integer type with the 8-byte argument that a 64-bit two's complement decoder folds back onto the same value
			// (0 as -2^64: 3b ff ff ff ff ff ff ff ff)
			sites = append(sites, reenc{Kind: "integer-wraparound", Path: p})
		}
		switch x.Major {
		case 2, 3:
			// the same octets under the other string type (byte string <-> text string): for an item of the signed
			// payload this changes the content (and is refused with the signature); for the signature item it is a
			// second spelling of the same envelope
			if x.Major == 2 || utf8.Valid(x.Data) {
				sites = append(sites, reenc{Kind: "string-type-swapped", Path: p})
			}
			sites = append(sites, reenc{Kind: "indefinite-length", Path: p})
			if len(x.Data) >= 2 {
				sites = append(sites, reenc{Kind: "chunked-string", Path: p, Arg: len(x.Data) / 2})
			}
		case 4:
			sites = append(sites, reenc{Kind: "indefinite-length", Path: p})
		case 5:
			sites = append(sites, reenc{Kind: "indefinite-length", Path: p})
			n := len(x.Kids) / 2
			if n >= 2 && n <= 4 {
				for i := 1; i < len(permutations(n)); i++ {
					sites = append(sites, reenc{Kind: "map-key-order", Path: p, Arg: i})
				}
			} else if n > 4 {
				for i := 0; i+1 < n; i++ {
					sites = append(sites, reenc{Kind: "map-key-order", Path: p, Arg: -(i + 1)}) // adjacent transposition i,i+1
				}
			}
		case 7:
			if x.Width == 0 && x.Arg == 22 {
				sites = append(sites, reenc{Kind: "undefined-for-null", Path: p})
			}
			if f, ok := x.FloatValue(); ok && x.Width == 8 {
				if float64(float32(f)) == f {
					sites = append(sites, reenc{Kind: "float-width", Path: p, Arg: 4})
				}
				if _, ok := refmodel.Float16Bits(f); ok {
					sites = append(sites, reenc{Kind: "float-width", Path: p, Arg: 2})
				}
			}
		}
		if x.Major != 2 {
			for _, tag := range []int{0, 1, 2, 5, 23, 24, 55799} {
				sites = append(sites, reenc{Kind: "spurious-tag", Path: p, Arg: tag})
			}
		}
	})
	sites = append(sites, reenc{Kind: "outer-extra-element"}, reenc{Kind: "trailing-bytes"}, reenc{Kind: "leading-self-describe-tag"})
	return sites
}

// applyReenc applies one re-encoding in place; ok=false if not applicable.
func applyReenc(root *refmodel.CborItem, r reenc) bool {
	switch r.Kind {
	case "outer-extra-element":
		root.Kids = append(root.Kids, refmodel.CborItem{Major: 0, Arg: 0})
		return true
	case "trailing-bytes", "leading-self-describe-tag":
		return true // handled at byte level
	}
	x := root.At(r.Path)
	if r.Kind == "string-type-swapped" {
		if x == nil || (x.Major != 2 && x.Major != 3) || x.Indef {
			return false
		}
		x.Major = 5 - x.Major
		return true
	}
	switch r.Kind {
	case "nonminimal-head":
		x.Width = r.Arg
	case "integer-wraparound":
		if x.Major > 1 || x.Arg >= 1<<63 {
			return false
		}
		x.Major, x.Arg, x.Width = 1-x.Major, ^x.Arg, 8
	case "indefinite-length":
		if x.Indef {
			return false
		}
		if x.Major == 2 || x.Major == 3 {
			x.Chunks = []refmodel.CborItem{{Major: x.Major, Arg: uint64(len(x.Data)), Width: refmodel.MinWidth(uint64(len(x.Data))), Data: x.Data}}
			if len(x.Data) == 0 {
				x.Chunks = nil
			}
		}
		x.Indef = true
	case "chunked-string":
		if x.Indef {
			return false
		}
		a, b := x.Data[:r.Arg], x.Data[r.Arg:]
		x.Chunks = []refmodel.CborItem{
			{Major: x.Major, Arg: uint64(len(a)), Width: refmodel.MinWidth(uint64(len(a))), Data: a},
			{Major: x.Major, Arg: uint64(len(b)), Width: refmodel.MinWidth(uint64(len(b))), Data: b},
		}
		x.Indef = true
	case "map-key-order":
		n := len(x.Kids) / 2
		var perm []int
		if r.Arg > 0 {
			perm = permutations(n)[r.Arg]
		} else {
			i := -r.Arg - 1
			perm = make([]int, n)
			for k := range perm {
				perm[k] = k
			}
			perm[i], perm[i+1] = perm[i+1], perm[i]
		}
		nk := make([]refmodel.CborItem, 0, len(x.Kids))
		for _, j := range perm {
			nk = append(nk, x.Kids[2*j], x.Kids[2*j+1])
		}
		x.Kids = nk
	case "undefined-for-null":
		x.Arg = 23
	case "float-width":
		f, _ := x.FloatValue()
		if r.Arg == 4 {
			x.Arg, x.Width = uint64(math.Float32bits(float32(f))), 4
		} else {
			h, _ := refmodel.Float16Bits(f)
			x.Arg, x.Width = uint64(h), 2
		}
	case "spurious-tag":
		inner := x.Clone()
		*x = refmodel.CborItem{Major: 6, Arg: uint64(r.Arg), Width: refmodel.MinWidth(uint64(r.Arg)), Kids: []refmodel.CborItem{inner}}
	default:
		return false
	}
	return true
}

func encodeReenc(orig []byte, rs []reenc) ([]byte, bool) {
	root, rest, err := refmodel.ParseCbor(orig)
	if err != nil || len(rest) != 0 {
		panic(fmt.Sprintf("harness: sealed bytes are not one CBOR item: %v", err))
	}
	// apply deepest paths first so that earlier applications do not shift later paths
	trailing, leading := false, false
	for i := len(rs) - 1; i >= 0; i-- {
		r := rs[i]
		if r.Kind == "trailing-bytes" {
			trailing = true
			continue
		}
		if r.Kind == "leading-self-describe-tag" {
			leading = true
			continue
		}
		if !applyReenc(&root, r) {
			return nil, false
		}
	}
	out := root.Encode()
	if leading {
		out = append([]byte{0xd9, 0xd9, 0xf7}, out...)
	}
	if trailing {
		out = append(out, 0x00)
	}
	return out, true
}

// sigVariants returns key-less re-encodings of the signature of an envelope.
func sigVariants(alg string, sig []byte) map[string][]byte {
	res := map[string][]byte{}
	var order *big.Int
	switch alg {
	case "p256":
		order = elliptic.P256().Params().N
	case "p384":
		order = elliptic.P384().Params().N
	case "p521":
		order = elliptic.P521().Params().N
	case "secp256k1":
		order = secp256k1.S256().N
	}
	if order != nil {
		var rs struct{ R, S *big.Int }
		if rest, err := asn1.Unmarshal(sig, &rs); err == nil && len(rest) == 0 {
			flipped, _ := asn1.Marshal(struct{ R, S *big.Int }{rs.R, new(big.Int).Sub(order, rs.S)})
			res["ecdsa-s-negated"] = flipped
			// DER variants: long-form length of the outer SEQUENCE, zero-padded r
			if len(sig) < 128 && sig[0] == 0x30 {
				res["der-long-form-length"] = append([]byte{0x30, 0x81, sig[1]}, sig[2:]...)
			}
			if sig[2] == 0x02 {
				rl := int(sig[3])
				pad := append([]byte{0x30, sig[1] + 1, 0x02, byte(rl + 1), 0x00}, sig[4:]...)
				res["der-zero-padded-integer"] = pad
			}
			res["der-trailing-byte"] = append(append([]byte{}, sig...), 0x00)
		}
	}
	if alg == "rsa2048" || alg == "rsa3072" {
		res["rsa-leading-zero"] = append([]byte{0x00}, sig...)
		if len(sig) > 1 && sig[0] == 0 {
			// the signature as a minimal big-endian integer (what a big-integer based signer would emit)
			res["rsa-leading-zero-stripped"] = bytes.TrimLeft(sig, "\x00")
		}
	}
	if alg == "ed25519" && len(sig) == 64 {
		// s + L (the group order): same signature value modulo L
		l, _ := new(big.Int).SetString("7237005577332262213973186563042994240857116359379907606001950938285454250989", 10)
		s := new(big.Int).SetBytes(reverse(sig[32:]))
		s.Add(s, l)
		sb := reverse(s.Bytes())
		if len(sb) <= 32 {
			out := append(append([]byte{}, sig[:32]...), append(sb, make([]byte, 32-len(sb))...)...)
			res["ed25519-s-plus-L"] = out
		}
	}
	return res
}

// sigVariantsEnv adds the layouts in which other signature libraries deliver the same signature: the complete varsig
// (header, then raw signature), the header after it, a length prefix, and NaCl's combined mode (signature, then the signed bytes).
func sigVariantsEnv(alg string, sealed []byte) map[string][]byte {
	p := splitEnvelope(sealed)
	res := sigVariants(alg, p.Sig)
	n := mustDecodeCbor(sealed)
	sp, _ := n.LookupByIndex(1)
	signed := mustEncodeCbor(sp)
	cat := func(parts ...[]byte) []byte {
		var out []byte
		for _, x := range parts {
			out = append(out, x...)
		}
		return out
	}
	res["varsig-header-then-signature"] = cat(p.Header, p.Sig)
	res["signature-then-varsig-header"] = cat(p.Sig, p.Header)
	res["length-prefixed-signature"] = cat(binary.AppendUvarint(nil, uint64(len(p.Sig))), p.Sig)
	res["signature-then-signed-bytes"] = cat(p.Sig, signed)
	return res
}

func reverse(b []byte) []byte {
	r := make([]byte, len(b))
	for i := range b {
		r[len(b)-1-i] = b[i]
	}
	return r
}

type c08Case struct {
	Base   string  `json:"base"` // "dlg" | "inv"
	Alg    string  `json:"alg"`
	Reencs []reenc `json:"reencs,omitempty"`
	SigVar string  `json:"sig_var,omitempty"`
	Orig   string  `json:"orig,omitempty"` // hex of the original sealed bytes (kept in witnesses: ECDSA signatures are randomised)
}

func (c *c08Case) Weight() int { return len(c.Reencs) }

var c08BaseSpecs = map[string]TokSpec{
	"dlg":  {Kind: "dlg", Opts: map[string]string{"pol": "nested", "meta": "k=map", "nonce": "12", "exp": "whole"}},
	"inv":  {Kind: "inv", Opts: map[string]string{"args": "k=float1.5", "meta": "keys:c,a,b", "nonce": "12", "iat": "whole", "prf": "3", "cause": "cid"}},
	"dlg2": {Kind: "dlg", Opts: map[string]string{"pol": "values", "nonce": "12"}},
	// integers and string / bytes / list lengths on both sides of every CBOR head-width boundary (23|24, 2^8, 2^16, 2^32)
	"inv-bounds": {Kind: "inv", Opts: map[string]string{"args": "bounds", "nonce": "12", "iat": "none"}},
	"dlg-bounds": {Kind: "dlg", Opts: map[string]string{"meta": "bounds", "nonce": "12"}},
	// RSA only: the nonce is a counter advanced until the (deterministic) signature starts with a zero octet
	"dlg-sig0": {Kind: "dlg", Opts: map[string]string{"nonce": "ctr:search"}},
	"inv-sig0": {Kind: "inv", Opts: map[string]string{"nonce": "ctr:search", "iat": "none"}},
}

func c08Base(base, alg string) []byte {
	spec := c08BaseSpecs[base]
	spec.Alg = alg
	id := "c08/" + base + "/" + alg
	headerMu.Lock()
	defer headerMu.Unlock()
	if b, ok := baseCache[id]; ok {
		return b
	}
	if spec.Opts["nonce"] == "ctr:search" {
		for i := 0; i < 100000; i++ {
			sp := spec
			sp.Opts = map[string]string{}
			for k, v := range spec.Opts {
				sp.Opts[k] = v
			}
			sp.Opts["nonce"] = fmt.Sprintf("ctr:%d", i)
			tok, key, err := BuildToken(sp)
			if err != nil {
				panic(err)
			}
			b, _, err := tok.(sealer).ToSealed(key.Priv)
			if err != nil {
				panic(err)
			}
			if !c08WellFormed(b) {
				// what ToSealed returned is not one CBOR item the library can unseal: the canonical-bytes sub-check reports
				// it for this base (class genuine-token-does-not-unseal) instead of working on it
				baseCache[id] = b
				return b
			}
			if sig := splitEnvelope(b).Sig; len(sig) > 0 && sig[0] == 0 {
				baseCache[id] = b
				return b
			}
		}
		panic("harness: no signature with a leading zero octet in 100000 attempts")
	}
	tok, key, err := BuildToken(spec)
	if err != nil {
		panic(err)
	}
	b, _, err := tok.(sealer).ToSealed(key.Priv)
	if err != nil {
		panic(err)
	}
	baseCache[id] = b
	return b
}

// c08WellFormed: the sealed bytes are one CBOR item (own parser) that token.FromSealed accepts.
func c08WellFormed(b []byte) bool {
	if _, rest, err := refmodel.ParseCbor(b); err != nil || len(rest) != 0 {
		return false
	}
	_, _, err := token.FromSealed(b)
	return err == nil
}

func c08Decoders(kind string) map[string]func([]byte) (any, error) {
	return map[string]func([]byte) (any, error){
		"token.FromSealed": func(b []byte) (any, error) { t, _, err := token.FromSealed(b); return t, err },
		"typed.FromSealed": func(b []byte) (any, error) {
			if kind == "dlg" {
				t, _, err := delegation.FromSealed(b)
				return t, err
			}
			t, _, err := invocation.FromSealed(b)
			return t, err
		},
		"token.FromSealedReader": func(b []byte) (any, error) {
			t, _, err := token.FromSealedReader(bytes.NewReader(b))
			return t, err
		},
		"typed.FromSealedReader": func(b []byte) (any, error) {
			if kind == "dlg" {
				t, _, err := delegation.FromSealedReader(bytes.NewReader(b))
				return t, err
			}
			t, _, err := invocation.FromSealedReader(bytes.NewReader(b))
			return t, err
		},
	}
}

func c08CanonSub() *engine.Sub {
	return &engine.Sub{
		Name:   "canonical-bytes",
		Repeat: true,
		Rule:   "sealed base tokens are parsed with the harness' own CBOR item parser; every single (quick) / every pair (thorough) of data-preserving re-encoding sites is applied: non-minimal head widths, indefinite lengths, chunked strings, map key permutations, narrower floats, undefined for null, byte string <-> text string with the same octets (incl. the signature item), spurious tags, extra outer element, trailing bytes; integers as the other integer type with the 8-byte argument that wraps around to the same value; plus key-less signature re-encodings (the complete varsig - header then signature -, header after the signature, length-prefixed, signature followed by the signed bytes; ECDSA s -> n-s, DER variants, RSA leading zero added, and - on RSA tokens whose nonce was searched until the signature starts with a zero octet - stripped; Ed25519 s+L). A decoder must reject each re-encoding - also from an io.ReadSeeker that serves the re-encoding until the first Seek and the canonical bytes afterwards (a source read twice must not be judged on one reading and reported on the other) - (two accepted byte strings with the same signed content would have different CIDs); non-trivial = re-encoded bytes differ from the original",
		Bound: func(t string) string {
			if t == "thorough" {
				return "3 base tokens x 5 algorithms; all single sites and all pairs of sites of distinct kinds on the Ed25519 tokens"
			}
			return "3 base tokens x 3 algorithms (+ 2 RSA-2048 tokens whose signature starts with a zero octet); all single sites"
		},
		Gen: func(tier string, emit func(any) bool) {
			algs := []string{"ed25519", "p256", "secp256k1"}
			if tier == "thorough" {
				algs = []string{"ed25519", "p256", "secp256k1", "p384", "rsa2048"}
			}
			if tier != "thorough" {
				algs = append(algs, "rsa2048")
			}
			for _, alg := range algs {
				bases := []string{"dlg", "inv", "dlg2"}
				if alg == "ed25519" {
					bases = append(bases, "inv-bounds", "dlg-bounds")
				}
				if alg == "rsa2048" {
					if tier != "thorough" {
						bases = nil
					}
					bases = append(bases, "dlg-sig0", "inv-sig0")
				}
				for _, base := range bases {
					orig := c08Base(base, alg)
					oh := hex.EncodeToString(orig)
					if !c08WellFormed(orig) {
						if !emit(&c08Case{Base: base, Alg: alg, SigVar: "none/the-genuine-token", Orig: oh}) {
							return
						}
						continue
					}
					root, _, _ := refmodel.ParseCbor(orig)
					sites := reencSites(&root)
					for _, s := range sites {
						if !emit(&c08Case{Base: base, Alg: alg, Reencs: []reenc{s}, Orig: oh}) {
							return
						}
					}
					for name := range sigVariantsEnv(alg, orig) {
						if !emit(&c08Case{Base: base, Alg: alg, SigVar: name, Orig: oh}) {
							return
						}
					}
					if tier == "thorough" && alg == "ed25519" {
						for i := range sites {
							for j := i + 1; j < len(sites); j++ {
								if sites[i].Kind == sites[j].Kind || pathPrefix(sites[i].Path, sites[j].Path) || pathPrefix(sites[j].Path, sites[i].Path) {
									continue
								}
								if !emit(&c08Case{Base: base, Alg: alg, Reencs: []reenc{sites[i], sites[j]}, Orig: oh}) {
									return
								}
							}
						}
					}
				}
			}
		},
		NewCase: func() any { return &c08Case{} },
		Run: func(ctx *engine.Ctx, c any) {
			cs := c.(*c08Case)
			orig, err := hex.DecodeString(cs.Orig)
			if err != nil || len(orig) == 0 {
				orig = c08Base(cs.Base, cs.Alg)
			}
			kind := c08BaseSpecs[cs.Base].Kind
			var mutated []byte
			cls := ""
			if !c08WellFormed(orig) {
				_, _, err := token.FromSealed(orig)
				ctx.States(1)
				ctx.Nontrivial(1)
				ctx.Failf(cs, "genuine-token-does-not-unseal", "the bytes ToSealed returned for the %s base token of a %s issuer (%d bytes) are not accepted by token.FromSealed: %v", cs.Base, cs.Alg, len(orig), err)
				return
			}
			if cs.SigVar != "" {
				p := splitEnvelope(orig)
				_ = p
				v, ok := sigVariantsEnv(cs.Alg, orig)[cs.SigVar]
				if !ok {
					ctx.Outcome("not-applicable")
					return
				}
				n := mustDecodeCbor(orig)
				sp, _ := n.LookupByIndex(1)
				mutated = assembleWithSig(v, sp)
				cls = "sig/" + cs.SigVar
				if (cs.SigVar == "signature-then-varsig-header" || cs.SigVar == "signature-then-signed-bytes") && (cs.Alg == "p256" || cs.Alg == "p384" || cs.Alg == "p521") {
					// for the NIST curves this is the recorded defect "bytes after the DER signature are ignored" with other trailing bytes
					cls = "sig/der-trailing-byte"
				}
			} else {
				var ok bool
				mutated, ok = encodeReenc(orig, cs.Reencs)
				if !ok {
					ctx.Outcome("not-applicable")
					return
				}
				cls = "reenc/" + cs.Reencs[0].Kind
				if len(cs.Reencs) > 1 {
					cls += "+" + cs.Reencs[1].Kind
				}
			}
			ctx.States(1)
			if bytes.Equal(mutated, orig) {
				ctx.Outcome("identical-bytes")
				return
			}
			ctx.Nontrivial(1)
			origTok, _, err := token.FromSealed(orig)
			if err != nil {
				panic(fmt.Sprintf("harness: base token does not unseal: %v", err))
			}
			origView := ViewOf(origTok)
			acceptedPlain := false
			for name, dec := range c08Decoders(kind) {
				ctx.Eval(1)
				ctx.Trans(1)
				got, err := dec(mutated)
				if err != nil {
					ctx.Outcome("rejected")
					continue
				}
				acceptedPlain = true
				if diff := DiffViews(origView, ViewOf(got)); len(diff) > 0 {
					ctx.Outcome("accepted-different-content")
					ctx.Failf(cs, "content-changed/"+cls, "%s accepts a re-encoding (%v %s) and returns different content (%v)", name, cs.Reencs, cs.SigVar, diff)
					continue
				}
				ctx.Outcome("accepted-same-content")
				ctx.Failf(cs, cls, "%s accepts a second byte string for the same signed content (%v %s): CID %s instead of %s", name, cs.Reencs, cs.SigVar, refCID(mutated), refCID(orig))
			}
			// the same bytes from a source that can be read again - and answers differently the second time: an io.ReadSeeker
			// that serves the re-encoding until the first Seek and the canonical bytes afterwards (a file replaced between two
			// passes). What is decoded, what is hashed and what is checked for canonicity must be the same bytes: the call fails,
			// or reports the canonical token under the canonical CID (then it read the second face only).
			for name, dec := range c08SeekerDecoders(kind) {
				if acceptedPlain {
					break // (accepted from a plain source already, and charged above: nothing the second face could add)
				}
				ctx.Eval(1)
				ctx.Trans(1)
				c, err := dec(&twoFacedSeeker{first: mutated, second: orig})
				if err != nil {
					ctx.Outcome("rejected")
					continue
				}
				if !c.Equals(refCID(orig)) {
					ctx.Failf(cs, cls+"/source-that-changes-on-seek", "%s accepts a source that serves the re-encoding (%v %s) first and the canonical bytes after a Seek, and reports CID %s (canonical: %s)", name, cs.Reencs, cs.SigVar, c, refCID(orig))
				}
			}
		},
	}
}

// twoFacedSeeker serves first until the first Seek, second afterwards.
type twoFacedSeeker struct {
	first, second []byte
	pos           int64
	sought        bool
}

func (r *twoFacedSeeker) cur() []byte {
	if r.sought {
		return r.second
	}
	return r.first
}

func (r *twoFacedSeeker) Read(p []byte) (int, error) {
	b := r.cur()
	if r.pos >= int64(len(b)) {
		return 0, io.EOF
	}
	n := copy(p, b[r.pos:])
	r.pos += int64(n)
	return n, nil
}

func (r *twoFacedSeeker) Seek(off int64, whence int) (int64, error) {
	if !(off == 0 && whence == io.SeekCurrent) {
		r.sought = true // asking where one stands changes nothing; going somewhere does
	}
	switch whence {
	case io.SeekStart:
		r.pos = off
	case io.SeekCurrent:
		r.pos += off
	case io.SeekEnd:
		r.pos = int64(len(r.cur())) + off
	}
	if r.pos < 0 {
		r.pos = 0
		return 0, fmt.Errorf("negative position")
	}
	return r.pos, nil
}

func c08SeekerDecoders(kind string) map[string]func(io.Reader) (cid.Cid, error) {
	m := map[string]func(io.Reader) (cid.Cid, error){
		"token.FromSealedReader(seeker)": func(r io.Reader) (cid.Cid, error) { _, c, err := token.FromSealedReader(r); return c, err },
	}
	if kind == "inv" {
		m["invocation.FromSealedReader(seeker)"] = func(r io.Reader) (cid.Cid, error) { _, c, err := invocation.FromSealedReader(r); return c, err }
	} else {
		m["delegation.FromSealedReader(seeker)"] = func(r io.Reader) (cid.Cid, error) { _, c, err := delegation.FromSealedReader(r); return c, err }
	}
	return m
}

func pathPrefix(a, b []int) bool {
	if len(a) > len(b) {
		return false
	}
	for i := range a {
		if a[i] != b[i] {
			return false
		}
	}
	return true
}

func C08() *engine.Check {
	return &engine.Check{
		Property: "C08",
		Level:    "model_checking",
		Subs:     []*engine.Sub{c08HashSub(), c08CanonSub(), carLabelSub("C08"), c08ConcSub(), concRaceSub("C08")},
		Assumptions: []string{
			"reference CID = 0x01 0x71 0x12 0x20 || crypto/sha256(bytes)",
			"the CBOR item parser/re-encoder (refmodel/cbor.go) is independent of go-ipld-prime; a re-encoding is data-preserving by construction",
			"witnesses carry the original sealed bytes because ECDSA signatures are randomised",
		},
	}
}
