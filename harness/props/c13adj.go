package props

import (
	"fmt"
	"math/big"
	"strings"

	"github.com/ipld/go-ipld-prime"
	"github.com/ipld/go-ipld-prime/datamodel"
	"github.com/ipld/go-ipld-prime/node/bindnode"

	"github.com/ucan-wg/go-ucan/pkg/policy"
	"github.com/ucan-wg/go-ucan/pkg/policy/selector"

	"verifharness/engine"
	"verifharness/refmodel"
)

// ---- like statements next to each other ----

type c13AdjCase struct {
	Sel1 int `json:"sel1"`
	Sel2 int `json:"sel2"`
	Pat1 int `json:"pat1"`
	Pat2 int `json:"pat2"`
}

func (c *c13AdjCase) Weight() int { return c.Sel1 + c.Sel2 + c.Pat1 + c.Pat2 }

func c13AdjSub() *engine.Sub {
	type sl struct {
		text   string
		field  string
		lo, hi int
	}
	big := 1 << 30
	sels := []sl{{".s", "s", 0, big}, {".s[0:1]", "s", 0, 1}, {".s[1:2]", "s", 1, 2}, {".s[:1]", "s", 0, 1}, {".s[1:]", "s", 1, big}, {".s[-1:]", "s", -1, big}, {".t", "t", 0, big}, {".t[0:1]", "t", 0, 1}}
	pats := []string{"a", "b", "*", "a*", "*b"}
	strs := []string{"ab", "ba", "aa", "é*"}
	shapes := []string{"neighbours", "and", "or", "not-first", "not-second", "and-of-nots"}
	return &engine.Sub{
		Name: "like-statements-next-to-each-other",
		Rule: "two like statements evaluated one right after the other on the same data - neighbours in the policy, operands of one and / or, either one under not - whose selectors are .s, .t and character slices of them ([0:1], [1:2], [:1], [1:], [-1:]: texts that differ in nothing but the bounds) with patterns a, b, *, a*, *b, on data in which s and t are ab, ba, aa, é* (all 16 assignments): Match gives the verdict obtained by deciding each statement on its own slice with the reference glob matcher; nothing of the first statement's selection is reused for the second; non-trivial = pairs whose two statements have different truth values",
		Bound: func(string) string {
			return fmt.Sprintf("%d x %d selectors x %d x %d patterns x %d shapes x 16 data", len(sels), len(sels), len(pats), len(pats), len(shapes))
		},
		Gen: func(tier string, emit func(any) bool) {
			for a := range sels {
				for b := range sels {
					for p := range pats {
						for q := range pats {
							if !emit(&c13AdjCase{a, b, p, q}) {
								return
							}
						}
					}
				}
			}
		},
		NewCase: func() any { return &c13AdjCase{} },
		Run: func(ctx *engine.Ctx, c any) {
			cs := c.(*c13AdjCase)
			s1, s2, p1, p2 := sels[cs.Sel1], sels[cs.Sel2], pats[cs.Pat1], pats[cs.Pat2]
			ctx.States(1)
			for _, sv := range strs {
				for _, tv := range strs {
					data := nMap(kv{"s", nStr(sv)}, kv{"t", nStr(tv)})
					val := func(s sl) string {
						v := sv
						if s.field == "t" {
							v = tv
						}
						return runeSlice(v, s.lo, s.hi)
					}
					t1, t2 := globRef(p1, val(s1)), globRef(p2, val(s2))
					for _, shape := range shapes {
						l1, l2 := policy.Like(s1.text, p1), policy.Like(s2.text, p2)
						var pol policy.Policy
						var want bool
						switch shape {
						case "neighbours":
							pol, want = policy.MustConstruct(l1, l2), t1 && t2
						case "and":
							pol, want = policy.MustConstruct(policy.And(l1, l2)), t1 && t2
						case "or":
							pol, want = policy.MustConstruct(policy.Or(l1, l2)), t1 || t2
						case "not-first":
							pol, want = policy.MustConstruct(policy.Not(l1), l2), !t1 && t2
						case "not-second":
							pol, want = policy.MustConstruct(policy.Or(l1, policy.Not(l2))), t1 || !t2
						default:
							pol, want = policy.MustConstruct(policy.And(policy.Not(l1), policy.Not(l2))), !t1 && !t2
						}
						got, _ := pol.Match(data)
						ctx.Eval(1)
						ctx.Trans(1)
						if t1 != t2 {
							ctx.Nontrivial(1)
						}
						ctx.Outcome(fmt.Sprint(got))
						if got != want {
							ctx.Failf(cs, "glob/adjacent-statements/"+shape, "%v on {s:%q, t:%q} gives %v; like %s %q is %v and like %s %q is %v, so the policy is %v", pol, sv, tv, got, s1.text, p1, t1, s2.text, p2, t2, want)
						}
					}
				}
			}
		},
	}
}

// ---- the same node object, changed between two evaluations ----

type c13MutCase struct {
	Pat   int `json:"pat"`
	V1    int `json:"v1"`
	V2    int `json:"v2"`
	Other int `json:"other"` // number of evaluations on other node objects in between
}

func (c *c13MutCase) Weight() int { return c.Other }

type c13Holder struct {
	S string
	L []string
}

func c13MutSub() *engine.Sub {
	pats := []string{"a*", "*b", "a", "*", `a\*`}
	vals := []string{"ab", "ba", "a", "a*", ""}
	ts, err := ipld.LoadSchemaBytes([]byte(`type Holder struct { s String  l [String] }`))
	if err != nil {
		panic(err)
	}
	return &engine.Sub{
		Name:   "the-same-node-object-changed-between-evaluations",
		Serial: true,
		Rule:   "a like statement (and any .l over a like) evaluated on ONE node object - a bindnode view of a Go struct - then the Go value behind it is changed and the same statement object, and a freshly built equal one, are evaluated again on the same node object (Match and PartialMatch), with 0, 1, 15, 16, 17 evaluations on other node objects in between: every verdict is the reference glob matcher's on the value the node holds at the time of that evaluation; patterns a*, *b, a, *, a\\* x all ordered pairs of the values ab, ba, a, a*, empty; non-trivial = pairs whose two truth values differ",
		Bound: func(string) string {
			return fmt.Sprintf("%d patterns x %d x %d values x 5 distances x 2 statement objects x 2 shapes x 2 entry points", len(pats), len(vals), len(vals))
		},
		Gen: func(tier string, emit func(any) bool) {
			for p := range pats {
				for a := range vals {
					for b := range vals {
						for _, o := range []int{0, 1, 15, 16, 17} {
							if !emit(&c13MutCase{p, a, b, o}) {
								return
							}
						}
					}
				}
			}
		},
		NewCase: func() any { return &c13MutCase{} },
		Run: func(ctx *engine.Ctx, c any) {
			cs := c.(*c13MutCase)
			pat, v1, v2 := pats[cs.Pat], vals[cs.V1], vals[cs.V2]
			ctx.States(1)
			h := &c13Holder{S: v1, L: []string{v1}}
			var node datamodel.Node = bindnode.Wrap(h, ts.TypeByName("Holder"))
			polS := policy.MustConstruct(policy.Like(".s", pat))
			polL := policy.MustConstruct(policy.Any(".l", policy.Like(".", pat)))
			eval := func(when string, cur string, ps, pl policy.Policy) {
				want := globRef(pat, cur)
				for k, p := range []policy.Policy{ps, pl} {
					got, _ := p.Match(node)
					gotP, _ := p.PartialMatch(node)
					ctx.Eval(2)
					ctx.Trans(1)
					ctx.Outcome(fmt.Sprint(got))
					if got != want || gotP != want {
						ctx.Failf(cs, "glob/stale-verdict-on-changed-node/"+strings.ReplaceAll(when, " ", "-"), "%v on the node object that now holds %q (%s; it held %q at the first evaluation): Match %v, PartialMatch %v, expected %v [%s]", p, cur, when, v1, got, gotP, want, [2]string{".s", "any .l"}[k])
					}
				}
			}
			eval("first evaluation", v1, polS, polL)
			for i := 0; i < cs.Other; i++ {
				o := bindnode.Wrap(&c13Holder{S: fmt.Sprint("x", i), L: []string{"y"}}, ts.TypeByName("Holder"))
				polS.Match(o)
			}
			h.S, h.L[0] = v2, v2
			if globRef(pat, v1) != globRef(pat, v2) {
				ctx.Nontrivial(1)
			}
			eval("same statement object after the change", v2, polS, polL)
			eval("fresh statement object after the change", v2, policy.MustConstruct(policy.Like(".s", pat)), policy.MustConstruct(policy.Any(".l", policy.Like(".", pat))))
		},
	}
}

func globRef(pat, s string) bool {
	toks, ok := refmodel.GlobParse(pat)
	if !ok {
		panic("harness: bad pattern " + pat)
	}
	return refmodel.GlobMatch(toks, s)
}

// ---- strings that defeat hashing instead of comparing ----
//
// The Thue-Morse sequence t(n) over two letters and its complement have the same polynomial hash modulo 2^64
// for EVERY base once n reaches 2^10 - 2^11 (the classic counter-example to hashing with integer overflow), and
// equal sums / xors of their letters at every power of two. A matcher that locates or compares literal runs by a
// fingerprint takes the one for the other.

type c13HashCase struct {
	LogN  int    `json:"log_n"`
	Form  int    `json:"form"` // pattern shapes, see c13HashForms
	Pair  string `json:"letters"`
	Where int    `json:"where"` // what surrounds the complement in the string: 0 nothing, 1 x..y, 2 the genuine text's first half before it
}

func (c *c13HashCase) Weight() int { return c.LogN }

var c13HashForms = []string{"*T*", "id=*T*;", "*T", "T*", "a*T*b", "*T*T*"}

func thueMorse(n int, a, b byte) []byte {
	out := make([]byte, n)
	for i := range out {
		x, p := i, 0
		for x > 0 {
			p ^= x & 1
			x >>= 1
		}
		if p == 0 {
			out[i] = a
		} else {
			out[i] = b
		}
	}
	return out
}

func c13HashSub() *engine.Sub {
	return &engine.Sub{
		Name: "strings-that-defeat-fingerprints",
		Rule: "patterns *T*, id=*T*;, *T, T*, a*T*b, *T*T* where T is the Thue-Morse sequence of length 2^k (k = 1 .. 13) over the letter pairs a/b, 0/1 and a/NUL-free b/c; strings that hold the COMPLEMENT of T (letters swapped: equal length, equal letter counts, equal polynomial hash modulo 2^64 for every base once k >= 10..11) bare, inside x..y, and after the first half of T - and the strings that hold T itself: like is true exactly when the string is in the language (reference: strings.Contains / HasPrefix / HasSuffix on the literal runs, no hashing); non-trivial = all",
		Bound: func(string) string {
			return fmt.Sprintf("13 lengths x %d pattern shapes x 3 letter pairs x 3 surroundings x {complement, genuine}", len(c13HashForms))
		},
		Gen: func(tier string, emit func(any) bool) {
			for k := 1; k <= 13; k++ {
				for f := range c13HashForms {
					for _, pr := range []string{"ab", "01", "bc"} {
						for w := 0; w < 3; w++ {
							if !emit(&c13HashCase{k, f, pr, w}) {
								return
							}
						}
					}
				}
			}
		},
		NewCase: func() any { return &c13HashCase{} },
		Run: func(ctx *engine.Ctx, c any) {
			cs := c.(*c13HashCase)
			n := 1 << cs.LogN
			T := string(thueMorse(n, cs.Pair[0], cs.Pair[1]))
			C := string(thueMorse(n, cs.Pair[1], cs.Pair[0]))
			pat := strings.ReplaceAll(c13HashForms[cs.Form], "T", T)
			pol, err := policy.Construct(policy.Like(".s", pat))
			ctx.States(1)
			ctx.Nontrivial(1)
			if err != nil {
				ctx.Failf(cs, "glob/constructor-acceptance", "valid pattern of shape %s with |T| = %d rejected: %v", c13HashForms[cs.Form], n, err)
				return
			}
			wrap := func(core string) string {
				switch cs.Where {
				case 1:
					return "x" + core + "y"
				case 2:
					return T[:n/2] + core
				}
				return core
			}
			dress := func(core string) string { // put the core where the pattern shape wants its fixed parts
				switch c13HashForms[cs.Form] {
				case "id=*T*;":
					return "id=" + core + ";"
				case "a*T*b":
					return "a" + core + "b"
				}
				return core
			}
			// reference: the language of each shape, by plain string search
			ref := func(s string) bool {
				switch c13HashForms[cs.Form] {
				case "*T*":
					return strings.Contains(s, T)
				case "id=*T*;":
					return len(s) >= 4+n && strings.HasPrefix(s, "id=") && strings.HasSuffix(s, ";") && strings.Contains(s[3:len(s)-1], T)
				case "*T":
					return strings.HasSuffix(s, T)
				case "T*":
					return strings.HasPrefix(s, T)
				case "a*T*b":
					return len(s) >= 2+n && s[0] == 'a' && s[len(s)-1] == 'b' && strings.Contains(s[1:len(s)-1], T)
				default: // *T*T*
					i := strings.Index(s, T)
					return i >= 0 && strings.Contains(s[i+n:], T)
				}
			}
			for _, core := range []string{wrap(C), wrap(T), wrap(C + T), wrap(T + C + T)} {
				s := dress(core)
				want := ref(s)
				got, _ := pol.Match(nMap(kv{"s", nStr(s)}))
				ctx.Eval(1)
				ctx.Trans(1)
				ctx.Outcome(fmt.Sprint(got))
				if got != want {
					ctx.Failf(cs, "glob/fingerprint-instead-of-comparison/"+c13HashForms[cs.Form], "like %s (T = Thue-Morse sequence of %d letters over %q) on a string of %d bytes built from T and its complement gives %v, the string %s in the language", c13HashForms[cs.Form], n, cs.Pair, len(s), got, map[bool]string{true: "is", false: "is not"}[want])
				}
			}
		},
	}
}

// ---- (C12) indexes beyond 64 bits ----

type c12WrapCase struct {
	N    string `json:"n"`
	Form int    `json:"form"`
}

func (c *c12WrapCase) Weight() int { return len(c.N) }

func c12WrapSub() *engine.Sub {
	two64, _ := new(big.Int).SetString("18446744073709551616", 10)
	var ns []string
	for _, base := range []*big.Int{two64, new(big.Int).Lsh(two64, 1), new(big.Int).Lsh(two64, 64), new(big.Int).Lsh(big.NewInt(1), 63), new(big.Int).Lsh(big.NewInt(1), 32)} {
		for r := int64(-13); r <= 13; r++ {
			ns = append(ns, new(big.Int).Add(base, big.NewInt(r)).String())
		}
	}
	forms := []string{".[%s]", ".[-%s]", ".[%s]?", ".a[%s]", ".[0%s]"}
	return &engine.Sub{
		Name:  "indexes-beyond-the-machine-word",
		Rule:  "index segments written as 2^32, 2^63, 2^64, 2^65 and 2^128 plus or minus 0 .. 13 (an index that, reduced modulo 2^64 or 2^32, falls inside the list), positive, negative, optional, after a field, with a leading zero, resolved on the list 0 .. 12, on 13 bytes and on {a: list}: the parser may refuse the text; if it accepts it the index is out of range - an error, or no value for the optional form - never an element; non-trivial = texts the parser accepts",
		Bound: func(string) string { return fmt.Sprintf("%d integers x %d forms x 3 values", len(ns), len(forms)) },
		Gen: func(tier string, emit func(any) bool) {
			for _, n := range ns {
				for f := range forms {
					if !emit(&c12WrapCase{n, f}) {
						return
					}
				}
			}
		},
		NewCase: func() any { return &c12WrapCase{} },
		Run: func(ctx *engine.Ctx, c any) {
			cs := c.(*c12WrapCase)
			text := fmt.Sprintf(forms[cs.Form], cs.N)
			sel, err := selector.Parse(text)
			ctx.States(1)
			ctx.Eval(1)
			if err != nil {
				ctx.Outcome("rejected")
				return
			}
			ctx.Nontrivial(1)
			var items []datamodel.Node
			var bs []byte
			for i := 0; i < 13; i++ {
				items = append(items, nInt(int64(i)))
				bs = append(bs, byte(i))
			}
			for _, v := range []datamodel.Node{nList(items...), nBytes(bs), nMap(kv{"a", nList(items...)})} {
				got, gerr := sel.Select(v)
				ctx.Eval(1)
				ctx.Trans(1)
				if gerr == nil && got != nil {
					ctx.Outcome("element")
					ctx.Failf(cs, "seg:index/huge-index-selects-an-element", "Parse(%q) is accepted and selects %s from %s: an index of that size is outside every list", text, nodeJSON(got), nodeJSON(v))
					return
				}
				ctx.Outcome("out-of-range")
			}
		},
	}
}
