package props

import (
	"bytes"
	"crypto/rand"
	"fmt"
	"testing/iotest"

	"github.com/ipfs/go-cid"

	"github.com/ucan-wg/go-ucan/token"
	"github.com/ucan-wg/go-ucan/token/delegation"
	"github.com/ucan-wg/go-ucan/token/invocation"

	"github.com/ucan-wg/go-ucan/pkg/meta"

	"verifharness/engine"
	"verifharness/fixtures"
)

// ---- every way the random source can begin ----

// prefixReader hands out a chosen prefix first, then a counter stream.
type prefixReader struct {
	prefix []byte
	ctr    byte
}

func (r *prefixReader) Read(p []byte) (int, error) {
	for i := range p {
		if len(r.prefix) > 0 {
			p[i] = r.prefix[0]
			r.prefix = r.prefix[1:]
		} else {
			r.ctr += 37
			p[i] = r.ctr
		}
	}
	return len(p), nil
}

type c19PrefixCase struct {
	B0 int `json:"b0"`
	// replay
	B1 int  `json:"b1,omitempty"`
	B2 int  `json:"b2,omitempty"`
	On bool `json:"on,omitempty"`
}

func (c *c19PrefixCase) Weight() int { return c.B0 }

func c19PrefixSub() *engine.Sub {
	third := func(tier string) []int {
		if tier == "thorough" {
			r := make([]int, 256)
			for i := range r {
				r[i] = i
			}
			return r
		}
		return []int{0, 1, 2, 3, 4, 5, 0x10, 0x7f, 0x80, 0xff}
	}
	return &engine.Sub{
		Name:   "every-beginning-of-the-random-source",
		Serial: true,
		Rule:   "crypto/rand.Reader replaced by a source whose first bytes are chosen: every value of the first two bytes (65536) x the third byte in {0,1,2,3,4,5,0x10,0x7f,0x80,0xff} (thorough: all 256, i.e. every 3-byte beginning) - whatever the random draw (it becomes the beginning of the stored value in the current format), a 5-byte and a 40-byte value added encrypted are returned unchanged by the same key, as string and as bytes; non-trivial = all",
		Bound: func(t string) string {
			return fmt.Sprintf("65536 x %d beginnings of the random stream x 2 plaintext lengths", len(third(t)))
		},
		Gen: func(tier string, emit func(any) bool) {
			for b0 := 0; b0 < 256; b0++ {
				if !emit(&c19PrefixCase{B0: b0}) {
					return
				}
			}
		},
		NewCase: func() any { return &c19PrefixCase{} },
		Run: func(ctx *engine.Ctx, c any) {
			cs := c.(*c19PrefixCase)
			old := rand.Reader
			defer func() { rand.Reader = old }()
			ctx.States(1)
			pts := [][]byte{[]byte("hello"), bytes.Repeat([]byte("secret-"), 6)[:40]}
			one := func(b1, b2 int) bool {
				for _, pt := range pts {
					rand.Reader = &prefixReader{prefix: []byte{byte(cs.B0), byte(b1), byte(b2)}}
					m := meta.NewMeta()
					if err := m.AddEncrypted("k", pt, c19Key); err != nil {
						ctx.Failf(&c19PrefixCase{B0: cs.B0, B1: b1, B2: b2, On: true}, "add-fails/random-source-beginning", "AddEncrypted fails when the random source begins with %02x %02x %02x: %v", cs.B0, b1, b2, err)
						return false
					}
					got, err := m.GetEncryptedBytes("k", c19Key)
					ctx.Eval(2)
					ctx.Trans(1)
					if err != nil || !bytes.Equal(got, pt) {
						ctx.Outcome("roundtrip-fails")
						ctx.Failf(&c19PrefixCase{B0: cs.B0, B1: b1, B2: b2, On: true}, "roundtrip/random-source-beginning", "a %d-byte value encrypted while the random source begins with %02x %02x %02x does not come back with the same key: %v", len(pt), cs.B0, b1, b2, err)
						return false
					}
				}
				ctx.Nontrivial(1)
				return true
			}
			if cs.On {
				one(cs.B1, cs.B2)
				return
			}
			for b1 := 0; b1 < 256; b1++ {
				for _, b2 := range third(ctx.Tier) {
					if !one(b1, b2) {
						return
					}
				}
			}
			ctx.Outcome("ok")
		},
	}
}

// ---- the key is a slice of a larger buffer of the caller ----

type c19KeyBufCase struct {
	Spare int  `json:"spare"` // bytes of capacity behind the key
	AsStr bool `json:"as_str"`
}

func c19KeyBufSub() *engine.Sub {
	return &engine.Sub{
		Name:   "key-inside-a-larger-buffer",
		Serial: true,
		Rule:   "the 32-byte key is handed over as buf[off:off+32] of a larger buffer of the caller (spare capacity 1, 16, 24, 32, 64, 4096 behind it, 0 or 8 bytes in front of it) that holds other data - e.g. a second key: AddEncrypted, GetEncryptedString / Bytes with the right and with a wrong key leave every byte of the buffer as it was, and a value encrypted under the second key beforehand still decrypts afterwards; non-trivial = all",
		Bound:  func(string) string { return "6 spare capacities x 2 offsets x {string, bytes}" },
		Gen: func(tier string, emit func(any) bool) {
			for _, sp := range []int{1, 16, 24, 32, 64, 4096} {
				for _, s := range []bool{false, true} {
					if !emit(&c19KeyBufCase{sp, s}) {
						return
					}
				}
			}
		},
		NewCase: func() any { return &c19KeyBufCase{} },
		Run: func(ctx *engine.Ctx, c any) {
			cs := c.(*c19KeyBufCase)
			ctx.States(1)
			ctx.Nontrivial(1)
			for _, off := range []int{0, 8} {
				buf := make([]byte, off+32+cs.Spare)
				for i := range buf {
					buf[i] = byte(0xA0 + i%13)
				}
				copy(buf[off:], c19Key)
				key := buf[off : off+32] // cap reaches to the end of buf
				var second []byte
				m2 := meta.NewMeta()
				if cs.Spare >= 32 {
					second = buf[off+32 : off+64]
					if err := c19Add(m2, "other", []byte("under the second key"), cs.AsStr, second); err != nil {
						panic(err)
					}
				}
				snapshot := append([]byte{}, buf...)
				m := meta.NewMeta()
				pt := []byte("plaintext of some length")
				err := c19Add(m, "k", pt, cs.AsStr, key)
				ctx.Eval(1)
				if err != nil {
					ctx.Failf(cs, "add-fails", "AddEncrypted with a key that is a slice of a larger buffer fails: %v", err)
					return
				}
				got, err := c19Get(m, "k", cs.AsStr, key)
				_, _ = c19Get(m, "k", cs.AsStr, bytes.Repeat([]byte{0xff}, 64)[:32])
				ctx.Eval(2)
				ctx.Trans(3)
				if err != nil || !bytes.Equal(got, pt) {
					ctx.Failf(cs, "roundtrip/key-in-larger-buffer", "plaintext does not come back: %v", err)
				}
				if !bytes.Equal(buf, snapshot) {
					at := 0
					for at < len(buf) && buf[at] == snapshot[at] {
						at++
					}
					ctx.Outcome("caller-buffer-changed")
					ctx.Failf(cs, "callers-memory-written/around-the-key", "encrypting / decrypting with key = buf[%d:%d] (cap %d) changed the caller's buffer from byte %d on (the key itself is bytes %d..%d)", off, off+32, cap(key), at, off, off+31)
					return
				}
				if second != nil {
					if g, err := c19Get(m2, "other", cs.AsStr, second); err != nil || string(g) != "under the second key" {
						ctx.Failf(cs, "callers-memory-written/second-key-no-longer-decrypts", "a value encrypted under buf[%d:%d] no longer decrypts after buf[%d:%d] was used as a key: %v", off+32, off+64, off, off+32, err)
						return
					}
				}
				ctx.Outcome("ok")
			}
		},
	}
}

// ---- keys that are valid although a sloppy all-zero test would refuse them ----

type c19OddKeyCase struct {
	Key   int  `json:"key"`
	AsStr bool `json:"as_str"`
}

func c19OddKeys() (names []string, keys [][]byte) {
	add := func(n string, k []byte) { names, keys = append(names, n), append(keys, k) }
	k := make([]byte, 32)
	k[0] = 1
	add("only-first-byte-set", append([]byte{}, k...))
	k = make([]byte, 32)
	k[31] = 0x80
	add("only-last-bit-set", append([]byte{}, k...))
	k = make([]byte, 32)
	k[0] = 1
	for i := 8; i < 16; i++ {
		k[i] = 0xff
	}
	add("64-bit-lanes-sum-to-zero", append([]byte{}, k...)) // 1 + (2^64-1) + 0 + 0 = 0 mod 2^64
	k = make([]byte, 32)
	k[0], k[4] = 1, 0xff
	k[5], k[6], k[7] = 0xff, 0xff, 0xff
	k[1], k[2], k[3] = 0, 0, 0
	add("32-bit-lanes-sum-to-zero", func() []byte {
		x := make([]byte, 32)
		x[0] = 1
		x[4], x[5], x[6], x[7] = 0xff, 0xff, 0xff, 0xff
		return x
	}())
	add("bytes-sum-to-zero", func() []byte { x := make([]byte, 32); x[0], x[1] = 1, 0xff; return x }())
	add("two-equal-halves", append(bytes.Repeat([]byte{0xa5, 0x01}, 8), bytes.Repeat([]byte{0xa5, 0x01}, 8)...)) // XOR of the halves is zero
	add("four-equal-lanes", bytes.Repeat([]byte{1, 2, 3, 4, 5, 6, 7, 8}, 4))
	add("all-bytes-0x01", bytes.Repeat([]byte{1}, 32))
	add("all-bytes-0xff", bytes.Repeat([]byte{0xff}, 32))
	add("first-half-zero", append(make([]byte, 16), bytes.Repeat([]byte{7}, 16)...))
	add("second-half-zero", append(bytes.Repeat([]byte{7}, 16), make([]byte, 16)...))
	add("ascii-text", []byte("0123456789abcdef0123456789abcdef"))
	add("ascii-zeros", bytes.Repeat([]byte{'0'}, 32))
	return
}

func c19OddKeySub() *engine.Sub {
	names, keys := c19OddKeys()
	return &engine.Sub{
		Name:   "valid-keys-of-unusual-shape",
		Serial: true,
		Rule:   "32-byte keys that are not all-zero but look degenerate to a sloppy test - one bit set, lanes or bytes that sum to zero, equal halves (XOR zero), a zero half, repeated bytes, ASCII text: AddEncrypted accepts each, the same key returns the value unchanged (string and bytes), the all-zero key and a one-bit neighbour do not; non-trivial = all",
		Bound:  func(string) string { return fmt.Sprintf("%d keys x {string, bytes}", len(keys)) },
		Gen: func(tier string, emit func(any) bool) {
			for i := range keys {
				for _, s := range []bool{false, true} {
					if !emit(&c19OddKeyCase{i, s}) {
						return
					}
				}
			}
		},
		NewCase: func() any { return &c19OddKeyCase{} },
		Run: func(ctx *engine.Ctx, c any) {
			cs := c.(*c19OddKeyCase)
			key := keys[cs.Key]
			pt := []byte("a value of some length")
			m := meta.NewMeta()
			ctx.States(1)
			ctx.Nontrivial(1)
			ctx.Eval(3)
			ctx.Trans(2)
			if err := c19Add(m, "k", pt, cs.AsStr, key); err != nil {
				ctx.Outcome("valid-key-refused")
				ctx.Failf(cs, "valid-key-refused/"+names[cs.Key], "AddEncrypted refuses the valid key %q (%x): %v", names[cs.Key], key, err)
				return
			}
			got, err := c19Get(m, "k", cs.AsStr, key)
			if err != nil || !bytes.Equal(got, pt) {
				ctx.Outcome("roundtrip-fails")
				ctx.Failf(cs, "roundtrip/"+names[cs.Key], "the value does not come back with the key %q: %v", names[cs.Key], err)
				return
			}
			other := append([]byte{}, key...)
			other[17] ^= 4
			if _, err := c19Get(m, "k", cs.AsStr, other); err == nil {
				ctx.Failf(cs, "wrong-key-returns-data/"+names[cs.Key], "a key one bit away from %q decrypts the value", names[cs.Key])
			}
			ctx.Outcome("ok")
		},
	}
}

// ---- large values through every unsealing call ----

type c19BigCase struct {
	Kind string `json:"kind"`
	Len  int    `json:"len"`
}

func (c *c19BigCase) Weight() int { return c.Len / 1000 }

func c19BigSub() *engine.Sub {
	lens := func(tier string) []int {
		if tier == "thorough" {
			return []int{65536, 1 << 20, 4 << 20, 8 << 20, 9_999_000, 9_999_900, 10_000_000, 10_100_000, 10_300_000, 10_480_000}
		}
		return []int{1 << 20, 9_999_900, 10_300_000}
	}
	return &engine.Sub{
		Name:   "large-values-through-every-unsealing-call",
		Serial: true,
		Rule:   "an encrypted metadata value of 1 MiB up to just above 10^7 bytes (around the decimal and binary 10 MB marks, where size limits live) in a delegation / invocation, sealed once and unsealed with every call that takes sealed bytes - token.FromSealed, token.FromSealedReader, the typed FromSealed and FromSealedReader: as soon as one of them accepts the token all of them do, and each returns the plaintext unchanged under the key (and an error under another key); a size that every call refuses is outside what the decoders take (outcome too-large-for-every-decoder); non-trivial = sizes accepted",
		Bound: func(t string) string {
			return fmt.Sprintf("2 kinds x plaintext lengths %v x 4 unsealing calls", lens(t))
		},
		Gen: func(tier string, emit func(any) bool) {
			for _, l := range lens(tier) {
				for _, kind := range []string{"dlg", "inv"} {
					if tier != "thorough" && kind == "inv" && l != 9_999_900 {
						continue
					}
					if !emit(&c19BigCase{kind, l}) {
						return
					}
				}
			}
		},
		NewCase: func() any { return &c19BigCase{} },
		Run: func(ctx *engine.Ctx, c any) {
			cs := c.(*c19BigCase)
			pt := c19Plain(cs.Len, "counter")
			k := fixtures.Get("ed25519", 0)
			ctx.States(1)
			var tok sealer
			var err error
			if cs.Kind == "dlg" {
				tok, err = delegation.New(k.DID, otherPrincipal(k, 1), "/a", nil, delegation.WithEncryptedMetaBytes("secret", pt, c19Key), delegation.WithNonce(fixedNonce))
			} else {
				tok, err = invocation.New(k.DID, otherPrincipal(k, 1), "/a", []cid.Cid{cidPool[0]}, invocation.WithEncryptedMetaBytes("secret", pt, c19Key), invocation.WithNonce(fixedNonce))
			}
			if err != nil {
				ctx.Outcome("constructor-refuses")
				return
			}
			data, _, err := tok.ToSealed(k.Priv)
			if err != nil {
				ctx.Outcome("seal-refuses")
				return
			}
			type res struct {
				name string
				ro   meta.ReadOnly
				err  error
			}
			metaOf := func(t any, err error) (meta.ReadOnly, error) {
				if err != nil {
					return meta.ReadOnly{}, err
				}
				switch t := t.(type) {
				case *delegation.Token:
					return t.Meta(), nil
				case *invocation.Token:
					return t.Meta(), nil
				}
				return meta.ReadOnly{}, fmt.Errorf("unexpected %T", t)
			}
			var rs []res
			add := func(name string, t any, err error) {
				ro, e := metaOf(t, err)
				rs = append(rs, res{name, ro, e})
				ctx.Eval(1)
				ctx.Trans(1)
			}
			{
				t, _, err := token.FromSealed(data)
				add("token.FromSealed", t, err)
			}
			{
				t, _, err := token.FromSealedReader(bytes.NewReader(data))
				add("token.FromSealedReader", t, err)
			}
			if cs.Kind == "dlg" {
				t, _, err := delegation.FromSealed(data)
				add("delegation.FromSealed", t, err)
				t2, _, err := delegation.FromSealedReader(iotest.HalfReader(bytes.NewReader(data)))
				add("delegation.FromSealedReader", t2, err)
			} else {
				t, _, err := invocation.FromSealed(data)
				add("invocation.FromSealed", t, err)
				t2, _, err := invocation.FromSealedReader(iotest.HalfReader(bytes.NewReader(data)))
				add("invocation.FromSealedReader", t2, err)
			}
			okN := 0
			for _, r := range rs {
				if r.err == nil {
					okN++
				}
			}
			if okN == 0 {
				ctx.Outcome("too-large-for-every-decoder")
				return
			}
			ctx.Nontrivial(1)
			ctx.Outcome("accepted")
			for _, r := range rs {
				if r.err != nil {
					ctx.Failf(cs, "token/unseal-fails/"+r.name, "a %s with an encrypted value of %d bytes (sealed: %d bytes) is refused by %s (%v) while %d other unsealing calls accept the same bytes", cs.Kind, cs.Len, len(data), r.name, r.err, okN)
					continue
				}
				got, err := r.ro.GetEncryptedBytes("secret", c19Key)
				if err != nil || !bytes.Equal(got, pt) {
					ctx.Failf(cs, "token/roundtrip/"+r.name, "the plaintext of %d bytes does not come back after %s: %v", cs.Len, r.name, err)
				}
				if _, err := r.ro.GetEncryptedBytes("secret", bytes.Repeat([]byte{0xff}, 32)); err == nil {
					ctx.Failf(cs, "token/wrong-key-returns-data", "a different key decrypts the value after %s", r.name)
				}
			}
		},
	}
}

// ---- a random source that delivers less than it is asked for ----

type c19ShortRandCase struct {
	Chunk int  `json:"chunk"` // at most this many bytes per Read
	Len   int  `json:"len"`
	AsStr bool `json:"as_string"`
}

func (c *c19ShortRandCase) Weight() int { return c.Chunk }

// shortRandReader wraps the counter stream and hands out at most chunk bytes per call (a legal io.Reader).
type shortRandReader struct {
	inner *counterReader
	chunk int
}

func (r *shortRandReader) Read(p []byte) (int, error) {
	if len(p) > r.chunk {
		p = p[:r.chunk]
	}
	return r.inner.Read(p)
}

func c19ShortRandSub() *engine.Sub {
	return &engine.Sub{
		Name:   "a-random-source-that-delivers-in-pieces",
		Serial: true,
		Rule:   "crypto/rand.Reader replaced by a deterministic stream that hands out at most 1, 2, 7, 23 or 24 bytes per Read (a legal io.Reader: fewer bytes than asked, no error): 300 encryptions of the same value under one key - every stored value starts with 24 bytes that are exactly the next 24 bytes of the stream (no byte of the nonce is left at zero because a Read came back short), all 300 differ, and each decrypts to the value; non-trivial = chunks below 24",
		Bound: func(string) string {
			return "5 chunk sizes x plaintext lengths {0, 5, 64} x {string, bytes} x 300 encryptions"
		},
		Gen: func(tier string, emit func(any) bool) {
			for _, ch := range []int{1, 2, 7, 23, 24} {
				for _, l := range []int{0, 5, 64} {
					for _, s := range []bool{false, true} {
						if !emit(&c19ShortRandCase{ch, l, s}) {
							return
						}
					}
				}
			}
		},
		NewCase: func() any { return &c19ShortRandCase{} },
		Run: func(ctx *engine.Ctx, c any) {
			cs := c.(*c19ShortRandCase)
			pt := c19Plain(cs.Len, "counter")
			ctx.States(1)
			if cs.Chunk < 24 {
				ctx.Nontrivial(1)
			}
			old := rand.Reader
			cr := &counterReader{next: uint64(cs.Chunk)*1000 + uint64(cs.Len)}
			rand.Reader = &shortRandReader{cr, cs.Chunk}
			defer func() { rand.Reader = old }()
			seen := map[string]int{}
			for i := 0; i < 300; i++ {
				before := len(cr.consumed())
				m := meta.NewMeta()
				if err := c19Add(m, "k", pt, cs.AsStr, c19Key); err != nil {
					ctx.Failf(cs, "add-fails/short-random-reads", "AddEncrypted fails with a random source that delivers %d bytes per Read: %v", cs.Chunk, err)
					return
				}
				stored, err := m.GetBytes("k")
				ctx.Eval(1)
				ctx.Trans(1)
				if err != nil || len(stored) < 24 {
					ctx.Failf(cs, "stored-value-shape", "stored value unreadable or shorter than a nonce: %v", err)
					return
				}
				used := cr.consumed()[before:]
				if len(used) < 24 || !bytes.Equal(stored[:24], used[:24]) {
					ctx.Outcome("nonce-not-from-the-source")
					ctx.Failf(cs, "nonce-partly-unfilled/short-random-reads", "encryption %d with a random source delivering %d bytes per Read: the stored nonce is %x, the source handed out %x (%d bytes consumed): part of the nonce never came from the source", i, cs.Chunk, stored[:24], used[:min(len(used), 24)], len(used))
					return
				}
				if j, dup := seen[string(stored)]; dup {
					ctx.Failf(cs, "nonce-reused/short-random-reads", "encryptions %d and %d of the same value produce the same stored bytes", j, i)
					return
				}
				seen[string(stored)] = i
				if got, err := c19Get(m, "k", cs.AsStr, c19Key); err != nil || !bytes.Equal(got, pt) {
					ctx.Failf(cs, "roundtrip/short-random-reads", "the value does not decrypt: %v", err)
					return
				}
			}
			ctx.Outcome("ok")
		},
	}
}
