package props

import (
	"bytes"
	"crypto/sha256"
	"fmt"

	"github.com/ipfs/go-cid"
	"github.com/libp2p/go-libp2p/core/crypto"
	"github.com/multiformats/go-multihash"

	"github.com/ucan-wg/go-ucan/token"
	"github.com/ucan-wg/go-ucan/token/delegation"
	"github.com/ucan-wg/go-ucan/token/invocation"

	"verifharness/engine"
)

// The bytes a seal / encode call returns belong to the caller: whatever the caller does to them, the same
// token can be sealed again and the result unseals to the same fields.

type fullEncoder interface {
	ToSealed(crypto.PrivKey) ([]byte, cid.Cid, error)
	ToDagCbor(crypto.PrivKey) ([]byte, error)
	ToDagJson(crypto.PrivKey) ([]byte, error)
}

var c07AgainOps = []string{"ToSealed", "ToDagCbor", "ToDagJson"}
var c07AgainDamage = []string{"none", "zeroed", "first-byte-flipped", "last-byte-flipped", "appended-to"}

type c07AgainCase struct {
	Kind   string `json:"kind"`
	Alg    string `json:"alg"`
	First  int    `json:"first"`  // encoder called first
	Damage int    `json:"damage"` // what the caller does to the returned slice
	Second int    `json:"second"` // encoder called afterwards on the same token
}

func (c *c07AgainCase) Weight() int { return c.Damage + c.First + c.Second }

func c07AgainSub() *engine.Sub {
	return &engine.Sub{
		Name: "sealing-the-same-token-again",
		Rule: "one token value ({delegation, invocation} x key algorithm) is encoded with each of ToSealed / ToDagCbor / ToDagJson, the caller then overwrites the returned slice in place (zeroes it, flips its first or last byte, appends to it, or leaves it alone), and the same token is encoded again with each of the three: the second output must decode (generic decoder) to the fields of the token, its reported CID must be the CIDv1/DAG-CBOR/SHA2-256 of the second output, and a third call must still work; non-trivial = damage other than none",
		Bound: func(t string) string {
			return fmt.Sprintf("2 kinds x %d algorithms x 3 first encoders x 5 caller actions x 3 second encoders", len(c07AgainAlgs(t)))
		},
		Gen: func(tier string, emit func(any) bool) {
			for _, kind := range []string{"dlg", "inv"} {
				for _, alg := range c07AgainAlgs(tier) {
					for f := range c07AgainOps {
						for d := range c07AgainDamage {
							for s := range c07AgainOps {
								if !emit(&c07AgainCase{Kind: kind, Alg: alg, First: f, Damage: d, Second: s}) {
									return
								}
							}
						}
					}
				}
			}
		},
		NewCase: func() any { return &c07AgainCase{} },
		Run: func(ctx *engine.Ctx, c any) {
			cs := c.(*c07AgainCase)
			tok, key, err := BuildToken(TokSpec{Kind: cs.Kind, Alg: cs.Alg, Opts: map[string]string{"nonce": "12", "iat": "none"}})
			if err != nil {
				panic(err)
			}
			want := ViewOf(tok)
			enc := tok.(fullEncoder)
			call := func(op int) ([]byte, cid.Cid, error) {
				switch op {
				case 0:
					return enc.ToSealed(key.Priv)
				case 1:
					b, err := enc.ToDagCbor(key.Priv)
					return b, cid.Undef, err
				default:
					b, err := enc.ToDagJson(key.Priv)
					return b, cid.Undef, err
				}
			}
			ctx.States(1)
			if cs.Damage != 0 {
				ctx.Nontrivial(1)
			}
			first, _, err := call(cs.First)
			if err != nil {
				ctx.Failf(cs, "seal-fails/"+c07AgainOps[cs.First], "%s of a constructor-built %s/%s token fails: %v", c07AgainOps[cs.First], cs.Kind, cs.Alg, err)
				return
			}
			switch cs.Damage {
			case 1:
				for i := range first {
					first[i] = 0
				}
			case 2:
				first[0] ^= 0xff
			case 3:
				first[len(first)-1] ^= 0xff
			case 4:
				first = append(first, "trailing garbage appended by the caller"...)
				_ = first
			}
			for round := 0; round < 2; round++ {
				out, c, err := call(cs.Second)
				ctx.Eval(1)
				ctx.Trans(1)
				tag := fmt.Sprintf("%s-after-%s-%s", c07AgainOps[cs.Second], c07AgainOps[cs.First], c07AgainDamage[cs.Damage])
				if err != nil {
					ctx.Outcome("second-seal-fails")
					ctx.Failf(cs, "sealing-again-fails/"+tag, "call #%d of %s on a token whose earlier %s output the caller had %s fails: %v", round+2, c07AgainOps[cs.Second], c07AgainOps[cs.First], c07AgainDamage[cs.Damage], err)
					return
				}
				var got any
				if cs.Second == 2 {
					got, err = token.FromDagJson(out)
				} else {
					got, err = token.FromDagCbor(out)
				}
				if err != nil {
					ctx.Outcome("second-output-rejected")
					ctx.Failf(cs, "sealing-again-yields-garbage/"+tag, "the output of call #%d of %s (after the caller had %s the earlier %s output) does not decode: %v", round+2, c07AgainOps[cs.Second], c07AgainDamage[cs.Damage], c07AgainOps[cs.First], err)
					return
				}
				if diff := DiffViews(want, ViewOf(got)); len(diff) > 0 {
					ctx.Failf(cs, "sealing-again-changes-fields/"+tag, "the output of call #%d of %s differs from the token on %v", round+2, c07AgainOps[cs.Second], diff)
					return
				}
				if cs.Second == 0 {
					h := sha256.Sum256(out)
					mh, _ := multihash.Encode(h[:], multihash.SHA2_256)
					if !c.Equals(cid.NewCidV1(cid.DagCBOR, mh)) {
						ctx.Failf(cs, "sealing-again-stale-cid/"+tag, "call #%d of ToSealed reports CID %s, which is not the CID of the bytes it returned", round+2, c)
						return
					}
				}
				ctx.Outcome("ok")
				// the caller damages this output as well before the last round
				if cs.Damage != 0 {
					for i := range out {
						out[i] = 0
					}
				}
				_ = bytes.Equal
			}
		},
	}
}

func c07AgainAlgs(tier string) []string {
	if tier == "thorough" {
		return []string{"ed25519", "secp256k1", "p256", "p384", "p521", "rsa2048", "rsa3072"}
	}
	return []string{"ed25519", "secp256k1", "p256", "rsa2048"}
}

// ---- one bytes.Buffer as a pipe for several round trips ----

type c07PipeCase struct {
	Kind string `json:"kind"`
	Alg  string `json:"alg"`
	API  int    `json:"api"` // index into c07PipeAPIs
	N    int    `json:"n"`   // number of round trips
}

func (c *c07PipeCase) Weight() int { return c.N }

var c07PipeAPIs = []string{"ToSealedWriter->token.FromSealedReader", "ToSealedWriter->typed.FromSealedReader", "ToDagCborWriter->typed.FromDagCborReader", "ToDagJsonWriter->typed.FromDagJsonReader", "ToDagJsonWriter->token.FromDagJsonReader"}

func c07PipeSub() *engine.Sub {
	return &engine.Sub{
		Name: "one-buffer-as-a-pipe",
		Rule: "N tokens (distinct nonces) travel one after the other through ONE *bytes.Buffer that is never reset: writer API into the buffer, reader API out of it, for each of 5 writer/reader pairings: every token comes out with the fields it went in with, and the buffer is empty after every read (a reader consumes what it decodes); non-trivial = N >= 2",
		Bound: func(t string) string {
			return fmt.Sprintf("2 kinds x %d algorithms x 5 API pairings x N in {1, 2, 3}", len(c07AgainAlgs(t)))
		},
		Gen: func(tier string, emit func(any) bool) {
			for _, kind := range []string{"dlg", "inv"} {
				for _, alg := range c07AgainAlgs(tier) {
					for api := range c07PipeAPIs {
						for n := 1; n <= 3; n++ {
							if !emit(&c07PipeCase{Kind: kind, Alg: alg, API: api, N: n}) {
								return
							}
						}
					}
				}
			}
		},
		NewCase: func() any { return &c07PipeCase{} },
		Run: func(ctx *engine.Ctx, c any) {
			cs := c.(*c07PipeCase)
			var buf bytes.Buffer
			ctx.States(1)
			if cs.N >= 2 {
				ctx.Nontrivial(1)
			}
			for i := 0; i < cs.N; i++ {
				tok, key, err := BuildToken(TokSpec{Kind: cs.Kind, Alg: cs.Alg, Opts: map[string]string{"nonce": fmt.Sprintf("ctr:%d", i), "iat": "none"}})
				if err != nil {
					panic(err)
				}
				want := ViewOf(tok)
				w := tok.(tokenWriter)
				switch cs.API {
				case 0, 1:
					_, err = w.ToSealedWriter(&buf, key.Priv)
				case 2:
					err = w.ToDagCborWriter(&buf, key.Priv)
				default:
					err = w.ToDagJsonWriter(&buf, key.Priv)
				}
				if err != nil {
					ctx.Failf(cs, "pipe/write-fails", "round trip #%d: %s fails writing into the buffer: %v", i+1, c07PipeAPIs[cs.API], err)
					return
				}
				var got any
				switch cs.API {
				case 0:
					got, _, err = token.FromSealedReader(&buf)
				case 1:
					if cs.Kind == "dlg" {
						got, _, err = delegation.FromSealedReader(&buf)
					} else {
						got, _, err = invocation.FromSealedReader(&buf)
					}
				case 2:
					if cs.Kind == "dlg" {
						got, err = delegation.FromDagCborReader(&buf)
					} else {
						got, err = invocation.FromDagCborReader(&buf)
					}
				case 3:
					if cs.Kind == "dlg" {
						got, err = delegation.FromDagJsonReader(&buf)
					} else {
						got, err = invocation.FromDagJsonReader(&buf)
					}
				default:
					got, err = token.FromDagJsonReader(&buf)
				}
				ctx.Eval(1)
				ctx.Trans(1)
				if err != nil {
					ctx.Outcome("read-fails")
					ctx.Failf(cs, "pipe/read-fails-on-trip-"+fmt.Sprint(i+1), "round trip #%d through one buffer (%s): the reader fails: %v", i+1, c07PipeAPIs[cs.API], err)
					return
				}
				if diff := DiffViews(want, ViewOf(got)); len(diff) > 0 {
					ctx.Failf(cs, "pipe/wrong-token-on-trip-"+fmt.Sprint(i+1), "round trip #%d through one buffer (%s): the token read differs from the one written on %v", i+1, c07PipeAPIs[cs.API], diff)
					return
				}
				if buf.Len() != 0 {
					ctx.Failf(cs, "pipe/reader-leaves-bytes-behind", "round trip #%d (%s): %d bytes are still in the buffer after the reader returned the token", i+1, c07PipeAPIs[cs.API], buf.Len())
					return
				}
				ctx.Outcome("ok")
			}
		},
	}
}
