package props

import (
	"fmt"

	"github.com/ipfs/go-cid"
	"github.com/libp2p/go-libp2p/core/crypto"
	"github.com/multiformats/go-multihash"

	"github.com/ucan-wg/go-ucan/did"
	"github.com/ucan-wg/go-ucan/token/delegation"
	"github.com/ucan-wg/go-ucan/token/invocation"

	"verifharness/engine"
	"verifharness/fixtures"
)

// Link forms: other CIDs that "point at" the same sealed delegation but that the loader of the
// check does not know. A delegation that the loader cannot load is not loadable, whatever the
// link itself carries.
var c01LinkForms = []string{"identity-multihash-of-sealed-bytes", "raw-codec-same-digest", "dag-json-codec-same-digest", "sha2-512-of-sealed-bytes", "cidv0-same-digest", "identity-multihash-of-garbage", "identity-multihash-empty"}

func c01LinkForm(form int, sealed []byte, real cid.Cid) cid.Cid {
	sum := func(data []byte, code uint64) multihash.Multihash {
		mh, err := multihash.Sum(data, code, -1)
		if err != nil {
			panic(err)
		}
		return mh
	}
	switch form {
	case 0:
		return cid.NewCidV1(cid.DagCBOR, sum(sealed, multihash.IDENTITY))
	case 1:
		return cid.NewCidV1(cid.Raw, real.Hash())
	case 2:
		return cid.NewCidV1(cid.DagJSON, real.Hash())
	case 3:
		return cid.NewCidV1(cid.DagCBOR, sum(sealed, multihash.SHA2_512))
	case 4:
		return cid.NewCidV0(real.Hash())
	case 5:
		return cid.NewCidV1(cid.DagCBOR, sum([]byte("not a token"), multihash.IDENTITY))
	default:
		return cid.NewCidV1(cid.DagCBOR, sum(nil, multihash.IDENTITY))
	}
}

type c01FormCase struct {
	Len   int `json:"len"`
	Mask  int `json:"mask"`  // positions whose link is replaced
	Form  int `json:"form"`  // index into c01LinkForms
	Empty int `json:"empty"` // 1 = the loader knows nothing at all
	// Insert > 0: the chain itself is complete and valid; ONE extra link of the given form, unknown to the
	// loader, is inserted before position Insert-1 (Mask is then unused)
	Insert int `json:"insert,omitempty"`
}

func (c *c01FormCase) Weight() int { return c.Len + popcount(c.Mask) }

// c01FormsSub: correctly aligned, genuinely signed chains whose links are given in a form the loader does not know.
func c01FormsSub() *engine.Sub {
	return &engine.Sub{
		Name: "links-the-loader-does-not-know",
		Rule: "correctly aligned chains of genuinely sealed delegations, served by a loader keyed by their true CIDs (or by an empty loader); every non-empty subset of positions of the proof list is replaced by another link to the same sealed bytes, or one extra link that the loader does not know is inserted at any position of the complete chain: " + fmt.Sprint(c01LinkForms) + "; the invocation is checked in memory and sealed+decoded, with both APIs: no such list may be allowed (the delegation cannot be loaded); the unmodified list must be (sanity); non-trivial = every case",
		Bound: func(t string) string {
			return fmt.Sprintf("chains of 1..%d links x (every non-empty position subset x {complete loader, empty loader} + every insertion point) x %d link forms", tierN(t, 3, 5), len(c01LinkForms))
		},
		Setup: func(string) error { chainInit(); return nil },
		Gen: func(tier string, emit func(any) bool) {
			for n := 1; n <= tierN(tier, 3, 5); n++ {
				for mask := 1; mask < 1<<n; mask++ {
					for f := range c01LinkForms {
						for e := 0; e < 2; e++ {
							if !emit(&c01FormCase{Len: n, Mask: mask, Form: f, Empty: e}) {
								return
							}
						}
					}
				}
				for ins := 1; ins <= n+1; ins++ {
					for f := range c01LinkForms {
						if !emit(&c01FormCase{Len: n, Form: f, Insert: ins}) {
							return
						}
					}
				}
			}
		},
		NewCase: func() any { return &c01FormCase{} },
		Run: func(ctx *engine.Ctx, c any) {
			cs := c.(*c01FormCase)
			n := cs.Len
			keys := fixtures.ByAlg("ed25519")
			full := &posLoader{byCid: map[cid.Cid]*delegation.Token{}}
			real := make([]cid.Cid, n)
			prf := make([]cid.Cid, n)
			for i := 0; i < n; i++ {
				d := mustDlg(alignedHolder(n, i+1), alignedHolder(n, i), 0, "/a", nil)
				data, c, err := d.ToSealed(keys[alignedHolder(n, i+1)].Priv)
				if err != nil {
					panic(err)
				}
				dec, _, err := delegation.FromSealed(data)
				if err != nil {
					panic(err)
				}
				full.byCid[c] = dec
				real[i], prf[i] = c, c
				if cs.Mask&(1<<i) != 0 {
					prf[i] = c01LinkForm(cs.Form, data, c)
				}
			}
			if cs.Insert > 0 {
				extra := c01LinkForm(cs.Form, []byte(fmt.Sprintf("some other block %d", cs.Form)), cidPool[40])
				at := cs.Insert - 1
				prf = append(append(append([]cid.Cid{}, real[:at]...), extra), real[at:]...)
			}
			var ld delegation.Loader = full
			if cs.Empty == 1 {
				ld = &posLoader{byCid: map[cid.Cid]*delegation.Token{}}
			}
			ctx.States(1)
			ctx.Nontrivial(1)
			mk := func(p []cid.Cid, sealed bool) *invocation.Token {
				inv, err := invocation.New(prin(alignedHolder(n, 0)), prin(0), "/a", p, invocation.WithNonce(fixedNonce), invocation.WithoutInvokedAt())
				if err != nil {
					panic(err)
				}
				if !sealed {
					return inv
				}
				data, _, err := inv.ToSealed(keys[alignedHolder(n, 0)].Priv)
				if err != nil {
					// a constructor / encoder that refuses such a link is fine for C01
					return nil
				}
				dec, _, err := invocation.FromSealed(data)
				if err != nil {
					return nil
				}
				return dec
			}
			if e1, e2 := bothVerdicts(mk(real, true), full); e1 != nil || e2 != nil {
				panic(fmt.Sprintf("harness: the unmodified chain of %d links is denied: %v / %v", n, e1, e2))
			}
			for _, sealed := range []bool{false, true} {
				inv := mk(prf, sealed)
				if inv == nil {
					ctx.Outcome("refused-at-construction")
					continue
				}
				e1, e2 := bothVerdicts(inv, ld)
				ctx.Eval(2)
				ctx.Trans(2)
				ctx.Outcome(errLabel(e1))
				for k, e := range []error{e1, e2} {
					if e == nil {
						ctx.Failf(cs, "allowed-despite:missing/"+c01LinkForms[cs.Form], "%s allowed a chain of %d links whose positions %b are given as %s, which the loader (empty=%d) cannot load",
							[2]string{"ExecutionAllowed", "ExecutionAllowedWithArgsHook"}[k], n, cs.Mask, c01LinkForms[cs.Form], cs.Empty)
					}
				}
			}
		},
	}
}

// ---- principals whose identifiers collide under a 32-bit hash ----

type c01CollideCase struct {
	Pair   int `json:"pair"`   // index into fixtures.Collisions()
	Config int `json:"config"` // 0 = broken link, 1 = wrong first audience, 2 = wrong subject
	Order  int `json:"order"`  // permutation index of the decode order of the sealed tokens
}

func (c *c01CollideCase) Weight() int { return c.Config + c.Order }

var c01CollideConfigs = []string{"link", "firstAud", "subject"}

func perms(n int) [][]int {
	if n == 1 {
		return [][]int{{0}}
	}
	var res [][]int
	for _, p := range perms(n - 1) {
		for at := 0; at <= len(p); at++ {
			q := append(append(append([]int{}, p[:at]...), n-1), p[at:]...)
			res = append(res, q)
		}
	}
	return res
}

func c01CollideSub() *engine.Sub {
	var pairs []fixtures.Collision
	return &engine.Sub{
		Name:   "principals-with-colliding-identifiers",
		Serial: true,
		Rule:   "pairs (Y, X) of distinct valid Ed25519 did:key identifiers of equal length whose text has the same sum under one of the standard library's 32-bit hashes (FNV-1, FNV-1a, CRC-32 IEEE / Castagnoli, Adler-32; found by a recorded birthday search, re-verified at start-up); Y owns a key, X does not. Chains in which X stands where Y would make the chain valid - a link (leaf issued by Y, root addressed to X), the first audience (root addressed to X, invoked by Y) or the subject (root issued by Y for subject X, invocation on Y): every token is sealed, and the sealed tokens are decoded in every order before the check; none may be allowed; non-trivial = all",
		Bound: func(string) string {
			return fmt.Sprintf("%d recorded pairs x 3 configurations x every decode order of the 2..3 sealed tokens x 2 APIs", len(fixtures.Collisions()))
		},
		Setup: func(string) error { chainInit(); pairs = fixtures.Collisions(); return nil },
		Gen: func(tier string, emit func(any) bool) {
			for p := range fixtures.Collisions() {
				for cfg := 0; cfg < 3; cfg++ {
					n := 3
					if cfg > 0 {
						n = 2
					}
					for o := range perms(n) {
						if !emit(&c01CollideCase{Pair: p, Config: cfg, Order: o}) {
							return
						}
					}
				}
			}
		},
		NewCase: func() any { return &c01CollideCase{} },
		Run: func(ctx *engine.Ctx, c any) {
			cs := c.(*c01CollideCase)
			pr := pairs[cs.Pair]
			yKey, y := fixtures.CollideReal(pr.Seed)
			x := fixtures.CollideSynth(pr.XSeed)
			keys := fixtures.ByAlg("ed25519")
			s, i := prin(0), prin(1)
			var sealedCids []cid.Cid
			sealD := func(iss, aud, sub did.DID, key crypto.PrivKey) []byte {
				d, err := delegation.New(iss, aud, "/a", nil, delegation.WithSubject(sub), delegation.WithNonce(fixedNonce))
				if err != nil {
					panic(err)
				}
				data, c, err := d.ToSealed(key)
				if err != nil {
					panic(err)
				}
				sealedCids = append(sealedCids, c)
				return data
			}
			var dlgs [][]byte
			invIss, invSub, invKey := i, s, keys[1].Priv
			switch cs.Config {
			case 0:
				dlgs = [][]byte{sealD(y, i, s, yKey), sealD(s, x, s, keys[0].Priv)}
			case 1:
				dlgs = [][]byte{sealD(s, x, s, keys[0].Priv)}
				invIss, invKey = y, yKey
			case 2:
				dlgs = [][]byte{sealD(y, i, x, yKey)}
				invSub = y
			}
			prf := make([]cid.Cid, len(dlgs))
			copy(prf, sealedCids)
			// fresh texts evict whatever the set-up above left behind in a small table
			for k := 0; k < 600; k++ {
				_, _ = did.Parse(fixtures.CollideSynth(1<<20 + k).String())
			}
			inv, err := invocation.New(invIss, invSub, "/a", prf, invocation.WithNonce(fixedNonce), invocation.WithoutInvokedAt())
			if err != nil {
				panic(err)
			}
			invData, _, err := inv.ToSealed(invKey)
			if err != nil {
				panic(err)
			}
			ld := &posLoader{byCid: map[cid.Cid]*delegation.Token{}}
			var dec *invocation.Token
			for _, item := range perms(len(dlgs) + 1)[cs.Order] {
				if item == len(dlgs) {
					dec, _, err = invocation.FromSealed(invData)
					if err != nil {
						// a genuine token that is refused is not C01's business (C05 / C06 charge it)
						ctx.Outcome("decode-refused")
						return
					}
					continue
				}
				d, c, err := delegation.FromSealed(dlgs[item])
				if err != nil {
					ctx.Outcome("decode-refused")
					return
				}
				ld.byCid[c] = d
			}
			ctx.States(1)
			ctx.Nontrivial(1)
			ctx.Trans(int64(len(dlgs) + 1))
			e1, e2 := bothVerdicts(dec, ld)
			ctx.Eval(2)
			ctx.Outcome(errLabel(e1))
			for k, e := range []error{e1, e2} {
				if e == nil {
					ctx.Failf(cs, "allowed-despite:"+c01CollideConfigs[cs.Config]+"/identifiers-colliding-under-"+pr.Hash, "%s allowed a chain in which %s stands where %s is required (%s rule); both are valid identifiers with the same %s sum",
						[2]string{"ExecutionAllowed", "ExecutionAllowedWithArgsHook"}[k], pr.X, pr.Y, c01CollideConfigs[cs.Config], pr.Hash)
				}
			}
		},
	}
}
