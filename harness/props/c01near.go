package props

import (
	"fmt"

	"github.com/ipfs/go-cid"
	"github.com/mr-tron/base58"

	"github.com/ucan-wg/go-ucan/did"
	"github.com/ucan-wg/go-ucan/token/delegation"
	"github.com/ucan-wg/go-ucan/token/invocation"

	"verifharness/engine"
	"verifharness/fixtures"
)

// Principals that differ in one bit of their key material are different principals: for the elliptic-curve
// types that includes the mirrored point (compressed tag 02 <-> 03: same X, other Y).

type c01NearCase struct {
	Key    int `json:"key"` // index into fixtures.All()
	Byte   int `json:"byte"`
	Config int `json:"config"`
}

func (c *c01NearCase) Weight() int { return c.Byte }

func c01NearPositions(n int) []int {
	var r []int
	for i := 0; i < n; i++ {
		if n <= 70 || i < 40 || i >= n-8 {
			r = append(r, i)
		}
	}
	return r
}

func c01NearSub() *engine.Sub {
	return &engine.Sub{
		Name: "principals-one-bit-apart",
		Rule: "for every fixture key (all algorithms) Y and every identifier X obtained by flipping the lowest bit of ONE byte of Y's key material (every position up to 70 bytes, the first 40 and last 8 of longer keys; for elliptic-curve keys position 0 is the compression tag: X is the mirrored point, same x-coordinate) that did.Parse accepts: chains in which X stands where the rules require Y - the next link's audience, the first link's audience vs the invoker, the delegation's subject vs the invocation's, the root's issuer vs its subject - are refused by both APIs (tokens in memory); non-trivial = identifiers accepted by the parser",
		Bound: func(string) string {
			return fmt.Sprintf("%d keys x up to 48 byte positions x 4 configurations x 2 APIs", len(fixtures.All()))
		},
		Setup: func(string) error { chainInit(); return nil },
		Gen: func(tier string, emit func(any) bool) {
			for k, fx := range fixtures.All() {
				if fx.Err != nil {
					continue
				}
				raw, err := base58.Decode(fx.DID.String()[len("did:key:z"):])
				if err != nil {
					panic(err)
				}
				_, n, _ := uvarintStrict(raw)
				for _, p := range c01NearPositions(len(raw) - n) {
					for cfg := 0; cfg < 4; cfg++ {
						if !emit(&c01NearCase{k, p, cfg}) {
							return
						}
					}
				}
			}
		},
		NewCase: func() any { return &c01NearCase{} },
		Run: func(ctx *engine.Ctx, c any) {
			cs := c.(*c01NearCase)
			fx := fixtures.All()[cs.Key]
			y := fx.DID
			raw, _ := base58.Decode(y.String()[len("did:key:z"):])
			_, n, _ := uvarintStrict(raw)
			mod := append([]byte{}, raw...)
			mod[n+cs.Byte] ^= 1
			ctx.States(1)
			x, err := did.Parse("did:key:z" + base58.Encode(mod))
			if err != nil {
				ctx.Outcome("identifier-refused")
				return
			}
			if x == y {
				ctx.Failf(cs, "distinct-identifiers-parse-equal/"+fx.Alg, "the identifier with byte %d of the key material changed parses to the same DID value", cs.Byte)
				return
			}
			ctx.Nontrivial(1)
			s, i := prin(0), prin(1)
			mk := func(iss, aud, sub did.DID) *delegation.Token {
				d, err := delegation.New(iss, aud, "/a", nil, delegation.WithSubject(sub), delegation.WithNonce(fixedNonce))
				if err != nil {
					panic(err)
				}
				return d
			}
			var dl []*delegation.Token
			invIss, invSub := i, s
			what := ""
			switch cs.Config {
			case 0:
				dl, what = []*delegation.Token{mk(y, i, s), mk(s, x, s)}, "the root link is addressed to X, the leaf link is issued by Y"
			case 1:
				dl, invIss, what = []*delegation.Token{mk(s, x, s)}, y, "the link is addressed to X, the invoker is Y"
			case 2:
				dl, invSub, what = []*delegation.Token{mk(x, i, x)}, y, "the delegation's subject (and root issuer) is X, the invocation's subject is Y"
			default:
				dl, invSub, what = []*delegation.Token{mk(x, i, y)}, y, "the root link is issued by X, its subject is Y"
			}
			ld := &sliceLoader{}
			var prf []cid.Cid
			for k, d := range dl {
				ld.cids, ld.toks = append(ld.cids, cidPool[20+k]), append(ld.toks, d)
				prf = append(prf, cidPool[20+k])
			}
			inv, err := invocation.New(invIss, invSub, "/a", prf, invocation.WithNonce(fixedNonce), invocation.WithoutInvokedAt())
			if err != nil {
				panic(err)
			}
			e1, e2 := bothVerdictsGuarded(inv, ld)
			ctx.Eval(2)
			ctx.Trans(1)
			ctx.Outcome(errLabel(e1))
			for k, e := range []error{e1, e2} {
				if e == nil {
					kind := "one-bit"
					if cs.Byte == 0 && (fx.Alg == "p256" || fx.Alg == "p384" || fx.Alg == "p521" || fx.Alg == "secp256k1") {
						kind = "mirrored-point"
					}
					ctx.Failf(cs, "allowed-despite:other-principal/"+kind, "%s allows a chain in which %s; X is Y's %s identifier with byte %d of the key material changed (%.40s... vs %.40s...): two principals", [2]string{"ExecutionAllowed", "ExecutionAllowedWithArgsHook"}[k], what, fx.Alg, cs.Byte, x.String(), y.String())
				}
			}
		},
	}
}
