package props

import (
	"bytes"
	"crypto/sha256"
	"fmt"
	"sync"

	"github.com/ipfs/go-cid"
	"github.com/ipld/go-ipld-prime"
	"github.com/ipld/go-ipld-prime/codec/dagcbor"
	"github.com/ipld/go-ipld-prime/datamodel"

	"verifharness/fixtures"
)

// The harness' own envelope assembler: builds [signature, {"h": header, tag: payload}]
// with go-ipld-prime directly and signs with the libp2p key, independently of
// go-ucan's token/internal/envelope package.

const (
	dlgTag = "ucan/dlg@1.0.0-rc.1"
	invTag = "ucan/inv@1.0.0-rc.1"
)

// refCID is the reference content address: CIDv1, DAG-CBOR (0x71), SHA2-256.
func refCID(b []byte) cid.Cid {
	h := sha256.Sum256(b)
	raw := append([]byte{0x01, 0x71, 0x12, 0x20}, h[:]...)
	c, err := cid.Cast(raw)
	if err != nil {
		panic(err)
	}
	return c
}

func mustEncodeCbor(n datamodel.Node) []byte {
	b, err := ipld.Encode(n, dagcbor.Encode)
	if err != nil {
		panic(fmt.Sprintf("harness: cannot encode node: %v", err))
	}
	return b
}

func mustDecodeCbor(b []byte) datamodel.Node {
	n, err := ipld.Decode(b, dagcbor.Decode)
	if err != nil {
		panic(fmt.Sprintf("harness: cannot decode cbor: %v", err))
	}
	return n
}

// entriesOf lists the entries of a map node in order.
func entriesOf(n datamodel.Node) []kv {
	var r []kv
	it := n.MapIterator()
	for !it.Done() {
		k, v, err := it.Next()
		if err != nil {
			panic(err)
		}
		ks, _ := k.AsString()
		r = append(r, kv{ks, v})
	}
	return r
}

// envelopeParts splits sealed bytes into signature, header, tag and payload entries.
type envelopeParts struct {
	Sig     []byte
	Header  []byte
	Tag     string
	Payload []kv
}

func splitEnvelope(sealed []byte) envelopeParts {
	n := mustDecodeCbor(sealed)
	sigN, _ := n.LookupByIndex(0)
	sp, _ := n.LookupByIndex(1)
	var p envelopeParts
	p.Sig, _ = sigN.AsBytes()
	for _, e := range entriesOf(sp) {
		if e.K == "h" {
			p.Header, _ = e.V.AsBytes()
		} else {
			p.Tag = e.K
			p.Payload = entriesOf(e.V)
		}
	}
	return p
}

// sigPayloadNode builds {"h": header, tag: payload-map} (entries in the given order;
// the DAG-CBOR encoder sorts map keys canonically).
func sigPayloadNode(header []byte, tag string, payload datamodel.Node) datamodel.Node {
	return nMap(kv{"h", nBytes(header)}, kv{tag, payload})
}

// assemble signs sigPayload with key and returns the sealed envelope bytes.
func assemble(key *fixtures.Key, sigPayload datamodel.Node) []byte {
	data := mustEncodeCbor(sigPayload)
	sig, err := key.Priv.Sign(data)
	if err != nil {
		panic(err)
	}
	return mustEncodeCbor(nList(nBytes(sig), sigPayload))
}

// assembleWithSig builds an envelope around sigPayload with a given signature.
func assembleWithSig(sig []byte, sigPayload datamodel.Node) []byte {
	return mustEncodeCbor(nList(nBytes(sig), sigPayload))
}

var (
	headerMu    sync.Mutex
	headerCache = map[string][]byte{}
	baseCache   = map[string][]byte{}
)

// baseSealed returns (cached) sealed bytes of the base token of a kind for a key.
func baseSealed(kind, alg string, keyIdx int) []byte {
	id := fmt.Sprintf("%s/%s/%d", kind, alg, keyIdx)
	headerMu.Lock()
	defer headerMu.Unlock()
	if b, ok := baseCache[id]; ok {
		return b
	}
	tok, key, err := BuildToken(TokSpec{Kind: kind, Alg: alg, Key: keyIdx, Opts: map[string]string{"nonce": "12", "iat": "none"}})
	if err != nil {
		panic(err)
	}
	b, _, err := tok.(sealer).ToSealed(key.Priv)
	if err != nil {
		panic(err)
	}
	baseCache[id] = b
	return b
}

// headerFor returns the varsig header go-ucan emits for the key's algorithm,
// taken from a really sealed token.
func headerFor(alg string) []byte {
	headerMu.Lock()
	h, ok := headerCache[alg]
	headerMu.Unlock()
	if ok {
		return h
	}
	p := splitEnvelope(baseSealed("dlg", alg, 0))
	headerMu.Lock()
	headerCache[alg] = p.Header
	headerMu.Unlock()
	return p.Header
}

func entriesEqual(a, b []kv) bool {
	if len(a) != len(b) {
		return false
	}
	for i := range a {
		if a[i].K != b[i].K || !bytes.Equal(mustEncodeCbor(a[i].V), mustEncodeCbor(b[i].V)) {
			return false
		}
	}
	return true
}
