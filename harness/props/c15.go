package props

import (
	"fmt"
	"reflect"
	"strings"
	"sync"

	"github.com/ucan-wg/go-ucan/pkg/command"

	"verifharness/engine"
	"verifharness/refmodel"
)

var c15Alphabet = []string{"/", "a", "b", "A", "é", "É"}

// allStrings enumerates every string over alpha with 0..maxLen symbols, shortest first.
func allStrings(alpha []string, maxLen int, emit func(s string) bool) {
	if !emit("") {
		return
	}
	idx := make([]int, 0, maxLen)
	for n := 1; n <= maxLen; n++ {
		idx = idx[:0]
		for i := 0; i < n; i++ {
			idx = append(idx, 0)
		}
		for {
			var b []byte
			for _, k := range idx {
				b = append(b, alpha[k]...)
			}
			if !emit(string(b)) {
				return
			}
			i := n - 1
			for i >= 0 {
				idx[i]++
				if idx[i] < len(alpha) {
					break
				}
				idx[i] = 0
				i--
			}
			if i < 0 {
				break
			}
		}
	}
}

var validCmdMemo sync.Map

func validCommands(maxLen int) []string {
	if v, ok := validCmdMemo.Load(maxLen); ok {
		return v.([]string)
	}
	res := validCommandsUncached(maxLen)
	validCmdMemo.Store(maxLen, res)
	return res
}

// c15FoldAlphabet: lower-case letters that are case-fold partners of one another (s/ſ, σ/ς, k/K-sign
// folds to k), a title-case digraph and its lower-case form, next to plain ASCII: valid UTF-8 only.
var c15FoldAlphabet = []string{"/", "s", "ſ", "σ", "ς", "ǆ", "ǅ", "\u212a"}

func validFoldCommands(maxLen int) []string {
	if v, ok := validCmdMemo.Load(-maxLen); ok {
		return v.([]string)
	}
	var res []string
	allStrings(c15FoldAlphabet, maxLen, func(s string) bool {
		if refmodel.CmdValid(s) {
			res = append(res, s)
		}
		return true
	})
	validCmdMemo.Store(-maxLen, res)
	return res
}

// c15WordAlphabet: whole words as symbols - the namespace and command names of the UCAN specifications, a
// segment that is a combining mark or starts with one, a zero-width joiner, a non-breaking space.
var c15WordAlphabet = []string{"/", "ucan", "revoke", "x", "\u0301", "msg", "\u200d", "\u00a0", "\ufeff", "*", "\ufffd", "\u2163", "\u24b6", "\u2173", "\u24d0"}

func validWordCommands(maxLen int) []string {
	if v, ok := validCmdMemo.Load(1000 + maxLen); ok {
		return v.([]string)
	}
	var res []string
	allStrings(c15WordAlphabet, maxLen, func(s string) bool {
		if refmodel.CmdValid(s) {
			res = append(res, s)
		}
		return true
	})
	validCmdMemo.Store(1000+maxLen, res)
	return res
}

func validCommandsUncached(maxLen int) []string {
	var res []string
	allStrings(c15Alphabet, maxLen, func(s string) bool {
		if refmodel.CmdValid(s) {
			res = append(res, s)
		}
		return true
	})
	return res
}

type c15ParseCase struct{ S string }
type c15PairCase struct{ X, Y string }
type c15TripleCase struct {
	X string
	// all (Y,Z) over the valid commands of the bound are enumerated inside the case
	MaxLen int
	Y, Z   string // set only in replay descriptors
}
type c15JoinKeptCase struct {
	Lists []int `json:"lists"` // indexes into c15LongSegLists, joined one after the other
}

func c15LongSegLists() [][]string {
	rep := strings.Repeat
	return [][]string{
		{"a"}, {rep("b", 62)}, {rep("c", 63), "d"}, {rep("e", 94)}, {rep("f", 95)}, {rep("g", 96)}, {rep("h", 50), rep("i", 50)},
		{rep("j", 127), "k"}, {rep("l", 255)}, {rep("m", 256), "", "n"}, {rep("o", 1023), rep("p", 1)}, {rep("q", 2500), rep("r", 2500)},
	}
}

type c15JoinCase struct {
	C    string
	Segs []string
}

func tierN(tier string, q, t int) int {
	if tier == "thorough" {
		return t
	}
	return q
}

func C15() *engine.Check {
	mkParse := func(name, alphaDesc string, alpha []string, q, t int) *engine.Sub {
		return &engine.Sub{
			Name:   name,
			Repeat: true,
			Rule:   "every string over " + alphaDesc + " up to the length bound is offered to command.Parse; non-trivial = accepted by the reference grammar or by Parse",
			Bound:  func(tr string) string { return fmt.Sprintf("length<=%d symbols", tierN(tr, q, t)) },
			Gen: func(tier string, emit func(any) bool) {
				allStrings(alpha, tierN(tier, q, t), func(s string) bool { return emit(&c15ParseCase{S: s}) })
			},
			NewCase: func() any { return &c15ParseCase{} },
			Run: func(ctx *engine.Ctx, c any) {
				cs := c.(*c15ParseCase)
				ctx.Eval(1)
				ctx.States(1)
				ctx.Trans(1)
				got, err := command.Parse(cs.S)
				want := refmodel.CmdValid(cs.S)
				if want || err == nil {
					ctx.Nontrivial(1)
				}
				switch {
				case err == nil && !want:
					ctx.Outcome("accepted-invalid")
					ctx.Failf(cs, "parse/accepts-invalid", "Parse(%q) accepted a string outside the command grammar", cs.S)
				case err != nil && want:
					ctx.Outcome("rejected-valid")
					ctx.Failf(cs, "parse/rejects-valid", "Parse(%q) rejected a valid command: %v", cs.S, err)
				case err == nil:
					ctx.Outcome("accepted")
					if string(got) != cs.S || got.String() != cs.S {
						ctx.Failf(cs, "parse/altered", "Parse(%q) returned %q", cs.S, got)
					}
					if command.IsValid(cs.S) != true {
						ctx.Failf(cs, "parse/isvalid-disagrees", "IsValid(%q)=false but Parse accepts", cs.S)
					}
					if !reflect.DeepEqual(append([]string{}, got.Segments()...), refmodel.CmdSegs(cs.S)) {
						ctx.Failf(cs, "segments/wrong", "Segments(%q)=%q want %q", cs.S, got.Segments(), refmodel.CmdSegs(cs.S))
					}
				default:
					ctx.Outcome("rejected")
					if command.IsValid(cs.S) {
						ctx.Failf(cs, "parse/isvalid-disagrees", "IsValid(%q)=true but Parse rejects", cs.S)
					}
				}
			},
		}
	}
	parse := mkParse("parse", "{/,a,b,A,é,É}", c15Alphabet, 6, 8)
	parseWords := mkParse("parse-well-known-names-and-marks", "the words {/, ucan, revoke, x, msg} and the characters {U+0301 combining acute, U+200D zero-width joiner, U+00A0 no-break space, U+FEFF byte order mark, * (a star is an ordinary segment character, not a wildcard), U+FFFD (the replacement character, well-formed text like any other), U+2163 / U+24B6 (ROMAN NUMERAL FOUR, CIRCLED A: upper case, though not letters) and their lower-case partners U+2173 / U+24D0} as symbols", c15WordAlphabet, 5, 6)
	parseFold := mkParse("parse-case-fold-classes", "{/, s, ſ (long s), σ, ς (final sigma), ǆ, ǅ (title case), K (Kelvin sign)}", c15FoldAlphabet, 5, 6)

	mkPairs := func(name, alphaDesc string, cmdsOf func(n int) []string, q, t int) *engine.Sub {
		return &engine.Sub{
			Name:   name,
			Repeat: true,
			Rule:   "every ordered pair of valid commands over " + alphaDesc + " up to the length bound; Covers compared with the reference segment-prefix relation - also when one command is a slice of the other's text (shared storage) -; antisymmetry, reflexivity, top; non-trivial = pairs sharing a textual prefix",
			Bound:  func(tr string) string { return fmt.Sprintf("both commands length<=%d symbols", tierN(tr, q, t)) },
			Gen: func(tier string, emit func(any) bool) {
				cmds := cmdsOf(tierN(tier, q, t))
				for _, x := range cmds {
					if !emit(&c15PairCase{X: x}) {
						return
					}
				}
			},
			NewCase: func() any { return &c15PairCase{} },
			Run: func(ctx *engine.Ctx, c any) {
				cs := c.(*c15PairCase)
				ys := []string{cs.Y}
				if cs.Y == "" {
					ys = cmdsOf(tierN(ctx.Tier, q, t))
				}
				x := command.MustParse(cs.X)
				for _, ys1 := range ys {
					y := command.MustParse(ys1)
					ctx.Eval(1)
					ctx.States(1)
					ctx.Trans(1)
					got := x.Covers(y)
					want := refmodel.CmdCovers(cs.X, ys1)
					rc := &c15PairCase{X: cs.X, Y: ys1}
					if len(ys1) >= len(cs.X) && ys1[:len(cs.X)] == cs.X {
						ctx.Nontrivial(1)
					}
					if got != want {
						cls := "covers/too-wide"
						if !got {
							cls = "covers/too-narrow"
						}
						ctx.Failf(rc, cls, "Covers(%q,%q)=%v, segment-prefix order says %v", cs.X, ys1, got, want)
					}
					if len(ys1) >= len(cs.X) && ys1[:len(cs.X)] == cs.X {
						// the same pair with x being a sub-string OF y (one allocation, as after strings.Cut / TrimSuffix / y[:k])
						shared := command.Command(y[:len(cs.X)])
						ctx.Eval(2)
						if g := shared.Covers(y); g != want {
							ctx.Failf(rc, "covers/depends-on-shared-storage", "Covers(%q,%q)=%v when the first command is a slice of the second one's text, segment-prefix order says %v", cs.X, ys1, g, want)
						}
						if g := y.Covers(shared); g != refmodel.CmdCovers(ys1, cs.X) {
							ctx.Failf(rc, "covers/depends-on-shared-storage", "Covers(%q,%q)=%v when the second command is a slice of the first one's text, segment-prefix order says %v", ys1, cs.X, g, !g)
						}
					}
					if got {
						ctx.Outcome("covers")
						if y.Covers(x) && cs.X != ys1 {
							ctx.Failf(rc, "covers/not-antisymmetric", "%q and %q cover each other", cs.X, ys1)
						}
					} else {
						ctx.Outcome("not-covers")
					}
					if cs.X == ys1 && !got {
						ctx.Failf(rc, "covers/not-reflexive", "%q does not cover itself", cs.X)
					}
					if cs.X == "/" && !got {
						ctx.Failf(rc, "covers/top", "/ does not cover %q", ys1)
					}
				}
			},
		}
	}
	pairs := mkPairs("covers-pairs", "{/,a,b,A,é,É}", validCommands, 6, 7)
	pairsWords := mkPairs("covers-pairs-well-known-names-and-marks", "the words {/, ucan, revoke, x, msg} and {U+0301, U+200D, U+00A0, U+FEFF, *} as symbols (segments that are or start with a combining mark; the /ucan namespace; a segment that is a lone star covers nothing but itself)", validWordCommands, 4, 5)
	pairsFold := mkPairs("covers-pairs-case-fold-classes", "{/, s, ſ, σ, ς, ǆ} (lower-case letters that are case-fold partners)", validFoldCommands, 4, 5)

	triples := &engine.Sub{
		Name:  "covers-transitive",
		Rule:  "every ordered triple of valid commands up to the length bound: Covers(x,y) and Covers(y,z) imply Covers(x,z); non-trivial = triples whose premise holds",
		Bound: func(t string) string { return fmt.Sprintf("all three commands length<=%d symbols", tierN(t, 4, 5)) },
		Gen: func(tier string, emit func(any) bool) {
			n := tierN(tier, 4, 5)
			for _, x := range validCommands(n) {
				if !emit(&c15TripleCase{X: x, MaxLen: n}) {
					return
				}
			}
		},
		NewCase: func() any { return &c15TripleCase{} },
		Run: func(ctx *engine.Ctx, c any) {
			cs := c.(*c15TripleCase)
			cmds := validCommands(cs.MaxLen)
			ys, zs := cmds, cmds
			if cs.Y != "" {
				ys, zs = []string{cs.Y}, []string{cs.Z}
			}
			x := command.Command(cs.X)
			for _, y := range ys {
				xy := x.Covers(command.Command(y))
				for _, z := range zs {
					ctx.Eval(1)
					ctx.States(1)
					ctx.Trans(1)
					if xy && command.Command(y).Covers(command.Command(z)) {
						ctx.Nontrivial(1)
						if !x.Covers(command.Command(z)) {
							ctx.Outcome("premise-not-transitive")
							ctx.Failf(&c15TripleCase{X: cs.X, MaxLen: cs.MaxLen, Y: y, Z: z}, "covers/not-transitive", "%q covers %q covers %q but not transitively", cs.X, y, z)
						} else {
							ctx.Outcome("premise-holds")
						}
					} else {
						ctx.Outcome("premise-false")
					}
				}
			}
		},
	}

	join := &engine.Sub{
		Name:  "join-segments",
		Rule:  "every valid command of <=4 symbols x every list of <=3 segments from {a,b,ab,'',..,.} (dot segments are appended like any other): Segments(c.Join(s...)) = Segments(c) ++ non-empty s, result valid; New(s...) = Top().Join(s...); non-trivial = at least one non-empty segment",
		Bound: func(t string) string { return "command length<=4 symbols, <=3 segments from 6" },
		Gen: func(tier string, emit func(any) bool) {
			// (".." and "." are segments like any other: joining is appending, not path navigation)
			segAlpha := []string{"a", "b", "ab", "", "..", "."}
			for _, c := range validCommands(4) {
				var rec func(cur []string) bool
				rec = func(cur []string) bool {
					if !emit(&c15JoinCase{C: c, Segs: append([]string{}, cur...)}) {
						return false
					}
					if len(cur) == 3 {
						return true
					}
					for _, s := range segAlpha {
						if !rec(append(cur, s)) {
							return false
						}
					}
					return true
				}
				if !rec(nil) {
					return
				}
			}
		},
		NewCase: func() any { return &c15JoinCase{} },
		Run: func(ctx *engine.Ctx, c any) {
			cs := c.(*c15JoinCase)
			ctx.Eval(1)
			ctx.States(1)
			ctx.Trans(int64(len(cs.Segs)))
			base := command.MustParse(cs.C)
			got := base.Join(cs.Segs...)
			want := refmodel.CmdSegs(cs.C)
			nonEmpty := 0
			for _, s := range cs.Segs {
				if s != "" {
					want = append(want, s)
					nonEmpty++
				}
			}
			if nonEmpty > 0 {
				ctx.Nontrivial(1)
			}
			if _, err := command.Parse(string(got)); err != nil {
				ctx.Outcome("join-invalid")
				ctx.Failf(cs, "join/invalid-result", "%q.Join(%q)=%q is not a valid command: %v", cs.C, cs.Segs, got, err)
				return
			}
			if !reflect.DeepEqual(append([]string{}, got.Segments()...), want) {
				ctx.Outcome("join-wrong")
				ctx.Failf(cs, "join/wrong-segments", "%q.Join(%q)=%q has segments %q want %q", cs.C, cs.Segs, got, got.Segments(), want)
				return
			}
			if !base.Covers(got) {
				ctx.Failf(cs, "join/not-covered", "%q does not cover its own extension %q", cs.C, got)
			}
			if cs.C == "/" && command.New(cs.Segs...) != got {
				ctx.Failf(cs, "join/new-differs", "New(%q)=%q but Top().Join gives %q", cs.Segs, command.New(cs.Segs...), got)
			}
			ctx.Outcome(fmt.Sprintf("joined-%d", nonEmpty))
		},
	}

	joinKept := &engine.Sub{
		Name:   "join-long-results-kept",
		Serial: true,
		Rule:   "Join with segments whose total length crosses 64, 96, 128, 256, 1024 and 4096 bytes, from several receivers; ALL results of a case are kept while the later Joins of the case (and of the previous cases) run, and are compared with the reference afterwards: a returned command is a value, not a view of a reusable buffer; non-trivial = all",
		Bound: func(string) string {
			return "4 receivers x 12 segment lists (total 1..5000 bytes) in every order of 3 consecutive Joins"
		},
		Gen: func(tier string, emit func(any) bool) {
			for a := 0; a < 12; a++ {
				for b := 0; b < 12; b++ {
					for c := 0; c < 12; c++ {
						if !emit(&c15JoinKeptCase{Lists: []int{a, b, c}}) {
							return
						}
					}
				}
			}
		},
		NewCase: func() any { return &c15JoinKeptCase{} },
		Run: func(ctx *engine.Ctx, c any) {
			cs := c.(*c15JoinKeptCase)
			lists := c15LongSegLists()
			recv := []string{"/", "/a", "/" + strings.Repeat("r", 90), "/x/y/z"}
			type kept struct {
				got  command.Command
				want string
			}
			var ks []kept
			for i, li := range cs.Lists {
				for _, r := range recv {
					segs := lists[li]
					want := r
					for _, s := range segs {
						if s == "" {
							continue
						}
						if want != "/" {
							want += "/"
						}
						want += s
					}
					ks = append(ks, kept{command.Command(r).Join(segs...), want})
					ctx.Eval(1)
					ctx.Trans(1)
				}
				_ = i
			}
			ctx.States(1)
			ctx.Nontrivial(1)
			for i, k := range ks {
				if string(k.got) != k.want {
					ctx.Outcome("kept-result-changed")
					ctx.Failf(cs, "join/kept-result-differs", "result #%d of the Joins %v (%d bytes) reads %.40q... afterwards, want %.40q...", i, cs.Lists, len(k.want), string(k.got), k.want)
					return
				}
			}
			ctx.Outcome("kept-ok")
		},
	}

	return &engine.Check{
		Property: "C15",
		Level:    "model_checking",
		Subs:     []*engine.Sub{parse, parseFold, parseWords, pairs, pairsFold, pairsWords, triples, join, joinKept, c15CollideSub(), c15ConcSub(), concRaceSub("C15")},
		Assumptions: []string{
			"alphabets {/,a,b,A,é,É} and {/,s,ſ,σ,ς,ǆ,ǅ,K}: valid UTF-8 only; behaviour on invalid UTF-8 is not decided by the property",
			"reference model: strings.Split on '/' after the leading slash; unicode.ToLower per rune",
		},
	}
}

// ---- commands whose hashes collide ----

type c15CollideCase struct {
	Pair   int  `json:"pair"`
	BFirst bool `json:"b_first"`
}

func (c *c15CollideCase) Weight() int { return c.Pair }

func c15CollideSub() *engine.Sub {
	gen := func(i int) string { v := uint32(i) * 2654435761; return fmt.Sprintf("/c%04x/k%04x", v>>16, v&0xffff) }
	const perHash = 3
	return &engine.Sub{
		Name:   "commands-whose-hashes-collide",
		Serial: true,
		Rule:   "pairs of distinct valid commands /cxxxx/kxxxx of one length with the same sum under FNV-1a/32, FNV-1/32, CRC-32 (IEEE, Castagnoli), Adler-32 and FNV-1a/64 folded or cut to 32 bits (3 pairs each, found by enumeration, re-verified at start-up), parsed one after the other in one process in both orders (Parse, MustParse, New + Join of the segments): each result prints its own text and has its own segments, neither covers the other, each covers itself; non-trivial = all",
		Bound: func(string) string {
			return fmt.Sprintf("%d hash functions x %d pairs x 2 orders x 3 ways in", len(collideHashes), perHash)
		},
		Gen: func(tier string, emit func(any) bool) {
			for p := 0; p < len(collideHashes)*perHash; p++ {
				for _, bf := range []bool{false, true} {
					if !emit(&c15CollideCase{p, bf}) {
						return
					}
				}
			}
		},
		NewCase: func() any { return &c15CollideCase{} },
		Run: func(ctx *engine.Ctx, c any) {
			cs := c.(*c15CollideCase)
			pr := collidingTexts("commands", gen, perHash)[cs.Pair]
			texts := []string{pr.A, pr.B}
			if cs.BFirst {
				texts = []string{pr.B, pr.A}
			}
			ctx.States(1)
			ctx.Nontrivial(1)
			for way := 0; way < 3; way++ {
				var got [2]command.Command
				for k, t := range texts {
					var err error
					switch way {
					case 0:
						got[k], err = command.Parse(t)
					case 1:
						got[k] = command.MustParse(t)
					default:
						got[k] = command.New(strings.Split(t[1:], "/")...)
					}
					ctx.Eval(1)
					ctx.Trans(1)
					if err != nil {
						ctx.Failf(cs, "collide/"+pr.Hash+"/refused", "Parse(%q) fails after Parse(%q) (same %s sum): %v", t, texts[0], pr.Hash, err)
						return
					}
				}
				for k, t := range texts {
					if got[k].String() != t || strings.Join(got[k].Segments(), "/") != t[1:] {
						ctx.Failf(cs, "collide/"+pr.Hash+"/returns-the-other-command", "%q entered %s %q (same %s sum, same length) comes back as %q with segments %v", t, [2]string{"before", "after"}[k], texts[1-k], pr.Hash, got[k].String(), got[k].Segments())
					}
					if !got[k].Covers(got[k]) || got[k].Covers(got[1-k]) && got[k].String() == t && got[1-k].String() == texts[1-k] {
						ctx.Failf(cs, "collide/"+pr.Hash+"/covers", "%q and %q (same %s sum): Covers is wrong", t, texts[1-k], pr.Hash)
					}
				}
				ctx.Outcome("ok")
			}
		},
	}
}
