package props

import (
	"fmt"
	"strings"

	"github.com/ipld/go-ipld-prime/datamodel"
	"github.com/ipld/go-ipld-prime/fluent/qp"
	"github.com/ipld/go-ipld-prime/node/basicnode"

	"github.com/ucan-wg/go-ucan/pkg/policy"
	"github.com/ucan-wg/go-ucan/pkg/policy/literal"

	"verifharness/engine"
	"verifharness/refmodel"
)

var c13Alphabet = []string{"a", "b", "*", `\`}

type c13Case struct {
	Pattern string  `json:"pattern"`
	Str     *string `json:"str,omitempty"` // nil = all strings of the bound
	MaxLen  int     `json:"max_len"`
}

type c13LongCase struct {
	Pre string  `json:"pre"`
	U   string  `json:"u"`
	K   int     `json:"k"`
	V   string  `json:"v"`
	Str *string `json:"str,omitempty"`
}

func (c *c13LongCase) Weight() int { return c.K * len(c.U) }

func (c *c13Case) Weight() int {
	w := len(c.Pattern)
	if c.Str != nil {
		w += len(*c.Str)
	}
	return w
}

func likeNode(sel, pattern string) datamodel.Node {
	n, err := qp.BuildList(basicnode.Prototype.Any, 1, func(la datamodel.ListAssembler) {
		qp.ListEntry(la, qp.List(3, func(la datamodel.ListAssembler) {
			qp.ListEntry(la, qp.String("like"))
			qp.ListEntry(la, qp.String(sel))
			qp.ListEntry(la, qp.String(pattern))
		}))
	})
	if err != nil {
		panic(err)
	}
	return n
}

// c13Class names the root-cause class of a disagreement.
func c13Class(pattern, s string, got bool) string {
	hasEscape := strings.Contains(pattern, `\`)
	strSpecial := strings.ContainsAny(s, `*\`)
	side := "false-negative"
	if got {
		side = "false-positive"
	}
	switch {
	case !strSpecial:
		return "glob/" + side + "/plain-string"
	case hasEscape:
		return "glob/" + side + "/special-char-in-string-vs-escape"
	default:
		return "glob/" + side + "/special-char-in-string-vs-wildcard"
	}
}

func C13() *engine.Check {
	var strs = map[int][]string{}
	stringsOf := func(n int) []string {
		if v, ok := strs[n]; ok {
			return v
		}
		var r []string
		allStrings(c13Alphabet, n, func(s string) bool { r = append(r, s); return true })
		return r
	}
	main := &engine.Sub{
		Name:   "like-vs-glob-language",
		Repeat: true,
		Rule:   `every pattern x every string over {a,b,*,\} up to the length bound; pattern installed with policy.Like(".", p) and through policy.FromIPLD, evaluated with Policy.Match on the string; oracle = membership in the glob language by dynamic programming; non-trivial = string contains '*' or '\' or pattern contains an escape`,
		Bound: func(t string) string {
			return fmt.Sprintf("patterns and strings of length <=%d over 4 symbols", tierN(t, 5, 7))
		},
		Setup: func(tier string) error {
			strs[tierN(tier, 5, 7)] = stringsOf(tierN(tier, 5, 7))
			return nil
		},
		Gen: func(tier string, emit func(any) bool) {
			n := tierN(tier, 5, 7)
			allStrings(c13Alphabet, n, func(p string) bool { return emit(&c13Case{Pattern: p, MaxLen: n}) })
		},
		NewCase: func() any { return &c13Case{} },
		Run: func(ctx *engine.Ctx, c any) {
			cs := c.(*c13Case)
			toks, okRef := refmodel.GlobParse(cs.Pattern)
			pol, err := policy.Construct(policy.Like(".", cs.Pattern))
			pol2, err2 := policy.FromIPLD(likeNode(".", cs.Pattern))
			ctx.Eval(2)
			ctx.States(1)
			pc := &c13Case{Pattern: cs.Pattern, MaxLen: cs.MaxLen, Str: new(string)}
			if (err == nil) != okRef {
				ctx.Outcome("constructor-disagrees")
				ctx.Failf(pc, "glob/constructor-acceptance", "policy.Like(%q) error=%v but reference says valid=%v", cs.Pattern, err, okRef)
				return
			}
			if (err2 == nil) != okRef {
				ctx.Outcome("fromipld-disagrees")
				ctx.Failf(pc, "glob/fromipld-acceptance", "policy.FromIPLD(like %q) error=%v but reference says valid=%v", cs.Pattern, err2, okRef)
				return
			}
			if !okRef {
				ctx.Outcome("pattern-rejected")
				return
			}
			var list []string
			if cs.Str != nil {
				list = []string{*cs.Str}
			} else {
				list = strs[cs.MaxLen]
				if list == nil {
					list = stringsOf(cs.MaxLen)
				}
			}
			patEsc := strings.Contains(cs.Pattern, `\`)
			for _, s := range list {
				ctx.Eval(2)
				ctx.Trans(1)
				node := literal.String(s)
				got, _ := pol.Match(node)
				got2, _ := pol2.Match(node)
				want := refmodel.GlobMatch(toks, s)
				if patEsc || strings.ContainsAny(s, `*\`) {
					ctx.Nontrivial(1)
				}
				if got {
					ctx.Outcome("match")
				} else {
					ctx.Outcome("no-match")
				}
				sc := s
				rc := &c13Case{Pattern: cs.Pattern, Str: &sc, MaxLen: cs.MaxLen}
				if got != want {
					ctx.Failf(rc, c13Class(cs.Pattern, s, got), "like %q on %q = %v, glob language says %v", cs.Pattern, s, got, want)
				}
				if got2 != got {
					ctx.Failf(rc, "glob/constructor-vs-fromipld", "like %q on %q: constructor-built policy says %v, FromIPLD-built says %v", cs.Pattern, s, got, got2)
				}
			}
		},
	}
	nonString := &engine.Sub{
		Name:  "like-on-non-strings",
		Rule:  "like with patterns {*, a*, \\*, empty} against every non-string IPLD kind - and schema-typed structs whose wire form is a string or a list - must be false - on the value itself and reached through required / optional field selectors, bare, under and / all / any and behind an index; and against lists / maps of strings that each match the pattern, reached through iterator, slice and field selectors; non-trivial = all",
		Bound: func(string) string { return "3 patterns x 8 non-string values" },
		Gen: func(tier string, emit func(any) bool) {
			for _, p := range []string{"*", "a*", `\*`, ""} {
				if !emit(&c13Case{Pattern: p}) {
					return
				}
			}
		},
		NewCase: func() any { return &c13Case{} },
		Run: func(ctx *engine.Ctx, c any) {
			cs := c.(*c13Case)
			pol := policy.MustConstruct(policy.Like(".", cs.Pattern))
			lst, _ := literal.List([]string{"a"})
			mp, _ := literal.Map(map[string]string{"a": "a"})
			vals := map[string]datamodel.Node{
				"int": literal.Int(1), "float": literal.Float(1.5), "bool": literal.Bool(true), "null": literal.Null(),
				"bytes": literal.Bytes([]byte("a")), "list": lst, "map": mp, "link": literal.LinkCid(cidPool[0]),
				// schema-typed values that are maps at the node interface, whatever text they are encoded as
				"typed struct with a joined-string representation": typedNodes().sj, "typed struct with a tuple representation": typedNodes().tup,
			}
			for k, v := range vals {
				ctx.Eval(1)
				ctx.States(1)
				ctx.Trans(1)
				ctx.Nontrivial(1)
				got, _ := pol.Match(v)
				ctx.Outcome(fmt.Sprint(got))
				if got {
					ctx.Failf(cs, "glob/non-string-matches", "like %q matches a %s value", cs.Pattern, k)
				}
			}
			// the same values reached through field selectors, required and optional, bare and under connectives /
			// quantifiers: a like statement on a value that is there and is not a string is false
			forms := map[string]policy.Constructor{
				"like .v?":          policy.Like(".v?", cs.Pattern),
				"like .v":           policy.Like(".v", cs.Pattern),
				"and(like .v?)":     policy.And(policy.Like(".v?", cs.Pattern)),
				"all .w (like .v?)": policy.All(".w", policy.Like(".v?", cs.Pattern)),
				"any .w (like .v?)": policy.Any(".w", policy.Like(".v?", cs.Pattern)),
				"like .w[0].v?":     policy.Like(".w[0].v?", cs.Pattern),
			}
			// lists and maps of strings that each match the pattern: a list of matching strings is not a matching string
			strs := nMap(kv{"to", nList(nStr("ab"), nStr("ac"))}, kv{"m", nMap(kv{"k", nStr("ab")}, kv{"j", nStr("a")})}, kv{"one", nList(nStr("ab"))})
			for _, sel := range []string{".to[]", ".m[]", ".to", ".to[0:1]", ".one[]", ".one", ".m", ".to[]?", ".to[0:]"} {
				fp := policy.MustConstruct(policy.Like(sel, cs.Pattern))
				ctx.Eval(2)
				ctx.Trans(1)
				got, _ := fp.Match(strs)
				pgot, _ := fp.PartialMatch(strs)
				if got || pgot {
					ctx.Failf(cs, "glob/non-string-matches", "like %s %q holds (Match=%v PartialMatch=%v) although the selector yields a list / map of strings, not a string", sel, cs.Pattern, got, pgot)
				}
			}
			for fname, cons := range forms {
				fp := policy.MustConstruct(cons)
				for k, v := range vals {
					d := nMap(kv{"v", v}, kv{"w", nList(nMap(kv{"v", v}))})
					ctx.Eval(2)
					ctx.Trans(1)
					got, _ := fp.Match(d)
					pgot, _ := fp.PartialMatch(d)
					if got || pgot {
						ctx.Failf(cs, "glob/non-string-matches", "%s with pattern %q holds (Match=%v PartialMatch=%v) although v is a %s value", fname, cs.Pattern, got, pgot, k)
					}
				}
			}
		},
	}
	long := &engine.Sub{
		Name:   "long-patterns-and-strings",
		Repeat: true,
		Rule:   "patterns prefix + '*' + u^k + v (u in {a, ab, abc, 0}, k in {8, 16, 17, 20, 33, 40, 64, 65, 128, 300}, v in {'', b, 7}, prefix in {'', x}) - a wildcard followed by a long, self-overlapping literal - against strings u^m + v for m around k, 2k and 25k (100k for k >= 64: the work of a backtracking matcher is then several hundred times the size of its input), with and without a near-miss run before the real match, and against the same strings with the last character changed; reference = dynamic programming; constructor-built and FromIPLD-built policies; non-trivial = all",
		Bound: func(string) string {
			return "2 x 4 x 10 x 3 patterns x up to 69 strings of up to ~90000 bytes x 2 constructors"
		},
		Gen: func(tier string, emit func(any) bool) {
			for _, pre := range []string{"", "x"} {
				for _, u := range []string{"a", "ab", "abc", "0"} {
					for _, k := range []int{8, 16, 17, 20, 33, 40, 64, 65, 128, 300} {
						for _, v := range []string{"", "b", "7"} {
							if k >= 64 && (tier != "thorough" || k == 300) && (pre != "" || len(u) > 2 || v != "b" || (k == 300 && tier != "thorough")) {
								continue // the long runs are costly for the reference: a few representatives
							}
							if !emit(&c13LongCase{Pre: pre, U: u, K: k, V: v}) {
								return
							}
						}
					}
				}
			}
		},
		NewCase: func() any { return &c13LongCase{} },
		Run: func(ctx *engine.Ctx, c any) {
			cs := c.(*c13LongCase)
			pat := cs.Pre + "*" + strings.Repeat(cs.U, cs.K) + cs.V
			toks, ok := refmodel.GlobParse(pat)
			if !ok {
				panic("harness: bad long pattern " + pat)
			}
			pol, err := policy.Construct(policy.Like(".", pat))
			pol2, err2 := policy.FromIPLD(likeNode(".", pat))
			ctx.States(1)
			ctx.Nontrivial(1)
			if err != nil || err2 != nil {
				ctx.Failf(cs, "glob/constructor-acceptance", "valid pattern %.40q... rejected: %v / %v", pat, err, err2)
				return
			}
			rep := strings.Repeat
			var strs []string
			ms := []int{cs.K - 1, cs.K, cs.K + 1, 2 * cs.K, 2*cs.K + 1, 25 * cs.K}
			if cs.K >= 64 {
				ms = append(ms, 100*cs.K)
			}
			for _, m := range ms {
				body := rep(cs.U, m) + cs.V
				strs = append(strs, cs.Pre+body, cs.Pre+"zz"+body, cs.Pre+rep(cs.U, cs.K-1)+"#"+body)
			}
			// overlapping occurrences: the literal occurs twice, shifted by one period, only the second leads to a match
			strs = append(strs, cs.Pre+rep(cs.U, cs.K)+cs.U[:1]+"!"+rep(cs.U, cs.K)+cs.V, cs.Pre+cs.U[len(cs.U)-1:]+rep(cs.U, cs.K+1)+cs.V)
			n := len(strs)
			for i := 0; i < n; i++ {
				s := strs[i]
				strs = append(strs, s[:len(s)-1]+"?", s+"?")
			}
			for _, s := range strs {
				ctx.Eval(2)
				ctx.Trans(1)
				node := literal.String(s)
				got, _ := pol.Match(node)
				got2, _ := pol2.Match(node)
				want := refmodel.GlobMatch(toks, s)
				ctx.Outcome(fmt.Sprint(got))
				sc := s
				rc := &c13LongCase{Pre: cs.Pre, U: cs.U, K: cs.K, V: cs.V, Str: &sc}
				if cs.Str != nil && *cs.Str != s {
					continue
				}
				if got != want || got2 != want {
					side := "false-negative"
					if want == false {
						side = "false-positive"
					}
					ctx.Failf(rc, "glob/"+side+"/long-input", "like %.30q...(%d bytes) on %.30q...(%d bytes) = %v / %v, glob language says %v", pat, len(pat), s, len(s), got, got2, want)
				}
			}
		},
	}
	many := &engine.Sub{
		Name: "many-distinct-patterns-in-one-process",
		Rule: "every pattern over {a,b,*} of length <= 10 (quick) / 12 (thorough) - tens of thousands of distinct like statements built in one process, enough to fill and collide in any table keyed by a hash of the statement - each built again after all others and matched against the string obtained by deleting its stars (must match) and that string with a '#' appended (must not match unless the pattern ends in a star); non-trivial = all",
		Bound: func(t string) string {
			return fmt.Sprintf("all %d-symbol-alphabet patterns of length <= %d, built twice", 3, tierN(t, 10, 12))
		},
		Gen: func(tier string, emit func(any) bool) {
			// blocks of patterns sharing a 4-character prefix
			allStrings([]string{"a", "b", "*"}, 4, func(p string) bool {
				if len(p) < 4 {
					return true
				}
				return emit(&c13Case{Pattern: p, MaxLen: tierN(tier, 10, 12)})
			})
		},
		NewCase: func() any { return &c13Case{} },
		Run: func(ctx *engine.Ctx, c any) {
			cs := c.(*c13Case)
			ctx.States(1)
			var pats []string
			if cs.Str != nil {
				pats = []string{cs.Pattern}
			} else {
				allStrings([]string{"a", "b", "*"}, cs.MaxLen-4, func(suffix string) bool { pats = append(pats, cs.Pattern+suffix); return true })
			}
			for round := 0; round < 2; round++ {
				for _, p := range pats {
					pol, err := policy.Construct(policy.Like(".e", p))
					ctx.Eval(1)
					if err != nil {
						ctx.Failf(&c13Case{Pattern: p, Str: new(string), MaxLen: cs.MaxLen}, "glob/constructor-acceptance", "valid pattern %q rejected: %v", p, err)
						continue
					}
					plain := strings.ReplaceAll(p, "*", "")
					for _, s := range []string{plain, plain + "#"} {
						want := s == plain || strings.HasSuffix(p, "*")
						got, _ := pol.Match(nMap(kv{"e", nStr(s)}))
						ctx.Eval(1)
						ctx.Trans(1)
						if got != want {
							ctx.Outcome("wrong")
							sc := s
							ctx.Failf(&c13Case{Pattern: p, Str: &sc, MaxLen: cs.MaxLen}, "glob/wrong-after-many-statements", "like %q on %q = %v (want %v) in a process that has built tens of thousands of other like statements", p, s, got, want)
						} else {
							ctx.Outcome("ok")
						}
					}
				}
			}
			ctx.Nontrivial(int64(len(pats)))
		},
	}
	return &engine.Check{
		Property: "C13",
		Level:    "model_checking",
		Subs:     []*engine.Sub{main, c13BytesSub(), long, many, nonString, c13AdjSub(), c13MutSub(), c13HashSub(), selCollideSub("C13"), c13ConcSub(), concRaceSub("C13")},
		Assumptions: []string{
			`alphabet {a,b,*,\}: two ordinary characters plus the two special ones; bytes outside ASCII are not special to the matcher (sub-check like-on-bytes-outside-ascii runs a second alphabet of such bytes)`,
			"reference: dynamic programming over the tokenized pattern (refmodel.GlobMatch), independent of the backtracking matcher",
		},
	}
}
