package props

import (
	"fmt"
	"strings"

	"github.com/ipld/go-ipld-prime/datamodel"
	"github.com/ipld/go-ipld-prime/fluent/qp"
	"github.com/ipld/go-ipld-prime/node/basicnode"

	"github.com/ucan-wg/go-ucan/pkg/policy"
	"github.com/ucan-wg/go-ucan/pkg/policy/literal"

	"verifharness/engine"
	"verifharness/refmodel"
)

var c13Alphabet = []string{"a", "b", "*", `\`}

type c13Case struct {
	Pattern string  `json:"pattern"`
	Str     *string `json:"str,omitempty"` // nil = all strings of the bound
	MaxLen  int     `json:"max_len"`
}

func (c *c13Case) Weight() int {
	w := len(c.Pattern)
	if c.Str != nil {
		w += len(*c.Str)
	}
	return w
}

func likeNode(sel, pattern string) datamodel.Node {
	n, err := qp.BuildList(basicnode.Prototype.Any, 1, func(la datamodel.ListAssembler) {
		qp.ListEntry(la, qp.List(3, func(la datamodel.ListAssembler) {
			qp.ListEntry(la, qp.String("like"))
			qp.ListEntry(la, qp.String(sel))
			qp.ListEntry(la, qp.String(pattern))
		}))
	})
	if err != nil {
		panic(err)
	}
	return n
}

// c13Class names the root-cause class of a disagreement.
func c13Class(pattern, s string, got bool) string {
	hasEscape := strings.Contains(pattern, `\`)
	strSpecial := strings.ContainsAny(s, `*\`)
	side := "false-negative"
	if got {
		side = "false-positive"
	}
	switch {
	case !strSpecial:
		return "glob/" + side + "/plain-string"
	case hasEscape:
		return "glob/" + side + "/special-char-in-string-vs-escape"
	default:
		return "glob/" + side + "/special-char-in-string-vs-wildcard"
	}
}

func C13() *engine.Check {
	var strs = map[int][]string{}
	stringsOf := func(n int) []string {
		if v, ok := strs[n]; ok {
			return v
		}
		var r []string
		allStrings(c13Alphabet, n, func(s string) bool { r = append(r, s); return true })
		return r
	}
	main := &engine.Sub{
		Name:   "like-vs-glob-language",
		Repeat: true,
		Rule:   `every pattern x every string over {a,b,*,\} up to the length bound; pattern installed with policy.Like(".", p) and through policy.FromIPLD, evaluated with Policy.Match on the string; oracle = membership in the glob language by dynamic programming; non-trivial = string contains '*' or '\' or pattern contains an escape`,
		Bound: func(t string) string {
			return fmt.Sprintf("patterns and strings of length <=%d over 4 symbols", tierN(t, 5, 7))
		},
		Setup: func(tier string) error {
			strs[tierN(tier, 5, 7)] = stringsOf(tierN(tier, 5, 7))
			return nil
		},
		Gen: func(tier string, emit func(any) bool) {
			n := tierN(tier, 5, 7)
			allStrings(c13Alphabet, n, func(p string) bool { return emit(&c13Case{Pattern: p, MaxLen: n}) })
		},
		NewCase: func() any { return &c13Case{} },
		Run: func(ctx *engine.Ctx, c any) {
			cs := c.(*c13Case)
			toks, okRef := refmodel.GlobParse(cs.Pattern)
			pol, err := policy.Construct(policy.Like(".", cs.Pattern))
			pol2, err2 := policy.FromIPLD(likeNode(".", cs.Pattern))
			ctx.Eval(2)
			ctx.States(1)
			pc := &c13Case{Pattern: cs.Pattern, MaxLen: cs.MaxLen, Str: new(string)}
			if (err == nil) != okRef {
				ctx.Outcome("constructor-disagrees")
				ctx.Failf(pc, "glob/constructor-acceptance", "policy.Like(%q) error=%v but reference says valid=%v", cs.Pattern, err, okRef)
				return
			}
			if (err2 == nil) != okRef {
				ctx.Outcome("fromipld-disagrees")
				ctx.Failf(pc, "glob/fromipld-acceptance", "policy.FromIPLD(like %q) error=%v but reference says valid=%v", cs.Pattern, err2, okRef)
				return
			}
			if !okRef {
				ctx.Outcome("pattern-rejected")
				return
			}
			var list []string
			if cs.Str != nil {
				list = []string{*cs.Str}
			} else {
				list = strs[cs.MaxLen]
				if list == nil {
					list = stringsOf(cs.MaxLen)
				}
			}
			patEsc := strings.Contains(cs.Pattern, `\`)
			for _, s := range list {
				ctx.Eval(2)
				ctx.Trans(1)
				node := literal.String(s)
				got, _ := pol.Match(node)
				got2, _ := pol2.Match(node)
				want := refmodel.GlobMatch(toks, s)
				if patEsc || strings.ContainsAny(s, `*\`) {
					ctx.Nontrivial(1)
				}
				if got {
					ctx.Outcome("match")
				} else {
					ctx.Outcome("no-match")
				}
				sc := s
				rc := &c13Case{Pattern: cs.Pattern, Str: &sc, MaxLen: cs.MaxLen}
				if got != want {
					ctx.Failf(rc, c13Class(cs.Pattern, s, got), "like %q on %q = %v, glob language says %v", cs.Pattern, s, got, want)
				}
				if got2 != got {
					ctx.Failf(rc, "glob/constructor-vs-fromipld", "like %q on %q: constructor-built policy says %v, FromIPLD-built says %v", cs.Pattern, s, got, got2)
				}
			}
		},
	}
	nonString := &engine.Sub{
		Name:  "like-on-non-strings",
		Rule:  "like with patterns {*, a*, \\*} against every non-string IPLD kind must be false; non-trivial = all",
		Bound: func(string) string { return "3 patterns x 8 non-string values" },
		Gen: func(tier string, emit func(any) bool) {
			for _, p := range []string{"*", "a*", `\*`, ""} {
				if !emit(&c13Case{Pattern: p}) {
					return
				}
			}
		},
		NewCase: func() any { return &c13Case{} },
		Run: func(ctx *engine.Ctx, c any) {
			cs := c.(*c13Case)
			pol := policy.MustConstruct(policy.Like(".", cs.Pattern))
			lst, _ := literal.List([]string{"a"})
			mp, _ := literal.Map(map[string]string{"a": "a"})
			vals := map[string]datamodel.Node{
				"int": literal.Int(1), "float": literal.Float(1.5), "bool": literal.Bool(true), "null": literal.Null(),
				"bytes": literal.Bytes([]byte("a")), "list": lst, "map": mp, "link": literal.LinkCid(cidPool[0]),
			}
			for k, v := range vals {
				ctx.Eval(1)
				ctx.States(1)
				ctx.Trans(1)
				ctx.Nontrivial(1)
				got, _ := pol.Match(v)
				ctx.Outcome(fmt.Sprint(got))
				if got {
					ctx.Failf(cs, "glob/non-string-matches", "like %q matches a %s value", cs.Pattern, k)
				}
			}
		},
	}
	return &engine.Check{
		Property: "C13",
		Level:    "model_checking",
		Subs:     []*engine.Sub{main, nonString, c13ConcSub(), concRaceSub("C13")},
		Assumptions: []string{
			`alphabet {a,b,*,\}: two ordinary characters plus the two special ones; bytes outside ASCII are not special to the matcher`,
			"reference: dynamic programming over the tokenized pattern (refmodel.GlobMatch), independent of the backtracking matcher",
		},
	}
}
