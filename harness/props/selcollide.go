package props

import (
	"fmt"
	"strings"

	"github.com/ipld/go-ipld-prime"
	"github.com/ipld/go-ipld-prime/codec/dagjson"
	"github.com/ipld/go-ipld-prime/datamodel"

	"github.com/ucan-wg/go-ucan/pkg/policy"
	"github.com/ucan-wg/go-ucan/pkg/policy/selector"

	"verifharness/engine"
)

// Selector texts (C11, C12, C14) and like patterns (C13) whose 32-bit hashes collide, used one after the other in
// one process, in both orders, through every way a selector or pattern enters the library.

type selCollideCase struct {
	Pair  int  `json:"pair"`
	Form  int  `json:"form"` // 0 selector.Parse  1 constructor  2 FromDagJson  3 FromIPLD
	BThen bool `json:"b_first"`
	Like  bool `json:"like,omitempty"`
}

func (c *selCollideCase) Weight() int { return c.Pair }

func selCollideSub(prop string) *engine.Sub {
	selGen := func(i int) string { return fmt.Sprintf(".acct_%08x", uint32(i)*2654435761) }
	patGen := func(i int) string { return fmt.Sprintf("p%08x*", uint32(i)*2654435761) }
	const perHash = 3
	// C13 additionally: patterns that collide when hashed TOGETHER with the selector they are used with - a table keyed
	// by one sum over selector, separator, pattern (either order) - for 8 separators and the three commonest sums
	compSeps := []string{"\x00", "", "|", ":", " ", "\n", "\x1f", "/"}
	compSepNames := []string{"nul", "none", "bar", "colon", "space", "lf", "us", "slash"}
	compHashes := []string{"fnv32a", "fnv32", "crc32-ieee"}
	const compPer = 1
	compCount := 0
	if prop == "C13" {
		compCount = len(compSeps) * 2 * len(compHashes) * compPer
	}
	likePairs := func() []collidingPair {
		prs := append([]collidingPair{}, collidingTexts("like-patterns", patGen, perHash)...)
		for si, sep := range compSeps {
			for order := 0; order < 2; order++ {
				sep, order := sep, order
				gen := func(i int) string {
					if order == 0 {
						return ".s" + sep + patGen(i)
					}
					return patGen(i) + sep + ".s"
				}
				for _, pr := range collidingTextsFor(fmt.Sprintf("like-composite-%d-%d", si, order), gen, compPer, compHashes) {
					strip := func(t string) string {
						if order == 0 {
							return strings.TrimPrefix(t, ".s"+sep)
						}
						return strings.TrimSuffix(t, sep+".s")
					}
					prs = append(prs, collidingPair{Hash: fmt.Sprintf("%s(%s)", pr.Hash, [2]string{"selector+sep+pattern", "pattern+sep+selector"}[order]) + "/sep-" + compSepNames[si], A: strip(pr.A), B: strip(pr.B)})
				}
			}
		}
		return prs
	}
	return &engine.Sub{
		Name:   "texts-whose-hashes-collide",
		Serial: true,
		Rule:   "pairs of distinct selector texts .acct_xxxxxxxx of one length (C13: like patterns pxxxxxxxx*) with the same sum under FNV-1a/32, FNV-1/32, CRC-32 (IEEE, Castagnoli), Adler-32, and FNV-1a/64 folded or cut to 32 bits (3 pairs each, found by enumeration and re-verified at start-up; C13 additionally: pattern pairs that collide when hashed together with their selector - selector, one of 8 separators, pattern, in either order - under FNV-1a/32, FNV-1/32 and CRC-32); the two texts of a pair enter the library one after the other, in both orders, through selector.Parse, a policy constructor, policy.FromDagJson and policy.FromIPLD; on data in which the two fields hold 1 and 2 (C13: a string that only the first pattern accepts) each selector selects its own field, each statement == sel 1 is true for the first text and false for the second, and each parsed selector prints its own text; non-trivial = all",
		Bound: func(string) string {
			return fmt.Sprintf("%d hash functions x %d pairs x 4 entry forms x 2 orders", len(collideHashes), perHash)
		},
		Gen: func(tier string, emit func(any) bool) {
			n := len(collideHashes)*perHash + compCount
			for p := 0; p < n; p++ {
				for f := 0; f < 4; f++ {
					for _, bf := range []bool{false, true} {
						if prop == "C13" {
							if f == 0 {
								continue
							}
							if !emit(&selCollideCase{Pair: p, Form: f, BThen: bf, Like: true}) {
								return
							}
							continue
						}
						if !emit(&selCollideCase{Pair: p, Form: f, BThen: bf}) {
							return
						}
					}
				}
			}
		},
		NewCase: func() any { return &selCollideCase{} },
		Run: func(ctx *engine.Ctx, c any) {
			cs := c.(*selCollideCase)
			var pr collidingPair
			if cs.Like {
				pr = likePairs()[cs.Pair]
			} else {
				pr = collidingTexts("selectors", selGen, perHash)[cs.Pair]
			}
			ctx.States(1)
			ctx.Nontrivial(1)
			texts := [2]string{pr.A, pr.B}
			order := []int{0, 1}
			if cs.BThen {
				order = []int{1, 0}
			}
			var data datamodel.Node
			if cs.Like {
				data = nMap(kv{"s", nStr(strings.TrimSuffix(pr.A, "*") + "zz")})
			} else {
				data = nMap(kv{pr.A[1:], nInt(1)}, kv{pr.B[1:], nInt(2)})
			}
			// enter both texts, then use both
			var sels [2]selector.Selector
			var pols [2]policy.Policy
			for _, k := range order {
				t := texts[k]
				var err error
				switch {
				case cs.Form == 0:
					sels[k], err = selector.Parse(t)
				case cs.Form == 1 && cs.Like:
					pols[k], err = policy.Construct(policy.Like(".s", t))
				case cs.Form == 1:
					pols[k], err = policy.Construct(policy.Equal(t, nInt(1)))
				default:
					js := fmt.Sprintf(`[["==", %q, 1]]`, t)
					if cs.Like {
						js = fmt.Sprintf(`[["like", ".s", %q]]`, t)
					}
					if cs.Form == 2 {
						pols[k], err = policy.FromDagJson(js)
					} else {
						var nd datamodel.Node
						nd, err = decodeDagJSON([]byte(js))
						if err == nil {
							pols[k], err = policy.FromIPLD(nd)
						}
					}
				}
				if err != nil {
					ctx.Failf(cs, "collide/"+pr.Hash+"/refused", "%q (entered %s %q, same %s sum) is refused: %v", t, map[bool]string{true: "after", false: "before"}[k == order[1]], texts[1-k], pr.Hash, err)
					return
				}
			}
			for _, k := range order {
				t := texts[k]
				ctx.Eval(1)
				ctx.Trans(1)
				if cs.Form == 0 {
					if got := sels[k].String(); got != t {
						ctx.Failf(cs, "collide/"+pr.Hash+"/prints-the-other-text", "selector.Parse(%q) prints %q (the other text of the pair, same %s sum, was parsed in the same process)", t, got, pr.Hash)
					}
					nd, err := sels[k].Select(data)
					want := int64(k + 1)
					if err != nil || nd == nil || nd.Kind() != datamodel.Kind_Int {
						ctx.Failf(cs, "collide/"+pr.Hash+"/does-not-resolve", "%q does not select its field: %v", t, err)
						continue
					}
					if got, _ := nd.AsInt(); got != want {
						ctx.Failf(cs, "collide/"+pr.Hash+"/selects-the-other-field", "%q selects %d, its own field holds %d (the other text of the pair has the same %s sum)", t, got, want, pr.Hash)
					}
					ctx.Outcome("resolved")
					continue
				}
				ok, _ := pols[k].Match(data)
				ctx.Outcome(fmt.Sprint(ok))
				if want := k == 0; ok != want {
					ctx.Failf(cs, "collide/"+pr.Hash+"/statement-reads-the-other-text", "the policy %v gives %v on %s, expected %v: it was evaluated with the other text of the pair (%q, same %s sum)", pols[k], ok, nodeJSON(data), want, texts[1-k], pr.Hash)
				}
				if !strings.Contains(pols[k].String(), strings.TrimSuffix(t, "*")) {
					ctx.Failf(cs, "collide/"+pr.Hash+"/prints-the-other-text", "the policy entered with %q prints as %v", t, pols[k])
				}
			}
		},
	}
}

func decodeDagJSON(b []byte) (datamodel.Node, error) {
	return ipld.Decode(b, dagjson.Decode)
}
