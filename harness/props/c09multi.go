package props

import (
	"bytes"
	"fmt"
	"sync"
	"time"

	"github.com/ucan-wg/go-ucan/pkg/container"
	"github.com/ucan-wg/go-ucan/token/delegation"

	"verifharness/engine"
	"verifharness/fixtures"
)

// Containers of many entries of which SEVERAL are invalid (C17 has containers with one bad entry): whatever
// the reader does with the entries - in order, or spread over workers - it returns.

type c09MultiCase struct {
	N      int    `json:"n"`
	Bad    []int  `json:"bad"`
	Kind   string `json:"kind"`   // bad-signature | garbage | truncated
	Reader int    `json:"reader"` // index into c09MultiReaders
}

func (c *c09MultiCase) Weight() int { return c.N + len(c.Bad) }

var c09MultiReaders = []string{"FromCbor", "FromCar", "FromCborBase64", "FromCarBase64", "FromCarReader", "FromCborReader"}

var c09MultiTokens struct {
	once sync.Once
	data [][]byte
}

func c09MultiSealed(n int) [][]byte {
	c09MultiTokens.once.Do(func() {
		chainInit()
		k := fixtures.ByAlg("ed25519")
		for i := 0; i < 80; i++ {
			d, err := delegation.New(k[i%3].DID, k[(i+1)%3].DID, commandOf(fmt.Sprintf("/multi/n%d", i)), nil, delegation.WithNonce(fixedNonce), delegation.WithSubject(k[0].DID))
			if err != nil {
				panic(err)
			}
			b, _, err := d.ToSealed(k[i%3].Priv)
			if err != nil {
				panic(err)
			}
			c09MultiTokens.data = append(c09MultiTokens.data, b)
		}
	})
	return c09MultiTokens.data[:n]
}

func c09MultiSub() *engine.Sub {
	return &engine.Sub{
		Name:      "containers-with-several-bad-entries",
		HangLimit: 25 * time.Second,
		Rule:      "containers of n sealed delegations (n on both sides of 8, 16, 32 and 64) in which two entries - every pair of positions among the first three, those around 8 and the last two, in writing order - or all entries are invalid (signature bit flipped, garbage bytes, truncated; CAR blocks labelled with the correct CID of the invalid bytes), through the six container readers: the reader returns (an error, by C17) - no panic, and no call that never comes back; non-trivial = all",
		Bound:     func(string) string { return "9 sizes x up to 29 bad sets x 3 kinds x 6 readers" },
		Gen: func(tier string, emit func(any) bool) {
			for _, n := range []int{2, 7, 8, 9, 16, 17, 33, 64, 65} {
				cand := map[int]bool{}
				for _, p := range []int{0, 1, 2, 6, 7, 8, 9, n - 2, n - 1} {
					if p >= 0 && p < n {
						cand[p] = true
					}
				}
				var ps []int
				for p := 0; p < n; p++ {
					if cand[p] {
						ps = append(ps, p)
					}
				}
				var sets [][]int
				for i := range ps {
					for j := i + 1; j < len(ps); j++ {
						sets = append(sets, []int{ps[i], ps[j]})
					}
				}
				all := make([]int, n)
				for i := range all {
					all[i] = i
				}
				sets = append(sets, all)
				for _, set := range sets {
					for _, kind := range []string{"bad-signature", "garbage", "truncated"} {
						for r := range c09MultiReaders {
							if !emit(&c09MultiCase{N: n, Bad: set, Kind: kind, Reader: r}) {
								return
							}
						}
					}
				}
			}
		},
		NewCase: func() any { return &c09MultiCase{} },
		Run: func(ctx *engine.Ctx, c any) {
			cs := c.(*c09MultiCase)
			toks := c09MultiSealed(cs.N)
			bad := map[int]bool{}
			for _, b := range cs.Bad {
				bad[b] = true
			}
			w := container.NewWriter()
			for i, t := range toks {
				b := t
				if bad[i] {
					switch cs.Kind {
					case "bad-signature":
						b = append([]byte{}, t...)
						b[10] ^= 1
					case "garbage":
						b = []byte(fmt.Sprintf("not a token #%d", i))
					default:
						b = t[:len(t)/2]
					}
				}
				w.AddSealed(refCID(b), b)
			}
			var in []byte
			var err error
			switch c09MultiReaders[cs.Reader] {
			case "FromCbor", "FromCborReader":
				in, err = w.ToCbor()
			case "FromCar", "FromCarReader":
				in, err = w.ToCar()
			case "FromCborBase64":
				in, err = w.ToCborBase64()
			default:
				in, err = w.ToCarBase64()
			}
			if err != nil {
				panic(err)
			}
			ctx.States(1)
			ctx.Nontrivial(1)
			ctx.Eval(1)
			ctx.Trans(int64(cs.N))
			var rerr error
			pan, stack := callNoPanic(func() {
				switch c09MultiReaders[cs.Reader] {
				case "FromCbor":
					_, rerr = container.FromCbor(in)
				case "FromCar":
					_, rerr = container.FromCar(in)
				case "FromCborBase64":
					_, rerr = container.FromCborBase64(in)
				case "FromCarBase64":
					_, rerr = container.FromCarBase64(in)
				case "FromCarReader":
					_, rerr = container.FromCarReader(bytes.NewReader(in))
				default:
					_, rerr = container.FromCborReader(bytes.NewReader(in))
				}
			})
			switch {
			case pan != nil:
				ctx.Outcome("panic")
				ctx.Failf(cs, "panic/"+panicSite(stack), "container.%s panics on a container of %d entries of which %v are %s: %v", c09MultiReaders[cs.Reader], cs.N, cs.Bad, cs.Kind, pan)
			case rerr != nil:
				ctx.Outcome("error")
			default:
				ctx.Outcome("accepted") // C17 charges this
			}
		},
	}
}
