package props

import (
	"bytes"
	"fmt"
	"strings"

	"github.com/ipfs/go-cid"
	"github.com/libp2p/go-libp2p/core/crypto"

	"github.com/ucan-wg/go-ucan/pkg/args"
	"github.com/ucan-wg/go-ucan/token"
	"github.com/ucan-wg/go-ucan/token/delegation"
	"github.com/ucan-wg/go-ucan/token/invocation"

	"verifharness/engine"
	"verifharness/fixtures"
)

type sealer interface {
	ToSealed(crypto.PrivKey) ([]byte, cid.Cid, error)
	ToDagJson(crypto.PrivKey) ([]byte, error)
}

type decodePath struct {
	Name  string
	Codec string // "cbor" | "json"
	Fn    func(kind string, data []byte) (any, error)
}

func decodePaths() []decodePath {
	return []decodePath{
		{"cbor/generic/bytes", "cbor", func(_ string, b []byte) (any, error) { t, _, err := token.FromSealed(b); return t, err }},
		{"cbor/generic/reader", "cbor", func(_ string, b []byte) (any, error) {
			t, _, err := token.FromSealedReader(bytes.NewReader(b))
			return t, err
		}},
		{"cbor/typed/bytes", "cbor", func(kind string, b []byte) (any, error) {
			if kind == "dlg" {
				t, _, err := delegation.FromSealed(b)
				return t, err
			}
			t, _, err := invocation.FromSealed(b)
			return t, err
		}},
		{"cbor/typed/reader", "cbor", func(kind string, b []byte) (any, error) {
			if kind == "dlg" {
				t, _, err := delegation.FromSealedReader(bytes.NewReader(b))
				return t, err
			}
			t, _, err := invocation.FromSealedReader(bytes.NewReader(b))
			return t, err
		}},
		// readers that hand over their last bytes together with io.EOF, and one byte at a time
		{"cbor/generic/reader-eof-with-data", "cbor", func(_ string, b []byte) (any, error) {
			t, _, err := token.FromSealedReader(&chunkReader{data: b, chunk: 7, eofWithData: true})
			return t, err
		}},
		{"cbor/typed/reader-eof-with-data", "cbor", func(kind string, b []byte) (any, error) {
			if kind == "dlg" {
				t, _, err := delegation.FromSealedReader(&chunkReader{data: b, eofWithData: true})
				return t, err
			}
			t, _, err := invocation.FromSealedReader(&chunkReader{data: b, eofWithData: true})
			return t, err
		}},
		{"json/typed/reader-eof-with-data", "json", func(kind string, b []byte) (any, error) {
			if kind == "dlg" {
				return delegation.FromDagJsonReader(&chunkReader{data: b, chunk: 1, eofWithData: true})
			}
			return invocation.FromDagJsonReader(&chunkReader{data: b, chunk: 1, eofWithData: true})
		}},
		{"json/generic/bytes", "json", func(_ string, b []byte) (any, error) { return token.FromDagJson(b) }},
		{"json/generic/reader", "json", func(_ string, b []byte) (any, error) { return token.FromDagJsonReader(bytes.NewReader(b)) }},
		{"json/typed/bytes", "json", func(kind string, b []byte) (any, error) {
			if kind == "dlg" {
				return delegation.FromDagJson(b)
			}
			return invocation.FromDagJson(b)
		}},
		{"json/typed/reader", "json", func(kind string, b []byte) (any, error) {
			if kind == "dlg" {
				return delegation.FromDagJsonReader(bytes.NewReader(b))
			}
			return invocation.FromDagJsonReader(bytes.NewReader(b))
		}},
	}
}

type c07Case struct {
	Spec TokSpec `json:"spec"`
}

func (c *c07Case) Weight() int { return len(c.Spec.Opts) }

// c07Class names the root cause of a round-trip failure from the deviating options.
func c07Class(spec TokSpec, stage, codec string) string {
	var hints []string
	for _, name := range []string{"cmd", "pol", "nbf", "exp", "iat", "args", "meta"} {
		v, ok := spec.Opts[name]
		if !ok {
			continue
		}
		switch {
		case name == "cmd" && (v == "New(A)" || v == "New(a/)"):
			hints = append(hints, "constructor-accepts-invalid-command")
		case name == "pol" && v == "int53over":
			hints = append(hints, "constructor-accepts-policy-int-beyond-2^53")
		case (name == "nbf" || name == "exp" || name == "iat") && (v == "2^53" || v == "y9999" && false || v == "maxtime"):
			hints = append(hints, "constructor-accepts-timestamp-beyond-2^53")
		case name == "args" && strings.HasPrefix(v, "include:"):
			hints = append(hints, "constructor-accepts-args-int-beyond-2^53")
		case (name == "args" || name == "meta") && v == "k=null":
			hints = append(hints, "null-value-in-args-or-meta-map")
		case codec == "json" && (name == "args" || name == "meta") && isIntegralFloat(strings.TrimPrefix(v, "k=")):
			hints = append(hints, "dagjson-integral-float")
		case codec == "json" && (name == "args" || name == "meta") && strings.TrimPrefix(v, "k=") == "str-latin1":
			hints = append(hints, "dagjson-non-utf8-string")
		case codec == "json" && (name == "args" || name == "meta") && strings.TrimPrefix(v, "k=") == "map-slash":
			hints = append(hints, "dagjson-reserved-slash-map")
		}
	}
	if spec.Alg == "p384" || spec.Alg == "p521" {
		hints = append(hints, "issuer-key-"+spec.Alg)
	}
	if len(hints) == 0 {
		return stage + "/" + codec
	}
	return stage + "/" + hints[0]
}

func c07Sub(algs func(tier string) []string, d func(tier string) int) *engine.Sub {
	paths := decodePaths()
	return &engine.Sub{
		Name: "seal-unseal-roundtrip",
		Rule: "deviation-bounded product of constructor options (base token + every combination of at most d deviating option values) for delegations and invocations x key algorithm; each constructed token is sealed (DAG-CBOR) and encoded (DAG-JSON) and decoded through 11 paths {cbor,json} x {generic,typed} x {bytes, reader, reader delivering its last bytes together with io.EOF}; all fields must agree with the original (times at whole seconds), and the typed accessors (Meta().GetBool/GetString/GetInt64/GetFloat64/GetBytes/GetNode, Arguments().GetNode) must agree with the iterated content of the same token; non-trivial = tokens accepted by the constructor",
		Bound: func(t string) string {
			return fmt.Sprintf("d<=%d deviating options, algorithms %v, 8 decode paths", d(t), algs(t))
		},
		Gen: func(tier string, emit func(any) bool) {
			for _, alg := range algs(tier) {
				dd := d(tier)
				if strings.HasPrefix(alg, "rsa") && dd > 1 {
					dd = 1
				}
				for _, kind := range []string{"dlg", "inv"} {
					ok := true
					specsWithDeviations(kind, dd, func(opts map[string]string) bool {
						ok = emit(&c07Case{Spec: TokSpec{Kind: kind, Alg: alg, Key: 0, Opts: opts}})
						return ok
					})
					if !ok {
						return
					}
				}
			}
		},
		NewCase: func() any { return &c07Case{} },
		Run:     c07Run(paths),
	}
}

// c07SizeSub grows one field of the base token to a size on either side of the usual thresholds.
func c07SizeSub() *engine.Sub {
	paths := decodePaths()
	return &engine.Sub{
		Name: "size-thresholds",
		Rule: "the base delegation / invocation with ONE field grown to exactly n: string / bytes / list / map values of an argument or metadata entry, number of arguments, metadata entries, proofs and policy statements, width of an and, nesting depth of a policy and of an argument value, selector length, pattern length, literal length, nonce length, command length and segment count; n on both sides of 24, 256, 1024, 4096 and 65536 (thorough: +-1 around each and 2^20); sealed / encoded and decoded through the 8 paths, all fields must agree; non-trivial = tokens accepted by the constructor",
		Bound: func(t string) string {
			return fmt.Sprintf("%d + %d grown fields x sizes %v (depths %v, counts %v) x Ed25519 x 8 decode paths", len(SizeFields("dlg")), len(SizeFields("inv")), SizesFor("meta-str", t), SizesFor("pol-depth", t), SizesFor("prf", t))
		},
		Gen: func(tier string, emit func(any) bool) {
			for _, kind := range []string{"dlg", "inv"} {
				for _, f := range SizeFields(kind) {
					for _, n := range SizesFor(f, tier) {
						if !emit(&c07Case{Spec: TokSpec{Kind: kind, Alg: "ed25519", Opts: map[string]string{"size:" + f: fmt.Sprint(n), "nonce": "12"}}}) {
							return
						}
					}
				}
			}
		},
		NewCase: func() any { return &c07Case{} },
		Run:     c07Run(paths),
	}
}

func c07Run(paths []decodePath) func(ctx *engine.Ctx, c any) {
	return func(ctx *engine.Ctx, c any) {
		{
			cs := c.(*c07Case)
			ctx.States(1)
			tok, key, err := BuildToken(cs.Spec)
			ctx.Eval(1)
			if err != nil {
				if key.Err != nil {
					ctx.Outcome("no-did-for-key")
					ctx.Failf(cs, "did-from-pubkey-fails/"+cs.Spec.Alg, "did.FromPubKey fails for a generated %s key: %v", cs.Spec.Alg, key.Err)
					return
				}
				ctx.Outcome("constructor-rejected")
				return
			}
			ctx.Nontrivial(1)
			orig := ViewOf(tok)
			for _, b := range AccessorProblems(tok) {
				ctx.Failf(cs, "accessor-disagrees-with-content/constructed", "%s: %s", cs.Spec, b)
			}
			s := tok.(sealer)
			sealed, _, err := s.ToSealed(key.Priv)
			ctx.Eval(1)
			if err != nil {
				ctx.Outcome("seal-error")
				ctx.Failf(cs, c07Class(cs.Spec, "seal-fails", "cbor"), "constructor accepted %s but ToSealed fails: %v", cs.Spec, err)
				return
			}
			js, err := s.ToDagJson(key.Priv)
			ctx.Eval(1)
			if err != nil {
				ctx.Outcome("json-encode-error")
				ctx.Failf(cs, c07Class(cs.Spec, "seal-fails", "json"), "constructor accepted %s but ToDagJson fails: %v", cs.Spec, err)
				js = nil
			}
			failed := map[string]bool{}
			for _, p := range paths {
				data := sealed
				if p.Codec == "json" {
					if js == nil {
						continue
					}
					data = js
				}
				ctx.Eval(1)
				ctx.Trans(1)
				got, err := p.Fn(cs.Spec.Kind, data)
				if err != nil {
					ctx.Outcome("unseal-error")
					cls := c07Class(cs.Spec, "unseal-fails", p.Codec)
					if _, n, ok := sizeOption(cs.Spec); ok && n >= 1<<20 && strings.Contains(err.Error(), "demanded too many resources") {
						// the DAG-CBOR decoder of go-ipld-prime gives every message a fixed allocation budget
						cls = "unseal-fails/decoder-allocation-budget"
					}
					if !failed[cls] {
						failed[cls] = true
						ctx.Failf(cs, cls, "%s sealed fine but %s rejects it: %v", cs.Spec, p.Name, err)
					}
					continue
				}
				v := ViewOf(got)
				for _, b := range AccessorProblems(got) {
					ctx.Failf(cs, "accessor-disagrees-with-content/decoded", "%s decoded through %s: %s", cs.Spec, p.Name, b)
				}
				if diff := DiffViews(orig, v); len(diff) > 0 {
					ctx.Outcome("field-mismatch")
					cls := c07Class(cs.Spec, "field-differs:"+strings.Join(diff, "+"), p.Codec)
					if !failed[cls] {
						failed[cls] = true
						ctx.Failf(cs, cls, "%s decoded through %s differs on %v: %+v vs %+v", cs.Spec, p.Name, diff, orig, v)
					}
					continue
				}
				ctx.Outcome("roundtrip-ok")
			}
		}
	}
}

// ---- tokens built from shared caller-owned inputs ----

type c07SharedCase struct {
	BaseKeys int   `json:"base_keys"` // number of keys in the shared *args.Args (built by appending: spare capacity at 3, 5, 6, 7)
	Extra    []int `json:"extra"`     // per token: how many further WithArgument options follow WithArguments(base)
	Order    []int `json:"order"`     // order in which the tokens are sealed, after all were constructed
}

func (c *c07SharedCase) Weight() int { return c.BaseKeys + len(c.Extra) }

func c07SharedSub() *engine.Sub {
	build := func(base *args.Args, idx, extra int) (*invocation.Token, error) {
		k := fixtures.Get("ed25519", 0)
		opts := []invocation.Option{invocation.WithNonce([]byte("0123456789ab")), invocation.WithoutInvokedAt(), invocation.WithArguments(base)}
		for e := 0; e < extra; e++ {
			opts = append(opts, invocation.WithArgument(fmt.Sprintf("t%d-extra%d", idx, e), idx*10+e))
		}
		return invocation.New(k.DID, otherPrincipal(k, 1), "/a", []cid.Cid{cidPool[0]}, opts...)
	}
	mkBase := func(n int) *args.Args {
		a := args.New()
		for i := 0; i < n; i++ {
			if err := a.Add(fmt.Sprintf("base%d", i), i); err != nil {
				panic(err)
			}
		}
		return a
	}
	return &engine.Sub{
		Name: "shared-constructor-inputs",
		Rule: "two or three invocations constructed from ONE caller-owned *args.Args (0..8 keys, built by appending, so its key slice has spare capacity at some sizes) through WithArguments, each followed by 0..2 WithArgument options of its own; all are constructed first, then sealed in every order and unsealed: every token - as constructed, and as decoded - has exactly the fields of the same token built from a private copy of the inputs, and the shared Args value itself is unchanged; non-trivial = all",
		Bound: func(string) string {
			return "base of 0..8 keys x 2..3 tokens x 0..2 extra arguments each x every sealing order"
		},
		Gen: func(tier string, emit func(any) bool) {
			perms := map[int][][]int{2: {{0, 1}, {1, 0}}, 3: {{0, 1, 2}, {0, 2, 1}, {1, 0, 2}, {1, 2, 0}, {2, 0, 1}, {2, 1, 0}}}
			for bk := 0; bk <= 8; bk++ {
				for n := 2; n <= 3; n++ {
					tot := 1
					for i := 0; i < n; i++ {
						tot *= 3
					}
					for x := 0; x < tot; x++ {
						ex := make([]int, n)
						y := x
						for i := range ex {
							ex[i] = y % 3
							y /= 3
						}
						for _, o := range perms[n] {
							if !emit(&c07SharedCase{BaseKeys: bk, Extra: ex, Order: o}) {
								return
							}
						}
					}
				}
			}
		},
		NewCase: func() any { return &c07SharedCase{} },
		Run: func(ctx *engine.Ctx, c any) {
			cs := c.(*c07SharedCase)
			ctx.States(1)
			ctx.Nontrivial(1)
			key := fixtures.Get("ed25519", 0)
			shared := mkBase(cs.BaseKeys)
			sharedBefore := fmt.Sprint(shared.Keys) + shared.String()
			var toks []*invocation.Token
			var want []TokView
			for i, e := range cs.Extra {
				t, err := build(shared, i, e)
				ref, err2 := build(mkBase(cs.BaseKeys), i, e)
				ctx.Eval(2)
				if err != nil || err2 != nil {
					ctx.Outcome("constructor-rejected")
					ctx.Failf(cs, "shared-inputs/constructor-fails", "constructing token %d from the shared arguments fails: %v / %v", i, err, err2)
					return
				}
				toks = append(toks, t)
				want = append(want, ViewOf(ref))
			}
			for i, t := range toks {
				if d := DiffViews(want[i], ViewOf(t)); len(d) > 0 {
					ctx.Outcome("field-mismatch")
					ctx.Failf(cs, "shared-inputs/constructed-token-differs:"+strings.Join(d, "+"), "token %d built from shared arguments differs from the one built from a private copy on %v after the other tokens were constructed: %+v vs %+v", i, d, ViewOf(t), want[i])
					return
				}
			}
			for _, i := range cs.Order {
				var sealed []byte
				var err error
				ctx.Eval(2)
				ctx.Trans(1)
				if pan, _ := callNoPanic(func() { sealed, _, err = toks[i].ToSealed(key.Priv) }); pan != nil {
					ctx.Outcome("seal-panics")
					ctx.Failf(cs, "shared-inputs/seal-panics", "sealing token %d built from shared arguments panics: %v", i, pan)
					return
				}
				if err != nil {
					ctx.Outcome("seal-error")
					ctx.Failf(cs, "shared-inputs/seal-fails", "sealing token %d built from shared arguments fails: %v", i, err)
					return
				}
				got, _, err := invocation.FromSealed(sealed)
				if err != nil {
					ctx.Outcome("unseal-error")
					ctx.Failf(cs, "shared-inputs/unseal-fails", "token %d built from shared arguments does not unseal: %v", i, err)
					return
				}
				if d := DiffViews(want[i], ViewOf(got)); len(d) > 0 {
					ctx.Outcome("field-mismatch")
					ctx.Failf(cs, "shared-inputs/decoded-token-differs:"+strings.Join(d, "+"), "token %d built from shared arguments decodes with other fields (%v) than the one built from a private copy", i, d)
					return
				}
			}
			if after := fmt.Sprint(shared.Keys) + shared.String(); after != sharedBefore {
				ctx.Outcome("shared-input-changed")
				ctx.Failf(cs, "shared-inputs/caller-args-changed", "the caller's Args value changed while tokens were built from it: %s -> %s", sharedBefore, after)
				return
			}
			ctx.Outcome("roundtrip-ok")
		},
	}
}

func C07() *engine.Check {
	algs := func(tier string) []string {
		if tier == "thorough" {
			return []string{"ed25519", "secp256k1", "p256", "p384", "p521", "rsa2048", "rsa3072"}
		}
		return []string{"ed25519", "secp256k1", "p256", "p384", "p521", "rsa2048"}
	}
	d := func(tier string) int { return 2 }
	return &engine.Check{
		Property: "C07",
		Level:    "model_checking",
		Subs:     []*engine.Sub{c07Sub(algs, d), c07SizeSub(), c07SharedSub(), c07AgainSub(), c07PipeSub()},
		Assumptions: []string{
			"fixture keys (one per algorithm, committed) stand for 'every generatable key'; C16 covers key-to-DID conversion over more keys",
			"non-finite floats are outside the property's premise and not in the alphabet",
		},
	}
}
