package props

import (
	"bufio"
	"bytes"
	"encoding/base64"
	"encoding/binary"
	"encoding/hex"
	"encoding/json"
	"errors"
	"fmt"
	"github.com/ipld/go-ipld-prime/codec/dagcbor"
	"io"
	"math"
	"os"
	"os/exec"
	"path/filepath"
	"runtime"
	"runtime/debug"
	"strconv"
	"strings"
	"testing/iotest"
	"time"

	"github.com/ipld/go-ipld-prime"
	"github.com/ipld/go-ipld-prime/codec/dagjson"
	"github.com/ipld/go-ipld-prime/datamodel"
	"github.com/ipld/go-ipld-prime/node/basicnode"

	"github.com/ucan-wg/go-ucan/did"
	"github.com/ucan-wg/go-ucan/pkg/command"
	"github.com/ucan-wg/go-ucan/pkg/container"
	"github.com/ucan-wg/go-ucan/pkg/policy"
	"github.com/ucan-wg/go-ucan/pkg/policy/selector"
	"github.com/ucan-wg/go-ucan/token"
	"github.com/ucan-wg/go-ucan/token/delegation"
	"github.com/ucan-wg/go-ucan/token/invocation"

	"verifharness/engine"
	"verifharness/fixtures"
)

// ---- entry points that accept untrusted bytes ----

type byteEntry struct {
	Name string
	Fn   func(b []byte)
}

func c09Entries() []byteEntry {
	data := selectorData()
	return []byteEntry{
		{"token.FromSealed", func(b []byte) { token.FromSealed(b) }},
		{"token.FromSealedReader", func(b []byte) { token.FromSealedReader(bytes.NewReader(b)) }},
		{"token.FromDagJson", func(b []byte) { token.FromDagJson(b) }},
		{"delegation.FromSealed", func(b []byte) { delegation.FromSealed(b) }},
		{"invocation.FromSealed", func(b []byte) { invocation.FromSealed(b) }},
		{"delegation.FromDagJsonReader", func(b []byte) { delegation.FromDagJsonReader(bytes.NewReader(b)) }},
		{"invocation.FromDagCborReader", func(b []byte) { invocation.FromDagCborReader(bytes.NewReader(b)) }},
		{"container.FromCbor", func(b []byte) { container.FromCbor(b) }},
		{"container.FromCar", func(b []byte) { container.FromCar(b) }},
		{"container.FromCborBase64", func(b []byte) { container.FromCborBase64(b) }},
		{"container.FromCarBase64", func(b []byte) { container.FromCarBase64(b) }},
		{"container.FromCarReader", func(b []byte) { container.FromCarReader(bytes.NewReader(b)) }},
		{"policy.FromDagJson", func(b []byte) {
			p, err := policy.FromDagJson(string(b))
			if err == nil {
				_ = p.String()
				for _, d := range data[:6] {
					p.Match(d.Node)
					p.PartialMatch(d.Node)
				}
			}
		}},
		{"selector.Parse+Select", func(b []byte) {
			s, err := selector.Parse(string(b))
			if err == nil {
				_ = s.String()
				for _, d := range data {
					s.Select(d.Node)
				}
			}
		}},
		{"did.Parse+PubKey", func(b []byte) {
			d, err := did.Parse(string(b))
			if err == nil {
				d.PubKey()
				_ = d.String()
			}
			d2, err := did.Parse("did:key:z" + string(b))
			if err == nil {
				d2.PubKey()
			}
		}},
		{"command.Parse", func(b []byte) {
			c, err := command.Parse(string(b))
			if err == nil {
				c.Segments()
				c.Covers(c)
			}
		}},
		{"token.Inspect+FindTag", func(b []byte) {
			// an application that routes on the envelope facts before it picks a decoder
			for _, dec := range []func([]byte) (datamodel.Node, error){
				func(b []byte) (datamodel.Node, error) { return ipld.Decode(b, dagcbor.Decode) },
				func(b []byte) (datamodel.Node, error) { return ipld.Decode(b, dagjson.Decode) },
			} {
				n, err := dec(b)
				if err != nil {
					continue
				}
				token.FindTag(n)
				if info, err := token.Inspect(n); err == nil {
					_ = info.Tag
					delegation.FromIPLD(n)
					invocation.FromIPLD(n)
				}
			}
		}},
		{"errors.are-printable", func(b []byte) {
			// error values handed back for untrusted input can be printed and inspected
			if _, err := selector.Parse(string(b)); err != nil {
				_ = err.Error()
				var pe interface {
					Name() string
					Message() string
					Column() int
					Source() string
					Token() string
				}
				if errors.As(err, &pe) {
					pe.Name()
					pe.Message()
					pe.Column()
					pe.Source()
					pe.Token()
				}
			}
			if s, err := selector.Parse(".a[5]" + string(b)); err == nil {
				if _, err := s.Select(nMap(kv{"a", nList()})); err != nil {
					_ = err.Error()
					var re interface {
						Name() string
						Message() string
						At() []string
					}
					if errors.As(err, &re) {
						re.Name()
						re.Message()
						re.At()
					}
				}
			}
			if _, err := policy.FromDagJson(string(b)); err != nil {
				_ = err.Error()
			}
			if _, _, err := token.FromSealed(b); err != nil {
				_ = err.Error()
			}
		}},
	}
}

func callNoPanic(f func()) (pan any, stack string) {
	defer func() {
		if r := recover(); r != nil {
			pan = r
			stack = string(debug.Stack())
		}
	}()
	f()
	return
}

// panicSite names the innermost go-ucan (or dependency) function of a panic stack.
func panicSite(stack string) string {
	lines := strings.Split(stack, "\n")
	for _, l := range lines {
		l = strings.TrimSpace(l)
		if strings.HasPrefix(l, "github.com/ucan-wg/go-ucan/") {
			f := strings.TrimPrefix(l, "github.com/ucan-wg/go-ucan/")
			if i := strings.LastIndex(f, "("); i > 0 {
				f = f[:i]
			}
			return f
		}
	}
	return "unknown-site"
}

type c09BytesCase struct {
	Hex   string `json:"hex"`             // input bytes
	Entry string `json:"entry,omitempty"` // empty = every entry point
	// block form: every byte string with this prefix and total length Len
	Prefix string `json:"prefix,omitempty"`
	Len    int    `json:"len,omitempty"`
}

func (c *c09BytesCase) Weight() int { return len(c.Hex) }

func c09RunInput(ctx *engine.Ctx, entries []byteEntry, only string, b []byte) {
	for _, e := range entries {
		if only != "" && e.Name != only {
			continue
		}
		ctx.Eval(1)
		if pan, stack := callNoPanic(func() { e.Fn(b) }); pan != nil {
			ctx.Outcome("panic")
			ctx.Failf(&c09BytesCase{Hex: hex.EncodeToString(b), Entry: e.Name}, "panic/"+panicSite(stack), "%s panics on input %x: %v", e.Name, b, pan)
		}
	}
}

func c09ShortSub() *engine.Sub {
	entries := c09Entries()
	return &engine.Sub{
		Name:   "all-short-byte-strings",
		Repeat: true,
		Rule:   "every byte string up to the length bound handed to every entry point that accepts untrusted bytes or text (16 entry points: token / delegation / invocation decoders for sealed bytes, DAG-JSON and readers, the four container readers, policy.FromDagJson + Match, selector.Parse + Select on 33 values, did.Parse + PubKey, command.Parse): no panic; non-trivial = all",
		Bound: func(t string) string {
			return fmt.Sprintf("all byte strings of length <=%d x 16 entry points", tierN(t, 2, 3))
		},
		Gen: func(tier string, emit func(any) bool) {
			n := tierN(tier, 2, 3)
			emit(&c09BytesCase{Hex: ""})
			for l := 1; l <= n; l++ {
				if l <= 2 {
					// one block per first byte
					for a := 0; a < 256; a++ {
						if !emit(&c09BytesCase{Prefix: hex.EncodeToString([]byte{byte(a)}), Len: l}) {
							return
						}
					}
					continue
				}
				for a := 0; a < 256; a++ {
					for b := 0; b < 256; b++ {
						if !emit(&c09BytesCase{Prefix: hex.EncodeToString([]byte{byte(a), byte(b)}), Len: l}) {
							return
						}
					}
				}
			}
		},
		NewCase: func() any { return &c09BytesCase{} },
		Run: func(ctx *engine.Ctx, c any) {
			cs := c.(*c09BytesCase)
			if cs.Len == 0 {
				b, _ := hex.DecodeString(cs.Hex)
				ctx.States(1)
				ctx.Nontrivial(1)
				c09RunInput(ctx, entries, cs.Entry, b)
				ctx.Outcome("returned")
				return
			}
			prefix, _ := hex.DecodeString(cs.Prefix)
			free := cs.Len - len(prefix)
			buf := make([]byte, cs.Len)
			copy(buf, prefix)
			total := 1
			for i := 0; i < free; i++ {
				total *= 256
			}
			for v := 0; v < total; v++ {
				x := v
				for i := cs.Len - 1; i >= len(prefix); i-- {
					buf[i] = byte(x)
					x >>= 8
				}
				ctx.States(1)
				ctx.Trans(1)
				ctx.Nontrivial(1)
				c09RunInput(ctx, entries, "", append([]byte{}, buf...))
			}
			ctx.OutcomeN("returned", int64(total))
		},
	}
}

// ---- distance-1 mutants of valid artefacts ----

type c09MutCase struct {
	Art  string `json:"artefact"`
	Op   string `json:"op"`
	Off  int    `json:"off"`
	Val  int    `json:"val"`
	Data string `json:"data,omitempty"` // hex of the artefact (witnesses are self-contained)
}

type c09Artefact struct {
	Name    string
	Data    []byte
	Entries []string
}

func c09Artefacts() []c09Artefact {
	dlg, inv := ioToken("dlg"), ioToken("inv")
	arts := []c09Artefact{
		{"dlg-sealed", dlg.Sealed, []string{"token.FromSealed", "token.FromSealedReader", "delegation.FromSealed", "invocation.FromSealed"}},
		{"inv-sealed", inv.Sealed, []string{"token.FromSealed", "invocation.FromSealed", "invocation.FromDagCborReader"}},
		{"dlg-json", dlg.JSON, []string{"token.FromDagJson", "delegation.FromDagJsonReader"}},
		{"policy-json", []byte(`[["==",".a",1],["and",[["like",".b?","a*\\*"],["not",[">=",".c[0]",1.5]]]],["any",".l[1:-1]",["all",".[]?",["<",".",-3]]]]`), []string{"policy.FromDagJson"}},
		{"selector-1", []byte(`.foo["b.r"]?[1:-2][-1].x?[]`), []string{"selector.Parse+Select"}},
		{"selector-2", []byte(`.[0:]?.a[""].é_-$`), []string{"selector.Parse+Select"}},
		{"did-ed25519", []byte(fixtures.Get("ed25519", 0).DID.String()), []string{"did.Parse+PubKey"}},
		{"did-p256", []byte(fixtures.Get("p256", 0).DID.String()), []string{"did.Parse+PubKey"}},
		{"did-secp256k1", []byte(fixtures.Get("secp256k1", 0).DID.String()), []string{"did.Parse+PubKey"}},
		{"command", []byte(`/crud/é/read`), []string{"command.Parse"}},
	}
	for _, f := range []string{"cbor", "car", "cbor64", "car64"} {
		a := buildContainer(f, []string{"dlg", "inv"})
		ent := map[string][]string{"cbor": {"container.FromCbor"}, "car": {"container.FromCar", "container.FromCarReader"}, "cbor64": {"container.FromCborBase64"}, "car64": {"container.FromCarBase64"}}[f]
		arts = append(arts, c09Artefact{"ctn-" + f, a.Data, ent})
	}
	return arts
}

func c09MutSub() *engine.Sub {
	var arts []c09Artefact
	entries := c09Entries()
	setup := func(string) error {
		if arts == nil {
			arts = c09Artefacts()
		}
		return nil
	}
	return &engine.Sub{
		Name:   "distance-1-mutants",
		Repeat: true,
		Rule:   "every single-byte substitution (255 values), deletion, insertion (256 values) and truncation at every offset of 14 valid artefacts (sealed and DAG-JSON tokens, the four container formats, a nested policy in DAG-JSON, two selectors, three did:key strings, a command), handed to the entry points that accept that artefact: no panic; non-trivial = all",
		Bound: func(t string) string {
			if t == "thorough" {
				return "14 artefacts x every offset x (255 substitutions + 256 insertions + deletion + truncation)"
			}
			return "14 artefacts x every offset x (8 bit flips + deletion + truncation + insertion of 16 structural bytes); full substitution/insertion tables on the text artefacts"
		},
		Setup: setup,
		Gen: func(tier string, emit func(any) bool) {
			setup(tier)
			for _, a := range arts {
				small := len(a.Data) < 200
				ops := []string{"bitflip", "delete", "truncate", "insert16"}
				if tier == "thorough" || small {
					ops = []string{"subst", "delete", "truncate", "insert"}
				}
				for _, op := range ops {
					n := len(a.Data)
					if strings.HasPrefix(op, "insert") {
						n++
					}
					for off := 0; off < n; off++ {
						if !emit(&c09MutCase{Art: a.Name, Op: op, Off: off, Val: -1}) {
							return
						}
					}
				}
			}
		},
		NewCase: func() any { return &c09MutCase{Val: -1} },
		Run: func(ctx *engine.Ctx, c any) {
			cs := c.(*c09MutCase)
			setup(ctx.Tier)
			var art c09Artefact
			for _, a := range arts {
				if a.Name == cs.Art {
					art = a
				}
			}
			data := art.Data
			if cs.Data != "" {
				data, _ = hex.DecodeString(cs.Data)
			}
			structural := []int{0x00, 0x18, 0x40, 0x5f, 0x60, 0x7f, 0x80, 0x9f, 0xa0, 0xbf, 0xc0, 0xd8, 0xf6, 0xf7, 0xfb, 0xff}
			op := cs.Op
			var vals []int
			switch op {
			case "insert16":
				op, vals = "insert", structural
			default:
				for v := 0; v < c06ValRange(op); v++ {
					vals = append(vals, v)
				}
			}
			if cs.Val >= 0 {
				vals = []int{cs.Val}
			}
			ctx.States(1)
			for _, v := range vals {
				if op == "subst" && byte(v) == data[cs.Off] {
					continue
				}
				m := c06Mutate(data, op, cs.Off, v)
				ctx.Nontrivial(1)
				ctx.Trans(1)
				for _, e := range entries {
					if !contains(art.Entries, e.Name) {
						continue
					}
					ctx.Eval(1)
					if pan, stack := callNoPanic(func() { e.Fn(m) }); pan != nil {
						ctx.Outcome("panic")
						ctx.Failf(&c09MutCase{Art: cs.Art, Op: op, Off: cs.Off, Val: v, Data: hex.EncodeToString(data)}, "panic/"+panicSite(stack), "%s panics on %s with %s at offset %d (value %d): %v", e.Name, cs.Art, op, cs.Off, v, pan)
					} else {
						ctx.Outcome("returned")
					}
				}
			}
		},
	}
}

// ---- well-signed envelopes around malformed payloads (C10's alphabet, C09's oracle) ----

// c09SpecialVarints: spellings of a uvarint at and beyond the edges of 64 bits.
var c09SpecialVarints = [][]byte{
	{0x00}, {0x7f}, {0x80, 0x00}, {0x80, 0x80, 0x80, 0x80, 0x80, 0x80, 0x80, 0x80, 0x80, 0x01}, // 0, 127, non-minimal 0, 2^63
	{0xff, 0xff, 0xff, 0xff, 0xff, 0xff, 0xff, 0xff, 0xff, 0x01}, // 2^64-1
	{0xff, 0xff, 0xff, 0xff, 0xff, 0xff, 0xff, 0xff, 0xff, 0x02}, // one bit more than 64, by value
	{0xff, 0xff, 0xff, 0xff, 0xff, 0xff, 0xff, 0xff, 0xff, 0x7f},
	{0x80, 0x80, 0x80, 0x80, 0x80, 0x80, 0x80, 0x80, 0x80, 0x80, 0x01},       // 11 bytes
	{0xff, 0xff, 0xff, 0xff, 0xff, 0xff, 0xff, 0xff, 0xff, 0xff, 0xff, 0xff}, // never terminated
	{0x80}, // truncated (when it is the last one)
}

// c09VarintBoundaries returns the offsets at which the varints of a varsig header start (after the prefix byte).
func c09VarintBoundaries(h []byte) []int {
	var r []int
	pos := 0
	for pos < len(h) && len(r) < 8 {
		r = append(r, pos)
		_, n := binary.Uvarint(h[pos:])
		if n <= 0 {
			break
		}
		pos += n
	}
	return append(r, len(h))
}

func c09SignedSub() *engine.Sub {
	return &engine.Sub{
		Name:   "well-signed-malformed-payloads",
		Repeat: true,
		Rule:   "the payload-mutation alphabet of C10 (every field x drop / null / retype to each kind / int53, int64 and uint64 extremes in time fields, argument values, policy literals and metadata / invalid commands and DIDs incl. every malformed key-material class / nonce lengths / malformed policies), each signed correctly and offered to six decoders; plus every alternative key-material encoding of C16 as the issuer of a signed envelope: no decoder panics; non-trivial = all",
		Bound: func(t string) string {
			return "2 kinds x 2 issuer algorithms x every field x 20-40 mutations (pairs over a representative subset in thorough) + 183 issuer key-material encodings"
		},
		Gen: func(tier string, emit func(any) bool) {
			c10DecoderSub().Gen(tier, emit)
			for _, k := range fixtures.All() {
				for _, a := range altEncodings(k) {
					if !emit(&c10DecCase{Kind: "dlg", Alg: "ed25519", Muts: []c10Mut{{"iss", "rawdid=" + didKeyString(a.Code, a.Body)}}}) {
						return
					}
				}
			}
		},
		NewCase: func() any { return &c10DecCase{} },
		Run: func(ctx *engine.Ctx, c any) {
			cs := c.(*c10DecCase)
			p := c10BasePayload(cs.Kind, cs.Alg)
			key := fixtures.Get(cs.Alg, 0)
			entries := p.Payload
			var tags []string
			for _, m := range cs.Muts {
				if strings.HasPrefix(m.Mut, "rawdid=") {
					var out []kv
					for _, e := range entries {
						if e.K == m.Field {
							out = append(out, kv{m.Field, nStr(strings.TrimPrefix(m.Mut, "rawdid="))})
						} else {
							out = append(out, e)
						}
					}
					entries = out
					tags = append(tags, m.Field+":raw-did")
					continue
				}
				entries, _ = applyMut(cs.Kind, entries, m)
				cat := m.Mut
				if i := strings.IndexAny(cat, "=:"); i > 0 && !strings.HasPrefix(cat, "retype=") {
					cat = cat[:i]
				}
				tags = append(tags, m.Field+":"+cat)
			}
			sealed := assemble(key, sigPayloadNode(p.Header, p.Tag, nMap(entries...)))
			ctx.States(1)
			ctx.Nontrivial(1)
			decs := map[string]func(){
				"token.FromSealed":             func() { token.FromSealed(sealed) },
				"token.FromDagCbor":            func() { token.FromDagCbor(sealed) },
				"delegation.FromSealed":        func() { delegation.FromSealed(sealed) },
				"invocation.FromSealed":        func() { invocation.FromSealed(sealed) },
				"delegation.FromDagCborReader": func() { delegation.FromDagCborReader(bytes.NewReader(sealed)) },
				"container.FromCbor(1 token)": func() {
					w := container.NewWriter()
					w.AddSealed(refCID(sealed), sealed)
					b, _ := w.ToCbor()
					container.FromCbor(b)
				},
			}
			for name, f := range decs {
				ctx.Eval(1)
				ctx.Trans(1)
				if pan, stack := callNoPanic(f); pan != nil {
					ctx.Outcome("panic")
					ctx.Failf(cs, "panic/"+panicSite(stack), "%s panics on a well-signed envelope with %s: %v", name, strings.Join(tags, "+"), pan)
				} else {
					ctx.Outcome("returned")
				}
			}
		},
	}
}

// ---- envelopes with hostile signature / header shapes under every issuer key type ----

type c09EnvCase struct {
	Alg   string `json:"alg"`
	Kind  string `json:"kind"`
	Part  string `json:"part"`  // sig | header
	Shape string `json:"shape"` // trunc | zeros | ones | der | extend | other-alg
	N     int    `json:"n"`
	Arg   string `json:"arg,omitempty"`
}

func (c *c09EnvCase) Weight() int { return c.N }

func c09EnvSub() *engine.Sub {
	derShapes := [][]byte{{0x30}, {0x30, 0x00}, {0x30, 0x80}, {0x30, 0x81}, {0x30, 0x02, 0x02, 0x00}, {0x30, 0x06, 0x02, 0x01, 0x00, 0x02, 0x01, 0x00}, {0x30, 0x84, 0xff, 0xff, 0xff, 0xff}, {0x02, 0x01, 0x01}, {0xff}}
	return &engine.Sub{
		Name:   "envelope-signature-and-header-shapes",
		Repeat: true,
		Rule:   "a genuine token of every issuer key type (Ed25519, secp256k1, P-256, P-384, P-521, RSA-2048, RSA-3072) whose signature element is replaced by: its first n bytes for every n (0 = empty), n zero bytes / n 0xff bytes for every n up to its length + 2, a set of degenerate DER fragments, the signature extended by 1..3 bytes; and whose varsig header is replaced by every truncation, an extension, the empty string, every other key type's header, and every varint of it replaced by or preceded by 10 special spellings of a uvarint (non-minimal, 2^63, 2^64-1, wider than 64 bits by value and by length, unterminated, truncated) - offered to six decoders: no panic; non-trivial = all",
		Bound: func(string) string {
			return "7 key types x (3 x (len(sig)+3) signature shapes + 9 DER fragments + len(header)+8 header shapes) x 6 decoders"
		},
		Gen: func(tier string, emit func(any) bool) {
			for _, alg := range fixtures.Algs() {
				p := splitEnvelope(baseSealed("dlg", alg, 0))
				for _, sh := range []string{"trunc", "zeros", "ones"} {
					for n := 0; n <= len(p.Sig)+2; n++ {
						if sh == "trunc" && n >= len(p.Sig) {
							continue
						}
						if !emit(&c09EnvCase{Alg: alg, Kind: "dlg", Part: "sig", Shape: sh, N: n}) {
							return
						}
					}
				}
				for i := range derShapes {
					if !emit(&c09EnvCase{Alg: alg, Kind: "dlg", Part: "sig", Shape: "der", N: i}) {
						return
					}
				}
				for n := 1; n <= 3; n++ {
					if !emit(&c09EnvCase{Alg: alg, Kind: "inv", Part: "sig", Shape: "extend", N: n}) {
						return
					}
				}
				for n := 0; n < len(p.Header); n++ {
					if !emit(&c09EnvCase{Alg: alg, Kind: "dlg", Part: "header", Shape: "trunc", N: n}) {
						return
					}
				}
				if !emit(&c09EnvCase{Alg: alg, Kind: "dlg", Part: "header", Shape: "extend", N: 1}) {
					return
				}
				for _, other := range fixtures.Algs() {
					if other != alg && !emit(&c09EnvCase{Alg: alg, Kind: "dlg", Part: "header", Shape: "other-alg", Arg: other}) {
						return
					}
				}
				// every varint of the header replaced by, and preceded by, each special spelling of a uvarint (zero, non-minimal,
				// 2^63, 2^64-1, one more than 64 bits by value, by length (11 bytes), unterminated, truncated)
				for b := range c09VarintBoundaries(p.Header) {
					for v := range c09SpecialVarints {
						for _, sh := range []string{"varint-replaced", "varint-inserted"} {
							if !emit(&c09EnvCase{Alg: alg, Kind: "dlg", Part: "header", Shape: sh, N: b*100 + v}) {
								return
							}
						}
					}
				}
			}
		},
		NewCase: func() any { return &c09EnvCase{} },
		Run: func(ctx *engine.Ctx, c any) {
			cs := c.(*c09EnvCase)
			p := splitEnvelope(baseSealed(cs.Kind, cs.Alg, 0))
			sig, header := p.Sig, p.Header
			switch cs.Part + "/" + cs.Shape {
			case "sig/trunc":
				sig = sig[:cs.N]
			case "sig/zeros":
				sig = make([]byte, cs.N)
			case "sig/ones":
				sig = bytes.Repeat([]byte{0xff}, cs.N)
			case "sig/der":
				sig = derShapes[cs.N]
			case "sig/extend":
				sig = append(append([]byte{}, sig...), make([]byte, cs.N)...)
			case "header/trunc":
				header = header[:cs.N]
			case "header/extend":
				header = append(append([]byte{}, header...), 0x00)
			case "header/other-alg":
				header = headerFor(cs.Arg)
			case "header/varint-replaced", "header/varint-inserted":
				bs := c09VarintBoundaries(header)
				at := bs[cs.N/100]
				rest := header[at:]
				if cs.Shape == "varint-replaced" {
					if _, n := binary.Uvarint(rest); n > 0 {
						rest = rest[n:]
					}
				}
				header = append(append(append([]byte{}, header[:at]...), c09SpecialVarints[cs.N%100]...), rest...)
			default:
				panic(cs.Part + "/" + cs.Shape)
			}
			sealed := assembleWithSig(sig, sigPayloadNode(header, p.Tag, nMap(p.Payload...)))
			ctx.States(1)
			ctx.Nontrivial(1)
			decs := map[string]func(){
				"token.FromSealed":            func() { token.FromSealed(sealed) },
				"token.FromDagCbor":           func() { token.FromDagCbor(sealed) },
				"delegation.FromSealed":       func() { delegation.FromSealed(sealed) },
				"invocation.FromSealed":       func() { invocation.FromSealed(sealed) },
				"invocation.FromSealedReader": func() { invocation.FromSealedReader(bytes.NewReader(sealed)) },
				"container.FromCbor(1 token)": func() {
					w := container.NewWriter()
					w.AddSealed(refCID(sealed), sealed)
					b, _ := w.ToCbor()
					container.FromCbor(b)
				},
			}
			for name, f := range decs {
				ctx.Eval(1)
				ctx.Trans(1)
				if pan, stack := callNoPanic(f); pan != nil {
					ctx.Outcome("panic")
					ctx.Failf(cs, "panic/"+panicSite(stack), "%s panics on a %s-issued envelope with %s %s n=%d %s: %v", name, cs.Alg, cs.Part, cs.Shape, cs.N, cs.Arg, pan)
				} else {
					ctx.Outcome("returned")
				}
			}
		},
	}
}

// ---- policy matching against arbitrary argument data ----

type c09MatchCase struct {
	S    St     `json:"s"`
	Data string `json:"data,omitempty"`
}

func c09HostileData() []namedNode {
	big := basicnode.NewUint(math.MaxUint64)
	r := []namedNode{
		{"uint-max", big}, {"{a:uint-max}", nMap(kv{"a", big})}, {"{a:uint-2^63}", nMap(kv{"a", basicnode.NewUint(1 << 63)})},
		{"{a:NaN}", nMap(kv{"a", nFloat(math.NaN())})}, {"{a:+Inf}", nMap(kv{"a", nFloat(math.Inf(1))})}, {"{a:-Inf}", nMap(kv{"a", nFloat(math.Inf(-1))})},
		{"{l:[uint-max]}", nMap(kv{"l", nList(big)})}, {"{l:uint-max}", nMap(kv{"l", big})}, {"{a:int-min}", nMap(kv{"a", nInt(math.MinInt64)})}, {"{a:int-max}", nMap(kv{"a", nInt(math.MaxInt64)})},
		{"{a:link,b:bytes,l:[null,{},[]]}", nMap(kv{"a", nLink(1)}, kv{"b", nBytes([]byte{1})}, kv{"l", nList(nNull(), nMap(), nList())})},
		{"{l:{x:1}}", nMap(kv{"l", nMap(kv{"x", nInt(1)})})}, {"{l:\"str\"}", nMap(kv{"l", nStr("str")})},
	}
	for _, d := range selectorData() {
		r = append(r, d)
	}
	return r
}

func c09MatchSub() *engine.Sub {
	data := c09HostileData()
	lits := map[string]datamodel.Node{"uint-max": basicnode.NewUint(math.MaxUint64), "NaN": nFloat(math.NaN()), "Inf": nFloat(math.Inf(1)), "int-min": nInt(math.MinInt64)}
	return &engine.Sub{
		Name: "policy-match-arbitrary-data",
		Rule: "every atom and composite statement of C11's universe, plus comparison atoms whose literal is a uint64 beyond int64 / NaN / Inf / MinInt64, matched (Match and PartialMatch) against hostile argument data: uint64 beyond int64, NaN, +/-Inf, int64 extremes, links, bytes, wrong kinds under quantifiers, and the 33 values of C12: no panic; non-trivial = all",
		Bound: func(t string) string {
			return fmt.Sprintf("C11 atoms + composites of the tier + 120 hostile-literal atoms x %d data", len(data))
		},
		Gen: func(tier string, emit func(any) bool) {
			for _, a := range c11Atoms() {
				if !emit(&c09MatchCase{S: a}) {
					return
				}
			}
			for _, op := range []string{"==", "<", "<=", ">", ">="} {
				for _, sel := range c11Sels {
					for l := range lits {
						if !emit(&c09MatchCase{S: St{Op: op, Sel: sel, Lit: "hostile:" + l}}) {
							return
						}
					}
				}
			}
			c11Composites(tier, func(s St) bool { return emit(&c09MatchCase{S: s}) })
		},
		NewCase: func() any { return &c09MatchCase{} },
		Run: func(ctx *engine.Ctx, c any) {
			cs := c.(*c09MatchCase)
			var p policy.Policy
			if strings.HasPrefix(cs.S.Lit, "hostile:") {
				lit := lits[strings.TrimPrefix(cs.S.Lit, "hostile:")]
				var cons policy.Constructor
				switch cs.S.Op {
				case "==":
					cons = policy.Equal(cs.S.Sel, lit)
				case "<":
					cons = policy.LessThan(cs.S.Sel, lit)
				case "<=":
					cons = policy.LessThanOrEqual(cs.S.Sel, lit)
				case ">":
					cons = policy.GreaterThan(cs.S.Sel, lit)
				default:
					cons = policy.GreaterThanOrEqual(cs.S.Sel, lit)
				}
				p = policy.MustConstruct(cons)
			} else {
				p = cs.S.policy()
			}
			ctx.States(1)
			for _, d := range data {
				if cs.Data != "" && d.Name != cs.Data {
					continue
				}
				ctx.Eval(2)
				ctx.Trans(1)
				ctx.Nontrivial(1)
				if pan, stack := callNoPanic(func() { p.Match(d.Node); p.PartialMatch(d.Node) }); pan != nil {
					ctx.Outcome("panic")
					ctx.Failf(&c09MatchCase{S: cs.S, Data: d.Name}, "policy-match-panics/"+panicSite(stack), "Match of [%s] on %s panics: %v", cs.S, d.Name, pan)
				} else {
					ctx.Outcome("returned")
				}
			}
		},
	}
}

// ---- like patterns from an untrusted policy, matched against arbitrary strings ----

type c09GlobCase struct {
	Pattern string  `json:"pattern"`
	Str     *string `json:"str,omitempty"`
	MaxLen  int     `json:"max_len"`
}

func (c *c09GlobCase) Weight() int { return len(c.Pattern) }

func c09GlobSub() *engine.Sub {
	return &engine.Sub{
		Name:   "untrusted-like-patterns",
		Repeat: true,
		Rule:   `every like pattern over {a,b,*,\} up to the length bound, offered as an untrusted policy through policy.FromIPLD and policy.FromDagJson (and to the constructor policy.Like): each returns a policy or an error without panicking; every accepted policy is matched (Match and PartialMatch) against every string over the same alphabet up to the bound and against non-string data: no panic; non-trivial = pattern accepted`,
		Bound: func(t string) string {
			return fmt.Sprintf("patterns and strings of length <=%d over 4 symbols, 3 entry points", tierN(t, 4, 5))
		},
		Gen: func(tier string, emit func(any) bool) {
			n := tierN(tier, 4, 5)
			allStrings(c13Alphabet, n, func(p string) bool { return emit(&c09GlobCase{Pattern: p, MaxLen: n}) })
		},
		NewCase: func() any { return &c09GlobCase{} },
		Run: func(ctx *engine.Ctx, c any) {
			cs := c.(*c09GlobCase)
			var pols []policy.Policy
			ctx.States(1)
			for name, mk := range map[string]func() (policy.Policy, error){
				"FromIPLD": func() (policy.Policy, error) { return policy.FromIPLD(likeNode(".", cs.Pattern)) },
				"FromDagJson": func() (policy.Policy, error) {
					js, _ := json.Marshal(cs.Pattern)
					return policy.FromDagJson(`[["like", ".", ` + string(js) + `]]`)
				},
				"Like": func() (policy.Policy, error) { return policy.Construct(policy.Like(".", cs.Pattern)) },
			} {
				ctx.Eval(1)
				var p policy.Policy
				var err error
				if pan, stack := callNoPanic(func() { p, err = mk() }); pan != nil {
					ctx.Outcome("panic")
					ctx.Failf(&c09GlobCase{Pattern: cs.Pattern, MaxLen: cs.MaxLen}, "panic/"+panicSite(stack), "policy.%s with like pattern %q panics: %v", name, cs.Pattern, pan)
					continue
				}
				if err == nil {
					pols = append(pols, p)
				}
			}
			if len(pols) == 0 {
				ctx.Outcome("pattern-rejected")
				return
			}
			ctx.Nontrivial(1)
			try := func(desc string, n datamodel.Node, rc *c09GlobCase) {
				for _, p := range pols {
					ctx.Eval(2)
					ctx.Trans(1)
					if pan, stack := callNoPanic(func() { p.Match(n); p.PartialMatch(n) }); pan != nil {
						ctx.Outcome("panic")
						ctx.Failf(rc, "policy-match-panics/"+panicSite(stack), "like %q matched against %s panics: %v", cs.Pattern, desc, pan)
						return
					}
				}
				ctx.Outcome("returned")
			}
			if cs.Str != nil {
				try(fmt.Sprintf("%q", *cs.Str), nStr(*cs.Str), cs)
				return
			}
			allStrings(c13Alphabet, cs.MaxLen, func(str string) bool {
				sc := str
				try(fmt.Sprintf("%q", str), nStr(str), &c09GlobCase{Pattern: cs.Pattern, Str: &sc, MaxLen: cs.MaxLen})
				return true
			})
			for _, d := range c09HostileData() {
				try(d.Name, d.Node, &c09GlobCase{Pattern: cs.Pattern, MaxLen: cs.MaxLen})
			}
		},
	}
}

// ---- long statement lists with one malformed statement at a chosen index ----

type c09ManyStmtCase struct {
	N     int    `json:"n"`
	Bad   int    `json:"bad"`   // index of the malformed statement
	Where string `json:"where"` // top | and | or-in-any
	Bug   string `json:"bug"`   // what is wrong with it
}

func (c *c09ManyStmtCase) Weight() int { return c.N }

func c09ManyStmtSub() *engine.Sub {
	bugs := map[string]string{
		"selector-not-string": `["==", 42, 1]`,
		"unknown-operator":    `["nope", ".a", 1]`,
		"bad-selector":        `["==", ".a[", 1]`,
		"bad-pattern":         `["like", ".a", "x\\"]`,
		"wrong-arity":         `["=="]`,
		"nested-bad":          `["not", ["any", ".l", ["==", 7, 7]]]`,
	}
	return &engine.Sub{
		Name:   "long-statement-lists-with-one-bad-statement",
		Repeat: true,
		Rule:   "policies of n statements (n on both sides of 10, 100, 1000, 1024, 4096, 10000 and 100000) - as the top-level list, as the operand list of an and, and as an or under an any - all well formed except ONE at an index on either side of the powers of ten and of two below n, at the first and at the last position, malformed in each of six ways; through policy.FromDagJson and policy.FromIPLD: an error (whose text can be printed) or a policy, never a panic; non-trivial = all",
		Bound: func(t string) string {
			return "n up to 10001 (thorough: 100001 and 1000001), ~12 positions each, 3 placements, 6 malformations, 2 decoders"
		},
		Gen: func(tier string, emit func(any) bool) {
			ns := []int{2, 11, 101, 1000, 1001, 1002, 1025, 4097, 10001}
			if tier == "thorough" {
				ns = append(ns, 100001, 1000001)
			}
			for _, n := range ns {
				set := map[int]bool{0: true, n - 1: true}
				for _, b := range []int{9, 10, 11, 99, 100, 101, 255, 256, 999, 1000, 1001, 1023, 1024, 4095, 4096, 9999, 10000, 10001, 65535, 65536, 99999, 100000, 999999, 1000000} {
					if b < n {
						set[b] = true
					}
				}
				for bad := range set {
					for _, where := range []string{"top", "and", "or-in-any"} {
						for bug := range bugs {
							if n > 20000 && (where != "top" || (bug != "selector-not-string" && bug != "nested-bad")) {
								continue
							}
							if !emit(&c09ManyStmtCase{N: n, Bad: bad, Where: where, Bug: bug}) {
								return
							}
						}
					}
				}
			}
		},
		NewCase: func() any { return &c09ManyStmtCase{} },
		Run: func(ctx *engine.Ctx, c any) {
			cs := c.(*c09ManyStmtCase)
			var sb strings.Builder
			sb.Grow(cs.N*16 + 64)
			sb.WriteString("[")
			for i := 0; i < cs.N; i++ {
				if i > 0 {
					sb.WriteString(",")
				}
				if i == cs.Bad {
					sb.WriteString(bugs[cs.Bug])
				} else {
					sb.WriteString(`["==",".a",1]`)
				}
			}
			sb.WriteString("]")
			src := sb.String()
			switch cs.Where {
			case "and":
				src = `[["and",` + src + `]]`
			case "or-in-any":
				src = `[["any",".l",["or",` + src + `]]]`
			}
			ctx.States(1)
			ctx.Nontrivial(1)
			for name, f := range map[string]func(){
				"policy.FromDagJson": func() {
					if _, err := policy.FromDagJson(src); err != nil {
						_ = err.Error()
					}
				},
				"policy.FromIPLD": func() {
					n, err := ipld.Decode([]byte(src), dagjson.Decode)
					if err != nil {
						return
					}
					if _, err := policy.FromIPLD(n); err != nil {
						_ = err.Error()
					}
				},
			} {
				ctx.Eval(1)
				ctx.Trans(1)
				if pan, stack := callNoPanic(f); pan != nil {
					ctx.Outcome("panic")
					ctx.Failf(cs, "panic/"+panicSite(stack), "%s panics on a list of %d statements whose statement #%d (%s, placed %s) is malformed: %v", name, cs.N, cs.Bad, cs.Bug, cs.Where, pan)
				} else {
					ctx.Outcome("returned")
				}
			}
		},
	}
}

// ---- E5: scaling families in a crash-isolated worker ----

type scaleFamily struct {
	Name    string
	MaxSize int // largest input size this family is run at (bytes); 0 = tier bound
	Gen     func(size int) []byte
	Run     func(in []byte)
}

func repeatBytes(unit []byte, n int) []byte { return bytes.Repeat(unit, n) }

func nestedNotPolicyJSON(size int) []byte {
	d := size / 8
	if d < 1 {
		d = 1
	}
	return []byte("[" + strings.Repeat(`["not",`, d) + `["==",".a",1]` + strings.Repeat("]", d) + "]")
}

func c09Families() []scaleFamily {
	dlgKey := fixtures.Get("ed25519", 0)
	signedDlgWithPolicy := func(polJSON []byte) []byte {
		pol, err := ipld.Decode(polJSON, dagjson.Decode)
		if err != nil {
			panic(err)
		}
		p := c10BasePayload("dlg", "ed25519")
		var es []kv
		for _, e := range p.Payload {
			if e.K == "pol" {
				es = append(es, kv{"pol", pol})
			} else {
				es = append(es, e)
			}
		}
		return assemble(dlgKey, sigPayloadNode(p.Header, p.Tag, nMap(es...)))
	}
	uv := func(x uint64) []byte {
		b := make([]byte, 10)
		return b[:binary.PutUvarint(b, x)]
	}
	carHeader := func() []byte {
		a := buildContainer("car", nil)
		return a.Data
	}
	fams := []scaleFamily{
		{"cbor-nested-lists->token.FromSealed", 0, func(n int) []byte { return append(repeatBytes([]byte{0x81}, n-1), 0x00) }, func(in []byte) { token.FromSealed(in) }},
		{"cbor-nested-lists->container.FromCbor", 0, func(n int) []byte { return append(repeatBytes([]byte{0x81}, n-1), 0x00) }, func(in []byte) { container.FromCbor(in) }},
		{"cbor-nested-maps->token.FromSealed", 0, func(n int) []byte { return append(repeatBytes([]byte{0xa1, 0x61, 0x61}, n/3), 0x00) }, func(in []byte) { token.FromSealed(in) }},
		{"cbor-nested-tags->token.FromSealed", 0, func(n int) []byte { return append(repeatBytes([]byte{0xc1}, n-1), 0x00) }, func(in []byte) { token.FromSealed(in) }},
		{"cbor-indefinite-nested-lists->delegation.FromSealed", 0, func(n int) []byte { return append(repeatBytes([]byte{0x9f}, n/2), repeatBytes([]byte{0xff}, n/2)...) }, func(in []byte) { delegation.FromSealed(in) }},
		{"cbor-wide-list->token.FromSealed", 0, func(n int) []byte {
			b := []byte{0x9a, byte(n >> 24), byte(n >> 16), byte(n >> 8), byte(n)}
			return append(b, make([]byte, n)...)
		}, func(in []byte) { token.FromSealed(in) }},
		{"json-nested-lists->token.FromDagJson", 0, func(n int) []byte { return []byte(strings.Repeat("[", n/2) + strings.Repeat("]", n/2)) }, func(in []byte) { token.FromDagJson(in) }},
		{"json-nested-maps->invocation.FromDagJson", 0, func(n int) []byte { return []byte(strings.Repeat(`{"a":`, n/6) + "1" + strings.Repeat("}", n/6)) }, func(in []byte) { invocation.FromDagJson(in) }},
		{"json-nested-not->policy.FromDagJson", 0, nestedNotPolicyJSON, func(in []byte) { policy.FromDagJson(string(in)) }},
		{"json-nested-and->policy.FromDagJson", 0, func(n int) []byte {
			d := n / 10
			return []byte("[" + strings.Repeat(`["and",[`, d) + `["==",".a",1]` + strings.Repeat("]]", d) + "]")
		}, func(in []byte) { policy.FromDagJson(string(in)) }},
		{"json-nested-any->policy.FromDagJson+Match", 0, func(n int) []byte {
			d := n / 12
			return []byte("[" + strings.Repeat(`["any",".",`, d) + `["==",".",1]` + strings.Repeat("]", d) + "]")
		}, func(in []byte) {
			p, err := policy.FromDagJson(string(in))
			if err == nil {
				p.Match(nList(nList(nList(nInt(1)))))
			}
		}},
		{"json-wide-policy->policy.FromDagJson", 0, func(n int) []byte {
			k := n / 14
			return []byte("[" + strings.TrimSuffix(strings.Repeat(`["==",".a",1],`, k), ",") + "]")
		}, func(in []byte) {
			p, err := policy.FromDagJson(string(in))
			if err == nil {
				p.Match(nMap(kv{"a", nInt(1)}))
			}
		}},
		{"signed-delegation-nested-not-policy->delegation.FromSealed", 1 << 18, func(n int) []byte { return signedDlgWithPolicy(nestedNotPolicyJSON(n)) }, func(in []byte) { delegation.FromSealed(in) }},
		{"selector-many-fields->Parse+Select", 0, func(n int) []byte { return []byte(strings.Repeat(".a", n/2)) }, func(in []byte) {
			s, err := selector.Parse(string(in))
			if err == nil {
				s.Select(nMap(kv{"a", nMap(kv{"a", nInt(1)})}))
			}
		}},
		{"selector-many-optional-indexes->Parse+Select", 0, func(n int) []byte { return []byte("." + strings.Repeat("[0]?", n/4)) }, func(in []byte) {
			s, err := selector.Parse(string(in))
			if err == nil {
				s.Select(nList(nList(nInt(1))))
			}
		}},
		{"selector-long-quoted-field->Parse", 0, func(n int) []byte { return []byte(`.["` + strings.Repeat("x", n) + `"]`) }, func(in []byte) { selector.Parse(string(in)) }},
		{"selector-dots->Parse", 0, func(n int) []byte { return []byte(strings.Repeat(".", n)) }, func(in []byte) { selector.Parse(string(in)) }},
		{"command-long->Parse+Covers", 0, func(n int) []byte { return []byte(strings.Repeat("/a", n/2)) }, func(in []byte) {
			c, err := command.Parse(string(in))
			if err == nil {
				c.Covers(c)
				c.Segments()
			}
		}},
		{"glob-stars->Like+Match", 1 << 13, func(n int) []byte { return []byte(strings.Repeat("*a", n/2) + "b") }, func(in []byte) {
			p, err := policy.Construct(policy.Like(".", string(in)))
			if err == nil {
				p.Match(nStr(strings.Repeat("a", len(in))))
			}
		}},
		{"did-long->Parse", 1 << 14, func(n int) []byte { return []byte("did:key:z" + strings.Repeat("2", n)) }, func(in []byte) { did.Parse(string(in)) }},
		{"car-many-sections->container.FromCar", 1 << 20, func(n int) []byte {
			t := ioToken("dlg")
			sec := append(uv(uint64(len(t.Cid.Bytes())+len(t.Sealed))), append(t.Cid.Bytes(), t.Sealed...)...)
			out := carHeader()
			for len(out) < n {
				out = append(out, sec...)
			}
			return out
		}, func(in []byte) { container.FromCar(in) }},
		{"car-many-tiny-invalid-sections->container.FromCar", 0, func(n int) []byte {
			return append(carHeader(), repeatBytes([]byte{0x01, 0x00}, n/2)...)
		}, func(in []byte) { container.FromCar(in) }},
		{"bomb-cbor-bytes-4GiB-declared->token.FromSealed", 64, func(n int) []byte { return append([]byte{0x5a, 0xff, 0xff, 0xff, 0xff}, make([]byte, n)...) }, func(in []byte) { token.FromSealed(in) }},
		{"bomb-cbor-bytes-2^63-declared->token.FromSealed", 64, func(n int) []byte {
			return append([]byte{0x5b, 0x7f, 0xff, 0xff, 0xff, 0xff, 0xff, 0xff, 0xff}, make([]byte, n)...)
		}, func(in []byte) { token.FromSealed(in) }},
		{"bomb-cbor-text-1GiB-declared->container.FromCbor", 64, func(n int) []byte { return append([]byte{0x7a, 0x40, 0x00, 0x00, 0x00}, make([]byte, n)...) }, func(in []byte) { container.FromCbor(in) }},
		{"bomb-cbor-array-4G-declared->token.FromSealed", 64, func(n int) []byte { return append([]byte{0x9a, 0xff, 0xff, 0xff, 0xff}, make([]byte, n)...) }, func(in []byte) { token.FromSealed(in) }},
		{"bomb-cbor-map-4G-declared->invocation.FromSealed", 64, func(n int) []byte { return append([]byte{0xba, 0xff, 0xff, 0xff, 0xff}, make([]byte, n)...) }, func(in []byte) { invocation.FromSealed(in) }},
		{"bomb-cbor-array-in-container->container.FromCbor", 64, func(n int) []byte {
			return append([]byte{0xa1, 0x66, 'c', 't', 'n', '-', 'v', '1', 0x9b, 0x00, 0x00, 0x00, 0x10, 0x00, 0x00, 0x00, 0x00}, make([]byte, n)...)
		}, func(in []byte) { container.FromCbor(in) }},
		{"bomb-car-section-2^32->container.FromCar", 64, func(n int) []byte { return append(append(carHeader(), uv(1<<32)...), make([]byte, n)...) }, func(in []byte) { container.FromCar(in) }},
		{"bomb-car-section-32MiB-declared->container.FromCar", 64, func(n int) []byte { return append(append(carHeader(), uv(32<<20)...), make([]byte, n)...) }, func(in []byte) { container.FromCar(in) }},
		{"bomb-car-section-2^63->container.FromCar", 64, func(n int) []byte { return append(append(carHeader(), uv(1<<63)...), make([]byte, n)...) }, func(in []byte) { container.FromCar(in) }},
		{"bomb-car-section-2^64-1->container.FromCarReader", 64, func(n int) []byte { return append(append(carHeader(), uv(math.MaxUint64)...), make([]byte, n)...) }, func(in []byte) { container.FromCarReader(bytes.NewReader(in)) }},
		{"bomb-car-header-2^64-1->container.FromCar", 64, func(n int) []byte { return append(uv(math.MaxUint64), make([]byte, n)...) }, func(in []byte) { container.FromCar(in) }},
		{"bomb-cbor-bytes-2^64-1-declared->token.FromSealed", 64, func(n int) []byte {
			return append([]byte{0x5b, 0xff, 0xff, 0xff, 0xff, 0xff, 0xff, 0xff, 0xff}, make([]byte, n)...)
		}, func(in []byte) { token.FromSealed(in) }},
		{"bomb-cbor-array-2^63-declared->container.FromCbor", 64, func(n int) []byte {
			return append([]byte{0x9b, 0x80, 0, 0, 0, 0, 0, 0, 0}, make([]byte, n)...)
		}, func(in []byte) { container.FromCbor(in) }},
		{"bomb-car-header-2^63->container.FromCarBase64", 64, func(n int) []byte {
			return []byte(base64.StdEncoding.EncodeToString(append(uv(1<<63-1), make([]byte, n)...)))
		}, func(in []byte) { container.FromCarBase64(in) }},
	}
	return append(fams, c09AdvertisedFamilies()...)
}

// Readers that advertise how much they will deliver - *io.LimitedReader (N), *io.SectionReader (Size) - hand an
// untrusted number to whoever believes it: the bytes are a valid token of a few hundred bytes, the advertised
// size goes up to MaxInt64. Memory stays bounded by the bytes actually delivered.
func c09AdvertisedFamilies() []scaleFamily {
	var fams []scaleFamily
	type adv struct {
		name string
		n    int64
	}
	for _, a := range []adv{{"2^20", 1 << 20}, {"2^31", 1 << 31}, {"2^33", 1 << 33}, {"2^36", 1 << 36}, {"2^62", 1 << 62}, {"MaxInt64", math.MaxInt64}} {
		a := a
		readers := []struct {
			name string
			mk   func(in []byte) io.Reader
		}{
			{"limited-reader-over-bufio", func(in []byte) io.Reader { return &io.LimitedReader{R: bufio.NewReader(bytes.NewReader(in)), N: a.n} }},
			{"limited-reader-over-one-byte-reader", func(in []byte) io.Reader {
				return &io.LimitedReader{R: iotest.OneByteReader(bytes.NewReader(in)), N: a.n}
			}},
			{"section-reader", func(in []byte) io.Reader { return io.NewSectionReader(bytes.NewReader(in), 0, a.n) }},
		}
		for _, rd := range readers {
			rd := rd
			gen := func(int) []byte { return ioToken("dlg").Sealed }
			fams = append(fams,
				scaleFamily{rd.name + "-advertising-" + a.name + "->token.FromSealedReader", 512, gen, func(in []byte) { token.FromSealedReader(rd.mk(in)) }},
				scaleFamily{rd.name + "-advertising-" + a.name + "->delegation.FromSealedReader", 512, gen, func(in []byte) { delegation.FromSealedReader(rd.mk(in)) }},
				scaleFamily{rd.name + "-advertising-" + a.name + "->container.FromCarReader", 512, func(int) []byte { return buildContainer("car", []string{"dlg"}).Data }, func(in []byte) { container.FromCarReader(rd.mk(in)) }},
			)
		}
	}
	return fams
}

type workerResult struct {
	OK          bool    `json:"ok"`
	Panic       string  `json:"panic,omitempty"`
	Site        string  `json:"site,omitempty"`
	InputLen    int     `json:"input_len"`
	TotalAlloc  uint64  `json:"total_alloc"`
	HeapSysGrow uint64  `json:"heap_sys_grow"`
	PeakRSSPre  uint64  `json:"peak_rss_pre"`
	PeakRSSPost uint64  `json:"peak_rss_post"`
	WallMs      float64 `json:"wall_ms"`
}

func peakRSS() uint64 {
	b, err := os.ReadFile("/proc/self/status")
	if err != nil {
		return 0
	}
	for _, l := range strings.Split(string(b), "\n") {
		if strings.HasPrefix(l, "VmHWM:") {
			f := strings.Fields(l)
			if len(f) >= 2 {
				kb, _ := strconv.ParseUint(f[1], 10, 64)
				return kb * 1024
			}
		}
	}
	return 0
}

// WorkerMain runs one (family, size) input in this process and prints a JSON result.
func workerMain(args []string) int {
	if len(args) < 2 {
		return 2
	}
	size, _ := strconv.Atoi(args[1])
	for _, f := range c09Families() {
		if f.Name != args[0] {
			continue
		}
		in := f.Gen(size)
		// warm lazily built globals on a tiny input of the same family, so that they are not charged to the input
		callNoPanic(func() { f.Run(f.Gen(64)) })
		runtime.GC()
		var m0, m1 runtime.MemStats
		runtime.ReadMemStats(&m0)
		res := workerResult{InputLen: len(in), PeakRSSPre: peakRSS()}
		start := time.Now()
		pan, stack := callNoPanic(func() { f.Run(in) })
		res.WallMs = float64(time.Since(start).Microseconds()) / 1000
		runtime.ReadMemStats(&m1)
		res.PeakRSSPost = peakRSS()
		res.TotalAlloc = m1.TotalAlloc - m0.TotalAlloc
		if m1.HeapSys > m0.HeapSys {
			res.HeapSysGrow = m1.HeapSys - m0.HeapSys
		}
		res.OK = pan == nil
		if pan != nil {
			res.Panic = fmt.Sprint(pan)
			res.Site = panicSite(stack)
		}
		b, _ := json.Marshal(res)
		fmt.Println("WORKER-RESULT " + string(b))
		return 0
	}
	fmt.Fprintln(os.Stderr, "unknown family", args[0])
	return 2
}

type c09ScaleCase struct {
	Family string `json:"family"`
	Size   int    `json:"size"`
}

const (
	c09MemConst  = 128 << 20
	c09MemFactor = 1024
	c09Deadline  = 120 * time.Second
)

func runWorker(family string, size int) (workerResult, string, error) {
	bin := os.Getenv("VERIF_CHECK_BIN")
	if bin == "" {
		bin, _ = os.Executable()
	}
	// address-space limit: generous (the Go runtime reserves address space), still stops runaway allocations
	limitKB := 24 << 20 // 24 GiB of address space
	cmd := exec.Command("sh", "-c", fmt.Sprintf("ulimit -v %d; exec \"$0\" worker \"$1\" \"$2\"", limitKB), bin, family, strconv.Itoa(size))
	cmd.Env = append(os.Environ(), "GOMAXPROCS=2", "GOMEMLIMIT=off")
	var out, errb bytes.Buffer
	cmd.Stdout, cmd.Stderr = &out, &errb
	if err := cmd.Start(); err != nil {
		return workerResult{}, "", err
	}
	done := make(chan error, 1)
	go func() { done <- cmd.Wait() }()
	var werr error
	timedOut := false
	select {
	case werr = <-done:
	case <-time.After(c09Deadline):
		timedOut = true
		cmd.Process.Kill()
		<-done
	}
	if timedOut {
		return workerResult{}, "timeout", nil
	}
	for _, l := range strings.Split(out.String(), "\n") {
		if strings.HasPrefix(l, "WORKER-RESULT ") {
			var r workerResult
			if err := json.Unmarshal([]byte(strings.TrimPrefix(l, "WORKER-RESULT ")), &r); err == nil {
				return r, "", nil
			}
		}
	}
	// the process died without a result
	tail := errb.String()
	reason := "process-died"
	switch {
	case strings.Contains(tail, "stack overflow") || strings.Contains(tail, "goroutine stack exceeds"):
		reason = "fatal-stack-overflow"
	case strings.Contains(tail, "out of memory") || strings.Contains(tail, "cannot allocate memory"):
		reason = "fatal-out-of-memory"
	}
	if len(tail) > 400 {
		tail = tail[:400]
	}
	_ = werr
	return workerResult{}, reason + ": " + strings.ReplaceAll(tail, "\n", " | "), nil
}

func c09ScaleSub() *engine.Sub {
	fams := c09Families()
	sizes := func(tier string, f scaleFamily) []int {
		max := 1 << 18
		if tier == "thorough" {
			max = 1 << 22
		}
		if f.MaxSize != 0 && (f.MaxSize < max || f.MaxSize < 1<<10) {
			max = f.MaxSize
		}
		var r []int
		if max < 1<<10 {
			return []int{max}
		}
		for s := 1 << 10; s <= max; s <<= 1 {
			r = append(r, s)
		}
		return r
	}
	return &engine.Sub{
		Name:    "scaling-families-in-isolated-worker",
		Serial:  false,
		Replays: 3,
		Rule:    fmt.Sprint(len(fams)) + " input families whose size is a parameter (nesting depth of CBOR/JSON lists, maps, tags; nested not/and/any policies, also inside a well-signed delegation; selectors with many segments; long commands, globs, DIDs; CARs with many sections; declared-length bombs for CBOR strings/arrays/maps and CAR sections; a valid token or container behind an *io.LimitedReader / *io.SectionReader that advertises 2^20 ... MaxInt64 bytes to the stream decoders), each run at sizes 1 KiB, 2 KiB, ... up to the bound, one input per worker subprocess (ulimit -v, 120 s deadline). Oracle: the process does not die, the call does not panic, it terminates before the deadline, and its peak resident memory, and the heap it reserves, grow by at most 128 MiB + 1024 x input size; non-trivial = all",
		Bound: func(t string) string {
			if t == "thorough" {
				return "sizes 2^10..2^22 bytes (4 MiB) per family unless the family states a smaller maximum"
			}
			return "sizes 2^10..2^18 bytes (256 KiB) per family unless the family states a smaller maximum"
		},
		Gen: func(tier string, emit func(any) bool) {
			for _, f := range fams {
				for _, s := range sizes(tier, f) {
					if !emit(&c09ScaleCase{Family: f.Name, Size: s}) {
						return
					}
				}
			}
		},
		NewCase: func() any { return &c09ScaleCase{} },
		Run: func(ctx *engine.Ctx, c any) {
			cs := c.(*c09ScaleCase)
			ctx.States(1)
			ctx.Eval(1)
			ctx.Trans(1)
			ctx.Nontrivial(1)
			r, died, err := runWorker(cs.Family, cs.Size)
			if err != nil {
				panic(fmt.Sprintf("harness: cannot start worker: %v", err))
			}
			fam := strings.Split(cs.Family, "->")[0]
			switch {
			case died == "timeout":
				ctx.Outcome("timeout")
				ctx.Failf(cs, "no-termination-within-deadline/"+fam, "%s at %d bytes did not terminate within %s", cs.Family, cs.Size, c09Deadline)
			case died != "":
				ctx.Outcome("process-died")
				ctx.Failf(cs, "process-dies/"+strings.Split(died, ":")[0]+"/"+fam, "%s at %d bytes kills the process: %s", cs.Family, cs.Size, died)
			case !r.OK:
				ctx.Outcome("panic")
				ctx.Failf(cs, "panic/"+r.Site, "%s at %d bytes panics: %s", cs.Family, cs.Size, r.Panic)
			default:
				grow := uint64(0)
				if r.PeakRSSPost > r.PeakRSSPre {
					grow = r.PeakRSSPost - r.PeakRSSPre
				}
				limit := uint64(c09MemConst) + uint64(c09MemFactor)*uint64(r.InputLen)
				if r.HeapSysGrow > limit {
					ctx.Outcome("memory-bound-exceeded")
					ctx.Failf(cs, "memory-superlinear/"+fam, "%s: input of %d bytes makes the heap reserve %d MiB more (allocated %d MiB in total), bound is %d MiB", cs.Family, r.InputLen, r.HeapSysGrow>>20, r.TotalAlloc>>20, limit>>20)
				} else if grow > limit {
					ctx.Outcome("memory-bound-exceeded")
					ctx.Failf(cs, "memory-superlinear/"+fam, "%s: input of %d bytes grows peak RSS by %d MiB (allocated %d MiB in total), bound is %d MiB", cs.Family, r.InputLen, grow>>20, r.TotalAlloc>>20, limit>>20)
				} else {
					ctx.Outcome("within-bounds")
				}
			}
		},
	}
}

// c09HangHandler: for C09 "always terminates" is part of the property, so a case that does not come
// back is a violation (reported from the watchdog; the process cannot continue past a hung goroutine).
func c09HangHandler(sub *engine.Sub, caseJSON string, limit time.Duration) {
	// Slow is not hung: the verdict needs the two-stage confirmation of engine.ConfirmHang (a fresh process that
	// runs the case alone, then three times the limit on the monotonic clock in this process).
	confirmed, how := engine.ConfirmHang("C09", sub, caseJSON, limit)
	if !confirmed {
		fmt.Fprintf(os.Stderr, "note: case %s of sub-check %s took longer than %s but came back (slow run, not a hang)\n", caseJSON, sub.Name, limit)
		return
	}
	dir := filepath.Join(engine.OutDir(), "replays", "C09")
	os.MkdirAll(dir, 0o755)
	path := filepath.Join(dir, "does-not-terminate-"+strings.ReplaceAll(sub.Name, "/", "_")+".json")
	body := fmt.Sprintf("{\n \"property\": \"C09\",\n \"sub\": %q,\n \"class\": \"does-not-terminate\",\n \"msg\": %q,\n \"history_dependent\": %v,\n \"case\": %s\n}\n", sub.Name, fmt.Sprintf("the case did not return within %s; %s", limit, how), strings.Contains(how, "preceded"), caseJSON)
	os.WriteFile(path, []byte(body), 0o644)
	fmt.Printf("  violation class=does-not-terminate sub=%s: case %s did not return within %s\n", sub.Name, caseJSON, limit)
	fmt.Printf("VIOLATION property=C09 replay=%s\n", path)
	os.Exit(1)
}

func C09() *engine.Check {
	engine.HangHandler = c09HangHandler
	subs := []*engine.Sub{c09ShortSub(), c09MutSub(), c09SignedSub(), c09EnvSub(), c09MatchSub(), c09GlobSub(), c09ManyStmtSub(), c09MultiSub(), c09ReencSub(), c09CmdSub(), c09ErrTextSub(), c09NestSub(), c09AuthSub(), c09OpNameSub(), c09StickySub(), c09ScaleSub(), c09ConcSub(), concRaceSub("C09")}
	for _, s := range subs {
		if s.Name == "scaling-families-in-isolated-worker" {
			s.HangLimit = 20 * time.Minute // its inputs run in worker processes with their own deadlines and re-runs
		} else if s.HangLimit == 0 {
			s.HangLimit = 60 * time.Second // in-process cases take milliseconds
		}
	}
	return &engine.Check{
		Property: "C09",
		Level:    "model_checking",
		Subs:     subs,
		Assumptions: []string{
			"'every input' is covered for all inputs up to 2 (quick) / 3 (thorough) bytes, all distance-1 mutants of 14 valid artefacts, a grammar of well-signed malformed payloads and 36 scaling families up to 256 KiB / 4 MiB; no random inputs are used",
			"memory clause: peak resident set growth of a fresh worker process <= 128 MiB + 1024 x input length; termination clause: 120 s per input (inputs of at most 4 MiB; the slowest conforming family needs < 5 s)",
			"time complexity is not part of the property: the quadratic base58 decoding of did.Parse and the O(n*m) glob matcher are only run at sizes where they finish within the deadline",
		},
	}
}
