package props

import (
	"bufio"
	"bytes"
	"encoding/json"
	"fmt"
	"os"
	"os/exec"
	"path/filepath"
	"sort"
	"strings"
	"sync"
	"time"

	"verifharness/c20ops"
	"verifharness/engine"
)

var (
	c20Ops      = c20ops.Ops()
	c20Baseline sync.Map // variant|op -> run-alone result on a fresh fixture
)

func c20Alone(v c20ops.Variant, op int) string {
	key := v.String() + "|" + c20Ops[op].Name
	if r, ok := c20Baseline.Load(key); ok {
		return r.(string)
	}
	r := c20Ops[op].Run(c20ops.NewFixture(v), nil)
	c20Baseline.Store(key, r)
	return r
}

// c20FieldOf names the first field on which two dumps differ (root-cause class).
func c20DiffField(a, b string) string {
	n := len(a)
	if len(b) < n {
		n = len(b)
	}
	i := 0
	for i < n && a[i] == b[i] {
		i++
	}
	// walk back to the nearest field name "name:"
	j := i
	for j > 0 && !(a[j-1] == ';' || a[j-1] == '{') {
		j--
	}
	k := j
	for k < len(a) && a[k] != ':' {
		k++
	}
	field := a[j:k]
	// outer struct name
	o := strings.LastIndex(a[:j], "{")
	p := o
	for p > 0 && (a[p-1] >= 'a' && a[p-1] <= 'z' || a[p-1] >= 'A' && a[p-1] <= 'Z') {
		p--
	}
	if o >= 0 {
		return a[p:o] + "." + field
	}
	return field
}

type c20SeqCase struct {
	Variant c20ops.Variant `json:"variant"`
	Seq     []int          `json:"seq"`    // operation indexes
	Expand  int            `json:"expand"` // explore all extensions by this many more operations
	Names   []string       `json:"names,omitempty"`
}

func (c *c20SeqCase) Weight() int { return len(c.Seq) }

func opNames(seq []int) []string {
	var r []string
	for _, i := range seq {
		r = append(r, c20Ops[i].Name)
	}
	return r
}

func c20SeqSub() *engine.Sub {
	return &engine.Sub{
		Name: "sequential-state-graph",
		Rule: "explicit-state search: state = deep structural dump of the shared invocation and its two delegations (private fields via reflect/unsafe, slices in storage order, maps sorted); transitions = each of 36 read-only operations; all operation sequences up to the depth bound from every token variant (argument/metadata keys inserted in every order of 0..3 keys, constructed and decoded). Invariant in every state: the dump equals the initial dump (the reachable graph has one state per variant) and the operation's result equals its result when run alone on a fresh equal token; non-trivial = sequences of length >= 2",
		Bound: func(t string) string {
			return fmt.Sprintf("26 token variants x all sequences of <=%d operations out of 36", tierN(t, 2, 3))
		},
		Setup: func(string) error {
			// a fixture whose chain is denied before the policies are reached would make most of the
			// alphabet vacuous: the plain checks must succeed and the violating hook must be refused by policy
			for _, v := range c20ops.Variants() {
				f := c20ops.NewFixture(v)
				for oi, op := range c20Ops {
					r := op.Run(f, nil)
					// the run-alone baselines are taken here, once, in operation order, before anything else ran
					c20Baseline.LoadOrStore(v.String()+"|"+op.Name, r)
					_ = oi
					switch {
					case op.Name == "inv.Meta.GetEncrypted(other key)":
						if r != "refused" {
							return fmt.Errorf("harness: fixture %s: reading the encrypted entry with another key answers %q in a fresh process", v, r)
						}
					case op.Name == "inv.ExecutionAllowedWithArgsHook(violating)":
						if !strings.Contains(r, "policy is not satisfied") {
							return fmt.Errorf("harness: fixture %s: %s = %q, want a policy refusal", v, op.Name, r)
						}
					case strings.HasPrefix(op.Name, "inv.ExecutionAllowed"):
						if r != "ok" && !strings.HasPrefix(r, "ok|") {
							return fmt.Errorf("harness: fixture %s: %s = %q, want ok", v, op.Name, r)
						}
					}
				}
			}
			return nil
		},
		Gen: func(tier string, emit func(any) bool) {
			d := tierN(tier, 2, 3)
			for _, v := range c20ops.Variants() {
				for i := range c20Ops {
					if !emit(&c20SeqCase{Variant: v, Seq: []int{i}, Expand: d - 1}) {
						return
					}
				}
			}
		},
		NewCase: func() any { return &c20SeqCase{} },
		Run: func(ctx *engine.Ctx, c any) {
			cs := c.(*c20SeqCase)
			var rec func(seq []int, left int)
			rec = func(seq []int, left int) {
				// successor states are rebuilt by replaying the path on fresh objects
				f := c20ops.NewFixture(cs.Variant)
				initial := c20ops.Dump(f)
				ctx.States(1)
				if len(seq) >= 2 {
					ctx.Nontrivial(1)
				}
				for k, op := range seq {
					if k == len(seq)-1 {
						initial = c20ops.Dump(f) // the state this transition starts from
					}
					got := c20Ops[op].Run(f, nil)
					ctx.Eval(1)
					ctx.Trans(1)
					if k < len(seq)-1 {
						continue // prefixes were checked in their own state
					}
					rc := &c20SeqCase{Variant: cs.Variant, Seq: append([]int{}, seq...), Names: opNames(seq)}
					after := c20ops.Dump(f)
					if after != initial {
						ctx.Outcome("state-changed")
						ctx.Failf(rc, "token-mutated-by/"+c20Ops[op].Name+"/"+c20DiffField(initial, after), "%s changes the token (variant %s, after %v): field %s", c20Ops[op].Name, cs.Variant, opNames(seq[:k]), c20DiffField(initial, after))
					} else {
						ctx.Outcome("state-unchanged")
					}
					if want := c20Alone(cs.Variant, op); got != want {
						prev := "nothing"
						if k > 0 {
							prev = c20Ops[seq[k-1]].Name
						}
						ctx.Failf(rc, "result-not-repeatable/"+c20Ops[op].Name+"/after/"+prev, "%s returns a different result after %v than when run alone (variant %s): %.120q vs %.120q", c20Ops[op].Name, opNames(seq[:k]), cs.Variant, got, want)
					}
				}
				if left == 0 {
					return
				}
				for i := range c20Ops {
					rec(append(seq[:len(seq):len(seq)], i), left-1)
				}
			}
			rec(cs.Seq, cs.Expand)
		},
	}
}

type c20SchedCase struct {
	Variant c20ops.Variant `json:"variant"`
	Ops     []int          `json:"ops"`
	Names   []string       `json:"names,omitempty"`
	Prefix  []int          `json:"prefix,omitempty"` // replay: one schedule
}

func (c *c20SchedCase) Weight() int { return len(c.Prefix) }

func c20SchedVariants() []c20ops.Variant {
	return []c20ops.Variant{
		{Keys: []string{"c", "a", "b"}}, {Keys: []string{"b", "a"}}, {Keys: []string{"a", "b", "c"}}, {Keys: []string{"c", "a", "b"}, Decoded: true}, {Keys: []string{}},
	}
}

func c20SchedSub() *engine.Sub {
	return &engine.Sub{
		Name: "interleavings-at-callback-seams",
		Rule: "cooperative scheduler: logical threads each run one read-only operation on the same shared tokens; scheduling points are the callback seams of the library (Loader.GetDelegation, the argument hook, the first 12 and then every 24th Write of the streaming encoders, every yield of Arguments().Iter / Meta().Iter). All schedules up to the preemption bound are enumerated (stateless DFS, prefix replay, divergence = hard error). Oracle: every thread's result equals its run-alone result on a fresh equal token and the final dump equals the initial dump; non-trivial = schedules with at least one context switch before a thread finished",
		Bound: func(t string) string {
			if t == "thorough" {
				return "5 token variants x all ordered pairs of 36 operations with <=2 preemptions, and all ordered triples of 8 seam-bearing operations with <=1 preemption"
			}
			return "5 token variants x all ordered pairs of 36 operations with <=1 preemption"
		},
		Gen: func(tier string, emit func(any) bool) {
			for _, v := range c20SchedVariants() {
				for i := range c20Ops {
					for j := range c20Ops {
						if !emit(&c20SchedCase{Variant: v, Ops: []int{i, j}}) {
							return
						}
					}
				}
			}
			if tier == "thorough" {
				var seamOps []int
				for i, o := range c20Ops {
					switch o.Name {
					case "inv.ExecutionAllowed", "inv.ExecutionAllowedWithArgsHook(extending)", "inv.Arguments.Iter", "inv.Meta.Iter", "inv.ToSealedWriter", "inv.Arguments.Clone+Add", "inv.Meta.String", "dlg0.Meta.Iter":
						seamOps = append(seamOps, i)
					}
				}
				for _, v := range c20SchedVariants()[:2] {
					for _, i := range seamOps {
						for _, j := range seamOps {
							for _, k := range seamOps {
								if !emit(&c20SchedCase{Variant: v, Ops: []int{i, j, k}}) {
									return
								}
							}
						}
					}
				}
			}
		},
		NewCase: func() any { return &c20SchedCase{} },
		Run: func(ctx *engine.Ctx, c any) {
			cs := c.(*c20SchedCase)
			bound := 1
			if ctx.Tier == "thorough" && len(cs.Ops) == 2 {
				bound = 2
			}
			ctx.States(1)
			var f *c20ops.Fixture
			var initial string
			results := make([]string, len(cs.Ops))
			dirty := true
			mk := func() []func(engine.ThreadSeam) {
				if dirty {
					// fresh tokens; they are reused for the next schedule only if the complete dump is unchanged
					f = c20ops.NewFixture(cs.Variant)
					initial = c20ops.Dump(f)
					dirty = false
				}
				bodies := make([]func(engine.ThreadSeam), len(cs.Ops))
				for t, op := range cs.Ops {
					t, op := t, op
					bodies[t] = func(s engine.ThreadSeam) { results[t] = c20Ops[op].Run(f, s) }
				}
				return bodies
			}
			judge := func(env *engine.Env, s *engine.Sched) {
				ctx.Eval(int64(len(cs.Ops)))
				ctx.Trans(int64(len(env.Taken)))
				switched := false
				for i, c := range env.Taken {
					if c != 0 && s.Preempt[i] {
						switched = true
					}
				}
				if switched {
					ctx.Nontrivial(1)
				}
				rc := &c20SchedCase{Variant: cs.Variant, Ops: cs.Ops, Names: opNames(cs.Ops), Prefix: append([]int{}, env.Taken...)}
				bad := false
				for t, op := range cs.Ops {
					if want := c20Alone(cs.Variant, op); results[t] != want {
						bad = true
						others := []string{}
						for u, o := range cs.Ops {
							if u != t {
								others = append(others, c20Ops[o].Name)
							}
						}
						sort.Strings(others)
						ctx.Failf(rc, "interleaved-result-differs/"+c20Ops[op].Name+"/with/"+strings.Join(others, "+"), "%s interleaved with %v (schedule %v, threads %v) returns %.100q, alone it returns %.100q", c20Ops[op].Name, others, env.Taken, s.Trace, results[t], want)
					}
				}
				if after := c20ops.Dump(f); after != initial {
					bad = true
					dirty = true
					ctx.Failf(rc, "token-mutated-by-interleaving/"+c20DiffField(initial, after), "running %v concurrently changes the token: field %s", opNames(cs.Ops), c20DiffField(initial, after))
				}
				if bad {
					ctx.Outcome("schedule-violates")
				} else {
					ctx.Outcome("schedule-ok")
				}
			}
			if cs.Prefix != nil {
				env := &engine.Env{Prefix: cs.Prefix}
				s := engine.RunThreads(env, mk())
				judge(env, s)
				return
			}
			before := engine.Divergences.Load()
			engine.Tolerant = true
			_, capped, err := engine.ExploreSchedules(bound, 200000, mk, judge)
			if err != nil {
				panic(err)
			}
			if d := engine.Divergences.Load() - before; d > 0 {
				ctx.OutcomeN("schedule-replay-diverged", d)
				ctx.Inexact("schedule replays diverged: the code under test keeps state across executions, so the enumeration of interleavings is not exhaustive there")
			}
			if capped {
				ctx.Outcome("schedule-cap-hit")
				ctx.Inexact("more than 200000 schedules for one tuple of operations")
			}
		},
	}
}

type c20RaceCase struct {
	Only string `json:"only,omitempty"` // replay: a single sub-test name
}

func harnessDir() string {
	if d := os.Getenv("VERIF_HARNESS_DIR"); d != "" {
		return d
	}
	return filepath.Join(engine.VerifDir(), "harness")
}

func c20RaceSub() *engine.Sub {
	return &engine.Sub{
		Name:    "race-detector-pairs",
		Serial:  true,
		Replays: 1, // each replay is a separate `go test -race` process; the detector's verdict is happens-before based
		Rule:    "free-running pass: the same operation bodies, every unordered pair of the 36 operations (an operation with itself included) on 4 token variants, two goroutines released by a barrier, as sub-tests of `go test -race -tags verif ./racepass`, built from /repo's working tree. A sub-test the detector marks failed ('race detected during execution of test') is a violation attributed to that pair. The verdict is happens-before based, so it does not depend on the actual timing of the two goroutines; non-trivial = all pairs",
		Bound: func(string) string {
			return "666 unordered pairs x 4 variants + first-use of lazily built globals from 2 goroutines"
		},
		Gen: func(tier string, emit func(any) bool) {
			emit(&c20RaceCase{})
		},
		NewCase: func() any { return &c20RaceCase{} },
		Run: func(ctx *engine.Ctx, c any) {
			cs := c.(*c20RaceCase)
			args := []string{"test", "-vet=off", "-tags", "verif", "-race", "-count=1", "-json", "-run", "TestPairs|TestFirstUse"}
			if ov := os.Getenv("VERIF_OVERLAY"); ov != "" {
				args = append(args, "-overlay", ov)
			}
			cmd := exec.Command("go", append(args, "./racepass")...)
			cmd.Dir = harnessDir()
			cmd.Env = append(os.Environ(), "GOFLAGS=-mod=mod", "GOPROXY=off", "GOSUMDB=off", "GOTOOLCHAIN=local")
			if cs.Only != "" {
				cmd.Env = append(cmd.Env, "VERIF_RACE_ONLY="+cs.Only)
			}
			var out bytes.Buffer
			cmd.Stdout = &out
			var errb bytes.Buffer
			cmd.Stderr = &errb
			runErr := cmd.Run()
			type ev struct {
				Action, Test, Output string
			}
			ran, failed := map[string]bool{}, map[string]bool{}
			raceOut := map[string]string{}
			sc := bufio.NewScanner(&out)
			sc.Buffer(make([]byte, 1<<20), 1<<24)
			parsed := 0
			for sc.Scan() {
				var e ev
				if json.Unmarshal(sc.Bytes(), &e) != nil {
					continue
				}
				parsed++
				if e.Test == "" {
					continue
				}
				switch e.Action {
				case "run":
					ran[e.Test] = true
				case "fail":
					failed[e.Test] = true
				case "output":
					if len(raceOut[e.Test]) < 1<<16 {
						raceOut[e.Test] += e.Output
					}
				}
			}
			if parsed == 0 || len(ran) == 0 {
				panic(fmt.Sprintf("harness: go test -race produced no results (err=%v): %s", runErr, errb.String()))
			}
			ctx.States(1)
			for t := range ran {
				if !strings.Contains(t, "/") && t != "TestFirstUse" {
					continue
				}
				ctx.Eval(1)
				ctx.Trans(1)
				ctx.Nontrivial(1)
				if !failed[t] {
					ctx.Outcome("no-race")
					continue
				}
				ctx.Outcome("race-reported")
				name := strings.TrimPrefix(t, "TestPairs/")
				cls := "data-race/" + raceLocations(raceOut[t])
				ctx.Failf(&c20RaceCase{Only: name}, cls, "the race detector reports a data race while running %s between %s", name, raceLocations(raceOut[t]))
			}
		},
	}
}

// raceLocations names the root cause of a race report: for each of the two
// conflicting accesses of the first report, the innermost go-ucan function.
func raceLocations(out string) string {
	var locs []string
	inAccess := false
	for _, line := range strings.Split(out, "\n") {
		l := strings.TrimSpace(line)
		switch {
		case strings.HasPrefix(l, "Write at"), strings.HasPrefix(l, "Read at"), strings.HasPrefix(l, "Previous write at"), strings.HasPrefix(l, "Previous read at"):
			inAccess = true
		case strings.HasPrefix(l, "Goroutine "), strings.HasPrefix(l, "=================="):
			inAccess = false
			if len(locs) >= 2 {
				sort.Strings(locs)
				return strings.Join(locs, "~")
			}
		case inAccess && strings.HasPrefix(l, "github.com/ucan-wg/go-ucan/"):
			f := strings.TrimPrefix(l, "github.com/ucan-wg/go-ucan/")
			if i := strings.Index(f, "("); i > 0 && strings.HasSuffix(f, ")") && !strings.Contains(f, ".(") {
				f = f[:i]
			}
			f = strings.TrimSuffix(f, "()")
			locs = append(locs, f)
			inAccess = false
		}
	}
	sort.Strings(locs)
	if len(locs) == 0 {
		return "unlocated"
	}
	return strings.Join(locs, "~")
}

// c20HangHandler: read-only operations "may run concurrently ... and each returns a result": two operations
// that complete when run alone (pass 1 runs every one of them alone first) and do not come back when they are
// interleaved at a callback seam or at a synchronization operation are waiting for each other - a violation.
// A case of the sequential pass that does not come back stays a harness error.
func c20HangHandler(sub *engine.Sub, caseJSON string, limit time.Duration) {
	if sub.Name == "sequential-state-graph" || sub.Name == "race-detector-pairs" {
		fmt.Fprintf(os.Stderr, "harness error: case %s of sub-check %s did not finish within %s (the code under test or the harness hangs)\n", caseJSON, sub.Name, limit)
		os.Exit(2)
	}
	if confirmed, _ := engine.ConfirmHang("C20", sub, caseJSON, limit); !confirmed {
		fmt.Fprintf(os.Stderr, "note: case %s of sub-check %s took longer than %s but came back (slow run, not a hang)\n", caseJSON, sub.Name, limit)
		return
	}
	dir := filepath.Join(engine.OutDir(), "replays", "C20")
	os.MkdirAll(dir, 0o755)
	path := filepath.Join(dir, "operations-wait-for-each-other-"+strings.ReplaceAll(sub.Name, "/", "_")+".json")
	body := fmt.Sprintf("{\n \"property\": \"C20\",\n \"sub\": %q,\n \"class\": \"operations-wait-for-each-other\",\n \"msg\": \"the interleaved operations did not return within %s although each returns when run alone (one of them is parked at a callback seam or a scheduling point while the other waits for it)\",\n \"case\": %s\n}\n", sub.Name, limit, caseJSON)
	os.WriteFile(path, []byte(body), 0o644)
	fmt.Printf("  violation class=operations-wait-for-each-other sub=%s: case %s did not return within %s\n", sub.Name, caseJSON, limit)
	fmt.Printf("VIOLATION property=C20 replay=%s\n", path)
	os.Exit(1)
}

func C20() *engine.Check {
	engine.HangHandler = c20HangHandler
	sched, conc := c20SchedSub(), c20ConcSub()
	sched.HangLimit, conc.HangLimit = 45*time.Second, 90*time.Second
	return &engine.Check{
		Property: "C20",
		Level:    "model_checking",
		Subs:     []*engine.Sub{c20SeqSub(), c20OptSub(), c20ManyIssuersSub(), sched, conc, c20RaceSub()},
		Assumptions: []string{
			"go-ucan has no synchronisation operations of its own; the cooperative scheduler interleaves at the points where read-only operations call back into caller code, and sub-operation interleavings are covered by the separate free-running race-detector pass over operation pairs",
			"Ed25519 keys (deterministic signatures) so that sealing results are comparable; Meta.String is compared as a set of lines because it iterates a Go map",
			"private token state is read with reflect + unsafe from the harness; no instrumentation of go-ucan is needed",
		},
	}
}
