package props

import (
	"io"
	"math"
	"sync"

	"github.com/ipld/go-ipld-prime"
	"github.com/ipld/go-ipld-prime/datamodel"
	"github.com/ipld/go-ipld-prime/fluent/qp"
	cidlink "github.com/ipld/go-ipld-prime/linking/cid"
	"github.com/ipld/go-ipld-prime/node/basicnode"
	"github.com/ipld/go-ipld-prime/node/bindnode"
)

// small IPLD construction helpers (independent of go-ucan's literal package)

type kv struct {
	K string
	V datamodel.Node
}

func nMap(entries ...kv) datamodel.Node {
	n, err := qp.BuildMap(basicnode.Prototype.Any, int64(len(entries)), func(ma datamodel.MapAssembler) {
		for _, e := range entries {
			qp.MapEntry(ma, e.K, qp.Node(e.V))
		}
	})
	if err != nil {
		panic(err)
	}
	return n
}

func nList(items ...datamodel.Node) datamodel.Node {
	n, err := qp.BuildList(basicnode.Prototype.Any, int64(len(items)), func(la datamodel.ListAssembler) {
		for _, e := range items {
			qp.ListEntry(la, qp.Node(e))
		}
	})
	if err != nil {
		panic(err)
	}
	return n
}

func nInt(i int64) datamodel.Node     { return basicnode.NewInt(i) }
func nStr(s string) datamodel.Node    { return basicnode.NewString(s) }
func nBool(b bool) datamodel.Node     { return basicnode.NewBool(b) }
func nFloat(f float64) datamodel.Node { return basicnode.NewFloat(f) }
func nBytes(b []byte) datamodel.Node  { return basicnode.NewBytes(b) }
func nLink(i int) datamodel.Node      { return basicnode.NewLink(cidlink.Link{Cid: cidPool[i]}) }
func nNull() datamodel.Node           { return datamodel.Null }

type namedNode struct {
	Name string
	Node datamodel.Node
}

// selectorData is the IPLD value set shared by C12 and C14.
func selectorData() []namedNode {
	return []namedNode{
		{"null", nNull()},
		{"true", nBool(true)},
		{"0", nInt(0)},
		{"5", nInt(5)},
		{"1.5", nFloat(1.5)},
		{`""`, nStr("")},
		{`"ab"`, nStr("ab")},
		{`"héllo"`, nStr("héllo")},
		{`"日本語x"`, nStr("日本語x")},
		{`"abcé"`, nStr("abcé")},
		{`"é"`, nStr("é")},
		{`"abcdéf→"`, nStr("abcdéf→")},
		{`"long-multibyte(48)"`, nStr("ascii-head-0123456789-éèàüöß→日本語-tail-0123456789")},
		{"bytes()", nBytes([]byte{})},
		{"bytes(1,2,3)", nBytes([]byte{1, 2, 3})},
		{"bytes(255)", nBytes([]byte{255})},
		{"link", nLink(0)},
		{"[]", nList()},
		{"[1]", nList(nInt(1))},
		{"[1,2,3]", nList(nInt(1), nInt(2), nInt(3))},
		{"[1,2,3,4,5,6]", nList(nInt(1), nInt(2), nInt(3), nInt(4), nInt(5), nInt(6))},
		{"[0..12]", nList(nInt(0), nInt(1), nInt(2), nInt(3), nInt(4), nInt(5), nInt(6), nInt(7), nInt(8), nInt(9), nInt(10), nInt(11), nInt(12))},
		{"bytes(0..12)", nBytes([]byte{0, 1, 2, 3, 4, 5, 6, 7, 8, 9, 10, 11, 12})},
		{"[[1,2],[3]]", nList(nList(nInt(1), nInt(2)), nList(nInt(3)))},
		{"[{a:1},{a:2}]", nList(nMap(kv{"a", nInt(1)}), nMap(kv{"a", nInt(2)}))},
		{`["xy",bytes(9,8)]`, nList(nStr("xy"), nBytes([]byte{9, 8}))},
		{"{}", nMap()},
		{"{a:1}", nMap(kv{"a", nInt(1)})},
		{"{a:1,b:2}", nMap(kv{"a", nInt(1)}, kv{"b", nInt(2)})},
		{"{a:{b:2}}", nMap(kv{"a", nMap(kv{"b", nInt(2)})})},
		{"{a:{a:{a:1}}}", nMap(kv{"a", nMap(kv{"a", nMap(kv{"a", nInt(1)})})})},
		{"{a:[1,2,3]}", nMap(kv{"a", nList(nInt(1), nInt(2), nInt(3))})},
		{`{a:"héllo"}`, nMap(kv{"a", nStr("héllo")})},
		{"{a:bytes(1,2,3)}", nMap(kv{"a", nBytes([]byte{1, 2, 3})})},
		{"{a:null}", nMap(kv{"a", nNull()})},
		{`{"":7}`, nMap(kv{"", nInt(7)})},
		{`{"":[4,5],a:{"":1}}`, nMap(kv{"", nList(nInt(4), nInt(5))}, kv{"a", nMap(kv{"", nInt(1)})})},
		{"{b:[{a:1}]}", nMap(kv{"b", nList(nMap(kv{"a", nInt(1)}))})},
		{"{a:{x:[1,2]}}", nMap(kv{"a", nMap(kv{"x", nList(nInt(1), nInt(2))})})},
		// keys with blanks next to the keys one gets by removing them
		{`{"a b":1,ab:2," ":3,"":4}`, nMap(kv{"a b", nInt(1)}, kv{"ab", nInt(2)}, kv{" ", nInt(3)}, kv{"", nInt(4)})},
		{`{ab:2,"":4,a:{"a b":[5]}}`, nMap(kv{"ab", nInt(2)}, kv{"", nInt(4)}, kv{"a", nMap(kv{"a b", nList(nInt(5))})})},
		// maps whose keys read like indexes: an index segment applies to lists and bytes only
		{`{"0":7,"1":8,"-1":9,"5":6}`, nMap(kv{"0", nInt(7)}, kv{"1", nInt(8)}, kv{"-1", nInt(9)}, kv{"5", nInt(6)})},
		{`{a:{"0":[1,2],"-1":3}}`, nMap(kv{"a", nMap(kv{"0", nList(nInt(1), nInt(2))}, kv{"-1", nInt(3)})})},
		// characters outside the BMP (two UTF-16 units) and combining marks (several characters per glyph)
		{`"e+U+0301+xy"`, nStr("e\u0301xy")},
		{`"U+1F600,a,U+0301,b,c"`, nStr("\U0001F600a\u0301bc")},
		{`{a:"U+1F600,U+1F601,x"}`, nMap(kv{"a", nStr("\U0001F600\U0001F601x")})},
		// integers beyond 2^53 inside lists and maps: a selector moves values, it does not judge them
		{"[7,2^53,x]", nList(nInt(7), nInt(1<<53), nStr("x"))},
		{"{a:2^53,b:1}", nMap(kv{"a", nInt(1 << 53)}, kv{"b", nInt(1)})},
		{"[minInt64,[maxInt64]]", nList(nInt(math.MinInt64), nList(nInt(math.MaxInt64)))},
		{"{a:[1,-(2^53)-1,3]}", nMap(kv{"a", nList(nInt(1), nInt(-(1<<53)-1), nInt(3))})},
		// bytes whose node also offers a streaming reader (datamodel.LargeBytesNode) that delivers at most 3 bytes per Read
		{"bytes(0..12)-in-blocks-of-3", blockBytes{Node: nBytes([]byte{0, 1, 2, 3, 4, 5, 6, 7, 8, 9, 10, 11, 12}), data: []byte{0, 1, 2, 3, 4, 5, 6, 7, 8, 9, 10, 11, 12}}},
		{"{a:bytes(1..8)-in-blocks-of-3}", nMap(kv{"a", blockBytes{Node: nBytes([]byte{1, 2, 3, 4, 5, 6, 7, 8}), data: []byte{1, 2, 3, 4, 5, 6, 7, 8}}})},
		// schema-typed values (bindnode): what counts is the node interface - a struct is a map of its fields whatever its wire form
		{"typed-struct-as-tuple{a:1,b:xy}", typedNodes().tup},
		{"typed-struct-as-joined-string{a:p,b:q}", typedNodes().sj},
		{"typed-struct{a:tuple{a:1,b:xy},b:[1,2,3]}", typedNodes().outer},
	}
}

type typedSet struct{ tup, sj, outer datamodel.Node }

var typedOnce = sync.OnceValue(func() typedSet {
	ts, err := ipld.LoadSchemaBytes([]byte(`
		type Tup struct { a Int  b String } representation tuple
		type SJ struct { a String  b String } representation stringjoin { join ":" }
		type Outer struct { a Tup  b [Int] }
	`))
	if err != nil {
		panic(err)
	}
	type tup struct {
		A int64
		B string
	}
	type sj struct{ A, B string }
	type outer struct {
		A tup
		B []int64
	}
	return typedSet{
		tup:   bindnode.Wrap(&tup{1, "xy"}, ts.TypeByName("Tup")),
		sj:    bindnode.Wrap(&sj{"p", "q"}, ts.TypeByName("SJ")),
		outer: bindnode.Wrap(&outer{tup{1, "xy"}, []int64{1, 2, 3}}, ts.TypeByName("Outer")),
	}
})

func typedNodes() typedSet { return typedOnce() }

// blockBytes is a bytes node that also implements datamodel.LargeBytesNode with a reader that returns short reads
// (at most 3 bytes per call), like content stored in blocks.
type blockBytes struct {
	datamodel.Node
	data []byte
}

type blockReader struct {
	data []byte
	pos  int64
}

func (r *blockReader) Read(p []byte) (int, error) {
	if r.pos >= int64(len(r.data)) {
		return 0, io.EOF
	}
	n := len(p)
	if n > 3 {
		n = 3
	}
	n = copy(p[:n], r.data[r.pos:])
	r.pos += int64(n)
	return n, nil
}

func (r *blockReader) Seek(off int64, whence int) (int64, error) {
	switch whence {
	case io.SeekStart:
		r.pos = off
	case io.SeekCurrent:
		r.pos += off
	case io.SeekEnd:
		r.pos = int64(len(r.data)) + off
	}
	return r.pos, nil
}

func (b blockBytes) AsLargeBytes() (io.ReadSeeker, error) { return &blockReader{data: b.data}, nil }
