package props

import (
	"bytes"
	"encoding/json"
	"fmt"
	"math"
	"math/big"
	"reflect"
	"strings"
	"time"

	"github.com/ipfs/go-cid"
	"github.com/ipld/go-ipld-prime/datamodel"
	"github.com/ipld/go-ipld-prime/node/basicnode"

	"github.com/ucan-wg/go-ucan/did"
	"github.com/ucan-wg/go-ucan/pkg/args"
	"github.com/ucan-wg/go-ucan/pkg/command"
	"github.com/ucan-wg/go-ucan/pkg/meta"
	"github.com/ucan-wg/go-ucan/pkg/policy"
	"github.com/ucan-wg/go-ucan/pkg/policy/literal"
	"github.com/ucan-wg/go-ucan/token"
	"github.com/ucan-wg/go-ucan/token/delegation"
	"github.com/ucan-wg/go-ucan/token/invocation"

	"verifharness/engine"
	"verifharness/fixtures"
)

const maxInt53 = int64(1<<53 - 1)

// intsInRange walks a node and reports the first integer outside +/-(2^53-1).
func intsInRange(n datamodel.Node) (bool, string) {
	switch n.Kind() {
	case datamodel.Kind_Int:
		v, err := n.AsInt()
		if err != nil {
			return false, "integer not representable as int64"
		}
		if v > maxInt53 || v < -maxInt53 {
			return false, fmt.Sprint(v)
		}
	case datamodel.Kind_List:
		it := n.ListIterator()
		for !it.Done() {
			_, v, _ := it.Next()
			if ok, w := intsInRange(v); !ok {
				return false, w
			}
		}
	case datamodel.Kind_Map:
		it := n.MapIterator()
		for !it.Done() {
			_, v, _ := it.Next()
			if ok, w := intsInRange(v); !ok {
				return false, w
			}
		}
	}
	return true, ""
}

// wellFormed checks the invariants C10 states for a returned token. decoded adds
// the clauses that only apply to decoded tokens.
func wellFormed(tok any, decoded bool) []string {
	var bad []string
	chkTime := func(name string, unix string) {
		if unix == "<absent>" {
			return
		}
		v, ok := new(big.Int).SetString(unix, 10)
		if !ok || v.CmpAbs(big.NewInt(maxInt53)) > 0 {
			bad = append(bad, name+"-out-of-int53")
		}
	}
	switch t := tok.(type) {
	case *delegation.Token:
		if t == nil {
			return []string{"nil-token"}
		}
		if !t.Issuer().Defined() {
			bad = append(bad, "issuer-undefined")
		}
		if !t.Audience().Defined() {
			bad = append(bad, "audience-undefined")
		}
		if len(t.Nonce()) < 12 {
			bad = append(bad, "nonce-shorter-than-12")
		}
		if decoded {
			if _, err := command.Parse(t.Command().String()); err != nil {
				bad = append(bad, "invalid-command")
			}
			v := ViewOf(t)
			chkTime("nbf", v.Nbf)
			chkTime("exp", v.Exp)
			if pn, err := t.Policy().ToIPLD(); err != nil {
				bad = append(bad, "policy-unprintable")
			} else if ok, _ := intsInRange(pn); !ok {
				bad = append(bad, "policy-int-out-of-int53")
			}
		}
	case *invocation.Token:
		if t == nil {
			return []string{"nil-token"}
		}
		if !t.Issuer().Defined() {
			bad = append(bad, "issuer-undefined")
		}
		if !t.Subject().Defined() {
			bad = append(bad, "subject-undefined")
		}
		if len(t.Nonce()) < 12 {
			bad = append(bad, "nonce-shorter-than-12")
		}
		if decoded {
			if _, err := command.Parse(t.Command().String()); err != nil {
				bad = append(bad, "invalid-command")
			}
			v := ViewOf(t)
			chkTime("exp", v.Exp)
			chkTime("iat", v.Iat)
			for _, n := range t.Arguments().Iter() {
				if ok, _ := intsInRange(n); !ok {
					bad = append(bad, "args-int-out-of-int53")
					break
				}
			}
		}
	default:
		bad = append(bad, fmt.Sprintf("unexpected-type-%T", tok))
	}
	return bad
}

// ---- (a) constructors ----

type c10CtorCase struct {
	Spec     TokSpec `json:"spec"`
	NonceLen int     `json:"nonce_len"` // -1 = as the spec says
	Undef    string  `json:"undef,omitempty"`
}

func c10CtorSub() *engine.Sub {
	return &engine.Sub{
		Name: "constructors",
		Rule: "every token of the d<=2 option universe (C07's alphabet), plus nonce lengths 0..13 for an issuer of every key algorithm and undefined principals in every position: whatever a constructor returns has a defined issuer, the principals its type requires and a nonce of >=12 bytes; non-trivial = constructor accepted",
		Bound: func(string) string {
			return "d<=2 option deviations on Ed25519; nonce lengths 0..13 x 2 kinds x 7 key algorithms; 5 undefined-principal placements"
		},
		Gen: func(tier string, emit func(any) bool) {
			for _, kind := range []string{"dlg", "inv"} {
				ok := true
				specsWithDeviations(kind, 2, func(opts map[string]string) bool {
					ok = emit(&c10CtorCase{Spec: TokSpec{Kind: kind, Alg: "ed25519", Opts: opts}, NonceLen: -1})
					return ok
				})
				if !ok {
					return
				}
				for _, alg := range fixtures.Algs() {
					for n := 0; n <= 13; n++ {
						if !emit(&c10CtorCase{Spec: TokSpec{Kind: kind, Alg: alg}, NonceLen: n}) {
							return
						}
					}
				}
			}
			for _, u := range []string{"dlg-iss", "dlg-aud", "dlg-both", "inv-iss", "inv-sub", "inv-both"} {
				if !emit(&c10CtorCase{Undef: u, NonceLen: -1}) {
					return
				}
			}
		},
		NewCase: func() any { return &c10CtorCase{NonceLen: -1} },
		Run: func(ctx *engine.Ctx, c any) {
			cs := c.(*c10CtorCase)
			ctx.States(1)
			ctx.Eval(1)
			ctx.Trans(1)
			var tok any
			var err error
			k := fixtures.Get("ed25519", 0)
			if cs.NonceLen >= 0 && cs.Spec.Alg != "" {
				k = fixtures.Get(cs.Spec.Alg, 0)
			}
			o := otherPrincipal(k, 1)
			switch {
			case cs.Undef != "":
				iss, x := k.DID, o
				if strings.HasSuffix(cs.Undef, "-iss") || strings.HasSuffix(cs.Undef, "-both") {
					iss = did.Undef
				}
				if !strings.HasSuffix(cs.Undef, "-iss") {
					x = did.Undef
				}
				if strings.HasPrefix(cs.Undef, "dlg") {
					var t *delegation.Token
					t, err = delegation.New(iss, x, "/a", nil)
					tok = t
				} else {
					var t *invocation.Token
					t, err = invocation.New(iss, x, "/a", []cid.Cid{cidPool[0]})
					tok = t
				}
			case cs.NonceLen >= 0:
				nonce := bytes.Repeat([]byte{7}, cs.NonceLen)
				if cs.Spec.Kind == "dlg" {
					var t *delegation.Token
					t, err = delegation.New(k.DID, o, "/a", nil, delegation.WithNonce(nonce))
					tok = t
				} else {
					var t *invocation.Token
					t, err = invocation.New(k.DID, o, "/a", []cid.Cid{cidPool[0]}, invocation.WithNonce(nonce))
					tok = t
				}
			default:
				tok, _, err = BuildToken(cs.Spec)
			}
			if err != nil {
				ctx.Outcome("rejected")
				return
			}
			ctx.Nontrivial(1)
			ctx.Outcome("returned")
			for _, b := range wellFormed(tok, false) {
				ctx.Failf(cs, "constructor-returns-malformed/"+b, "constructor returned a token with %s (%+v)", b, cs)
			}
			if d, ok := tok.(*delegation.Token); ok && cs.Spec.Opts["sub"] == "root" {
				// a root delegation is one issued by its own subject
				if d.Subject() != d.Issuer() || !d.Subject().Defined() {
					ctx.Failf(cs, "constructor-returns-malformed/root-subject", "delegation.Root returned a token whose subject %v is not its issuer %v", d.Subject(), d.Issuer())
				}
			}
		},
	}
}

// ---- (b) decoders: well-signed envelopes around mutated payloads ----

type c10Mut struct {
	Field string `json:"field"`
	Mut   string `json:"mut"`
}

type c10DecCase struct {
	Kind  string   `json:"kind"`
	Alg   string   `json:"alg"`
	Muts  []c10Mut `json:"muts"`
	Shape string   `json:"shape,omitempty"` // envelope-shape mutation instead of payload mutations
}

func (c *c10DecCase) Weight() int { return len(c.Muts) }

var c10FullOpts = map[string]map[string]string{
	"dlg": {"pol": "eq", "meta": "k=int1", "nonce": "12", "exp": "whole", "nbf": "in-past", "sub": "iss"},
	"inv": {"args": "k=int1", "meta": "k=int1", "nonce": "12", "iat": "whole", "exp": "whole", "cause": "cid", "aud": "third"},
}

func c10BasePayload(kind, alg string) envelopeParts {
	id := "c10/" + kind + "/" + alg
	headerMu.Lock()
	b, ok := baseCache[id]
	headerMu.Unlock()
	if !ok {
		tok, key, err := BuildToken(TokSpec{Kind: kind, Alg: alg, Opts: c10FullOpts[kind]})
		if err != nil {
			panic(err)
		}
		b, _, err = tok.(sealer).ToSealed(key.Priv)
		if err != nil {
			panic(err)
		}
		headerMu.Lock()
		baseCache[id] = b
		headerMu.Unlock()
	}
	return splitEnvelope(b)
}

var c10RetypeValues = map[string]func() datamodel.Node{
	"bool":        func() datamodel.Node { return nBool(true) },
	"int":         func() datamodel.Node { return nInt(1) },
	"float":       func() datamodel.Node { return nFloat(1.5) },
	"string":      func() datamodel.Node { return nStr("x") },
	"bytes":       func() datamodel.Node { return nBytes([]byte("x")) },
	"list":        func() datamodel.Node { return nList() },
	"list1":       func() datamodel.Node { return nList(nInt(1)) },
	"map":         func() datamodel.Node { return nMap() },
	"link":        func() datamodel.Node { return nLink(7) },
	"null":        func() datamodel.Node { return nNull() },
	"empty-str":   func() datamodel.Node { return nStr("") },
	"empty-bytes": func() datamodel.Node { return nBytes([]byte{}) },
}

var c10IntValues = map[string]func() datamodel.Node{
	"int=2^53":      func() datamodel.Node { return nInt(1 << 53) },
	"int=-2^53":     func() datamodel.Node { return nInt(-(1 << 53)) },
	"int=2^53-1":    func() datamodel.Node { return nInt(1<<53 - 1) },
	"int=-(2^53-1)": func() datamodel.Node { return nInt(-(1<<53 - 1)) },
	"int=2^63-1":    func() datamodel.Node { return nInt(math.MaxInt64) },
	"int=-2^63":     func() datamodel.Node { return nInt(math.MinInt64) },
	"uint=2^64-1":   func() datamodel.Node { return basicnode.NewUint(math.MaxUint64) },
	"uint=2^63":     func() datamodel.Node { return basicnode.NewUint(1 << 63) },
}

var c10BadCommands = []string{"", "a", "a/b", "/A", "/a/", "//", "/a/B", "/Ä", " /a"}
var c10OkCommands = []string{"/", "/a//b", "/ä", "/a b"}

func c10BadDIDs() map[string]string {
	p256 := fixtures.Get("p256", 0)
	unc := altEncodings(p256)
	var uncStr string
	for _, a := range unc {
		if a.Name == "uncompressed" {
			uncStr = didKeyString(a.Code, a.Body)
		}
	}
	return map[string]string{
		"did=empty":           "",
		"did=prefix-only":     "did:key:",
		"did=web":             "did:web:example.com",
		"did=garbage":         "did:key:z0OIl",
		"did=x25519":          didKeyString(uvarint(0xec), bytes.Repeat([]byte{1}, 32)),
		"did=no-multibase":    "did:key:" + fixtures.Get("ed25519", 1).DID.String()[9:],
		"did=bad-keymaterial": uncStr,
		"did=short-ed25519":   didKeyString(uvarint(0xed), []byte{1, 2, 3}),
	}
}

// c10Mutations lists (mutation label) for a field of a kind.
func c10Mutations(kind, field string) []string {
	muts := []string{"drop"}
	for k := range c10RetypeValues {
		muts = append(muts, "retype="+k)
	}
	switch field {
	case "nbf", "exp", "iat":
		for k := range c10IntValues {
			muts = append(muts, k)
		}
		// a float that holds a whole number is still a wrongly typed time bound
		muts = append(muts, "wholefloat=0", "wholefloat=1735689600", "wholefloat=-1", "wholefloat=9007199254740991", "wholefloat=4102444800")
	case "cmd":
		for i := range c10BadCommands {
			muts = append(muts, fmt.Sprintf("badcmd=%d", i))
		}
		for i := range c10OkCommands {
			muts = append(muts, fmt.Sprintf("okcmd=%d", i))
		}
	case "iss", "aud", "sub":
		for k := range c10BadDIDs() {
			muts = append(muts, k)
		}
		muts = append(muts, "did=other-valid")
	case "nonce":
		for n := 0; n <= 13; n++ {
			muts = append(muts, fmt.Sprintf("noncelen=%d", n))
		}
	case "args", "meta":
		for k := range c10IntValues {
			muts = append(muts, "value:"+k, "nested:"+k)
		}
		muts = append(muts, "value:nonstring-key-impossible")
	case "pol":
		for k := range c10IntValues {
			muts = append(muts, "literal:"+k, "nested-literal:"+k)
		}
		muts = append(muts, "pol=[[\"==\",\".a\"]]", "pol=[[\"nope\",\".a\",1]]", "pol=[[\"==\",\"a\",1]]", "pol=[\"==\",\".a\",1]", "pol=[[\"like\",\".a\",\"x\\\\\"]]")
	case "prf":
		muts = append(muts, "prf=[int]", "prf=[link,string]", "prf=empty")
	}
	sortStrings(muts)
	return muts
}

func sortStrings(s []string) {
	for i := 1; i < len(s); i++ {
		for j := i; j > 0 && s[j] < s[j-1]; j-- {
			s[j], s[j-1] = s[j-1], s[j]
		}
	}
}

func c10Fields(kind string) []string {
	if kind == "dlg" {
		return []string{"iss", "aud", "sub", "cmd", "pol", "nonce", "meta", "nbf", "exp"}
	}
	return []string{"iss", "sub", "aud", "cmd", "args", "prf", "meta", "nonce", "exp", "iat", "cause"}
}

// applyMut returns the new entries and whether the decoders must reject.
func applyMut(kind string, entries []kv, m c10Mut) ([]kv, bool) {
	required := map[string]bool{"iss": true, "cmd": true, "exp": true, "nonce": true}
	if kind == "dlg" {
		required["aud"], required["pol"] = true, true
	} else {
		required["sub"], required["args"], required["prf"] = true, true, true
	}
	okKinds := map[string][]string{
		"iss": {"string"}, "aud": {"string"}, "sub": {"string"}, "cmd": {"string"}, "nonce": {"bytes"},
		"nbf": {"int"}, "exp": {"int", "null"}, "iat": {"int"}, "meta": {"map"}, "args": {"map"},
		"prf": {"list"}, "cause": {"link"}, "pol": {"list"},
	}
	replace := func(v datamodel.Node) []kv {
		var out []kv
		found := false
		for _, e := range entries {
			if e.K == m.Field {
				out = append(out, kv{m.Field, v})
				found = true
			} else {
				out = append(out, e)
			}
		}
		if !found {
			out = append(out, kv{m.Field, v})
		}
		return out
	}
	switch {
	case m.Field == "+unknown":
		return append(append([]kv{}, entries...), kv{"zzz", nInt(1)}), true
	case m.Mut == "drop":
		var out []kv
		for _, e := range entries {
			if e.K != m.Field {
				out = append(out, e)
			}
		}
		return out, required[m.Field]
	case strings.HasPrefix(m.Mut, "retype="):
		k := strings.TrimPrefix(m.Mut, "retype=")
		base := strings.TrimSuffix(strings.TrimSuffix(k, "1"), "")
		kindName := base
		switch k {
		case "empty-str":
			kindName = "string"
		case "empty-bytes":
			kindName = "bytes"
		case "list1":
			kindName = "list"
		}
		must := true
		for _, ok := range okKinds[m.Field] {
			if ok == kindName {
				must = false
			}
		}
		// right kind but still invalid content
		switch {
		case kindName == "string" && (m.Field == "iss" || m.Field == "aud" || m.Field == "sub"):
			must = true // "x" / "" are not DIDs
		case kindName == "string" && m.Field == "cmd":
			must = true // "x" / "" are not commands
		case kindName == "bytes" && m.Field == "nonce":
			must = true // shorter than 12
		case k == "list1" && (m.Field == "pol" || m.Field == "prf"):
			must = true // [1] is neither a statement list nor a link list
		}
		return replace(c10RetypeValues[k]()), must
	case strings.HasPrefix(m.Mut, "wholefloat="):
		var f float64
		fmt.Sscanf(strings.TrimPrefix(m.Mut, "wholefloat="), "%g", &f)
		return replace(nFloat(f)), true
	case strings.HasPrefix(m.Mut, "int=") || strings.HasPrefix(m.Mut, "uint="):
		in := m.Mut == "int=2^53-1" || m.Mut == "int=-(2^53-1)"
		return replace(c10IntValues[m.Mut]()), !in
	case strings.HasPrefix(m.Mut, "badcmd="):
		var i int
		fmt.Sscanf(m.Mut, "badcmd=%d", &i)
		return replace(nStr(c10BadCommands[i])), true
	case strings.HasPrefix(m.Mut, "okcmd="):
		var i int
		fmt.Sscanf(m.Mut, "okcmd=%d", &i)
		return replace(nStr(c10OkCommands[i])), false
	case m.Mut == "did=other-valid":
		return replace(nStr(fixtures.Get("ed25519", 3).DID.String())), m.Field == "iss" // signature no longer matches the issuer
	case strings.HasPrefix(m.Mut, "did="):
		s := c10BadDIDs()[m.Mut]
		must := true
		if m.Mut == "did=bad-keymaterial" || m.Mut == "did=short-ed25519" {
			must = m.Field == "iss" // parses as a DID; only the issuer needs an extractable key
		}
		return replace(nStr(s)), must
	case m.Mut == "window=inverted":
		// not-before later than the expiration: a token that is never valid, but a well-formed one (no obligation by itself)
		exp := int64(4102444800)
		for _, e := range entries {
			if e.K == "exp" && e.V.Kind() == datamodel.Kind_Int {
				exp, _ = e.V.AsInt()
			}
		}
		found := false
		for _, e := range entries {
			if e.K == m.Field {
				found = true
			}
		}
		if !found {
			return append(append([]kv{}, entries...), kv{m.Field, nInt(exp + 1000)}), false
		}
		return replace(nInt(exp + 1000)), false
	case strings.HasPrefix(m.Mut, "noncelen="):
		var n int
		fmt.Sscanf(m.Mut, "noncelen=%d", &n)
		return replace(nBytes(bytes.Repeat([]byte{9}, n))), n < 12
	case strings.HasPrefix(m.Mut, "value:") || strings.HasPrefix(m.Mut, "nested:"):
		if m.Mut == "value:nonstring-key-impossible" {
			return replace(nMap(kv{"", nInt(1)})), false
		}
		k := m.Mut[strings.Index(m.Mut, ":")+1:]
		v := c10IntValues[k]()
		if strings.HasPrefix(m.Mut, "nested:") {
			v = nList(nMap(kv{"deep", nList(v)}))
		}
		in := k == "int=2^53-1" || k == "int=-(2^53-1)"
		return replace(nMap(kv{"k", v})), m.Field == "args" && !in
	case strings.HasPrefix(m.Mut, "literal:") || strings.HasPrefix(m.Mut, "nested-literal:"):
		k := m.Mut[strings.Index(m.Mut, ":")+1:]
		v := c10IntValues[k]()
		in := k == "int=2^53-1" || k == "int=-(2^53-1)"
		st := nList(nStr("=="), nStr(".a"), v)
		if strings.HasPrefix(m.Mut, "nested-literal:") {
			st = nList(nStr("not"), nList(nStr("any"), nStr(".l"), nList(nStr(">"), nStr("."), nList(nMap(kv{"x", v})))))
		}
		return replace(nList(st)), !in
	case strings.HasPrefix(m.Mut, "pol="):
		switch m.Mut {
		case `pol=[["==",".a"]]`:
			return replace(nList(nList(nStr("=="), nStr(".a")))), true
		case `pol=[["nope",".a",1]]`:
			return replace(nList(nList(nStr("nope"), nStr(".a"), nInt(1)))), true
		case `pol=[["==","a",1]]`:
			return replace(nList(nList(nStr("=="), nStr("a"), nInt(1)))), true
		case `pol=["==",".a",1]`:
			return replace(nList(nStr("=="), nStr(".a"), nInt(1))), true
		default:
			return replace(nList(nList(nStr("like"), nStr(".a"), nStr(`x\`)))), true
		}
	case m.Mut == "prf=[int]":
		return replace(nList(nInt(1))), true
	case m.Mut == "prf=[link,string]":
		return replace(nList(nLink(1), nStr("x"))), true
	case m.Mut == "prf=empty":
		return replace(nList()), false
	}
	panic("bad mutation " + m.Field + "/" + m.Mut)
}

type typedResult struct {
	tok      any
	err      error
	panicked any
}

func safeDecode(f func() (any, error)) (r typedResult) {
	defer func() {
		if p := recover(); p != nil {
			r.panicked = p
		}
	}()
	r.tok, r.err = f()
	return
}

func c10RunDecoders(ctx *engine.Ctx, rc any, kind string, sealed []byte, mustReject bool, tag string) {
	decs := []struct {
		name string
		want string // kind the decoder may return: "dlg", "inv" or "any"
		f    func() (any, error)
	}{
		{"token.FromSealed", "any", func() (any, error) { t, _, err := token.FromSealed(sealed); return t, err }},
		{"token.FromDagCbor", "any", func() (any, error) { return token.FromDagCbor(sealed) }},
		{"delegation.FromSealed", "dlg", func() (any, error) {
			t, _, err := delegation.FromSealed(sealed)
			if t == nil {
				return nil, err
			}
			return t, err
		}},
		{"invocation.FromSealed", "inv", func() (any, error) {
			t, _, err := invocation.FromSealed(sealed)
			if t == nil {
				return nil, err
			}
			return t, err
		}},
		{"delegation.FromDagCborReader", "dlg", func() (any, error) {
			t, err := delegation.FromDagCborReader(bytes.NewReader(sealed))
			if t == nil {
				return nil, err
			}
			return t, err
		}},
		{"invocation.FromDagCborReader", "inv", func() (any, error) {
			t, err := invocation.FromDagCborReader(bytes.NewReader(sealed))
			if t == nil {
				return nil, err
			}
			return t, err
		}},
	}
	for _, d := range decs {
		ctx.Eval(1)
		ctx.Trans(1)
		r := safeDecode(d.f)
		switch {
		case r.panicked != nil:
			ctx.Outcome("panic")
			if mustReject {
				ctx.Failf(rc, "panics-instead-of-rejecting/"+tag, "%s panics on a payload it must reject (%s): %v", d.name, tag, r.panicked)
			}
		case r.err != nil:
			ctx.Outcome("rejected")
		default:
			ctx.Outcome("returned")
			gotKind := ViewOf(r.tok).Kind
			if d.want != "any" && gotKind != d.want {
				ctx.Failf(rc, "wrong-type-returned/"+tag, "%s returned a %s token", d.name, gotKind)
			}
			if gotKind != kind && (kind == "dlg" || kind == "inv") {
				ctx.Failf(rc, "payload-returned-as-other-type/"+tag, "%s returned a %s payload as a %s token", d.name, kind, gotKind)
			}
			if mustReject {
				ctx.Failf(rc, "accepted-must-reject/"+tag, "%s accepts a well-signed envelope it must reject (%s)", d.name, tag)
			}
			for _, b := range wellFormed(r.tok, true) {
				ctx.Failf(rc, "decoder-returns-malformed/"+b+"/"+tag, "%s returned a token with %s (%s)", d.name, b, tag)
			}
		}
	}
}

func c10DecoderSub() *engine.Sub {
	return &engine.Sub{
		Name:   "decoders-mutated-payloads",
		Repeat: true,
		Rule:   "payload of a fully populated delegation / invocation with one field (quick; for delegations also together with an inverted time window, nbf after exp) or two fields (thorough, pairs of a representative subset) mutated - dropped, nulled, retyped to each IPLD kind, integers at +/-2^53, +/-(2^53-1), int64 extremes and uint64 beyond int64 in time fields / argument values / policy literals / metadata, time fields as floats holding whole numbers, invalid and unusual commands, invalid DIDs, nonce lengths 0..13, malformed policies and proof lists, an unknown extra field - then signed correctly by the issuer and offered to generic and both typed decoders; must-reject mutations must be rejected (a panic is not a rejection), whatever is returned must be well formed and of the decoder's type; non-trivial = all",
		Bound: func(t string) string {
			return "2 kinds x every field x ~20-40 mutations (d=1); thorough adds pairs over 6 representative mutations per field; Ed25519 and P-256 issuers (nonce mutations: issuers of all 7 key algorithms)"
		},
		Gen: func(tier string, emit func(any) bool) {
			// nonce lengths with an issuer of every other key algorithm (the minimum does not depend on the key)
			for _, alg := range fixtures.Algs() {
				if alg == "ed25519" || alg == "p256" {
					continue
				}
				for _, kind := range []string{"dlg", "inv"} {
					if !emit(&c10DecCase{Kind: kind, Alg: alg}) {
						return
					}
					for _, m := range c10Mutations(kind, "nonce") {
						if !emit(&c10DecCase{Kind: kind, Alg: alg, Muts: []c10Mut{{"nonce", m}}}) {
							return
						}
					}
				}
			}
			for _, alg := range []string{"ed25519", "p256"} {
				for _, kind := range []string{"dlg", "inv"} {
					if !emit(&c10DecCase{Kind: kind, Alg: alg}) {
						return
					}
					if !emit(&c10DecCase{Kind: kind, Alg: alg, Muts: []c10Mut{{"+unknown", "add"}}}) {
						return
					}
					for _, f := range c10Fields(kind) {
						for _, m := range c10Mutations(kind, f) {
							if !emit(&c10DecCase{Kind: kind, Alg: alg, Muts: []c10Mut{{f, m}}}) {
								return
							}
						}
					}
					// a delegation whose window is inverted (nbf after exp) AND one other field mutated: one finding does not excuse another
					if kind == "dlg" && alg == "ed25519" {
						for _, f := range c10Fields(kind) {
							if f == "nbf" || f == "exp" {
								continue
							}
							for _, m := range c10Mutations(kind, f) {
								if !emit(&c10DecCase{Kind: kind, Alg: alg, Muts: []c10Mut{{"nbf", "window=inverted"}, {f, m}}}) {
									return
								}
							}
						}
					}
					if tier == "thorough" && alg == "ed25519" {
						rep := func(f string) []string {
							all := c10Mutations(kind, f)
							if len(all) > 6 {
								var r []string
								for i := 0; i < 6; i++ {
									r = append(r, all[i*len(all)/6])
								}
								return r
							}
							return all
						}
						fs := c10Fields(kind)
						for i := range fs {
							for j := i + 1; j < len(fs); j++ {
								for _, m1 := range rep(fs[i]) {
									for _, m2 := range rep(fs[j]) {
										if !emit(&c10DecCase{Kind: kind, Alg: alg, Muts: []c10Mut{{fs[i], m1}, {fs[j], m2}}}) {
											return
										}
									}
								}
							}
						}
					}
				}
			}
		},
		NewCase: func() any { return &c10DecCase{} },
		Run: func(ctx *engine.Ctx, c any) {
			cs := c.(*c10DecCase)
			p := c10BasePayload(cs.Kind, cs.Alg)
			key := fixtures.Get(cs.Alg, 0)
			entries := p.Payload
			must := false
			var tags []string
			for _, m := range cs.Muts {
				var mr bool
				entries, mr = applyMut(cs.Kind, entries, m)
				must = must || mr
				cat := m.Mut
				if i := strings.IndexAny(cat, "=:"); i > 0 && !strings.HasPrefix(cat, "retype=") {
					cat = cat[:i]
				}
				tags = append(tags, m.Field+":"+cat)
			}
			sealed := assemble(key, sigPayloadNode(p.Header, p.Tag, nMap(entries...)))
			ctx.States(1)
			ctx.Nontrivial(1)
			tag := strings.Join(tags, "+")
			if tag == "" {
				tag = "unmodified"
			}
			c10RunDecoders(ctx, cs, cs.Kind, sealed, must, tag)
		},
	}
}

func c10ShapeSub() *engine.Sub {
	shapes := []string{"sigpayload-1-entry-header-only", "sigpayload-1-entry-payload-only", "sigpayload-3-entries-extra-key", "sigpayload-two-ucan-tags", "sigpayload-3-entries-two-tags",
		"header-wrong-kind", "outer-length-1", "outer-length-3", "outer-map", "sig-not-bytes", "sigpayload-not-map",
		"dlg-payload-under-inv-tag", "inv-payload-under-dlg-tag", "unknown-ucan-tag", "tag-without-prefix", "valid-other-type",
		"near-tag:append-0", "near-tag:append-+x", "near-tag:append-space", "near-tag:drop-last-char", "near-tag:upper-case", "near-tag:upper-case-after-prefix", "near-tag:flip-letter-0", "near-tag:flip-letter-1", "near-tag:flip-letter-2", "near-tag:flip-letter-3", "near-tag:flip-letter-4", "near-tag:flip-letter-5", "near-tag:flip-letter-6", "near-tag:flip-letter-7", "near-tag:flip-letter-8", "near-tag:other-version", "near-tag:no-version", "near-tag:leading-space", "near-tag:double-slash", "near-tag:empty"}
	return &engine.Sub{
		Name:   "envelope-shapes-and-tags",
		Repeat: true,
		Rule:   "well-signed envelopes whose signed part is not exactly one header plus one payload (1 or 3 entries, two ucan/ tags, no header, header of the wrong kind), outer lists of length 1 or 3, a payload under the other type's tag, under an unknown ucan/ tag or under near-miss spellings of the right tag (suffix, prefix, version; all upper case, upper case after the ucan/ prefix, each single letter in the other case), and a valid token of the other type offered to each typed decoder: all must be rejected; a delegation is never returned as an invocation or vice versa; non-trivial = all",
		Bound:  func(string) string { return fmt.Sprintf("%d shapes x 2 kinds x 6 decoders", len(shapes)) },
		Gen: func(tier string, emit func(any) bool) {
			for _, kind := range []string{"dlg", "inv"} {
				for _, s := range shapes {
					if !emit(&c10DecCase{Kind: kind, Alg: "ed25519", Shape: s}) {
						return
					}
				}
			}
		},
		NewCase: func() any { return &c10DecCase{} },
		Run: func(ctx *engine.Ctx, c any) {
			cs := c.(*c10DecCase)
			p := c10BasePayload(cs.Kind, cs.Alg)
			key := fixtures.Get(cs.Alg, 0)
			pl := nMap(p.Payload...)
			otherTag, otherKind := invTag, "inv"
			if cs.Kind == "inv" {
				otherTag, otherKind = dlgTag, "dlg"
			}
			sign := func(sp datamodel.Node) []byte { return assemble(key, sp) }
			var sealed []byte
			payloadKind := cs.Kind
			switch cs.Shape {
			case "sigpayload-1-entry-header-only":
				sealed = sign(nMap(kv{"h", nBytes(p.Header)}))
			case "sigpayload-1-entry-payload-only":
				sealed = sign(nMap(kv{p.Tag, pl}))
			case "sigpayload-3-entries-extra-key":
				sealed = sign(nMap(kv{"h", nBytes(p.Header)}, kv{p.Tag, pl}, kv{"x", nInt(1)}))
			case "sigpayload-two-ucan-tags":
				sealed = sign(nMap(kv{p.Tag, pl}, kv{otherTag, pl}))
			case "sigpayload-3-entries-two-tags":
				sealed = sign(nMap(kv{"h", nBytes(p.Header)}, kv{p.Tag, pl}, kv{otherTag, pl}))
			case "header-wrong-kind":
				sealed = sign(nMap(kv{"h", nStr(string(p.Header))}, kv{p.Tag, pl}))
			case "outer-length-1":
				sealed = mustEncodeCbor(nList(sigPayloadNode(p.Header, p.Tag, pl)))
			case "outer-length-3":
				sp := sigPayloadNode(p.Header, p.Tag, pl)
				sig, _ := key.Priv.Sign(mustEncodeCbor(sp))
				sealed = mustEncodeCbor(nList(nBytes(sig), sp, nInt(0)))
			case "outer-map":
				sp := sigPayloadNode(p.Header, p.Tag, pl)
				sig, _ := key.Priv.Sign(mustEncodeCbor(sp))
				sealed = mustEncodeCbor(nMap(kv{"0", nBytes(sig)}, kv{"1", sp}))
			case "sig-not-bytes":
				sp := sigPayloadNode(p.Header, p.Tag, pl)
				sig, _ := key.Priv.Sign(mustEncodeCbor(sp))
				sealed = mustEncodeCbor(nList(nStr(string(sig)), sp))
			case "sigpayload-not-map":
				sealed = mustEncodeCbor(nList(nBytes(p.Sig), nList(nBytes(p.Header), pl)))
			case "dlg-payload-under-inv-tag", "inv-payload-under-dlg-tag":
				sealed = sign(sigPayloadNode(p.Header, otherTag, pl))
			case "unknown-ucan-tag":
				sealed = sign(sigPayloadNode(p.Header, "ucan/x@1.0.0-rc.1", pl))
			case "tag-without-prefix":
				sealed = sign(sigPayloadNode(p.Header, "dlg@1.0.0-rc.1", pl))
			case "near-tag:upper-case-after-prefix", "near-tag:flip-letter-0", "near-tag:flip-letter-1", "near-tag:flip-letter-2", "near-tag:flip-letter-3", "near-tag:flip-letter-4", "near-tag:flip-letter-5", "near-tag:flip-letter-6", "near-tag:flip-letter-7", "near-tag:flip-letter-8":
				// the right tag with the case of its letters changed: all letters after "ucan/", or the k-th letter alone
				t := []byte(p.Tag)
				if cs.Shape == "near-tag:upper-case-after-prefix" {
					t = []byte("ucan/" + strings.ToUpper(p.Tag[len("ucan/"):]))
				} else {
					k := int(cs.Shape[len(cs.Shape)-1] - '0')
					for i := range t {
						if t[i] >= 'a' && t[i] <= 'z' {
							if k == 0 {
								t[i] -= 'a' - 'A'
								break
							}
							k--
						}
					}
				}
				if string(t) == p.Tag {
					ctx.Outcome("not-applicable")
					return
				}
				sealed = sign(sigPayloadNode(p.Header, string(t), pl))
			case "near-tag:append-0", "near-tag:append-+x", "near-tag:append-space", "near-tag:drop-last-char", "near-tag:upper-case", "near-tag:other-version", "near-tag:no-version", "near-tag:leading-space", "near-tag:double-slash", "near-tag:empty":
				// a tag that is almost - but not exactly - the tag of the token type
				var t string
				switch strings.TrimPrefix(cs.Shape, "near-tag:") {
				case "append-0":
					t = p.Tag + "0"
				case "append-+x":
					t = p.Tag + "+x"
				case "append-space":
					t = p.Tag + " "
				case "drop-last-char":
					t = p.Tag[:len(p.Tag)-1]
				case "upper-case":
					t = strings.ToUpper(p.Tag)
				case "other-version":
					t = strings.Replace(p.Tag, "1.0.0", "1.0.1", 1)
				case "no-version":
					t = p.Tag[:strings.Index(p.Tag, "@")]
				case "leading-space":
					t = " " + p.Tag
				case "double-slash":
					t = strings.Replace(p.Tag, "/", "//", 1)
				case "empty":
					t = ""
				}
				sealed = sign(sigPayloadNode(p.Header, t, pl))
			case "valid-other-type":
				// a perfectly valid token: the decoder of the other type must reject it, the generic one returns its own type
				sealed = sign(sigPayloadNode(p.Header, p.Tag, pl))
				ctx.States(1)
				ctx.Nontrivial(1)
				f := func() (any, error) {
					if otherKind == "dlg" {
						t, _, err := delegation.FromSealed(sealed)
						if t == nil {
							return nil, err
						}
						return t, err
					}
					t, _, err := invocation.FromSealed(sealed)
					if t == nil {
						return nil, err
					}
					return t, err
				}
				r := safeDecode(f)
				ctx.Eval(1)
				if r.panicked == nil && r.err == nil {
					ctx.Outcome("returned")
					ctx.Failf(cs, "typed-decoder-accepts-other-type", "the %s decoder accepts a valid %s token", otherKind, cs.Kind)
				} else {
					ctx.Outcome("rejected")
				}
				g, _, err := token.FromSealed(sealed)
				if err != nil || ViewOf(g).Kind != cs.Kind {
					ctx.Failf(cs, "generic-decoder-wrong-type", "token.FromSealed returns %T (err %v) for a valid %s", g, err, cs.Kind)
				}
				return
			default:
				panic(cs.Shape)
			}
			ctx.States(1)
			ctx.Nontrivial(1)
			c10RunDecoders(ctx, cs, payloadKind, sealed, true, "shape:"+cs.Shape)
		},
	}
}

// ---- (c) Go values handed to args.Add / literal.Any / meta.Add ----

type c10ValCase struct {
	Type string `json:"type"`
	Val  string `json:"val"`
}

// named types with a String method whose print-out is not the value
type c10StrInt int
type c10StrUint uint16
type c10StrFloat float64
type c10StrBool bool

func (c10StrInt) String() string   { return "seven" }
func (c10StrUint) String() string  { return "0x07" }
func (c10StrFloat) String() string { return "one and a half" }
func (c10StrBool) String() string  { return "yes" }

type goValue struct {
	Type string
	Val  string
	V    any
	Math *big.Float // mathematical value, nil for non-numerics
}

func bf(x any) *big.Float {
	f := new(big.Float).SetPrec(200)
	switch v := x.(type) {
	case int64:
		f.SetInt64(v)
	case uint64:
		f.SetUint64(v)
	case float64:
		f.SetFloat64(v)
	}
	return f
}

func c10GoValues() []goValue {
	var r []goValue
	ints := map[string]int64{"0": 0, "1": 1, "-1": -1, "2^53-1": 1<<53 - 1, "-(2^53-1)": -(1<<53 - 1), "2^53": 1 << 53, "-2^53": -(1 << 53), "min": math.MinInt64, "max": math.MaxInt64}
	for name, v := range ints {
		r = append(r, goValue{"int64", name, v, bf(v)}, goValue{"int", name, int(v), bf(v)})
		if v >= math.MinInt32 && v <= math.MaxInt32 {
			r = append(r, goValue{"int32", name, int32(v), bf(v)})
		}
		if v >= math.MinInt16 && v <= math.MaxInt16 {
			r = append(r, goValue{"int16", name, int16(v), bf(v)}, goValue{"int8", name, int8(v), bf(v)})
		}
	}
	r = append(r, goValue{"int8", "min", int8(math.MinInt8), bf(int64(math.MinInt8))}, goValue{"int8", "max", int8(math.MaxInt8), bf(int64(math.MaxInt8))},
		goValue{"int16", "min", int16(math.MinInt16), bf(int64(math.MinInt16))}, goValue{"int16", "max", int16(math.MaxInt16), bf(int64(math.MaxInt16))},
		goValue{"int32", "min", int32(math.MinInt32), bf(int64(math.MinInt32))}, goValue{"int32", "max", int32(math.MaxInt32), bf(int64(math.MaxInt32))})
	uints := map[string]uint64{"0": 0, "1": 1, "2^53-1": 1<<53 - 1, "2^53": 1 << 53, "2^63-1": 1<<63 - 1, "2^63": 1 << 63, "max": math.MaxUint64}
	for name, v := range uints {
		r = append(r, goValue{"uint64", name, v, bf(v)}, goValue{"uint", name, uint(v), bf(v)})
		if v <= math.MaxUint32 {
			r = append(r, goValue{"uint32", name, uint32(v), bf(v)})
		}
		if v <= math.MaxUint8 {
			r = append(r, goValue{"uint16", name, uint16(v), bf(v)}, goValue{"uint8", name, uint8(v), bf(v)})
		}
	}
	r = append(r, goValue{"uint8", "max", uint8(math.MaxUint8), bf(uint64(math.MaxUint8))}, goValue{"uint16", "max", uint16(math.MaxUint16), bf(uint64(math.MaxUint16))}, goValue{"uint32", "max", uint32(math.MaxUint32), bf(uint64(math.MaxUint32))})
	for name, v := range map[string]float64{"0": 0, "1.5": 1.5, "-1.5": -1.5, "1e300": 1e300, "5e-324": 5e-324, "2^53": 1 << 53, "maxfloat": math.MaxFloat64} {
		r = append(r, goValue{"float64", name, v, bf(v)})
	}
	for name, v := range map[string]float32{"0": 0, "1.5": 1.5, "maxfloat32": math.MaxFloat32, "0.1": 0.1} {
		r = append(r, goValue{"float32", name, v, bf(float64(v))})
	}
	type myInt int64
	type myUint uint64
	type myStr string
	r = append(r, goValue{"named-int64", "2^53", myInt(1 << 53), bf(int64(1 << 53))}, goValue{"named-int64", "7", myInt(7), bf(int64(7))},
		goValue{"named-uint64", "max", myUint(math.MaxUint64), bf(uint64(math.MaxUint64))}, goValue{"named-uint64", "7", myUint(7), bf(uint64(7))})
	// containers carrying a boundary number
	r = append(r, goValue{"[]int64", "[2^53-1]", []int64{1<<53 - 1}, nil}, goValue{"[]int64", "[2^53]", []int64{1 << 53}, nil},
		goValue{"[]uint64", "[max]", []uint64{math.MaxUint64}, nil}, goValue{"[]uint", "[2^63]", []uint{1 << 63}, nil},
		goValue{"map[string]uint64", "{k:max}", map[string]uint64{"k": math.MaxUint64}, nil},
		goValue{"map[string]any", "{k:[uint(2^63)]}", map[string]any{"k": []any{uint(1 << 63)}}, nil},
		goValue{"[2]int", "[1,2]", [2]int{1, 2}, nil},
		goValue{"*int", "ptr(5)", func() *int { x := 5; return &x }(), nil},
		goValue{"string", "abc", "abc", nil}, goValue{"named-string", "abc", myStr("abc"), nil}, goValue{"[]byte", "x", []byte("x"), nil}, goValue{"bool", "true", true, nil},
		goValue{"cid", "cid", cidPool[3], nil}, goValue{"node", "int 2^53", nInt(1 << 53), nil}, goValue{"node", "uint max", basicnode.NewUint(math.MaxUint64), nil},
		goValue{"struct", "struct{}", struct{ A int }{1}, nil}, goValue{"chan", "chan", make(chan int), nil}, goValue{"func", "func", func() {}, nil},
		goValue{"map[int]int", "{1:1}", map[int]int{1: 1}, nil}, goValue{"nil", "nil", nil, nil}, goValue{"[]any", "[nil]", []any{nil}, nil},
	)
	// named numeric / bool types that also have a String method (fmt.Stringer): the VALUE is stored, not its print-out
	r = append(r, goValue{"stringer-int64", "time.Duration(90s)", 90 * time.Second, bf(int64(90 * time.Second))}, goValue{"stringer-int", "time.March", time.March, bf(int64(3))},
		goValue{"stringer-int", "time.Saturday", time.Saturday, bf(int64(6))}, goValue{"stringer-int", "c10StrInt(7)", c10StrInt(7), bf(int64(7))},
		goValue{"stringer-uint", "c10StrUint(7)", c10StrUint(7), bf(uint64(7))}, goValue{"stringer-float", "c10StrFloat(1.5)", c10StrFloat(1.5), bf(float64(1.5))},
		goValue{"stringer-bool", "c10StrBool(true)", c10StrBool(true), nil}, goValue{"[]stringer-int64", "[90s]", []time.Duration{90 * time.Second}, nil},
		goValue{"map[string]stringer-int", "{m:March}", map[string]time.Month{"m": time.March}, nil})
	// numbers in text form (encoding/json with UseNumber): kept as text, stored as exactly that number, or rejected
	for _, t := range []string{"7", "-7", "9007199254740991", "9007199254740992", "9223372036854775807", "9223372036854775808", "12345678901234567890123", "-12345678901234567890123", "1.5", "1e400", "1e-400", "0.5e1", "not-a-number", ""} {
		r = append(r, goValue{"json.Number", t, json.Number(t), nil})
	}
	r = append(r, goValue{"[]json.Number", "[7,12345678901234567890123]", []json.Number{"7", "12345678901234567890123"}, nil})
	// content other than numbers: strings, bytes, bools, nesting, order, emptiness, aliasing-prone kinds
	type myBytes []byte
	type myBool bool
	type mySlice []string
	type myMap map[string]int
	var nilPtr *int
	var nilMap map[string]int
	var nilSlice []int
	long := strings.Repeat("é0", 300)
	r = append(r,
		goValue{"string", "empty", "", nil}, goValue{"string", "multibyte", "héllo wörld \u2603", nil}, goValue{"string", "600 bytes", long, nil},
		goValue{"string", "NUL inside", "a\x00b", nil}, goValue{"string", "padded", " a b\t\n", nil}, goValue{"[]string", "[600 bytes, padded]", []string{long, " x "}, nil},
		goValue{"named-string", "600 bytes", myStr(long), nil}, goValue{"map[string]string", "{600-byte key: v}", map[string]string{long: "v", " k ": "w"}, nil}, goValue{"string", "looks like a number", "12", nil},
		goValue{"[]byte", "empty", []byte{}, nil}, goValue{"[]byte", "00 ff 80", []byte{0, 0xff, 0x80}, nil}, goValue{"[]byte", "300 bytes", bytes.Repeat([]byte{1, 2, 3}, 100), nil},
		goValue{"named-[]byte", "ab", myBytes("ab"), nil},
		goValue{"bool", "false", false, nil}, goValue{"named-bool", "true", myBool(true), nil},
		goValue{"[]string", "[b,a,c]", []string{"b", "a", "c"}, nil}, goValue{"named-[]string", "[x,y]", mySlice{"x", "y"}, nil},
		goValue{"[]any", "mixed", []any{1, "a", true, 1.5, []byte("z"), []any{int8(-3)}, map[string]any{"q": uint16(9)}}, nil},
		goValue{"[]any", "empty", []any{}, nil}, goValue{"[][]int", "[[1,2],[],[3]]", [][]int{{1, 2}, {}, {3}}, nil},
		goValue{"[3]string", "[c,b,a]", [3]string{"c", "b", "a"}, nil}, goValue{"[0]int", "[]", [0]int{}, nil},
		goValue{"[3]byte", "byte array", [3]byte{1, 2, 3}, nil},
		goValue{"map[string]any", "nested", map[string]any{"z": 1, "a": map[string]any{"y": []string{"p"}, "b": false}, "": "empty key"}, nil},
		goValue{"map[string]string", "{b:1,a:2}", map[string]string{"b": "1", "a": "2"}, nil}, goValue{"named-map", "{k:1}", myMap{"k": 1}, nil},
		goValue{"map[string]any", "empty", map[string]any{}, nil}, goValue{"map[string][]byte", "{k:ff}", map[string][]byte{"k": {0xff}}, nil},
		// map keys that are not valid UTF-8 (Go strings hold any bytes): stored byte for byte, or rejected
		goValue{"map[string]string", "{x-ff: v}", map[string]string{"x-\xff": "v"}, nil}, goValue{"map[string]int", "{caf-e9: 1}", map[string]int{"caf\xe9": 1}, nil},
		goValue{"map[string]any", "{lone c3: true}", map[string]any{"\xc3": true}, nil}, goValue{"map[string]any", "{encoded surrogate: 1}", map[string]any{"\xed\xa0\x80": 1}, nil},
		goValue{"map[string]int", "{ff:1, fe:2}", map[string]int{"\xff": 1, "\xfe": 2}, nil}, goValue{"[]any", "[{80: 1}]", []any{map[string]any{"\x80": 1}}, nil},
		goValue{"map[string]any", "{a:{f0 9f: 1}}", map[string]any{"a": map[string]int{"\xf0\x9f": 1}}, nil}, goValue{"named-map", "{ff: 1}", myMap{"k\xffk": 1}, nil},
		goValue{"map[string]string", "{U+FFFD: a, ff: b}", map[string]string{"\uFFFD": "a", "\xff": "b"}, nil},
		// Go maps that merely look like the DAG-JSON spelling of a link or of bytes: they are maps
		goValue{"map[string]any", "{/: cid text}", map[string]any{"/": cidPool[1].String()}, nil}, goValue{"map[string]string", "{/: cid text}", map[string]string{"/": cidPool[1].String()}, nil},
		goValue{"map[string]any", "{/: {bytes: AAEC}}", map[string]any{"/": map[string]any{"bytes": "AAEC"}}, nil}, goValue{"map[string]any", "{/: {bytes: empty}}", map[string]any{"/": map[string]string{"bytes": ""}}, nil},
		goValue{"[]any", "[{/: cidv0 text}]", []any{map[string]any{"/": cid.NewCidV0(cidPool[1].Hash()).String()}}, nil}, goValue{"map[string]any", "{a:{/: cid text}}", map[string]any{"a": map[string]string{"/": cidPool[2].String()}}, nil},
		goValue{"*string", "ptr(s)", func() *string { x := "s"; return &x }(), nil}, goValue{"**int", "ptr(ptr(4))", func() **int { x := 4; y := &x; return &y }(), nil},
		goValue{"*[]int", "ptr([1,2])", &[]int{1, 2}, nil}, goValue{"*map", "ptr({a:1})", &map[string]int{"a": 1}, nil},
		goValue{"*int", "nil pointer", nilPtr, nil}, goValue{"map", "nil map", nilMap, nil}, goValue{"[]int", "nil slice", nilSlice, nil},
		goValue{"[]*int", "[nil pointer]", []*int{nil}, nil}, goValue{"map[string]any", "{k:nil}", map[string]any{"k": nil}, nil},
		goValue{"[]cid", "[cid,cid]", []cid.Cid{cidPool[1], cidPool[2]}, nil}, goValue{"map[string]cid", "{k:cid}", map[string]cid.Cid{"k": cidPool[4]}, nil},
		goValue{"cid", "undefined cid", cid.Undef, nil},
		goValue{"[]node", "[int 5, str]", []datamodel.Node{nInt(5), nStr("s")}, nil}, goValue{"node", "map node", nMap(kv{"k", nList(nInt(1), nStr("x"))}), nil},
		goValue{"node", "float 1.0", nFloat(1.0), nil}, goValue{"node", "null", nNull(), nil}, goValue{"node", "int -(2^53-1)", nInt(-(1<<53 - 1)), nil},
		goValue{"struct", "struct with slice", struct{ L []int }{[]int{1}}, nil}, goValue{"[]struct", "[struct]", []struct{ A int }{{1}}, nil},
		goValue{"complex128", "1+2i", complex(1, 2), nil}, goValue{"uintptr", "7", uintptr(7), nil},
		goValue{"error", "error value", fmt.Errorf("x"), nil},
		goValue{"float64", "NaN", math.NaN(), nil}, goValue{"float64", "+Inf", math.Inf(1), nil}, goValue{"float64", "-0", math.Copysign(0, -1), nil},
		goValue{"[]float32", "[0.1,16777217]", []float32{0.1, 16777217}, nil}, goValue{"map[string]float64", "{k:1e-320}", map[string]float64{"k": 1e-320}, nil},
		goValue{"[]int8", "[-128,127]", []int8{-128, 127}, nil}, goValue{"[]uint16", "[0,65535]", []uint16{0, 65535}, nil},
		goValue{"[]int64", "[min]", []int64{math.MinInt64}, nil}, goValue{"[]int64", "[-(2^53-1),2^53-1]", []int64{-(1<<53 - 1), 1<<53 - 1}, nil},
		goValue{"[]int64", "[-2^53]", []int64{-(1 << 53)}, nil}, goValue{"map[string]int64", "{a:1,b:2^53}", map[string]int64{"a": 1, "b": 1 << 53}, nil},
	)
	return r
}

// nodeMath extracts the mathematical value of a numeric node.
func nodeMath(n datamodel.Node) (*big.Float, bool) {
	switch n.Kind() {
	case datamodel.Kind_Int:
		if u, ok := n.(datamodel.UintNode); ok {
			if v, err := u.AsUint(); err == nil {
				return bf(v), true
			}
		}
		v, err := n.AsInt()
		if err != nil {
			return nil, false
		}
		return bf(v), true
	case datamodel.Kind_Float:
		v, err := n.AsFloat()
		if err != nil || math.IsNaN(v) {
			return nil, false
		}
		return bf(v), true
	}
	return nil, false
}

// containsAlteredNumber compares the numbers found in a stored node with those of the Go value.
func goNumbers(v reflect.Value, out *[]*big.Float) {
	switch v.Kind() {
	case reflect.Int, reflect.Int8, reflect.Int16, reflect.Int32, reflect.Int64:
		*out = append(*out, bf(v.Int()))
	case reflect.Uint, reflect.Uint8, reflect.Uint16, reflect.Uint32, reflect.Uint64:
		*out = append(*out, bf(v.Uint()))
	case reflect.Float32, reflect.Float64:
		if math.IsNaN(v.Float()) {
			return // no mathematical value; the content comparison covers it
		}
		*out = append(*out, bf(v.Float()))
	case reflect.Slice, reflect.Array:
		if v.Type().Elem().Kind() == reflect.Uint8 {
			return
		}
		for i := 0; i < v.Len(); i++ {
			goNumbers(v.Index(i), out)
		}
	case reflect.Map:
		keys := v.MapKeys()
		for _, k := range keys {
			goNumbers(v.MapIndex(k), out)
		}
	case reflect.Ptr, reflect.Interface:
		if !v.IsNil() {
			goNumbers(v.Elem(), out)
		}
	}
}

func nodeNumbers(n datamodel.Node, out *[]*big.Float) {
	switch n.Kind() {
	case datamodel.Kind_Int, datamodel.Kind_Float:
		if f, ok := nodeMath(n); ok {
			*out = append(*out, f)
		}
	case datamodel.Kind_List:
		it := n.ListIterator()
		for !it.Done() {
			_, v, _ := it.Next()
			nodeNumbers(v, out)
		}
	case datamodel.Kind_Map:
		it := n.MapIterator()
		for !it.Done() {
			_, v, _ := it.Next()
			nodeNumbers(v, out)
		}
	}
}

func sameNumbers(a, b []*big.Float) bool {
	if len(a) != len(b) {
		return false
	}
	used := make([]bool, len(b))
outer:
	for _, x := range a {
		for j, y := range b {
			if !used[j] && x.Cmp(y) == 0 {
				used[j] = true
				continue outer
			}
		}
		return false
	}
	return true
}

// goShape renders the exact content of a supported Go value (reference for "stored exactly"):
// ok=false means the value holds something the reference does not define (nil, struct, chan,
// func, non-string map keys, byte arrays): then only the numbers are compared.
func goShape(v reflect.Value) (string, bool) {
	if !v.IsValid() {
		return "", false
	}
	if v.CanInterface() {
		switch x := v.Interface().(type) {
		case cid.Cid:
			return "l:" + x.String(), true
		case datamodel.Node:
			return nodeShape(x), true
		}
	}
	switch v.Kind() {
	case reflect.Bool:
		return fmt.Sprintf("b:%v", v.Bool()), true
	case reflect.Int, reflect.Int8, reflect.Int16, reflect.Int32, reflect.Int64:
		return fmt.Sprintf("i:%d", v.Int()), true
	case reflect.Uint, reflect.Uint8, reflect.Uint16, reflect.Uint32, reflect.Uint64:
		return fmt.Sprintf("i:%d", v.Uint()), true
	case reflect.Float32, reflect.Float64:
		return fmt.Sprintf("f:%x", v.Float()), true
	case reflect.String:
		return fmt.Sprintf("s:%q", v.String()), true
	case reflect.Slice, reflect.Array:
		if v.Type().Elem().Kind() == reflect.Uint8 {
			if v.Kind() == reflect.Array {
				return "", false
			}
			return fmt.Sprintf("x:%x", v.Bytes()), true
		}
		if v.Kind() == reflect.Slice && v.IsNil() {
			return "", false
		}
		parts := make([]string, v.Len())
		for i := range parts {
			e, ok := goShape(v.Index(i))
			if !ok {
				return "", false
			}
			parts[i] = e
		}
		return "[" + strings.Join(parts, ",") + "]", true
	case reflect.Map:
		if v.Type().Key().Kind() != reflect.String || v.IsNil() {
			return "", false
		}
		var parts []string
		for _, k := range v.MapKeys() {
			e, ok := goShape(v.MapIndex(k))
			if !ok {
				return "", false
			}
			parts = append(parts, fmt.Sprintf("%q=%s", k.String(), e))
		}
		sortStrings(parts)
		return "{" + strings.Join(parts, ",") + "}", true
	case reflect.Ptr, reflect.Interface:
		if v.IsNil() {
			return "", false
		}
		return goShape(v.Elem())
	}
	return "", false
}

// nodeShape renders an IPLD node in the same notation.
func nodeShape(n datamodel.Node) string {
	switch n.Kind() {
	case datamodel.Kind_Null:
		return "null"
	case datamodel.Kind_Bool:
		b, _ := n.AsBool()
		return fmt.Sprintf("b:%v", b)
	case datamodel.Kind_Int:
		if u, ok := n.(datamodel.UintNode); ok {
			if v, err := u.AsUint(); err == nil {
				return fmt.Sprintf("i:%d", v)
			}
		}
		v, _ := n.AsInt()
		return fmt.Sprintf("i:%d", v)
	case datamodel.Kind_Float:
		f, _ := n.AsFloat()
		return fmt.Sprintf("f:%x", f)
	case datamodel.Kind_String:
		x, _ := n.AsString()
		return fmt.Sprintf("s:%q", x)
	case datamodel.Kind_Bytes:
		x, _ := n.AsBytes()
		return fmt.Sprintf("x:%x", x)
	case datamodel.Kind_Link:
		l, _ := n.AsLink()
		return "l:" + l.String()
	case datamodel.Kind_List:
		var parts []string
		it := n.ListIterator()
		for !it.Done() {
			_, v, _ := it.Next()
			parts = append(parts, nodeShape(v))
		}
		return "[" + strings.Join(parts, ",") + "]"
	case datamodel.Kind_Map:
		var parts []string
		it := n.MapIterator()
		for !it.Done() {
			k, v, _ := it.Next()
			ks, _ := k.AsString()
			parts = append(parts, fmt.Sprintf("%q=%s", ks, nodeShape(v)))
		}
		sortStrings(parts)
		return "{" + strings.Join(parts, ",") + "}"
	}
	return "?"
}

func c10ValueSub() *engine.Sub {
	vals := c10GoValues()
	return &engine.Sub{
		Name:   "go-values-stored-exactly",
		Repeat: true,
		Rule:   "every Go numeric type x {0, +/-1, +/-(2^53-1), +/-2^53, type min, type max}, float specials, named types, containers and pointers carrying boundary numbers, strings, bytes, CIDs, IPLD nodes, numbers in text form (json.Number, up to 23 digits and beyond the float64 range), named numeric / bool types with a String method (time.Duration, time.Month, ...) and unsupported types, handed to literal.Any, args.Add, args.Builder (Build / BuildIPLD), args.ToIPLD, args.Include + Clone, invocation.WithArgument / WithArguments and meta.Add: the call returns an error (never panics) or stores a node whose numbers are mathematically equal to the supplied ones and whose whole content (kinds, strings, bytes, booleans, links, list order and length, map keys) equals the reference rendering of the Go value; a second Add of a key is rejected and leaves the first value in place; arguments additionally never hold an integer beyond +/-(2^53-1); non-trivial = numeric values",
		Bound:  func(string) string { return fmt.Sprintf("%d Go values x 10 entry points", len(vals)) },
		Gen: func(tier string, emit func(any) bool) {
			for _, v := range vals {
				if !emit(&c10ValCase{Type: v.Type, Val: v.Val}) {
					return
				}
			}
		},
		NewCase: func() any { return &c10ValCase{} },
		Run: func(ctx *engine.Ctx, c any) {
			cs := c.(*c10ValCase)
			var gv *goValue
			for i := range vals {
				if vals[i].Type == cs.Type && vals[i].Val == cs.Val {
					gv = &vals[i]
				}
			}
			if gv == nil {
				panic("unknown go value")
			}
			var want []*big.Float
			if gv.V != nil {
				if n, ok := gv.V.(datamodel.Node); ok {
					nodeNumbers(n, &want)
				} else {
					goNumbers(reflect.ValueOf(gv.V), &want)
				}
			}
			if len(want) > 0 {
				ctx.Nontrivial(1)
			}
			entry := []struct {
				name string
				args bool
				f    func() (datamodel.Node, error)
			}{
				{"literal.Any", false, func() (datamodel.Node, error) { return literal.Any(gv.V) }},
				{"args.Add", true, func() (datamodel.Node, error) {
					a := args.New()
					if err := a.Add("k", gv.V); err != nil {
						return nil, err
					}
					return a.GetNode("k")
				}},
				{"invocation.WithArgument", true, func() (datamodel.Node, error) {
					k := fixtures.Get("ed25519", 0)
					t, err := invocation.New(k.DID, otherPrincipal(k, 1), "/a", []cid.Cid{cidPool[0]}, invocation.WithArgument("k", gv.V))
					if err != nil {
						return nil, err
					}
					return t.Arguments().GetNode("k")
				}},
				{"meta.Add", false, func() (datamodel.Node, error) {
					m := meta.NewMeta()
					if err := m.Add("k", gv.V); err != nil {
						return nil, err
					}
					return m.GetNode("k")
				}},
				{"args.Builder", true, func() (datamodel.Node, error) {
					a, err := args.NewBuilder().Add("j", "first").Add("k", gv.V).Add("l", 3).Build()
					if err != nil {
						return nil, err
					}
					return a.GetNode("k")
				}},
				{"args.Builder.BuildIPLD", true, func() (datamodel.Node, error) {
					n, err := args.NewBuilder().Add("k", gv.V).Add("a", "other").BuildIPLD()
					if err != nil {
						return nil, err
					}
					return n.LookupByString("k")
				}},
				{"args.Add+ToIPLD", true, func() (datamodel.Node, error) {
					a := args.New()
					if err := a.Add("z", true); err != nil {
						return nil, err
					}
					if err := a.Add("k", gv.V); err != nil {
						return nil, err
					}
					n, err := a.ToIPLD()
					if err != nil {
						return nil, err
					}
					return n.LookupByString("k")
				}},
				{"args.Include+Clone", true, func() (datamodel.Node, error) {
					a := args.New()
					if err := a.Add("k", gv.V); err != nil {
						return nil, err
					}
					b := args.New()
					if err := b.Add("x", "kept"); err != nil {
						return nil, err
					}
					b.Include(a)
					return b.Clone().GetNode("k")
				}},
				{"invocation.WithArguments", true, func() (datamodel.Node, error) {
					a := args.New()
					if err := a.Add("k", gv.V); err != nil {
						return nil, err
					}
					k := fixtures.Get("ed25519", 0)
					t, err := invocation.New(k.DID, otherPrincipal(k, 1), "/a", []cid.Cid{cidPool[0]}, invocation.WithArgument("first", 1), invocation.WithArguments(a))
					if err != nil {
						return nil, err
					}
					return t.Arguments().GetNode("k")
				}},
				{"duplicate-key", true, func() (datamodel.Node, error) {
					// the first value of a key is the stored one; a second Add of the same key is rejected and changes nothing
					a := args.New()
					if err := a.Add("k", gv.V); err != nil {
						return nil, err
					}
					if err := a.Add("k", "other"); err == nil {
						return nil, fmt.Errorf("harness-signal: duplicate key accepted")
					}
					n, err := a.GetNode("k")
					if err != nil {
						return nil, fmt.Errorf("harness-signal: value lost after rejected duplicate: %v", err)
					}
					cnt := 0
					for range a.Iter() {
						cnt++
					}
					if cnt != 1 {
						return nil, fmt.Errorf("harness-signal: %d entries after a rejected duplicate", cnt)
					}
					return n, nil
				}},
			}
			wantShape, haveShape := "", false
			if gv.V != nil {
				wantShape, haveShape = goShape(reflect.ValueOf(gv.V))
			}
			for _, e := range entry {
				ctx.Eval(1)
				ctx.States(1)
				ctx.Trans(1)
				var n datamodel.Node
				var err error
				var pan any
				func() {
					defer func() { pan = recover() }()
					n, err = e.f()
				}()
				switch {
				case pan != nil:
					ctx.Outcome("panic")
					ctx.Failf(cs, "value-entry-panics/"+cs.Type, "%s(%s %s) panics: %v", e.name, cs.Type, cs.Val, pan)
				case err != nil && strings.HasPrefix(err.Error(), "harness-signal: "):
					ctx.Outcome("duplicate-mishandled")
					ctx.Failf(cs, "duplicate-key-mishandled", "%s(%s %s): %v", e.name, cs.Type, cs.Val, err)
				case err != nil:
					ctx.Outcome("rejected")
				case cs.Type == "json.Number" || cs.Type == "[]json.Number":
					// a number in text form: kept as that text, or stored as a number of exactly that value
					ctx.Outcome("stored")
					texts := []string{}
					switch x := gv.V.(type) {
					case json.Number:
						texts = append(texts, string(x))
					case []json.Number:
						for _, t := range x {
							texts = append(texts, string(t))
						}
					}
					leaves := []datamodel.Node{n}
					if cs.Type == "[]json.Number" {
						leaves = nil
						if n.Kind() == datamodel.Kind_List {
							it := n.ListIterator()
							for !it.Done() {
								_, v, _ := it.Next()
								leaves = append(leaves, v)
							}
						}
					}
					if len(leaves) != len(texts) {
						ctx.Failf(cs, "value-silently-altered/content/"+cs.Type, "%s(%s %s) stored %.200s", e.name, cs.Type, cs.Val, nodeShape(n))
						break
					}
					for i, leaf := range leaves {
						if s, err := leaf.AsString(); err == nil && s == texts[i] {
							continue
						}
						exact, _, perr := new(big.Float).SetPrec(4000).Parse(texts[i], 10)
						got, isNum := nodeMath(leaf)
						if perr != nil || !isNum || exact.Cmp(got) != 0 {
							ctx.Failf(cs, "value-silently-altered/"+cs.Type, "%s(%s %s) stored %.200s for the number text %q", e.name, cs.Type, cs.Val, nodeShape(leaf), texts[i])
						}
					}
					if e.args {
						if ok, w := intsInRange(n); !ok {
							ctx.Failf(cs, "argument-int-out-of-int53/"+cs.Type, "%s(%s %s) stored the integer %s beyond +/-(2^53-1)", e.name, cs.Type, cs.Val, w)
						}
					}
				default:
					ctx.Outcome("stored")
					if haveShape {
						if gs := nodeShape(n); gs != wantShape {
							ctx.Failf(cs, "value-silently-altered/content/"+cs.Type, "%s(%s %s) stored %.200s instead of %.200s", e.name, cs.Type, cs.Val, gs, wantShape)
						}
					}
					var got []*big.Float
					nodeNumbers(n, &got)
					if !sameNumbers(want, got) {
						ctx.Failf(cs, "value-silently-altered/"+cs.Type, "%s(%s %s) stored %v instead of %v", e.name, cs.Type, cs.Val, fmtNums(got), fmtNums(want))
					}
					if e.args {
						if ok, w := intsInRange(n); !ok {
							ctx.Failf(cs, "argument-int-out-of-int53/"+cs.Type, "%s(%s %s) stored the integer %s beyond +/-(2^53-1)", e.name, cs.Type, cs.Val, w)
						}
					}
				}
			}
		},
	}
}

func fmtNums(x []*big.Float) string {
	var s []string
	for _, f := range x {
		s = append(s, f.Text('g', 30))
	}
	return "[" + strings.Join(s, ",") + "]"
}

// ---- out-of-range integers at depth ----

type c10DeepCase struct {
	Depth int    `json:"depth"`
	Nest  string `json:"nest"`  // lists | maps | mixed
	Val   string `json:"val"`   // 2^53 | -2^53 | 2^60 | min64 | ok(2^53-1)
	Where string `json:"where"` // arg-go | arg-node | policy-literal | signed-args | signed-policy
}

func (c *c10DeepCase) Weight() int { return c.Depth }

func c10DeepNode(depth int, nest string, leaf datamodel.Node) datamodel.Node {
	n := leaf
	for i := 0; i < depth; i++ {
		useMap := nest == "maps" || (nest == "mixed" && i%2 == 1)
		if useMap {
			n = nMap(kv{"k", n})
		} else {
			n = nList(n)
		}
	}
	return n
}

func c10DeepSub() *engine.Sub {
	vals := map[string]int64{"2^53": 1 << 53, "-2^53": -(1 << 53), "2^60": 1 << 60, "min64": math.MinInt64, "ok(2^53-1)": 1<<53 - 1}
	return &engine.Sub{
		Name:   "out-of-range-integers-at-depth",
		Repeat: true,
		Rule:   "an integer beyond +/-(2^53-1) under d nested lists / maps / alternating lists and maps, d on both sides of 8, 16, 32, 64, 128, 256 and 1024: as a Go value and as an IPLD node handed to invocation.WithArgument, as a policy literal handed to delegation.New, and inside the arguments / the policy of a correctly signed payload offered to the decoders: never accepted (a constructor that accepts it must not hold an out-of-range integer; a decoder must reject); the in-range neighbour 2^53-1 at the same depth is the control; non-trivial = all",
		Bound:  func(string) string { return "18 depths x 3 nestings x 5 values x 5 entry points" },
		Gen: func(tier string, emit func(any) bool) {
			for _, d := range []int{0, 1, 2, 7, 8, 9, 15, 16, 17, 31, 32, 33, 63, 64, 65, 66, 127, 128, 129, 255, 256, 257, 1023, 1024, 1025} {
				for _, nest := range []string{"lists", "maps", "mixed"} {
					for v := range vals {
						for _, w := range []string{"arg-go", "arg-node", "policy-literal", "signed-args", "signed-policy"} {
							if !emit(&c10DeepCase{d, nest, v, w}) {
								return
							}
						}
					}
				}
			}
		},
		NewCase: func() any { return &c10DeepCase{} },
		Run: func(ctx *engine.Ctx, c any) {
			cs := c.(*c10DeepCase)
			v := vals[cs.Val]
			inRange := cs.Val == "ok(2^53-1)"
			node := c10DeepNode(cs.Depth, cs.Nest, nInt(v))
			k := fixtures.Get("ed25519", 0)
			ctx.States(1)
			ctx.Eval(1)
			ctx.Trans(1)
			ctx.Nontrivial(1)
			var tok any
			var err error
			var pan any
			func() {
				defer func() { pan = recover() }()
				switch cs.Where {
				case "arg-go":
					var gv any = v
					for i := 0; i < cs.Depth; i++ {
						if cs.Nest == "maps" || (cs.Nest == "mixed" && i%2 == 1) {
							gv = map[string]any{"k": gv}
						} else {
							gv = []any{gv}
						}
					}
					tok, err = invocation.New(k.DID, otherPrincipal(k, 1), "/a", []cid.Cid{cidPool[0]}, invocation.WithNonce([]byte("0123456789ab")), invocation.WithArgument("v", gv))
				case "arg-node":
					tok, err = invocation.New(k.DID, otherPrincipal(k, 1), "/a", []cid.Cid{cidPool[0]}, invocation.WithNonce([]byte("0123456789ab")), invocation.WithArgument("v", node))
				case "policy-literal":
					pol, perr := policy.Construct(policy.Equal(".a", node))
					if perr != nil {
						err = perr
						return
					}
					tok, err = delegation.New(k.DID, otherPrincipal(k, 1), "/a", pol, delegation.WithSubject(k.DID), delegation.WithNonce([]byte("0123456789ab")))
				case "signed-args", "signed-policy":
					kind := "inv"
					if cs.Where == "signed-policy" {
						kind = "dlg"
					}
					p := c10BasePayload(kind, "ed25519")
					var es []kv
					for _, e := range p.Payload {
						switch {
						case e.K == "args" && kind == "inv":
							e = kv{"args", nMap(kv{"v", node})}
						case e.K == "pol" && kind == "dlg":
							e = kv{"pol", nList(nList(nStr("=="), nStr(".a"), node))}
						}
						es = append(es, e)
					}
					sealed := assemble(k, sigPayloadNode(p.Header, p.Tag, nMap(es...)))
					if kind == "inv" {
						tok, _, err = invocation.FromSealed(sealed)
					} else {
						tok, _, err = delegation.FromSealed(sealed)
					}
				}
			}()
			tag := cs.Where + "/" + cs.Nest
			switch {
			case pan != nil:
				ctx.Outcome("panic")
				ctx.Failf(cs, "panics-instead-of-rejecting/int-at-depth/"+tag, "%s with %s under %d nested %s panics: %v", cs.Where, cs.Val, cs.Depth, cs.Nest, pan)
			case err != nil:
				ctx.Outcome("rejected")
			case inRange:
				ctx.Outcome("accepted-in-range")
			default:
				ctx.Outcome("accepted-out-of-range")
				ctx.Failf(cs, "accepted-must-reject/int-at-depth/"+tag, "%s accepts the integer %s under %d nested %s (a token then holds an integer beyond +/-(2^53-1): %T)", cs.Where, cs.Val, cs.Depth, cs.Nest, tok)
			}
		},
	}
}

func C10() *engine.Check {
	return &engine.Check{
		Property: "C10",
		Level:    "model_checking",
		Subs:     []*engine.Sub{c10CtorSub(), c10DecoderSub(), c10ShapeSub(), c10ValueSub(), c10DeepSub(), c07SharedSub(), c10ConcSub(), concRaceSub("C10")},
		Assumptions: []string{
			"must-reject expectations are derived from the property statement and the IPLD schemas (required / optional / nullable, field kinds); anything else may be accepted as long as the returned token is well formed",
			"metadata integers are not bounded by the property; only argument and policy integers and time bounds are",
			"envelopes are assembled and signed by the harness (go-ipld-prime + libp2p), independent of go-ucan's envelope package",
		},
	}
}
