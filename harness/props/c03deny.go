package props

import (
	"fmt"

	"github.com/ipfs/go-cid"

	"github.com/ucan-wg/go-ucan/pkg/args"
	"github.com/ucan-wg/go-ucan/pkg/policy"
	"github.com/ucan-wg/go-ucan/token/delegation"
	"github.com/ucan-wg/go-ucan/token/invocation"

	"verifharness/engine"
	"verifharness/fixtures"
	"verifharness/refmodel"
)

// Deny rules (not(like ...)) on argument strings made of arbitrary bytes. Here the statement semantics
// come from the independent glob reference, not from the real Match: a deny rule that stops firing for
// some byte strings turns a denied invocation into an allowed one.
var c03DenySyms = []string{"a", "@", "b", "\xff", "\xc3", "\xa9"}
var c03DenyPats = []string{"*@b", "a*", "*\xff*", "*"}
var c03DenySlugs = []string{"not-like", "and-not-like", "or-not-like", "all-not-like", "not-any-like"}
var c03DenyForms = []string{"not(like .y P)", "and(not(like .y P))", "or(not(like .y P), == .x 1)", "all .l not(like . P)", "not(any .l like . P)"}

type c03DenyCase struct {
	Pat  int   `json:"pat"`
	Form int   `json:"form"`
	Link int   `json:"link"` // which link of a 2-link chain carries the statement (0 leaf, 1 root); -1 = 1-link chain
	Str  []int `json:"str,omitempty"`
	Max  int   `json:"max"`
}

func (c *c03DenyCase) Weight() int { return c.Form + len(c.Str) }

func c03DenySub(dir string) *engine.Sub {
	name := "deny-rules-on-byte-strings"
	if dir == "complete" {
		name += "-completeness"
	}
	text := func(idx []int) string {
		var b []byte
		for _, k := range idx {
			b = append(b, c03DenySyms[k]...)
		}
		return string(b)
	}
	return &engine.Sub{
		Name: name,
		Rule: "chains whose policy holds a deny rule - " + fmt.Sprint(c03DenyForms) + " with P in {*@b, a*, *0xff*, *} - on the leaf, on the root or on a single link; the invocation carries y (and the one-element list l) = every string over the byte symbols {a, @, b, 0xff, 0xc3, 0xa9}: not UTF-8, ending inside a character, or é; both APIs, tokens in memory and delegations sealed + decoded; reference = glob language over bytes (refmodel) under the boolean structure of the form; non-trivial = strings that are not valid UTF-8",
		Bound: func(t string) string {
			return fmt.Sprintf("4 patterns x 5 forms x 3 placements x strings of <= %d symbols over 6 symbols x 2 APIs x 2 token forms", tierN(t, 4, 5))
		},
		Setup: func(string) error { chainInit(); return nil },
		Gen: func(tier string, emit func(any) bool) {
			for p := range c03DenyPats {
				for f := range c03DenyForms {
					for l := -1; l <= 1; l++ {
						if !emit(&c03DenyCase{Pat: p, Form: f, Link: l, Max: tierN(tier, 4, 5)}) {
							return
						}
					}
				}
			}
		},
		NewCase: func() any { return &c03DenyCase{} },
		Run: func(ctx *engine.Ctx, c any) {
			cs := c.(*c03DenyCase)
			P := c03DenyPats[cs.Pat]
			var cons policy.Constructor
			switch cs.Form {
			case 0:
				cons = policy.Not(policy.Like(".y", P))
			case 1:
				cons = policy.And(policy.Not(policy.Like(".y", P)))
			case 2:
				cons = policy.Or(policy.Not(policy.Like(".y", P)), policy.Equal(".x", nInt(1)))
			case 3:
				cons = policy.All(".l", policy.Not(policy.Like(".", P)))
			case 4:
				cons = policy.Not(policy.Any(".l", policy.Like(".", P)))
			}
			pol := policy.MustConstruct(cons)
			toks, _ := refmodel.GlobParse(P)
			n := 1
			if cs.Link >= 0 {
				n = 2
			}
			keys := fixtures.ByAlg("ed25519")
			var mem, dec sliceLoader
			prf := make([]cid.Cid, n)
			for i := 0; i < n; i++ {
				var p policy.Policy
				if cs.Link < 0 || cs.Link == i {
					p = pol
				}
				d := mustDlg(alignedHolder(n, i+1), alignedHolder(n, i), 0, "/a", p)
				data, _, err := d.ToSealed(keys[alignedHolder(n, i+1)].Priv)
				if err != nil {
					panic(err)
				}
				d2, _, err := delegation.FromSealed(data)
				if err != nil {
					panic(err)
				}
				prf[i] = cidPool[i]
				mem.cids, mem.toks = append(mem.cids, cidPool[i]), append(mem.toks, d)
				dec.cids, dec.toks = append(dec.cids, cidPool[i]), append(dec.toks, d2)
			}
			ctx.States(1)
			one := func(si []int) {
				s := text(si)
				a := args.New()
				_ = a.Add("y", s)
				_ = a.Add("l", []string{s})
				_ = a.Add("x", 0)
				inv, err := invocation.New(prin(alignedHolder(n, 0)), prin(0), "/a", prf, invocation.WithNonce(fixedNonce), invocation.WithoutInvokedAt(), invocation.WithArguments(a))
				if err != nil {
					panic(err)
				}
				want := !refmodel.GlobMatch(toks, s) // every form is true exactly when the string is outside the language
				if !validUTF8(s) {
					ctx.Nontrivial(1)
				}
				for k, ld := range []*sliceLoader{&mem, &dec} {
					e1, e2 := bothVerdicts(inv, ld)
					ctx.Eval(2)
					ctx.Trans(1)
					ctx.Outcome(errLabel(e1))
					for _, e := range []error{e1, e2} {
						rc := &c03DenyCase{Pat: cs.Pat, Form: cs.Form, Link: cs.Link, Str: append([]int{}, si...), Max: cs.Max}
						if dir == "sound" && e == nil && !want {
							ctx.Failf(rc, "deny-rule-bypassed/"+c03DenySlugs[cs.Form], "%s with P=%q (delegations %s): y=%q is in the language of P, yet the invocation is allowed", c03DenyForms[cs.Form], P, [2]string{"in memory", "sealed+decoded"}[k], s)
						}
						if dir == "complete" && e != nil && want {
							ctx.Failf(rc, "deny-rule-overreaches/"+c03DenySlugs[cs.Form], "%s with P=%q (delegations %s): y=%q is outside the language of P, yet the invocation is denied: %v", c03DenyForms[cs.Form], P, [2]string{"in memory", "sealed+decoded"}[k], s, e)
						}
					}
				}
			}
			if cs.Str != nil {
				one(cs.Str)
				return
			}
			allIndexLists(len(c03DenySyms), cs.Max, func(si []int) bool { one(si); return true })
		},
	}
}
