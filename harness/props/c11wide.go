package props

import (
	"fmt"

	"github.com/ucan-wg/go-ucan/pkg/policy"
	"github.com/ucan-wg/go-ucan/pkg/policy/literal"

	"verifharness/engine"
)

// Connectives with many operands: one operand decides, all others are neutral; the deciding operand sits at
// every position around the word sizes (8, 16, 32, 64, 128) and is of every statement kind.

type c11WideCase struct {
	Op   string `json:"op"`   // and | or
	N    int    `json:"n"`    // number of operands
	Pos  int    `json:"pos"`  // index of the deciding operand
	Kind string `json:"kind"` // kind of the deciding operand
	Nest int    `json:"nest"` // 0: top-level statement; 1: under not(not(...)); 2: under any .l
}

func (c *c11WideCase) Weight() int { return c.N }

func c11WideSub() *engine.Sub {
	data := nMap(kv{"a", nInt(1)}, kv{"s", nStr("abc")}, kv{"l", nList(nInt(1), nInt(2))})
	kinds := []string{"eq", "like", "any", "all", "not-like", "or-with-like", "and-with-any", "gt"}
	decider := func(kind string, val bool) policy.Constructor {
		// a statement of the given kind that evaluates to val on data
		switch kind {
		case "eq":
			if val {
				return policy.Equal(".a", literal.Int(1))
			}
			return policy.Equal(".a", literal.Int(2))
		case "gt":
			if val {
				return policy.GreaterThan(".a", literal.Int(0))
			}
			return policy.GreaterThan(".a", literal.Int(1))
		case "like":
			if val {
				return policy.Like(".s", "a*c")
			}
			return policy.Like(".s", "a*d")
		case "any":
			if val {
				return policy.Any(".l", policy.Equal(".", literal.Int(2)))
			}
			return policy.Any(".l", policy.Equal(".", literal.Int(3)))
		case "all":
			if val {
				return policy.All(".l", policy.GreaterThan(".", literal.Int(0)))
			}
			return policy.All(".l", policy.GreaterThan(".", literal.Int(1)))
		case "not-like":
			if val {
				return policy.Not(policy.Like(".s", "x*"))
			}
			return policy.Not(policy.Like(".s", "a*"))
		case "or-with-like":
			if val {
				return policy.Or(policy.Equal(".a", literal.Int(2)), policy.Like(".s", "*c"))
			}
			return policy.Or(policy.Equal(".a", literal.Int(2)), policy.Like(".s", "*d"))
		default: // and-with-any
			if val {
				return policy.And(policy.Equal(".a", literal.Int(1)), policy.Any(".l", policy.Equal(".", literal.Int(1))))
			}
			return policy.And(policy.Equal(".a", literal.Int(1)), policy.Any(".l", policy.Equal(".", literal.Int(7))))
		}
	}
	return &engine.Sub{
		Name:   "wide-connectives",
		Repeat: true,
		Rule:   "and / or with n operands (n on both sides of 8, 16, 32, 64, 128, 256) of which exactly one decides - false under and, true under or - and all others are neutral comparisons; the deciding operand is of each of 8 kinds (comparison, like, any, all, not(like), or containing a like, and containing an any) and sits at the first, the last and every position around the word sizes; as a top-level statement, under not(not()), and as the statement of an any: Match = PartialMatch = the deciding operand's value, and - differentially - the same with the neutral operands being of another kind (likes instead of comparisons); built with the constructors and through FromIPLD; non-trivial = all",
		Bound: func(string) string {
			return "2 connectives x 13 widths x up to 20 positions x 8 kinds x 3 nestings x 2 neutral kinds x 2 constructions"
		},
		Gen: func(tier string, emit func(any) bool) {
			for _, op := range []string{"and", "or"} {
				for _, n := range []int{2, 7, 8, 9, 16, 17, 32, 33, 63, 64, 65, 66, 128, 129, 257} {
					seen := map[int]bool{}
					for _, p := range []int{0, 1, 7, 8, 15, 16, 31, 32, 33, 62, 63, 64, 65, 66, 127, 128, 129, 255, 256, n - 2, n - 1} {
						if p < 0 || p >= n || seen[p] {
							continue
						}
						seen[p] = true
						for _, k := range kinds {
							for nest := 0; nest < 3; nest++ {
								if !emit(&c11WideCase{Op: op, N: n, Pos: p, Kind: k, Nest: nest}) {
									return
								}
							}
						}
					}
				}
			}
		},
		NewCase: func() any { return &c11WideCase{} },
		Run: func(ctx *engine.Ctx, c any) {
			cs := c.(*c11WideCase)
			decides := cs.Op == "or" // the deciding operand is true under or, false under and
			ctx.States(1)
			ctx.Nontrivial(1)
			for _, neutralKind := range []string{"eq", "like"} {
				ops := make([]policy.Constructor, cs.N)
				for i := range ops {
					ops[i] = decider(neutralKind, !decides)
				}
				ops[cs.Pos] = decider(cs.Kind, decides)
				var cons policy.Constructor
				if cs.Op == "and" {
					cons = policy.And(ops...)
				} else {
					cons = policy.Or(ops...)
				}
				d := data
				want := decides
				switch cs.Nest {
				case 1:
					cons = policy.Not(policy.Not(cons))
				case 2:
					// the connective is evaluated on each element of .w, which holds the data itself once
					cons = policy.Any(".w", cons)
					d = nMap(kv{"w", nList(data)})
				}
				p1 := policy.MustConstruct(cons)
				pols := []policy.Policy{p1}
				if n, err := p1.ToIPLD(); err == nil {
					if p2, err := policy.FromIPLD(n); err == nil {
						pols = append(pols, p2)
					} else {
						ctx.Failf(cs, "wide/fromipld-rejects", "a %s with %d operands written by ToIPLD is rejected by FromIPLD: %v", cs.Op, cs.N, err)
					}
				}
				for k, p := range pols {
					m, pm := mp(p, d)
					ctx.Eval(2)
					ctx.Trans(1)
					ctx.Outcome(fmt.Sprint(m))
					if m != want || pm != want {
						ctx.Failf(cs, "wide-connective/"+cs.Op+"/deciding-operand-ignored/"+cs.Kind, "%s with %d operands (neutral ones: %s; construction %d; nesting %d): operand #%d (%s) is %v and decides, but Match=%v PartialMatch=%v", cs.Op, cs.N, neutralKind, k, cs.Nest, cs.Pos, cs.Kind, decides, m, pm)
					}
				}
			}
		},
	}
}
