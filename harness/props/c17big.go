package props

import (
	"fmt"
	"io"
	"strconv"
	"sync"

	"github.com/ucan-wg/go-ucan/pkg/container"
	"github.com/ucan-wg/go-ucan/token/delegation"

	"verifharness/engine"
)

// CAR sections (36-byte CID + sealed token) of exactly the sizes around which a reader that allocates or reads
// in steps changes its behaviour: 2^20 and 2^21 bytes, one byte less, one byte more, and sizes in between.

var c17SectionTargets = []int{1<<20 - 1, 1 << 20, 1<<20 + 1, 1<<20 + 1<<19, 1<<21 - 1, 1 << 21, 1<<21 + 1, 3<<20 + 5}

var c17SectionOnce sync.Map // target -> *sync.Mutex (one worker builds, the others wait)

func c17SectionToken(target int) string {
	name := fmt.Sprintf("dlgsec%d", target)
	mu, _ := c17SectionOnce.LoadOrStore(target, &sync.Mutex{})
	mu.(*sync.Mutex).Lock()
	defer mu.(*sync.Mutex).Unlock()
	headerMu.Lock()
	_, ok := ioTokenSpecs[name]
	headerMu.Unlock()
	if ok {
		return name
	}
	pad := target - 400
	for i := 0; i < 6; i++ {
		spec := TokSpec{Kind: "dlg", Alg: "ed25519", Key: 1, Opts: map[string]string{"nonce": "12", "size:meta-bytes": strconv.Itoa(pad)}}
		tok, key, err := BuildToken(spec)
		if err != nil {
			panic(err)
		}
		b, _, err := tok.(sealer).ToSealed(key.Priv)
		if err != nil {
			panic(err)
		}
		if got := 36 + len(b); got != target {
			pad += target - got
			continue
		}
		headerMu.Lock()
		ioTokenSpecs[name] = spec
		headerMu.Unlock()
		return name
	}
	panic(fmt.Sprintf("harness: cannot build a token whose CAR section has %d bytes", target))
}

type c17BigCase struct {
	Target  int    `json:"section_bytes"`
	Format  string `json:"format"`
	WStream bool   `json:"w_stream"`
	RStream bool   `json:"r_stream"`
	Order   int    `json:"order"` // 0: small, big, small   1: big first   2: big last, twice the big one's neighbour size
}

func (c *c17BigCase) Weight() int { return c.Target/1024 + c.Order }

func c17BigSub() *engine.Sub {
	return &engine.Sub{
		Name: "sections-around-one-and-two-mebibytes",
		Rule: "a container holding two ordinary tokens and a delegation padded (metadata bytes) so that its CAR section - 36 bytes of CID plus the sealed token - measures exactly 2^20-1, 2^20, 2^20+1, 2^20+2^19, 2^21-1, 2^21, 2^21+1 and 3*2^20+5 bytes; the big token first, in the middle or last; all 4 formats, both writers, both readers: reading what was written gives exactly the tokens added, under their CIDs - also from a source whose last Read returns the final bytes together with io.EOF; non-trivial = all",
		Bound: func(string) string {
			return fmt.Sprintf("%d section sizes x (CAR: 3 positions + 3 other formats) x 2 writers x 2 readers", len(c17SectionTargets))
		},
		Gen: func(tier string, emit func(any) bool) {
			for _, t := range c17SectionTargets {
				for _, f := range []string{"car", "car64", "cbor", "cbor64"} {
					for _, ws := range []bool{false, true} {
						for _, rs := range []bool{false, true} {
							for o := 0; o < 3; o++ {
								if o > 0 && f != "car" {
									continue // the position of the big section matters to the sectioned format
								}
								if !emit(&c17BigCase{t, f, ws, rs, o}) {
									return
								}
							}
						}
					}
				}
			}
		},
		NewCase: func() any { return &c17BigCase{} },
		Run: func(ctx *engine.Ctx, c any) {
			cs := c.(*c17BigCase)
			big := c17SectionToken(cs.Target)
			names := [][]string{{"dlg", big, "inv"}, {big, "dlg", "inv"}, {"inv", "dlg3", big}}[cs.Order]
			w := container.NewWriter()
			for _, n := range names {
				t := ioToken(n)
				w.AddSealed(t.Cid, t.Sealed)
			}
			ctx.States(1)
			ctx.Nontrivial(1)
			ctx.Eval(1)
			ctx.Trans(1)
			data, err := writeContainer(w, cs.Format, cs.WStream)
			if err != nil {
				ctx.Failf(cs, "write-fails/big-section/"+cs.Format, "writing a container with a section of %d bytes fails: %v", cs.Target, err)
				return
			}
			r, err := readContainer(data, cs.Format, cs.RStream)
			if err != nil {
				ctx.Outcome("read-fails")
				ctx.Failf(cs, "read-fails/big-section/"+cs.Format, "a container the library wrote (one section of %d bytes, r-stream=%v) cannot be read back: %v", cs.Target, cs.RStream, err)
				return
			}
			ctx.Outcome("ok")
			if containerView(r) != expectedSetView(names) {
				ctx.Failf(cs, "wrong-set/big-section/"+cs.Format, "reading back a container with a section of %d bytes gives a different set of tokens", cs.Target)
			}
			// the stream readers again, from a source whose last Read hands over the final bytes TOGETHER with io.EOF
			// (gzip / flate readers, HTTP bodies of known length do that) - as much as the caller asks for at once
			if cs.RStream {
				var r2 container.Reader
				var err2 error
				src := &dataWithEOFReader{data: data}
				switch cs.Format {
				case "car":
					r2, err2 = container.FromCarReader(src)
				case "car64":
					r2, err2 = container.FromCarBase64Reader(src)
				case "cbor":
					r2, err2 = container.FromCborReader(src)
				default:
					r2, err2 = container.FromCborBase64Reader(src)
				}
				ctx.Eval(1)
				if err2 != nil {
					ctx.Failf(cs, "read-fails/last-bytes-with-eof/"+cs.Format, "a container the library wrote cannot be read from a source that returns its last bytes together with io.EOF: %v", err2)
				} else if containerView(r2) != expectedSetView(names) {
					ctx.Failf(cs, "wrong-set/last-bytes-with-eof/"+cs.Format, "read from a source that returns its last bytes together with io.EOF, the container of %d tokens (one section of %d bytes) gives %d tokens", len(names), cs.Target, len(r2))
				}
			}
		},
	}
}

// ---- ECDSA signatures of every length ----
//
// A DER-encoded ECDSA signature is a few bytes shorter when r or s begins with zero bits: about one P-256
// signature in 128 has 70 bytes or less instead of 71-72, one in 300 less than 70. The tokens are found by sealing the same
// delegation again and again (signing is randomized) until every length class has a witness.

type c17SigLenCase struct {
	Alg     string `json:"alg"`
	Class   int    `json:"class"` // index into the length classes of the algorithm
	Format  string `json:"format"`
	WStream bool   `json:"w_stream"`
	RStream bool   `json:"r_stream"`
}

func (c *c17SigLenCase) Weight() int { return c.Class }

// length classes (DER signature bytes): below the usual range, and each usual length
var c17SigClasses = map[string][][2]int{
	"p256":      {{0, 69}, {70, 70}, {71, 71}, {72, 72}},
	"secp256k1": {{0, 69}, {70, 70}, {71, 71}, {72, 72}},
	"p384":      {{0, 101}, {102, 102}, {103, 103}, {104, 104}},
}

var (
	c17SigMu      sync.Mutex
	c17SigWitness = map[string]*sealedTok{}
)

func c17SigToken(alg string, class int) *sealedTok {
	c17SigMu.Lock()
	defer c17SigMu.Unlock()
	key := fmt.Sprintf("%s/%d", alg, class)
	if t, ok := c17SigWitness[key]; ok {
		return t
	}
	maxTries := 40000
	if alg == "p384" {
		maxTries = 8000
	}
	for try := 0; try < maxTries; try++ {
		// (a new nonce per attempt: secp256k1 signing is deterministic, the same bytes give the same signature)
		tok, k, err := BuildToken(TokSpec{Kind: "dlg", Alg: alg, Opts: map[string]string{"nonce": fmt.Sprintf("ctr:%d", try), "sub": "other"}})
		if err != nil {
			panic(err)
		}
		b, _, err := tok.(sealer).ToSealed(k.Priv)
		if err != nil {
			panic(err)
		}
		n := len(splitEnvelope(b).Sig)
		for ci, cl := range c17SigClasses[alg] {
			ck := fmt.Sprintf("%s/%d", alg, ci)
			if _, have := c17SigWitness[ck]; !have && n >= cl[0] && n <= cl[1] {
				c17SigWitness[ck] = &sealedTok{Name: ck, Tok: tok, Key: k, Sealed: b, Cid: refCID(b)}
			}
		}
		if t, ok := c17SigWitness[key]; ok {
			return t
		}
	}
	c17SigWitness[key] = nil
	return nil
}

func c17SigLenSub() *engine.Sub {
	return &engine.Sub{
		Name:  "ecdsa-signatures-of-every-length",
		Rule:  "delegations issued by P-256, secp256k1 and P-384 keys whose DER signature has each usual length (70, 71, 72 bytes; P-384: 102, 103, 104) and a length below the usual range (r or s with at least 8 leading zero bits: about one signature in 300), found by sealing the same delegation with nonces 0, 1, 2, ... (at most 40000 times per algorithm, 8000 for P-384; a class without witness - 72 bytes for secp256k1, whose signatures are low-S - is reported as outcome no-witness); each is written next to two ordinary tokens and read back in all 4 formats, both writers, both readers, and decoded alone with the typed and generic decoders: the set read is the set written; non-trivial = signatures below the usual range",
		Bound: func(string) string { return "3 algorithms x 4 length classes x 4 formats x 2 writers x 2 readers" },
		Gen: func(tier string, emit func(any) bool) {
			for _, alg := range []string{"p256", "secp256k1", "p384"} {
				for cl := range c17SigClasses[alg] {
					for _, f := range []string{"car", "car64", "cbor", "cbor64"} {
						for _, ws := range []bool{false, true} {
							for _, rs := range []bool{false, true} {
								if !emit(&c17SigLenCase{alg, cl, f, ws, rs}) {
									return
								}
							}
						}
					}
				}
			}
		},
		NewCase: func() any { return &c17SigLenCase{} },
		Run: func(ctx *engine.Ctx, c any) {
			cs := c.(*c17SigLenCase)
			t := c17SigToken(cs.Alg, cs.Class)
			ctx.States(1)
			if t == nil {
				ctx.Outcome("no-witness")
				return
			}
			if cs.Class == 0 {
				ctx.Nontrivial(1)
			}
			sigLen := len(splitEnvelope(t.Sealed).Sig)
			if _, _, err := delegation.FromSealed(t.Sealed); err != nil {
				ctx.Failf(cs, "read-fails/signature-length/"+cs.Alg, "a delegation the library sealed with a %s key (DER signature of %d bytes) is refused by delegation.FromSealed: %v", cs.Alg, sigLen, err)
				return
			}
			w := container.NewWriter()
			small := []string{"dlg", "inv"}
			for _, n := range small {
				s := ioToken(n)
				w.AddSealed(s.Cid, s.Sealed)
			}
			w.AddSealed(t.Cid, t.Sealed)
			ctx.Eval(2)
			ctx.Trans(1)
			data, err := writeContainer(w, cs.Format, cs.WStream)
			if err != nil {
				ctx.Failf(cs, "write-fails/signature-length/"+cs.Format, "writing fails: %v", err)
				return
			}
			r, err := readContainer(data, cs.Format, cs.RStream)
			if err != nil {
				ctx.Outcome("read-fails")
				ctx.Failf(cs, "read-fails/signature-length/"+cs.Alg, "a container the library wrote, holding a delegation sealed with a %s key whose DER signature has %d bytes, cannot be read back (%s, r-stream=%v): %v", cs.Alg, sigLen, cs.Format, cs.RStream, err)
				return
			}
			ctx.Outcome("ok")
			n := 0
			found := false
			for c := range r {
				n++
				if c.Equals(t.Cid) {
					found = true
				}
			}
			if n != 3 || !found {
				ctx.Failf(cs, "wrong-set/signature-length/"+cs.Alg, "reading back gives %d tokens (the %s delegation present: %v), 3 were written", n, cs.Alg, found)
			}
		},
	}
}

// dataWithEOFReader delivers as much as is asked for and returns io.EOF together with the last bytes.
type dataWithEOFReader struct {
	data []byte
	pos  int
}

func (r *dataWithEOFReader) Read(p []byte) (int, error) {
	n := copy(p, r.data[r.pos:])
	r.pos += n
	if r.pos >= len(r.data) {
		return n, io.EOF
	}
	return n, nil
}
