package props

import (
	"encoding/json"
	"fmt"

	"github.com/ipld/go-ipld-prime/datamodel"

	"github.com/ipfs/go-cid"

	"github.com/ucan-wg/go-ucan/pkg/args"
	"github.com/ucan-wg/go-ucan/pkg/policy"
	"github.com/ucan-wg/go-ucan/token/delegation"
	"github.com/ucan-wg/go-ucan/token/invocation"

	"verifharness/engine"
	"verifharness/fixtures"
)

// The authorization check takes its delegations - and with them their policies - from other parties. Every
// degenerate statement shape (empty and / or, towers of not, quantifiers over nothing) must be answered with a
// verdict, whichever statement ends up being the one that is reported as failing.

type c09AuthCase struct {
	Leaf  int   `json:"leaf"`  // 0: and[]  1: or[]  2: == .a 1  3: like .s "x*"
	Wraps []int `json:"wraps"` // outermost first: 0 not, 1 and[x], 2 or[x], 3 any .l x, 4 all .l x, 5 and[x, or[]], 6 or[and[], x]
}

func (c *c09AuthCase) Weight() int { return len(c.Wraps) }

func c09AuthSub() *engine.Sub {
	const nWrap, nLeaf = 7, 4
	return &engine.Sub{
		Name:   "authorization-check-over-degenerate-policies",
		Repeat: true,
		Rule:   "every statement built from a leaf (and[], or[], == .a 1, like .s \"x*\") under up to 3 (thorough: 4) wrappers out of not, and[x], or[x], any .l x, all .l x, and[x, or[]], or[and[], x]; the statement is the policy of a delegation (in memory and sealed + decoded), on a one-link chain and on the root of a two-link chain; ExecutionAllowed and ExecutionAllowedWithArgsHook on 6 argument maps (a = 1, a = 2, nothing, l = [1], l = [], s = \"xy\"): each call returns nil or an error - no panic (the path that builds the refusal's error text included) - and both APIs and both token forms agree; non-trivial = refusals",
		Bound: func(t string) string {
			return fmt.Sprintf("%d leaves x (1 + 7 + 49 + 343%s) wrapper towers x 2 chain positions x 2 token forms x 6 argument maps x 2 APIs", nLeaf, map[bool]string{true: " + 2401", false: ""}[t == "thorough"])
		},
		Setup: func(string) error { chainInit(); return nil },
		Gen: func(tier string, emit func(any) bool) {
			maxD := tierN(tier, 3, 4)
			var rec func(w []int) bool
			rec = func(w []int) bool {
				for l := 0; l < nLeaf; l++ {
					if !emit(&c09AuthCase{Leaf: l, Wraps: append([]int{}, w...)}) {
						return false
					}
				}
				if len(w) == maxD {
					return true
				}
				for k := 0; k < nWrap; k++ {
					if !rec(append(w, k)) {
						return false
					}
				}
				return true
			}
			rec(nil)
		},
		NewCase: func() any { return &c09AuthCase{} },
		Run: func(ctx *engine.Ctx, c any) {
			cs := c.(*c09AuthCase)
			var st policy.Constructor
			switch cs.Leaf {
			case 0:
				st = policy.And()
			case 1:
				st = policy.Or()
			case 2:
				st = policy.Equal(".a", nInt(1))
			default:
				st = policy.Like(".s", "x*")
			}
			for i := len(cs.Wraps) - 1; i >= 0; i-- {
				switch cs.Wraps[i] {
				case 0:
					st = policy.Not(st)
				case 1:
					st = policy.And(st)
				case 2:
					st = policy.Or(st)
				case 3:
					st = policy.Any(".l", st)
				case 4:
					st = policy.All(".l", st)
				case 5:
					st = policy.And(st, policy.Or())
				default:
					st = policy.Or(policy.And(), st)
				}
			}
			pol, err := policy.Construct(st)
			ctx.States(1)
			if err != nil {
				ctx.Outcome("constructor-refuses")
				return
			}
			keys := fixtures.ByAlg("ed25519")
			argSets := []func(a *args.Args){
				func(a *args.Args) { _ = a.Add("a", 1) },
				func(a *args.Args) { _ = a.Add("a", 2) },
				func(a *args.Args) {},
				func(a *args.Args) { _ = a.Add("l", []int{1}) },
				func(a *args.Args) { _ = a.Add("l", []int{}) },
				func(a *args.Args) { _ = a.Add("s", "xy") },
			}
			for n := 1; n <= 2; n++ {
				var mem, dec sliceLoader
				prf := make([]cid.Cid, n)
				decoded := true
				for i := 0; i < n; i++ {
					var p policy.Policy
					if i == n-1 {
						p = pol
					}
					d := mustDlg(alignedHolder(n, i+1), alignedHolder(n, i), 0, "/a", p)
					prf[i] = cidPool[10+i]
					mem.cids, mem.toks = append(mem.cids, prf[i]), append(mem.toks, d)
					data, _, err := d.ToSealed(keys[alignedHolder(n, i+1)].Priv)
					if err != nil {
						decoded = false
						continue
					}
					var d2 *delegation.Token
					if pan, _ := callNoPanic(func() { d2, _, err = delegation.FromSealed(data) }); pan != nil {
						ctx.Failf(cs, "panic/delegation.FromSealed", "decoding the delegation with policy %v panics: %v", pol, pan)
						return
					}
					if err != nil {
						decoded = false
						continue
					}
					dec.cids, dec.toks = append(dec.cids, prf[i]), append(dec.toks, d2)
				}
				for ai, fill := range argSets {
					a := args.New()
					fill(a)
					inv, err := invocation.New(prin(alignedHolder(n, 0)), prin(0), "/a", prf, invocation.WithNonce(fixedNonce), invocation.WithoutInvokedAt(), invocation.WithArguments(a))
					if err != nil {
						panic(err)
					}
					var labels []string
					for k, ld := range []*sliceLoader{&mem, &dec} {
						if k == 1 && !decoded {
							continue
						}
						for api := 0; api < 2; api++ {
							var e error
							pan, stack := callNoPanic(func() {
								if api == 0 {
									e = inv.ExecutionAllowed(ld)
								} else {
									e = inv.ExecutionAllowedWithArgsHook(ld, identityHook)
								}
							})
							ctx.Eval(1)
							ctx.Trans(1)
							if pan != nil {
								ctx.Failf(cs, "panic/"+panicSite(stack), "the authorization check panics on policy %v (%d-link chain, delegations %s, argument map %d): %v", pol, n, [2]string{"in memory", "sealed+decoded"}[k], ai, pan)
								return
							}
							labels = append(labels, errLabel(e))
							if e != nil {
								ctx.Nontrivial(1)
							}
						}
					}
					ctx.Outcome(labels[0])
					for _, l := range labels[1:] {
						if l != labels[0] {
							ctx.Failf(cs, "verdicts-differ-between-forms", "policy %v, %d-link chain, argument map %d: the verdicts of the two APIs / token forms differ: %v", pol, n, ai, labels)
							break
						}
					}
				}
			}
		},
	}
}

// ---- whatever the policy decoder accepts can be matched ----

type c09OpNameCase struct {
	Op    string `json:"op"`
	Shape int    `json:"shape"`
}

func (c *c09OpNameCase) Weight() int { return c.Shape }

var c09OpNames = []string{"==", "!=", "<", "<=", ">", ">=", "like", "not", "and", "or", "all", "any", "every", "some", "none", "exists", "forall", "foreach", "in", "nin", "contains", "eq", "ne", "neq", "gt", "gte", "ge", "lt", "lte", "le",
	"match", "matches", "regex", "glob", "ilike", "unlike", "&&", "||", "!", "xor", "nand", "nor", "if", "implies", "=", "===", "<>", "ALL", "Any", "NOT", "Like", "", " ", "all ", " any"}

func c09OpNameSub() *engine.Sub {
	shapes := []string{`[%s, ".l", ["==", ".", 1]]`, `[%s, ".a", 1]`, `[%s, ".s", "a*"]`, `[%s, ["==", ".a", 1]]`, `[%s, [["==", ".a", 1], ["==", ".a", 2]]]`, `[%s, []]`, `[%s, ".l?", ["like", ".", "*"]]`}
	return &engine.Sub{
		Name:   "accepted-policies-can-be-matched",
		Repeat: true,
		Rule:   fmt.Sprintf("%d operator names - the ten of the specification, names from earlier drafts and from other policy languages (every, some, none, exists, in, contains, eq, ne, gte, matches, regex, &&, ||, ! ...), other letter cases, padded and empty names - in 7 statement shapes (quantifier, comparison, pattern, negation, connective with two and with no operands, quantifier over an optional selector), read with policy.FromDagJson and FromIPLD, bare and nested under not / and / any: whatever the decoder accepts, Match and PartialMatch on 5 data values and String / ToIPLD return without panic; non-trivial = accepted policies", len(c09OpNames)),
		Bound: func(string) string {
			return fmt.Sprintf("%d names x 7 shapes x 4 nestings x 5 data values", len(c09OpNames))
		},
		Gen: func(tier string, emit func(any) bool) {
			for _, op := range c09OpNames {
				for sh := range shapes {
					if !emit(&c09OpNameCase{op, sh}) {
						return
					}
				}
			}
		},
		NewCase: func() any { return &c09OpNameCase{} },
		Run: func(ctx *engine.Ctx, c any) {
			cs := c.(*c09OpNameCase)
			q, _ := json.Marshal(cs.Op)
			stmt := fmt.Sprintf(shapes[cs.Shape], q)
			data := []datamodel.Node{nMap(kv{"a", nInt(1)}, kv{"l", nList(nInt(1), nInt(2))}, kv{"s", nStr("ab")}), nMap(kv{"a", nInt(2)}, kv{"l", nList()}), nMap(), nList(nInt(1)), nNull()}
			ctx.States(1)
			for ni, wrap := range []string{`[%s]`, `[["not", %s]]`, `[["and", [%s, ["==", ".a", 1]]]]`, `[["any", ".l", %s]]`} {
				js := fmt.Sprintf(wrap, stmt)
				var pol policy.Policy
				var err error
				if pan, stack := callNoPanic(func() { pol, err = policy.FromDagJson(js) }); pan != nil {
					ctx.Failf(cs, "panic/"+panicSite(stack), "policy.FromDagJson(%s) panics: %v", js, pan)
					return
				}
				ctx.Eval(1)
				if err != nil {
					ctx.Outcome("rejected")
					continue
				}
				ctx.Outcome("accepted")
				ctx.Nontrivial(1)
				for di, d := range data {
					pan, stack := callNoPanic(func() {
						pol.Match(d)
						pol.PartialMatch(d)
						_ = pol.String()
						_, _ = pol.ToIPLD()
					})
					ctx.Eval(1)
					ctx.Trans(1)
					if pan != nil {
						ctx.Failf(cs, "panic/"+panicSite(stack), "the decoder accepts %s (nesting %d), and matching it on data value %d panics: %v", js, ni, di, pan)
						return
					}
				}
			}
		},
	}
}
