package props

import (
	"fmt"

	"github.com/ipfs/go-cid"

	"github.com/ucan-wg/go-ucan/pkg/policy"
	"github.com/ucan-wg/go-ucan/token/delegation"
	"github.com/ucan-wg/go-ucan/token/invocation"

	"verifharness/engine"
)

// Policies that are overlapping slices of one caller-owned array: an application that builds the policy
// of a narrower delegation by appending to / re-slicing the statements of a wider one.

type c03SharedCase struct {
	Base []int `json:"base"` // three statement ids: the shared array
	N    int   `json:"n"`    // the leaf of the first chain carries base[:N] (spare capacity behind it)
	D    []int `json:"d"`    // statements tried as the root's policy
}

func (c *c03SharedCase) Weight() int { return c.N }

func c03SharedSub(name, dir string) *engine.Sub {
	return &engine.Sub{
		Name: name,
		Rule: "delegation policies that are overlapping slices of ONE array of three statements (every triple of the 8 statements) with spare capacity: a first check runs a two-link chain whose leaf carries base[:n] (n = 1, 2) and whose root carries one further statement (all 8), on each of the 8 argument maps; a second check then runs a one-link chain whose delegation carries base[:3], on each of the 8 argument maps, with both APIs: both verdicts must be the reference's for the statements the policies were built from, and every delegation must still print the policy it was built with; non-trivial = sequences in which the second verdict depends on a statement at index >= n",
		Bound: func(t string) string {
			return fmt.Sprintf("512 statement triples x 2 prefix lengths x %d root statements x 8 x 8 argument maps x 2 APIs", tierN(t, 2, 8))
		},
		Setup: func(string) error { c03Init(); return nil },
		Gen: func(tier string, emit func(any) bool) {
			for a := 0; a < 8; a++ {
				for b := 0; b < 8; b++ {
					for c := 0; c < 8; c++ {
						for n := 1; n <= 2; n++ {
							ds := []int{0, 3}
							if tier == "thorough" {
								ds = []int{0, 1, 2, 3, 4, 5, 6, 7}
							}
							if !emit(&c03SharedCase{Base: []int{a, b, c}, N: n, D: ds}) {
								return
							}
						}
					}
				}
			}
		},
		NewCase: func() any { return &c03SharedCase{} },
		Run: func(ctx *engine.Ctx, c any) {
			cs := c.(*c03SharedCase)
			for _, d := range cs.D {
				for a1 := 0; a1 < 8; a1++ {
					for a2 := 0; a2 < 8; a2++ {
						base := make(policy.Policy, 3, 8)
						for i, s := range cs.Base {
							base[i] = c03.stmts[s]
						}
						leaf := mustDlg(1, 2, 0, "/a", base[:cs.N])
						root := mustDlg(0, 1, 0, "/a", policy.Policy{c03.stmts[d]})
						wide := mustDlg(0, 2, 0, "/a", base[:3])
						wideText := fmt.Sprint(wide.Policy())
						ld2 := &sliceLoader{cids: []cid.Cid{cidPool[0], cidPool[1]}, toks: []*delegation.Token{leaf, root}}
						ld1 := &sliceLoader{cids: []cid.Cid{cidPool[2]}, toks: []*delegation.Token{wide}}
						mk := func(prf []cid.Cid, a int) *invocation.Token {
							inv, err := invocation.New(prin(2), prin(0), "/a", prf, invocation.WithNonce(fixedNonce), invocation.WithoutInvokedAt(), invocation.WithArguments(c03Args(a)))
							if err != nil {
								panic(err)
							}
							return inv
						}
						ctx.States(1)
						e1, e1h := bothVerdicts(mk([]cid.Cid{cidPool[0], cidPool[1]}, a1), ld2)
						want1, _, _ := c03Ref([][]int{cs.Base[:cs.N], {d}}, a1)
						e2, e2h := bothVerdicts(mk([]cid.Cid{cidPool[2]}, a2), ld1)
						want2, _, sj := c03Ref([][]int{cs.Base}, a2)
						ctx.Eval(4)
						ctx.Trans(2)
						ctx.Outcome(errLabel(e1) + "," + errLabel(e2))
						if !want2 && sj >= cs.N {
							ctx.Nontrivial(1)
						}
						desc := fmt.Sprintf("base=%v n=%d root-statement=%d args=%s then %s", cs.Base, cs.N, d, c03.argText[a1], c03.argText[a2])
						for _, e := range []error{e1, e1h} {
							if dir == "sound" && e == nil && !want1 {
								ctx.Failf(cs, "shared-array/first-check-allowed", "%s: the first check is allowed although a statement fails", desc)
							}
							if dir == "complete" && e != nil && want1 {
								ctx.Failf(cs, "shared-array/first-check-denied", "%s: the first check is denied although every statement holds: %v", desc, e)
							}
						}
						for _, e := range []error{e2, e2h} {
							if dir == "sound" && e == nil && !want2 {
								ctx.Failf(cs, "shared-array/allowed-after-earlier-check", "%s: the second check is allowed although statement %d of its delegation fails", desc, sj)
							}
							if dir == "complete" && e != nil && want2 {
								ctx.Failf(cs, "shared-array/denied-after-earlier-check", "%s: the second check is denied although every statement holds: %v", desc, e)
							}
						}
						if got := fmt.Sprint(wide.Policy()); got != wideText {
							ctx.Failf(cs, "shared-array/policy-rewritten", "%s: the delegation built with policy %s now carries %s", desc, wideText, got)
						}
					}
				}
			}
		},
	}
}
