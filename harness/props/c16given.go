package props

import (
	"bytes"
	"fmt"

	"github.com/libp2p/go-libp2p/core/crypto"

	"github.com/ucan-wg/go-ucan/did"

	"verifharness/engine"
	"verifharness/fixtures"
)

// Keys handed in by the caller stay what they were: a key object that sits in a larger buffer (spare capacity
// behind its bytes), or that was extracted from a DID, is turned into a DID several times and used again.

type c16GivenCase struct {
	Key    int `json:"key"`    // index into fixtures.All()
	Source int `json:"source"` // 0 the generated key  1 d.PubKey()  2 ToPubKey(string)  3 unmarshalled from buf[:n] with 64 spare bytes  4 the same, raw bytes re-sliced from a 4 KiB arena
	Ops    int `json:"ops"`    // sequence of calls: see c16GivenOps
}

var c16GivenOps = [][]string{
	{"FromPubKey", "FromPubKey"},
	{"FromPubKey", "String", "FromPubKey"},
	{"FromPrivKey", "FromPubKey"},
	{"FromPubKey", "PubKey", "FromPubKey"},
	{"FromPubKey", "FromPubKey", "FromPubKey"},
}

func (c *c16GivenCase) Weight() int { return c.Source + c.Ops }

func c16GivenSub() *engine.Sub {
	return &engine.Sub{
		Name: "keys-handed-in-are-left-intact",
		Rule: "every fixture key as the caller may hold it - the generated object, the object extracted from its DID (PubKey, ToPubKey), an object unmarshalled from the first n bytes of a larger buffer (64 spare bytes of capacity behind the key; also inside a 4 KiB arena) - goes through 5 short sequences of FromPubKey / FromPrivKey / String / PubKey on the SAME key object: every DID returned is the fixture's DID, and afterwards the key object still equals the original, has the same raw bytes, still verifies a signature of its private key, and the bytes behind it in the buffer are untouched; non-trivial = sources with spare capacity",
		Bound: func(string) string {
			return fmt.Sprintf("%d keys x 5 sources x %d call sequences", len(fixtures.All()), len(c16GivenOps))
		},
		Gen: func(tier string, emit func(any) bool) {
			for k := range fixtures.All() {
				for src := 0; src < 5; src++ {
					for o := range c16GivenOps {
						if !emit(&c16GivenCase{k, src, o}) {
							return
						}
					}
				}
			}
		},
		NewCase: func() any { return &c16GivenCase{} },
		Run: func(ctx *engine.Ctx, c any) {
			cs := c.(*c16GivenCase)
			fx := fixtures.All()[cs.Key]
			if fx.Err != nil {
				return
			}
			ctx.States(1)
			var key crypto.PubKey
			var arena, guard []byte
			switch cs.Source {
			case 0:
				key = fx.Pub
			case 1:
				k, err, pan := safePubKey(fx.DID)
				if err != nil || pan != nil {
					ctx.Outcome("pubkey-error")
					return
				}
				key = k
			case 2:
				k, err, pan := safeToPubKey(fx.DID.String())
				if err != nil || pan != nil {
					ctx.Outcome("pubkey-error")
					return
				}
				key = k
			default:
				raw, err := fx.Pub.Raw()
				if err != nil {
					panic(err)
				}
				size := len(raw) + 64
				off := 0
				if cs.Source == 4 {
					size, off = 4096, 1000
				}
				arena = bytes.Repeat([]byte{0xa5}, size)
				copy(arena[off:], raw)
				guard = append([]byte{}, arena...)
				view := arena[off : off+len(raw)] // capacity reaches to the end of the arena
				switch fx.Alg {
				case "ed25519":
					key, err = crypto.UnmarshalEd25519PublicKey(view)
				case "secp256k1":
					key, err = crypto.UnmarshalSecp256k1PublicKey(view)
				case "rsa2048", "rsa3072", "rsa4096":
					key, err = crypto.UnmarshalRsaPublicKey(view)
				default:
					key, err = crypto.UnmarshalECDSAPublicKey(view)
				}
				if err != nil {
					panic(fmt.Sprintf("harness: cannot unmarshal %s key from its raw bytes: %v", fx.Alg, err))
				}
				ctx.Nontrivial(1)
			}
			raw0, _ := key.Raw()
			raw0 = append([]byte{}, raw0...)
			msg := []byte("given-key message")
			sig, err := fx.Priv.Sign(msg)
			if err != nil {
				panic(err)
			}
			var last did.DID
			for i, op := range c16GivenOps[cs.Ops] {
				ctx.Eval(1)
				ctx.Trans(1)
				switch op {
				case "FromPubKey", "FromPrivKey":
					var d did.DID
					var err error
					if op == "FromPubKey" {
						d, err = did.FromPubKey(key)
					} else {
						d, err = did.FromPrivKey(fx.Priv)
					}
					if err != nil {
						ctx.Failf(cs, "given-key/"+op+"-fails/"+fx.Alg, "call %d (%s) fails on the %s key: %v", i+1, op, fx.Alg, err)
						return
					}
					if d != fx.DID {
						ctx.Failf(cs, "given-key/did-differs/"+fx.Alg, "call %d (%s) on the same %s key object returns %.40s..., the key's DID is %.40s...", i+1, op, fx.Alg, d.String(), fx.DID.String())
						return
					}
					last = d
				case "String":
					_ = last.String()
				case "PubKey":
					safePubKey(last)
				}
				raw, _ := key.Raw()
				okSig, _ := key.Verify(msg, sig)
				if !bytes.Equal(raw, raw0) || !key.Equals(fx.Pub) || !okSig {
					ctx.Outcome("key-changed")
					ctx.Failf(cs, "given-key/key-object-changed/"+fx.Alg, "after call %d (%s) the caller's %s key object is no longer the key that was handed in (raw unchanged=%v, equals=%v, verifies=%v)", i+1, op, fx.Alg, bytes.Equal(raw, raw0), key.Equals(fx.Pub), okSig)
					return
				}
				if arena != nil && !bytes.Equal(arena, guard) {
					ctx.Outcome("buffer-changed")
					ctx.Failf(cs, "given-key/caller-buffer-written/"+fx.Alg, "after call %d (%s) the caller's buffer around the %s key has been written to", i+1, op, fx.Alg)
					return
				}
			}
			ctx.Outcome("intact")
		},
	}
}
