package props

import (
	"crypto/ecdsa"
	"crypto/x509"
	"encoding/base64"
	"fmt"

	"github.com/libp2p/go-libp2p/core/crypto"
	"github.com/multiformats/go-multicodec"

	"github.com/ucan-wg/go-ucan/did"

	"verifharness/engine"
	"verifharness/fixtures"
)

// ---- every registered multicodec in front of every kind of key material ----

type c16CodeCase struct {
	Code uint64 `json:"code"`
	Body int    `json:"body"`
}

// c16KeyBodies: key material of the fixture keys in the forms that key-carrying multicodecs use: raw / compressed
// points, PKCS#1, PKIX, and the public JWK in JCS form (what the did:key draft's jwk_jcs-pub codec carries).
func c16KeyBodies() (names []string, bodies [][]byte) {
	add := func(n string, b []byte) { names, bodies = append(names, n), append(bodies, b) }
	ed := fixtures.Get("ed25519", 0)
	raw, _ := ed.Pub.Raw()
	add("ed25519-raw", raw)
	add("ed25519-jwk", []byte(`{"crv":"Ed25519","kty":"OKP","x":"`+base64.RawURLEncoding.EncodeToString(raw)+`"}`))
	for _, alg := range []string{"p256", "p384"} {
		k := fixtures.Get(alg, 0)
		add(alg+"-compressed", canonicalBody(k))
		if pkix, err := crypto.MarshalPublicKey(k.Pub); err == nil {
			_ = pkix
		}
		if rawDer, err := k.Pub.Raw(); err == nil {
			add(alg+"-pkix", rawDer)
			if pub, err := x509.ParsePKIXPublicKey(rawDer); err == nil {
				if ec, ok := pub.(*ecdsa.PublicKey); ok {
					size := (ec.Curve.Params().BitSize + 7) / 8
					x, y := ec.X.FillBytes(make([]byte, size)), ec.Y.FillBytes(make([]byte, size))
					crv := map[string]string{"p256": "P-256", "p384": "P-384"}[alg]
					add(alg+"-jwk", []byte(`{"crv":"`+crv+`","kty":"EC","x":"`+base64.RawURLEncoding.EncodeToString(x)+`","y":"`+base64.RawURLEncoding.EncodeToString(y)+`"}`))
				}
			}
		}
	}
	rsa := fixtures.Get("rsa2048", 0)
	add("rsa-pkcs1", canonicalBody(rsa))
	add("empty", nil)
	return
}

func c16CodesSub() *engine.Sub {
	supported := map[uint64]bool{0xed: true, 0xe7: true, 0x1200: true, 0x1201: true, 0x1202: true, 0x1205: true}
	names, bodies := c16KeyBodies()
	return &engine.Sub{
		Name:   "registered-multicodecs-with-key-material",
		Repeat: true,
		Rule:   "every code of the multicodec table (go-multicodec KnownCodes, ~600 codes incl. the 3-byte ones such as jwk_jcs-pub 0xeb51, x25519-pub, bls12_381, ed448, sm2) in front of every kind of key material of the fixture keys (raw / compressed points, PKIX, PKCS#1, public JWK in JCS form, empty): did.Parse accepts only the six supported codes; whatever it accepts goes through the canonical-identifier clause (an accepted identifier from which a key can be extracted is THE identifier of that key); non-trivial = accepted",
		Bound: func(string) string {
			return fmt.Sprintf("%d registered codes x %d bodies", len(multicodec.KnownCodes()), len(bodies))
		},
		Gen: func(tier string, emit func(any) bool) {
			for _, c := range multicodec.KnownCodes() {
				for b := range bodies {
					if !emit(&c16CodeCase{Code: uint64(c), Body: b}) {
						return
					}
				}
			}
		},
		NewCase: func() any { return &c16CodeCase{} },
		Run: func(ctx *engine.Ctx, c any) {
			cs := c.(*c16CodeCase)
			s := didKeyString(uvarint(cs.Code), bodies[cs.Body])
			if _, err := did.Parse(s); err == nil && !supported[cs.Code] {
				ctx.States(1)
				ctx.Eval(1)
				ctx.Outcome("accepted-unsupported")
				ctx.Failf(cs, "parser-accepts/unsupported-multicodec", "did.Parse accepts multicodec 0x%x (%s) in front of %s", cs.Code, multicodec.Code(cs.Code), names[cs.Body])
				return
			}
			c16CheckString(ctx, cs, s, fmt.Sprintf("code-0x%x/%s", cs.Code, names[cs.Body]))
		},
	}
}

// ---- every code point in the place of the multibase prefix ----

type c16PrefixCase struct {
	Lo int `json:"lo"`
	Hi int `json:"hi"`
	R  int `json:"r,omitempty"`
}

func (c *c16PrefixCase) Weight() int { return c.Hi - c.Lo }

func c16PrefixSub() *engine.Sub {
	return &engine.Sub{
		Name:  "multibase-prefix-over-every-code-point",
		Rule:  "the canonical identifier of an Ed25519 and of a P-256 key with the multibase prefix z replaced by every other Unicode code point (1,112,063 of them; also the prefix doubled): did.Parse rejects each (base58btc, spelled z, is the only multibase of a did:key here); non-trivial = all",
		Bound: func(string) string { return "1,112,063 code points x 2 identifiers" },
		Gen: func(tier string, emit func(any) bool) {
			for lo := 0; lo < 0x110000; lo += 0x4000 {
				if !emit(&c16PrefixCase{Lo: lo, Hi: lo + 0x4000}) {
					return
				}
			}
		},
		NewCase: func() any { return &c16PrefixCase{} },
		Run: func(ctx *engine.Ctx, c any) {
			cs := c.(*c16PrefixCase)
			rests := []string{fixtures.Get("ed25519", 0).DID.String()[len("did:key:z"):], fixtures.Get("p256", 0).DID.String()[len("did:key:z"):]}
			ctx.States(1)
			one := func(r int) {
				if r == 'z' || (r >= 0xD800 && r <= 0xDFFF) {
					return
				}
				for _, rest := range rests {
					s := "did:key:" + string(rune(r)) + rest
					ctx.Eval(1)
					if _, err := did.Parse(s); err == nil {
						ctx.Outcome("accepted")
						ctx.Failf(&c16PrefixCase{Lo: cs.Lo, Hi: cs.Hi, R: r}, "parser-accepts/wrong-prefix-or-multibase", "did.Parse accepts %q: U+%04X in the place of the multibase prefix z", s, r)
						return
					}
				}
				ctx.Nontrivial(1)
			}
			if cs.R != 0 {
				one(cs.R)
				return
			}
			for r := cs.Lo; r < cs.Hi; r++ {
				one(r)
			}
			ctx.Outcome("rejected")
		},
	}
}
