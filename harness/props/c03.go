package props

import (
	"fmt"
	"strings"
	"sync"

	"github.com/ipfs/go-cid"
	"github.com/ipld/go-ipld-prime"

	"github.com/ucan-wg/go-ucan/pkg/args"
	"github.com/ucan-wg/go-ucan/pkg/policy"
	"github.com/ucan-wg/go-ucan/pkg/policy/literal"
	"github.com/ucan-wg/go-ucan/token/invocation"

	"verifharness/engine"
)

// C03 universe: 8 statements, 8 argument maps.
var c03 struct {
	once     sync.Once
	stmts    []policy.Statement
	stmtText []string
	argMaps  []map[string]any
	argText  []string
	argNodes []ipld.Node
	match    [8][8]bool // match[s][a] = real single-statement Match
	policies [][]int    // all statement sequences of length <= 2
}

func c03Init() {
	c03.once.Do(func() {
		chainInit()
		cs := []policy.Constructor{
			policy.Equal(".x", literal.Int(1)),
			policy.GreaterThan(".x", literal.Int(0)),
			policy.Equal(".y", literal.String("a")),
			policy.Like(".y", "a*"),
			policy.Not(policy.Equal(".x", literal.Int(2))),
			policy.Any(".l", policy.Equal(".", literal.Int(1))),
			policy.Equal(".z?", literal.Int(1)),
			policy.Equal(".w", literal.Int(1)),
		}
		c03.stmtText = []string{`== .x 1`, `> .x 0`, `== .y "a"`, `like .y "a*"`, `not(== .x 2)`, `any .l (== . 1)`, `== .z? 1`, `== .w 1`}
		for _, c := range cs {
			s, err := c()
			if err != nil {
				panic(err)
			}
			c03.stmts = append(c03.stmts, s)
		}
		c03.argMaps = []map[string]any{
			{},
			{"x": 1},
			{"x": 2},
			{"x": 1, "y": "a"},
			{"x": 1, "y": "ab"},
			{"x": 1, "y": "b", "l": []int{1}},
			{"x": 0, "y": "a", "l": []int{2, 1}},
			{"x": 1, "y": "a", "l": []int{0}, "z": 1},
		}
		c03.argText = []string{`{}`, `{x:1}`, `{x:2}`, `{x:1,y:"a"}`, `{x:1,y:"ab"}`, `{x:1,y:"b",l:[1]}`, `{x:0,y:"a",l:[2,1]}`, `{x:1,y:"a",l:[0],z:1}`}
		for a, m := range c03.argMaps {
			ar := c03Args(a)
			n, err := ar.ToIPLD()
			if err != nil {
				panic(err)
			}
			_ = m
			c03.argNodes = append(c03.argNodes, n)
			for s := range c03.stmts {
				ok, _ := policy.Policy{c03.stmts[s]}.Match(n)
				c03.match[s][a] = ok
			}
		}
		c03.policies = append(c03.policies, []int{})
		for a := 0; a < 8; a++ {
			c03.policies = append(c03.policies, []int{a})
		}
		for a := 0; a < 8; a++ {
			for b := 0; b < 8; b++ {
				c03.policies = append(c03.policies, []int{a, b})
			}
		}
	})
}

func c03Args(a int) *args.Args {
	ar := args.New()
	m := c03.argMaps[a]
	for _, k := range []string{"x", "y", "l", "z"} { // fixed insertion order
		if v, ok := m[k]; ok {
			if err := ar.Add(k, v); err != nil {
				panic(err)
			}
		}
	}
	return ar
}

func c03Policy(stmts []int) policy.Policy {
	p := make(policy.Policy, len(stmts))
	for i, s := range stmts {
		p[i] = c03.stmts[s]
	}
	return p
}

type c03Case struct {
	Pols   [][]int `json:"pols"`    // statement ids per link, leaf first
	Args   int     `json:"args"`    // argument map carried by the invocation
	Hook   int     `json:"hook"`    // -1: no hook; otherwise the argument map the hook returns
	NoMono bool    `json:"no_mono"` // skip the successor (monotonicity) exploration
	Layout int     `json:"layout"`  // principal layout of the chain (layoutHolder): 1, 2 = the subject also issues a link below the root
	MonoOf *[2]int `json:"mono_of"` // replay only: successor = add statement [1] to link [0] (link == len -> new root link)
}

func (c *c03Case) Weight() int {
	w := len(c.Pols)
	for _, p := range c.Pols {
		w += len(p)
	}
	return w
}

func c03Describe(pols [][]int, a int) string {
	var parts []string
	for i, p := range pols {
		var ss []string
		for _, s := range p {
			ss = append(ss, c03.stmtText[s])
		}
		parts = append(parts, fmt.Sprintf("link%d[%s]", i, strings.Join(ss, "; ")))
	}
	return strings.Join(parts, " ") + " args=" + c03.argText[a]
}

// c03Verdict executes one (chain policies, args, hook) configuration on the real code.
func c03Verdict(pols [][]int, argIdx, hook int) (error, bool) {
	return c03VerdictL(0, pols, argIdx, hook)
}

func c03VerdictL(layout int, pols [][]int, argIdx, hook int) (error, bool) {
	n := len(pols)
	if layout >= layoutCount(n) {
		layout = 0
	}
	ld := &sliceLoader{}
	prf := make([]cid.Cid, n)
	for i := 0; i < n; i++ {
		d := mustDlg(layoutHolder(layout, n, i+1), layoutHolder(layout, n, i), 0, "/a", c03Policy(pols[i]))
		ld.cids = append(ld.cids, cidPool[i])
		ld.toks = append(ld.toks, d)
		prf[i] = cidPool[i]
	}
	inv, err := invocation.New(prin(layoutHolder(layout, n, 0)), prin(0), "/a", prf,
		invocation.WithNonce(fixedNonce), invocation.WithoutInvokedAt(), invocation.WithArguments(c03Args(argIdx)))
	if err != nil {
		panic(err)
	}
	if hook < 0 {
		return inv.ExecutionAllowed(ld), true
	}
	sawTokenArgs := false
	e := inv.ExecutionAllowedWithArgsHook(ld, func(a args.ReadOnly) (*args.Args, error) {
		sawTokenArgs = a.Equals(c03Args(argIdx).ReadOnly())
		return c03Args(hook), nil
	})
	return e, sawTokenArgs
}

func c03Ref(pols [][]int, a int) (bool, int, int) {
	for i, p := range pols {
		for j, s := range p {
			if !c03.match[s][a] {
				return false, i, j
			}
		}
	}
	return true, -1, -1
}

func c03Run(dir string) func(ctx *engine.Ctx, c any) {
	return func(ctx *engine.Ctx, c any) {
		cs := c.(*c03Case)
		n := len(cs.Pols)
		eff := cs.Args
		if cs.Hook >= 0 {
			eff = cs.Hook
		}
		ctx.States(1)
		e, saw := c03VerdictL(cs.Layout, cs.Pols, cs.Args, cs.Hook)
		ctx.Eval(1)
		ctx.Outcome(errLabel(e))
		want, li, sj := c03Ref(cs.Pols, eff)
		nstm := 0
		for _, p := range cs.Pols {
			nstm += len(p)
		}
		if nstm > 0 {
			ctx.Nontrivial(1)
		}
		_ = saw // (what the hook receives is not decided by the property; only what it returns is)
		if dir == "sound" && e == nil && !want {
			pos := "inner"
			switch {
			case li == 0:
				pos = "leaf"
			case li == n-1:
				pos = "root"
			}
			cls := fmt.Sprintf("policy-not-enforced@%s-link/stmt%d", pos, sj)
			if cs.Hook >= 0 {
				cls = "hook/" + cls
			}
			ctx.Failf(cs, cls, "allowed although statement %d of link %d (%s) is not satisfied: %s (hook args: %d)", sj, li, c03.stmtText[cs.Pols[li][sj]], c03Describe(cs.Pols, cs.Args), cs.Hook)
		}
		if dir == "complete" && e != nil && want {
			cls := "denied-satisfied-policies:" + errLabel(e)
			if cs.Hook >= 0 {
				cls = "hook/" + cls
			}
			ctx.Failf(cs, cls, "denied although every statement of every link is satisfied: %s (hook args: %d): %v", c03Describe(cs.Pols, cs.Args), cs.Hook, e)
		}
		// Monotonicity along transitions: from a denied state, adding a statement to any
		// link or adding a link never yields an allowed state.
		if dir != "sound" || cs.NoMono || cs.Hook >= 0 || e == nil {
			return
		}
		succ := func(link, stmt int) {
			var np [][]int
			for _, p := range cs.Pols {
				np = append(np, append([]int{}, p...))
			}
			if link == n {
				if stmt < 0 {
					np = append(np, []int{})
				} else {
					np = append(np, []int{stmt})
				}
			} else {
				np[link] = append(np[link], stmt)
			}
			e2, _ := c03VerdictL(cs.Layout, np, cs.Args, -1)
			ctx.Eval(1)
			ctx.Trans(1)
			if e2 == nil {
				mo := [2]int{link, stmt}
				ctx.Failf(&c03Case{Pols: cs.Pols, Args: cs.Args, Hook: -1, MonoOf: &mo, Layout: cs.Layout}, "not-monotone",
					"denied state %s becomes allowed after adding statement %d to link %d", c03Describe(cs.Pols, cs.Args), stmt, link)
			}
		}
		if cs.MonoOf != nil {
			succ(cs.MonoOf[0], cs.MonoOf[1])
			return
		}
		for link := 0; link < n; link++ {
			if len(cs.Pols[link]) >= 2 {
				continue
			}
			for s := 0; s < 8; s++ {
				succ(link, s)
			}
		}
		if n < 3 {
			for s := -1; s < 8; s++ {
				succ(n, s)
			}
		}
	}
}

func c03Sub(name, dir string) *engine.Sub {
	return &engine.Sub{
		Name: name,
		Rule: "every distribution of policies (sequences of <=2 statements out of 8 kinds) over the links of an aligned chain (every principal layout: straight; the subject re-delegating to itself on top; authority passing through the subject in mid-chain) x 8 argument maps; verdict compared with the conjunction of the real single-statement Match results; successors (one more statement / one more link) of denied states must stay denied; non-trivial = chain carries at least one statement",
		Bound: func(t string) string {
			if t == "thorough" {
				return "chains of 1..3 links with full 73-policy alphabet per link, 8 argument maps; successors for chains <=2 links"
			}
			return "chains of 1..2 links with full 73-policy alphabet per link, 3 links with <=1 statement per link, 8 argument maps"
		},
		Setup: func(string) error { c03Init(); return nil },
		Gen: func(tier string, emit func(any) bool) {
			np := len(c03.policies)
			for a := 0; a < 8; a++ {
				for p0 := 0; p0 < np; p0++ {
					if !emit(&c03Case{Pols: [][]int{c03.policies[p0]}, Args: a, Hook: -1}) {
						return
					}
				}
			}
			for a := 0; a < 8; a++ {
				for p0 := 0; p0 < np; p0++ {
					for p1 := 0; p1 < np; p1++ {
						for lay := 0; lay < layoutCount(2); lay++ {
							if !emit(&c03Case{Pols: [][]int{c03.policies[p0], c03.policies[p1]}, Args: a, Hook: -1, Layout: lay, NoMono: lay > 0}) {
								return
							}
						}
					}
				}
			}
			lim := 9
			if tier == "thorough" {
				lim = np
			}
			for a := 0; a < 8; a++ {
				for p0 := 0; p0 < lim; p0++ {
					for p1 := 0; p1 < lim; p1++ {
						for p2 := 0; p2 < lim; p2++ {
							for lay := 0; lay < layoutCount(3); lay++ {
								if lay > 0 && tier == "thorough" && (p0 > 8 || p1 > 8 || p2 > 8) {
									continue
								}
								if !emit(&c03Case{Pols: [][]int{c03.policies[p0], c03.policies[p1], c03.policies[p2]}, Args: a, Hook: -1, NoMono: tier == "thorough" || lay > 0, Layout: lay}) {
									return
								}
							}
						}
					}
				}
			}
		},
		NewCase: func() any { return &c03Case{Hook: -1} },
		Run:     c03Run(dir),
	}
}

func c03HookSub(name, dir string) *engine.Sub {
	return &engine.Sub{
		Name: name,
		Rule: "ExecutionAllowedWithArgsHook with every pair (token arguments, hook-returned arguments) out of 8x8: the verdict must be the one of the hook-returned arguments; non-trivial = the two argument maps differ",
		Bound: func(t string) string {
			if t == "thorough" {
				return "chains of 1..2 links, 73 policies per link, 64 argument pairs"
			}
			return "1 link with 73 policies, 2 links with <=1 statement per link, 64 argument pairs"
		},
		Setup: func(string) error { c03Init(); return nil },
		Gen: func(tier string, emit func(any) bool) {
			np := len(c03.policies)
			for a := 0; a < 8; a++ {
				for h := 0; h < 8; h++ {
					for p0 := 0; p0 < np; p0++ {
						if !emit(&c03Case{Pols: [][]int{c03.policies[p0]}, Args: a, Hook: h}) {
							return
						}
					}
					lim := 9
					if tier == "thorough" {
						lim = np
					}
					for p0 := 0; p0 < lim; p0++ {
						for p1 := 0; p1 < lim; p1++ {
							if !emit(&c03Case{Pols: [][]int{c03.policies[p0], c03.policies[p1]}, Args: a, Hook: h}) {
								return
							}
						}
					}
				}
			}
		},
		NewCase: func() any { return &c03Case{Hook: -1} },
		Run: func(ctx *engine.Ctx, c any) {
			cs := c.(*c03Case)
			if cs.Hook != cs.Args {
				// counted inside c03Run via Nontrivial only when statements exist; keep that rule
			}
			c03Run(dir)(ctx, c)
		},
	}
}

type c03SeqCase struct {
	Pols [][]int `json:"pols"`
	Args int     `json:"args"`
	Seq  []int   `json:"seq"` // -1 = ExecutionAllowed, h>=0 = ExecutionAllowedWithArgsHook returning argument map h
}

func (c *c03SeqCase) Weight() int { return len(c.Seq) + len(c.Pols) }

// c03SeqSub: histories on ONE token value. Every check must be decided on the
// arguments of that call, whatever was checked before on the same token.
func c03SeqSub(name, dir string) *engine.Sub {
	return &engine.Sub{
		Name: name,
		Rule: "sequences of two (quick) or three (thorough) authorization checks on the SAME invocation token, each check being ExecutionAllowed, ExecutionAllowedWithArgsHook with one of 8 hook-returned argument maps, or ExecutionAllowed with a loader that cannot load one of the proofs (refused; the delegation then 'arrives' for the next check): every check's verdict must be the one the reference gives for the arguments effective in that call (no memo of arguments or verdicts across calls); non-trivial = sequences whose effective arguments differ between calls",
		Bound: func(t string) string {
			return fmt.Sprintf("1 link with 73 policies (+2 links with <=1 statement each), 8 token argument maps, all sequences of %d checks out of 9 + number of links", tierN(t, 2, 3))
		},
		Setup: func(string) error { c03Init(); return nil },
		Gen: func(tier string, emit func(any) bool) {
			n := tierN(tier, 2, 3)
			var polSets [][][]int
			for _, p := range c03.policies {
				polSets = append(polSets, [][]int{p})
			}
			for p0 := 0; p0 < 9; p0++ {
				for p1 := 0; p1 < 9; p1++ {
					polSets = append(polSets, [][]int{c03.policies[p0], c03.policies[p1]})
				}
			}
			for _, ps := range polSets {
				for a := 0; a < 8; a++ {
					seq := make([]int, n)
					for i := range seq {
						seq[i] = -1
					}
					// step alphabet: -1 = ExecutionAllowed; 0..7 = hook returning that argument map;
					// 8+k = ExecutionAllowed with a loader that cannot load proof k (the delegation "arrives later")
					top := 8 + len(ps)
					for {
						if !emit(&c03SeqCase{Pols: ps, Args: a, Seq: append([]int{}, seq...)}) {
							return
						}
						i := n - 1
						for i >= 0 {
							seq[i]++
							if seq[i] < top {
								break
							}
							seq[i] = -1
							i--
						}
						if i < 0 {
							break
						}
					}
				}
			}
		},
		NewCase: func() any { return &c03SeqCase{} },
		Run: func(ctx *engine.Ctx, c any) {
			cs := c.(*c03SeqCase)
			n := len(cs.Pols)
			ld := &sliceLoader{}
			prf := make([]cid.Cid, n)
			for i := 0; i < n; i++ {
				ld.cids = append(ld.cids, cidPool[i])
				ld.toks = append(ld.toks, mustDlg(alignedHolder(n, i+1), alignedHolder(n, i), 0, "/a", c03Policy(cs.Pols[i])))
				prf[i] = cidPool[i]
			}
			inv, err := invocation.New(prin(alignedHolder(n, 0)), prin(0), "/a", prf,
				invocation.WithNonce(fixedNonce), invocation.WithoutInvokedAt(), invocation.WithArguments(c03Args(cs.Args)))
			if err != nil {
				panic(err)
			}
			ctx.States(1)
			distinct := map[int]bool{}
			for k, step := range cs.Seq {
				eff := cs.Args
				var e error
				if step >= 8 {
					// a loader that lacks proof (step-8): the check must be refused, whatever happened before,
					// and must not leave anything behind that a later check with a complete loader would use
					miss := step - 8
					part := &sliceLoader{}
					for i := range ld.cids {
						if i != miss {
							part.cids = append(part.cids, ld.cids[i])
							part.toks = append(part.toks, ld.toks[i])
						}
					}
					e = inv.ExecutionAllowed(part)
					ctx.Eval(1)
					ctx.Trans(1)
					ctx.Outcome(errLabel(e))
					if dir == "sound" && e == nil {
						ctx.Failf(cs, "allowed-without-delegation", "check #%d of sequence %v on one token is allowed although the loader cannot load proof %d", k, cs.Seq, miss)
					}
					distinct[-2-miss] = true
					continue
				}
				if step < 0 {
					e = inv.ExecutionAllowed(ld)
				} else {
					eff = step
					h := step
					e = inv.ExecutionAllowedWithArgsHook(ld, func(args.ReadOnly) (*args.Args, error) { return c03Args(h), nil })
				}
				distinct[eff] = true
				ctx.Eval(1)
				ctx.Trans(1)
				ctx.Outcome(errLabel(e))
				want, li, sj := c03Ref(cs.Pols, eff)
				if dir == "sound" && e == nil && !want {
					ctx.Failf(cs, "stale-arguments/allowed-on-earlier-arguments", "check #%d of sequence %v on one token (token args %s) is allowed although statement %d of link %d fails on the arguments of this call (%s)", k, cs.Seq, c03.argText[cs.Args], sj, li, c03.argText[eff])
				}
				if dir == "complete" && e != nil && want {
					ctx.Failf(cs, "stale-arguments/denied-on-earlier-arguments", "check #%d of sequence %v on one token is denied although the arguments of this call (%s) satisfy every statement: %v", k, cs.Seq, c03.argText[eff], e)
				}
			}
			if len(distinct) > 1 {
				ctx.Nontrivial(1)
			}
		},
	}
}

func C03() *engine.Check {
	return &engine.Check{
		Property: "C03",
		Level:    "model_checking",
		Subs:     []*engine.Sub{c03Sub("policy-aggregation", "sound"), c03HookSub("args-hook", "sound"), c03SeqSub("same-token-sequences", "sound"), c03SharedSub("policies-sharing-one-array", "sound"), c03DenySub("sound"), c03ValuesSub("sound"), c03TwinsSub(), c03ManySelSub(), c03DeepSub(), longChainSub("C03"), c03ConcSub(), concRaceSub("C03")},
		Assumptions: []string{
			"statement semantics are taken from the real single-statement Policy.Match (C11 decides those); C03 decides aggregation over links and statements",
			"principals aligned, commands equal, no time bounds: only the policy stage can deny",
		},
	}
}
