package props

import (
	"bytes"
	"crypto/rand"
	"encoding/base64"
	"encoding/hex"
	"fmt"
	verifclock "github.com/ucan-wg/go-ucan/verifshim/clock"
	"io"
	"sync"
	"time"

	"github.com/ipfs/go-cid"

	"github.com/ucan-wg/go-ucan/pkg/meta"
	"github.com/ucan-wg/go-ucan/token"
	"github.com/ucan-wg/go-ucan/token/delegation"
	"github.com/ucan-wg/go-ucan/token/invocation"

	"verifharness/engine"
	"verifharness/fixtures"
)

// counterReader is a deterministic stand-in for crypto/rand.Reader: a running
// counter stream that remembers what it handed out.
type counterReader struct {
	mu   sync.Mutex
	next uint64
	log  []byte
}

func (c *counterReader) Read(p []byte) (int, error) {
	c.mu.Lock()
	defer c.mu.Unlock()
	for i := range p {
		c.next = c.next*6364136223846793005 + 1442695040888963407
		p[i] = byte(c.next >> 56)
	}
	c.log = append(c.log, p...)
	return len(p), nil
}

func (c *counterReader) consumed() []byte {
	c.mu.Lock()
	defer c.mu.Unlock()
	return append([]byte{}, c.log...)
}

// withCounterRand swaps crypto/rand.Reader for the duration of f.
func withCounterRand(seed uint64, f func(cr *counterReader)) {
	old := rand.Reader
	cr := &counterReader{next: seed}
	rand.Reader = cr
	defer func() { rand.Reader = old }()
	f(cr)
}

var _ io.Reader = (*counterReader)(nil)

var c19Key = func() []byte {
	k := make([]byte, 32)
	for i := range k {
		k[i] = byte(0x30 + i)
	}
	return k
}()

func c19Plain(length int, pattern string) []byte {
	p := make([]byte, length)
	switch pattern {
	case "zero":
	case "ff":
		for i := range p {
			p[i] = 0xff
		}
	case "counter":
		for i := range p {
			p[i] = byte(i*7 + 3)
		}
	case "key":
		for i := range p {
			p[i] = c19Key[i%32]
		}
	}
	return p
}

type c19Case struct {
	Len     int    `json:"len"`
	Pattern string `json:"pattern"`
	AsStr   bool   `json:"as_string"`
	Part    string `json:"part"`           // roundtrip | wrongkeys | ciphertext-mods | tokens
	Only    int    `json:"only,omitempty"` // replay: a single modification index (+1), 0 = all
}

var c19Lengths = []int{0, 1, 15, 16, 17, 31, 32, 33, 64, 255, 1024, 4096, 16384, 16385, 65537}
var c19Patterns = []string{"zero", "ff", "counter", "key"}

func c19Add(m *meta.Meta, key string, pt []byte, asStr bool, k []byte) error {
	if asStr {
		return m.AddEncrypted(key, string(pt), k)
	}
	return m.AddEncrypted(key, pt, k)
}

func c19Get(m *meta.Meta, key string, asStr bool, k []byte) ([]byte, error) {
	if asStr {
		s, err := m.GetEncryptedString(key, k)
		return []byte(s), err
	}
	return m.GetEncryptedBytes(key, k)
}

func c19BadKeys(tier string) map[string][]byte {
	r := map[string][]byte{
		"nil": nil, "empty": {}, "16-bytes": bytes.Repeat([]byte{1}, 16), "31-bytes": bytes.Repeat([]byte{1}, 31),
		"33-bytes": bytes.Repeat([]byte{1}, 33), "64-bytes": bytes.Repeat([]byte{1}, 64), "all-zero": make([]byte, 32),
	}
	// text forms of a 32-byte key and near misses of the right key: a key is 32 raw bytes, nothing else
	r["base64std-text-of-the-key"] = []byte(base64.StdEncoding.EncodeToString(c19Key))
	r["base64url-text-of-the-key"] = []byte(base64.URLEncoding.EncodeToString(c19Key))
	r["base64raw-text-of-the-key"] = []byte(base64.RawStdEncoding.EncodeToString(c19Key))
	r["base64std-text-of-the-zero-key"] = []byte(base64.StdEncoding.EncodeToString(make([]byte, 32)))
	r["hex-text-of-the-key"] = []byte(hex.EncodeToString(c19Key))
	r["the-key-plus-NUL"] = append(append([]byte{}, c19Key...), 0)
	r["the-key-plus-newline"] = append(append([]byte{}, c19Key...), '\n')
	r["the-key-twice"] = append(append([]byte{}, c19Key...), c19Key...)
	r["first-31-bytes-of-the-key"] = append([]byte{}, c19Key[:31]...)
	r["NUL-plus-the-key"] = append([]byte{0}, c19Key...)
	return r
}

func c19OtherKeys(tier string) map[string][]byte {
	r := map[string][]byte{"all-ones": bytes.Repeat([]byte{0xff}, 32), "reversed": reverse(c19Key)}
	step := 32
	if tier == "thorough" {
		step = 1
	}
	for bit := 0; bit < 256; bit += step {
		k := append([]byte{}, c19Key...)
		k[bit/8] ^= 1 << uint(bit%8)
		r[fmt.Sprintf("bit-%d-flipped", bit)] = k
	}
	return r
}

func C19() *engine.Check {
	gen := func(part string, lens []int) func(string, func(any) bool) {
		return func(tier string, emit func(any) bool) {
			for _, l := range lens {
				for _, p := range c19Patterns {
					if l == 0 && p != "zero" {
						continue
					}
					for _, s := range []bool{false, true} {
						if l > 1024 && part == "ciphertext-mods" && (p != "counter" || s) {
							continue // one large plaintext per length is enough for the modification table
						}
						if !emit(&c19Case{Len: l, Pattern: p, AsStr: s, Part: part}) {
							return
						}
					}
				}
			}
		}
	}
	run := func(ctx *engine.Ctx, c any) {
		cs := c.(*c19Case)
		pt := c19Plain(cs.Len, cs.Pattern)
		ctx.States(1)
		ctx.Nontrivial(1)
		withCounterRand(uint64(cs.Len)*31+uint64(len(cs.Pattern)), func(cr *counterReader) {
			m := meta.NewMeta()
			before := len(cr.consumed())
			if err := c19Add(m, "k", pt, cs.AsStr, c19Key); err != nil {
				ctx.Outcome("add-error")
				ctx.Failf(cs, "add-fails", "AddEncrypted(len %d) with a valid key fails: %v", cs.Len, err)
				return
			}
			ctx.Eval(1)
			stored, err := m.GetBytes("k")
			if err != nil {
				ctx.Failf(cs, "stored-not-bytes", "the encrypted value is not stored as bytes: %v", err)
				return
			}
			used := cr.consumed()[before:]
			switch cs.Part {
			case "roundtrip":
				got, err := c19Get(m, "k", cs.AsStr, c19Key)
				ctx.Eval(1)
				ctx.Trans(1)
				if err != nil || !bytes.Equal(got, pt) {
					ctx.Outcome("roundtrip-fails")
					ctx.Failf(cs, "roundtrip/"+lenClass19(cs.Len), "plaintext of length %d does not come back with the same key: err=%v equal=%v", cs.Len, err, bytes.Equal(got, pt))
				} else {
					ctx.Outcome("roundtrip-ok")
				}
				// the other accessor sees the same plaintext
				got2, err := c19Get(m, "k", !cs.AsStr, c19Key)
				if err != nil || !bytes.Equal(got2, pt) {
					ctx.Failf(cs, "roundtrip-other-accessor", "string/bytes accessors disagree for length %d: %v", cs.Len, err)
				}
				if len(stored) != len(pt)+40 {
					ctx.Failf(cs, "ciphertext-size", "stored value has %d bytes for a %d byte plaintext (want +40)", len(stored), len(pt))
				}
				// (how many random bytes a call draws is an implementation choice; what the property
				// needs - distinct ciphertexts, also across RNG failures - is checked by the
				// encryption-sequences sub-check)
				_ = used
				if cs.Len >= 16 && bytes.Contains(stored, pt) {
					ctx.Failf(cs, "plaintext-in-stored-value", "the stored value contains the plaintext (length %d)", cs.Len)
				}
				if cs.Len >= 16 && bytes.Contains(stored, pt[:16]) {
					ctx.Failf(cs, "plaintext-in-stored-value", "the stored value contains the first 16 plaintext bytes (length %d)", cs.Len)
				}
				m2 := meta.NewMeta()
				if err := c19Add(m2, "k", pt, cs.AsStr, c19Key); err != nil {
					ctx.Failf(cs, "add-fails", "second AddEncrypted fails: %v", err)
					return
				}
				stored2, _ := m2.GetBytes("k")
				ctx.Eval(1)
				if bytes.Equal(stored, stored2) {
					ctx.Failf(cs, "encryption-deterministic", "two encryptions of the same value under the same key are identical (length %d)", cs.Len)
				}
				if len(stored2) >= 24 && bytes.Equal(stored[:24], stored2[:24]) {
					ctx.Failf(cs, "nonce-reused", "two encryptions use the same nonce")
				}
			case "wrongkeys":
				i := 0
				for name, k := range c19OtherKeys(ctx.Tier) {
					i++
					ctx.Eval(1)
					ctx.Trans(1)
					got, err := c19Get(m, "k", cs.AsStr, k)
					if err == nil {
						ctx.Outcome("wrong-key-accepted")
						ctx.Failf(cs, "wrong-key-returns-data", "reading with a different key (%s) returns data (%d bytes) instead of an error", name, len(got))
					} else {
						ctx.Outcome("wrong-key-rejected")
					}
				}
				// wrong-size keys DERIVED from a valid key: a key whose tail is zero, truncated, or a
				// valid key extended by extra bytes, must be refused (not zero-padded / truncated to fit)
				k0 := append(append([]byte{}, c19Key[:16]...), make([]byte, 16)...)
				m0 := meta.NewMeta()
				if err := c19Add(m0, "k", pt, cs.AsStr, k0); err != nil {
					ctx.Failf(cs, "add-fails", "AddEncrypted with a valid key whose second half is zero fails: %v", err)
				} else {
					derived := map[string][]byte{"first-16-bytes-of-key": k0[:16], "first-31-bytes-of-key": k0[:31], "key-plus-one-byte": append(append([]byte{}, k0...), 0), "key-plus-32-bytes": append(append([]byte{}, k0...), k0...)}
					for name, k := range derived {
						ctx.Eval(2)
						if got, err := c19Get(m0, "k", cs.AsStr, k); err == nil {
							ctx.Failf(cs, "wrong-size-key-accepted-by-get/"+name, "Get with the %s (%d bytes) decrypts %d bytes", name, len(k), len(got))
						}
						m5 := meta.NewMeta()
						if err := c19Add(m5, "k", pt, cs.AsStr, k); err == nil {
							ctx.Failf(cs, "wrong-size-key-accepted-by-add/"+name, "AddEncrypted accepts the %s (%d bytes)", name, len(k))
						}
					}
				}
				for name, k := range c19BadKeys(ctx.Tier) {
					ctx.Eval(2)
					ctx.Trans(1)
					if _, err := c19Get(m, "k", cs.AsStr, k); err == nil {
						ctx.Failf(cs, "bad-key-accepted-by-get/"+name, "Get with a %s key returns data", name)
					}
					m3 := meta.NewMeta()
					if err := c19Add(m3, "k", pt, cs.AsStr, k); err == nil {
						ctx.Outcome("bad-key-accepted")
						ctx.Failf(cs, "bad-key-accepted-by-add/"+name, "AddEncrypted with a %s key succeeds", name)
					} else {
						ctx.Outcome("bad-key-refused")
					}
				}
			case "ciphertext-mods":
				idx := 0
				try := func(kind string, mod []byte) {
					idx++
					if cs.Only != 0 && cs.Only != idx {
						return
					}
					m4 := meta.NewMeta()
					if err := m4.Add("k", mod); err != nil {
						panic(err)
					}
					ctx.Eval(1)
					ctx.Trans(1)
					got, err := c19Get(m4, "k", cs.AsStr, c19Key)
					if err == nil {
						ctx.Outcome("modified-accepted")
						rc := *cs
						rc.Only = idx
						ctx.Failf(&rc, "modified-ciphertext-returns-data/"+kind, "a stored ciphertext with a %s decrypts to %d bytes instead of failing", kind, len(got))
					} else {
						ctx.Outcome("modified-rejected")
					}
				}
				for bit := 0; bit < len(stored)*8; bit++ {
					mod := append([]byte{}, stored...)
					mod[bit/8] ^= 1 << uint(bit%8)
					region := "bit-flip-in-body"
					if bit/8 < 24 {
						region = "bit-flip-in-nonce"
					} else if bit/8 < 40 {
						region = "bit-flip-in-tag"
					}
					try(region, mod)
				}
				for n := 0; n < len(stored); n++ {
					try("truncation", append([]byte{}, stored[:n]...))
				}
				try("extension", append(append([]byte{}, stored...), 0))
				try("extension", append([]byte{0}, stored...))
				// the same bytes in another order: every rotation (k = 24 moves the nonce behind the box, k = len-16 the tag in
				// front), the nonce / tag / body parts in every other order, the whole reversed
				for k := 1; k < len(stored); k++ {
					if n := len(stored); n > 1200 && !(k <= 64 || k >= n-64 || k%251 == 0) {
						continue // long values: the rotations near both ends (nonce, tag, last block) and every 251st in between
					}
					kind := "rotation"
					if k == 24 {
						kind = "rotation/nonce-moved-behind-the-box"
					}
					if rot := append(append([]byte{}, stored[k:]...), stored[:k]...); !bytes.Equal(rot, stored) {
						try(kind, rot)
					}
				}
				if len(stored) >= 40 {
					parts := [3][]byte{stored[:24], stored[24:40], stored[40:]}
					for _, perm := range [][3]int{{0, 2, 1}, {1, 0, 2}, {1, 2, 0}, {2, 0, 1}, {2, 1, 0}} {
						var mod []byte
						for _, i := range perm {
							mod = append(mod, parts[i]...)
						}
						if !bytes.Equal(mod, stored) {
							try("parts-reordered", mod)
						}
					}
					try("reversed", reverse(stored))
				}
			}
		})
	}
	mk := func(name, part, rule string, lens func(tier string) []int) *engine.Sub {
		return &engine.Sub{
			Name: name, Rule: rule, Serial: true,
			Bound: func(t string) string {
				return fmt.Sprintf("plaintext lengths %v x 4 patterns x {string, bytes}", lens(t))
			},
			Gen:     func(tier string, emit func(any) bool) { gen(part, lens(tier))(tier, emit) },
			NewCase: func() any { return &c19Case{} },
			Run:     run,
		}
	}
	all := func(string) []int { return c19Lengths }
	modLens := func(t string) []int {
		if t == "thorough" {
			return c19Lengths
		}
		return []int{0, 1, 16, 33, 64, 16385}
	}
	return &engine.Check{
		Property: "C19",
		Level:    "model_checking",
		Subs: []*engine.Sub{
			mk("roundtrip-and-confidentiality", "roundtrip", "every plaintext (11 lengths x 4 patterns incl. one containing the key) x {string, []byte} entry point with crypto/rand replaced by a counter stream: same key returns the plaintext through both accessors; stored value has len+40 bytes; plaintext (len>=16) not contained in the stored value; two encryptions differ and use different nonces; non-trivial = all", all),
			mk("wrong-and-invalid-keys", "wrongkeys", "every plaintext x every other key (single-bit flips of the key: 8 in quick, all 256 in thorough; all-ones; reversed) must fail to decrypt; nil, empty, 16/31/33/64-byte and all-zero keys are refused by both AddEncrypted and GetEncrypted*; non-trivial = all", all),
			mk("ciphertext-modifications", "ciphertext-mods", "every single-bit flip of the stored value (nonce, tag and body regions), every truncation length, a 1-byte extension at either end, every rotation of the stored bytes (the nonce moved behind the box, the tag moved in front, ...), the nonce / tag / body parts in every other order and the reversed value must make decryption fail; non-trivial = all", modLens),
			c19TokenSub(),
			c19BigSub(),
			c19ShortRandSub(),
			c19SeqSub(),
			c19ReadSeqSub(),
			c19PrefixSub(),
			c19KeyBufSub(),
			c19OddKeySub(),
			c19ConcSub(), concRaceSub("C19"),
		},
		Assumptions: []string{
			"semantic security of NaCl secretbox (XSalsa20-Poly1305) is assumed, not checked",
			"crypto/rand.Reader is a package variable; the harness swaps it for a counter stream so that nonce freshness is observable (sub-checks run serially)",
		},
	}
}

// failingRand hands out counter bytes but fails on the failAt-th Read call (1-based; 0 = never).
type failingRand struct {
	cr     *counterReader
	calls  int
	failAt int
}

func (f *failingRand) Read(p []byte) (int, error) {
	f.calls++
	if f.calls == f.failAt {
		return 0, fmt.Errorf("verif: injected RNG failure")
	}
	return f.cr.Read(p)
}

type c19SeqCase struct {
	FailAt int  `json:"fail_at"` // RNG read call that fails (0 = none)
	N      int  `json:"n"`
	AsStr  bool `json:"as_string"`
	Len    int  `json:"len"`
}

// c19SeqSub: histories of encryptions and reads on the same process state.
func c19SeqSub() *engine.Sub {
	return &engine.Sub{
		Name:   "encryption-sequences",
		Serial: true,
		Rule:   "histories: N encryptions of the same value under the same key, with the random source failing at its k-th read for every k in 0..N+2 (0 = never): a call either returns an error or stores a value; all stored values and all their 24-byte nonces are pairwise distinct (also those produced after the failure), and each decrypts to the plaintext. Then every value is read with GetEncryptedBytes, the results are kept, and after all reads each kept result still equals the plaintext (a returned slice must not alias a reused buffer); non-trivial = all",
		Bound: func(t string) string {
			return fmt.Sprintf("N=%d encryptions x every RNG failure position x {string, bytes} x plaintext lengths {16, 200}", tierN(t, 40, 80))
		},
		Gen: func(tier string, emit func(any) bool) {
			n := tierN(tier, 40, 80)
			for _, l := range []int{16, 200} {
				for _, str := range []bool{false, true} {
					for k := 0; k <= n+2; k++ {
						if !emit(&c19SeqCase{FailAt: k, N: n, AsStr: str, Len: l}) {
							return
						}
					}
				}
			}
		},
		NewCase: func() any { return &c19SeqCase{} },
		Run: func(ctx *engine.Ctx, c any) {
			cs := c.(*c19SeqCase)
			ctx.States(1)
			ctx.Nontrivial(1)
			old := rand.Reader
			fr := &failingRand{cr: &counterReader{next: uint64(cs.FailAt)*977 + 5}, failAt: cs.FailAt}
			rand.Reader = fr
			defer func() { rand.Reader = old }()
			m := meta.NewMeta()
			seen := map[string]int{}
			nonces := map[string]int{}
			var keys []string
			pts := map[string][]byte{}
			for i := 0; i < cs.N; i++ {
				key := fmt.Sprintf("k%d", i)
				pt := c19Plain(cs.Len, "counter")
				pt[0] = byte(i) // distinct plaintexts for the read-back part; equal ones below
				if i%2 == 0 {
					pt = c19Plain(cs.Len, "counter") // the same value every second time
				}
				err := c19Add(m, key, pt, cs.AsStr, c19Key)
				ctx.Eval(1)
				ctx.Trans(1)
				if err != nil {
					ctx.Outcome("add-error-after-rng-failure")
					if cs.FailAt == 0 {
						ctx.Failf(cs, "add-fails", "AddEncrypted fails without an RNG failure: %v", err)
					}
					continue
				}
				ctx.Outcome("stored")
				stored, _ := m.GetBytes(key)
				keys = append(keys, key)
				pts[key] = pt
				if j, dup := seen[string(stored)]; dup {
					ctx.Failf(cs, "identical-ciphertexts", "encryption #%d produced exactly the same stored value as encryption #%d (RNG failure at read %d)", i, j, cs.FailAt)
					return
				}
				seen[string(stored)] = i
				if len(stored) >= 24 {
					if j, dup := nonces[string(stored[:24])]; dup {
						ctx.Failf(cs, "nonce-reused", "encryption #%d reuses the nonce of encryption #%d (RNG failure at read %d)", i, j, cs.FailAt)
						return
					}
					nonces[string(stored[:24])] = i
				}
			}
			kept := map[string][]byte{}
			for _, k := range keys {
				got, err := m.GetEncryptedBytes(k, c19Key)
				ctx.Eval(1)
				if err != nil || !bytes.Equal(got, pts[k]) {
					ctx.Failf(cs, "sequence-roundtrip", "value %s does not decrypt to its plaintext: %v", k, err)
					return
				}
				kept[k] = got
			}
			// the key is given as a byte slice: what counts is its content at the time of the call,
			// not the identity of the buffer (a caller may rotate or wipe a key buffer in place)
			if cs.FailAt == 0 {
				buf := append([]byte{}, c19Key...)
				k2 := reverse(c19Key)
				pt := c19Plain(cs.Len, "ff")
				mb := meta.NewMeta()
				if err := c19Add(mb, "v1", pt, cs.AsStr, buf); err != nil {
					ctx.Failf(cs, "add-fails", "AddEncrypted fails: %v", err)
					return
				}
				copy(buf, k2) // rotate in place
				if err := c19Add(mb, "v2", pt, cs.AsStr, buf); err != nil {
					ctx.Failf(cs, "add-fails", "AddEncrypted after rotating the key buffer fails: %v", err)
					return
				}
				if got, err := c19Get(mb, "v2", cs.AsStr, k2); err != nil || !bytes.Equal(got, pt) {
					ctx.Failf(cs, "key-buffer-identity/value-not-readable-with-current-key", "a value added after the key buffer was overwritten with k2 cannot be read with k2: %v", err)
				}
				if _, err := c19Get(mb, "v2", cs.AsStr, c19Key); err == nil {
					ctx.Failf(cs, "key-buffer-identity/readable-with-previous-key", "a value added after the key buffer was overwritten with k2 reads with the previous key k1")
				}
				if _, err := c19Get(mb, "v1", cs.AsStr, buf); err == nil {
					ctx.Failf(cs, "key-buffer-identity/old-value-readable-with-rotated-buffer", "a value encrypted under k1 reads with the same buffer now holding k2")
				}
				for i := range buf {
					buf[i] = 0 // wipe
				}
				if err := c19Add(mb, "v3", pt, cs.AsStr, buf); err == nil {
					ctx.Failf(cs, "key-buffer-identity/wiped-key-accepted", "AddEncrypted accepts a key buffer that was wiped to all zeros after an earlier successful call")
				}
				if _, err := c19Get(mb, "v2", cs.AsStr, buf); err == nil {
					ctx.Failf(cs, "key-buffer-identity/wiped-key-accepted", "GetEncrypted accepts a key buffer that was wiped to all zeros")
				}
			}
			for _, k := range keys {
				if !bytes.Equal(kept[k], pts[k]) {
					ctx.Outcome("kept-result-changed")
					ctx.Failf(cs, "returned-plaintext-overwritten-by-later-read", "the slice returned by GetEncryptedBytes(%s) changed after later reads", k)
					return
				}
			}
		},
	}
}

func lenClass19(n int) string {
	switch {
	case n == 0:
		return "empty"
	case n < 16:
		return "short"
	default:
		return "long"
	}
}

type c19TokCase struct {
	Kind  string `json:"kind"`
	Codec string `json:"codec"`
	Len   int    `json:"len"`
	AsStr bool   `json:"as_string"`
}

// ---- read histories on one stored value; plaintexts that are themselves ciphertexts ----

type c19ReadSeqCase struct {
	Seq   []int `json:"seq"`    // 0 = right key, 1 = other valid key, 2 = right key on a tampered copy, 3 = all-zero key, 4 = bytes accessor with the right key
	AsStr bool  `json:"as_str"` // the value was added as a string
}

func (c *c19ReadSeqCase) Weight() int { return len(c.Seq) }

func c19ReadSeqSub() *engine.Sub {
	return &engine.Sub{
		Name:   "read-histories",
		Serial: true,
		Rule:   "one encrypted value, read three (quick) or four (thorough) times in a row in every combination of {right key, another valid key, right key on a copy with one flipped bit, all-zero key, right key through the other accessor}: every read returns what it returns when it is the only read - plaintext for the right key on the genuine value, an error otherwise - whatever was read before (a successful read must not make a later refused one succeed, a refused one must not poison a later good one). Plus: a []byte / string plaintext that is itself a stored ciphertext under the same key (or another key) is encrypted like any other value; non-trivial = all",
		Bound: func(t string) string {
			return fmt.Sprintf("5^%d read sequences x {string, bytes}; 4 ciphertext-as-plaintext cases", tierN(t, 3, 4))
		},
		Gen: func(tier string, emit func(any) bool) {
			n := tierN(tier, 3, 4)
			tot := 1
			for i := 0; i < n; i++ {
				tot *= 5
			}
			for _, str := range []bool{false, true} {
				for x := 0; x < tot; x++ {
					seq := make([]int, n)
					y := x
					for i := range seq {
						seq[i] = y % 5
						y /= 5
					}
					if !emit(&c19ReadSeqCase{Seq: seq, AsStr: str}) {
						return
					}
				}
			}
			for k := 0; k < 4; k++ {
				if !emit(&c19ReadSeqCase{Seq: []int{-1 - k}}) {
					return
				}
			}
		},
		NewCase: func() any { return &c19ReadSeqCase{} },
		Run: func(ctx *engine.Ctx, c any) {
			cs := c.(*c19ReadSeqCase)
			ctx.States(1)
			ctx.Nontrivial(1)
			k2 := reverse(c19Key)
			if len(cs.Seq) == 1 && cs.Seq[0] < 0 {
				// plaintext = a stored ciphertext
				inner := meta.NewMeta()
				ik := c19Key
				if cs.Seq[0] == -2 || cs.Seq[0] == -4 {
					ik = k2
				}
				if err := inner.AddEncrypted("i", "the inner plaintext 0123456789", ik); err != nil {
					panic(err)
				}
				ct, _ := inner.GetBytes("i")
				m := meta.NewMeta()
				var err error
				if cs.Seq[0] <= -3 {
					err = m.AddEncrypted("o", string(ct), c19Key)
				} else {
					err = m.AddEncrypted("o", ct, c19Key)
				}
				ctx.Eval(3)
				if err != nil {
					ctx.Failf(cs, "add-fails", "AddEncrypted of a plaintext that is itself a ciphertext fails: %v", err)
					return
				}
				stored, _ := m.GetBytes("o")
				if len(stored) != len(ct)+40 || bytes.Contains(stored, ct) {
					ctx.Outcome("stored-in-the-clear")
					ctx.Failf(cs, "ciphertext-as-plaintext/not-encrypted", "a %d-byte plaintext that is itself a stored ciphertext is stored as %d bytes (want %d) / appears in the stored value: it was not encrypted", len(ct), len(stored), len(ct)+40)
					return
				}
				got, err := m.GetEncryptedBytes("o", c19Key)
				if err != nil || !bytes.Equal(got, ct) {
					ctx.Failf(cs, "ciphertext-as-plaintext/roundtrip", "reading it back returns %d bytes, err=%v instead of the %d bytes that were added", len(got), err, len(ct))
					return
				}
				ctx.Outcome("encrypted-like-any-value")
				return
			}
			pt := []byte("a plaintext worth protecting 0123456789")
			m := meta.NewMeta()
			if err := c19Add(m, "v", pt, cs.AsStr, c19Key); err != nil {
				panic(err)
			}
			stored, _ := m.GetBytes("v")
			bad := meta.NewMeta()
			tam := append([]byte{}, stored...)
			tam[len(tam)-3] ^= 0x10
			if err := bad.Add("v", tam); err != nil {
				panic(err)
			}
			for step, op := range cs.Seq {
				var got []byte
				var err error
				wantOK := false
				switch op {
				case 0:
					got, err = c19Get(m, "v", cs.AsStr, c19Key)
					wantOK = true
				case 1:
					got, err = c19Get(m, "v", cs.AsStr, k2)
				case 2:
					got, err = c19Get(bad, "v", cs.AsStr, c19Key)
				case 3:
					got, err = c19Get(m, "v", cs.AsStr, make([]byte, 32))
				case 4:
					got, err = c19Get(m, "v", !cs.AsStr, c19Key)
					wantOK = true
				}
				ctx.Eval(1)
				ctx.Trans(1)
				names := []string{"right-key", "other-key", "tampered", "zero-key", "right-key/other-accessor"}
				if wantOK && (err != nil || !bytes.Equal(got, pt)) {
					ctx.Outcome("good-read-fails")
					ctx.Failf(cs, "read-history/good-read-fails-after-earlier-reads", "read #%d (%s) of the sequence %v fails or returns other data: %v", step, names[op], cs.Seq, err)
					return
				}
				if !wantOK && err == nil {
					ctx.Outcome("refused-read-succeeds")
					ctx.Failf(cs, "read-history/"+names[op]+"-returns-data-after-earlier-reads", "read #%d (%s) of the sequence %v returns %d bytes of data instead of an error", step, names[op], cs.Seq, len(got))
					return
				}
			}
			ctx.Outcome("consistent")
		},
	}
}

func c19TokenSub() *engine.Sub {
	return &engine.Sub{
		Name:   "through-tokens",
		Serial: true,
		Rule:   "encrypted metadata added through delegation / invocation options, sealed (DAG-CBOR) or encoded (DAG-JSON) and decoded again: the same key returns the plaintext, a different key fails, the plaintext (len>=16) does not occur in the sealed bytes; four more tokens built with the same pinned token nonce, metadata key, encryption key and plaintext (the nonce option before / after the metadata option) all store different ciphertexts, and so do two tokens built from ONE encrypted-metadata option value; non-trivial = all",
		Bound:  func(string) string { return "2 kinds x 2 codecs x 6 lengths x {string, bytes}" },
		Gen: func(tier string, emit func(any) bool) {
			for _, kind := range []string{"dlg", "inv"} {
				for _, codec := range []string{"cbor", "json"} {
					for _, l := range []int{0, 1, 16, 33, 255, 1024} {
						for _, s := range []bool{false, true} {
							if !emit(&c19TokCase{kind, codec, l, s}) {
								return
							}
						}
					}
				}
			}
		},
		NewCase: func() any { return &c19TokCase{} },
		Run: func(ctx *engine.Ctx, c any) {
			cs := c.(*c19TokCase)
			pt := c19Plain(cs.Len, "counter")
			k := fixtures.Get("ed25519", 0)
			ctx.States(1)
			ctx.Nontrivial(1)
			withCounterRand(uint64(cs.Len)+99, func(cr *counterReader) {
				var tok sealer
				var err error
				if cs.Kind == "dlg" {
					opt := delegation.WithEncryptedMetaBytes("secret", pt, c19Key)
					if cs.AsStr {
						opt = delegation.WithEncryptedMetaString("secret", string(pt), c19Key)
					}
					// (the token is not active yet now, and expired three hours from now: reading metadata is not an authorization check)
					tok, err = delegation.New(k.DID, otherPrincipal(k, 1), "/a", nil, opt, delegation.WithNonce(fixedNonce), delegation.WithNotBeforeIn(time.Hour), delegation.WithExpirationIn(2*time.Hour))
				} else {
					opt := invocation.WithEncryptedMetaBytes("secret", pt, c19Key)
					if cs.AsStr {
						opt = invocation.WithEncryptedMetaString("secret", string(pt), c19Key)
					}
					tok, err = invocation.New(k.DID, otherPrincipal(k, 1), "/a", []cid.Cid{cidPool[0]}, opt, invocation.WithNonce(fixedNonce), invocation.WithExpirationIn(time.Hour))
				}
				if err != nil {
					ctx.Failf(cs, "token/constructor-fails", "constructor with encrypted metadata fails: %v", err)
					return
				}
				var data []byte
				if cs.Codec == "cbor" {
					data, _, err = tok.ToSealed(k.Priv)
				} else {
					data, err = tok.ToDagJson(k.Priv)
				}
				ctx.Eval(1)
				if err != nil {
					ctx.Failf(cs, "token/seal-fails", "sealing fails: %v", err)
					return
				}
				if cs.Len >= 16 && (bytes.Contains(data, pt) || bytes.Contains(data, pt[:16])) {
					ctx.Failf(cs, "token/plaintext-in-sealed-bytes", "the sealed token contains the plaintext")
				}
				var dec token.Token
				if cs.Codec == "cbor" {
					dec, _, err = token.FromSealed(data)
				} else {
					dec, err = token.FromDagJson(data)
				}
				ctx.Eval(1)
				ctx.Trans(1)
				if err != nil {
					ctx.Outcome("unseal-error")
					ctx.Failf(cs, "token/unseal-fails", "token with encrypted metadata does not unseal: %v", err)
					return
				}
				var ro meta.ReadOnly
				switch t := dec.(type) {
				case *delegation.Token:
					ro = t.Meta()
				case *invocation.Token:
					ro = t.Meta()
				}
				var got []byte
				if cs.AsStr {
					var s string
					s, err = ro.GetEncryptedString("secret", c19Key)
					got = []byte(s)
				} else {
					got, err = ro.GetEncryptedBytes("secret", c19Key)
				}
				if err != nil || !bytes.Equal(got, pt) {
					ctx.Outcome("roundtrip-fails")
					ctx.Failf(cs, "token/roundtrip", "plaintext does not come back after seal/unseal: %v", err)
				} else {
					ctx.Outcome("roundtrip-ok")
				}
				if _, err := ro.GetEncryptedBytes("secret", bytes.Repeat([]byte{0xff}, 32)); err == nil {
					ctx.Failf(cs, "token/wrong-key-returns-data", "a different key decrypts metadata of an unsealed token")
				}
				// E7: the same read while the (controlled) clock stands before the token's window, inside it and long after it -
				// through the decoded token's Meta() and the built token's
				for _, off := range []time.Duration{-400 * 24 * time.Hour, 90 * time.Minute, 3 * time.Hour, 100 * 365 * 24 * time.Hour} {
					at := time.Now().Add(off)
					restore := verifclock.InstallLocal(func() time.Time { return at })
					for which, t := range []any{dec, tok} {
						var ro2 meta.ReadOnly
						switch t := t.(type) {
						case *delegation.Token:
							ro2 = t.Meta()
						case *invocation.Token:
							ro2 = t.Meta()
						}
						got2, err2 := ro2.GetEncryptedBytes("secret", c19Key)
						if cs.AsStr {
							var s2 string
							s2, err2 = ro2.GetEncryptedString("secret", c19Key)
							got2 = []byte(s2)
						}
						ctx.Eval(1)
						if err2 != nil || !bytes.Equal(got2, pt) {
							ctx.Failf(cs, "token/roundtrip-depends-on-the-clock", "the plaintext does not come back from the %s token when the clock stands %v from now (the token is valid from +1h / until +1h or +2h): %v", [2]string{"decoded", "built"}[which], off, err2)
						}
					}
					restore()
				}
				// the same token built again - same issuer, same pinned token nonce, same metadata key, same encryption
				// key, same plaintext; options in either order - stores another ciphertext every time
				seen := map[string]string{}
				for _, order := range []string{"nonce-first", "meta-first", "nonce-first", "meta-first"} {
					var stored []byte
					var berr error
					if cs.Kind == "dlg" {
						opts := []delegation.Option{delegation.WithNonce(fixedNonce), delegation.WithEncryptedMetaBytes("secret", pt, c19Key)}
						if cs.AsStr {
							opts[1] = delegation.WithEncryptedMetaString("secret", string(pt), c19Key)
						}
						if order == "meta-first" {
							opts[0], opts[1] = opts[1], opts[0]
						}
						var t *delegation.Token
						if t, berr = delegation.New(k.DID, otherPrincipal(k, 1), "/a", nil, opts...); berr == nil {
							stored, berr = t.Meta().GetBytes("secret")
						}
					} else {
						opts := []invocation.Option{invocation.WithNonce(fixedNonce), invocation.WithEncryptedMetaBytes("secret", pt, c19Key)}
						if cs.AsStr {
							opts[1] = invocation.WithEncryptedMetaString("secret", string(pt), c19Key)
						}
						if order == "meta-first" {
							opts[0], opts[1] = opts[1], opts[0]
						}
						var t *invocation.Token
						if t, berr = invocation.New(k.DID, otherPrincipal(k, 1), "/a", []cid.Cid{cidPool[0]}, opts...); berr == nil {
							stored, berr = t.Meta().GetBytes("secret")
						}
					}
					ctx.Eval(1)
					if berr != nil {
						ctx.Failf(cs, "token/constructor-fails", "constructor with encrypted metadata (%s) fails: %v", order, berr)
						return
					}
					if prev, dup := seen[string(stored)]; dup {
						ctx.Failf(cs, "token/same-ciphertext-twice", "two tokens built with the same pinned nonce, metadata key, encryption key and plaintext (options %s, then %s) store the same ciphertext", prev, order)
						return
					}
					seen[string(stored)] = order
				}
				// ONE option value handed to two constructor calls: two tokens, two encryptions
				{
					var a, b []byte
					var berr error
					if cs.Kind == "dlg" {
						opt := delegation.WithEncryptedMetaBytes("secret", pt, c19Key)
						if cs.AsStr {
							opt = delegation.WithEncryptedMetaString("secret", string(pt), c19Key)
						}
						var t1, t2 *delegation.Token
						if t1, berr = delegation.New(k.DID, otherPrincipal(k, 1), "/a", nil, opt); berr == nil {
							if t2, berr = delegation.Root(k.DID, otherPrincipal(k, 1), "/b", nil, opt); berr == nil {
								a, _ = t1.Meta().GetBytes("secret")
								b, _ = t2.Meta().GetBytes("secret")
							}
						}
					} else {
						opt := invocation.WithEncryptedMetaBytes("secret", pt, c19Key)
						if cs.AsStr {
							opt = invocation.WithEncryptedMetaString("secret", string(pt), c19Key)
						}
						var t1, t2 *invocation.Token
						if t1, berr = invocation.New(k.DID, otherPrincipal(k, 1), "/a", []cid.Cid{cidPool[0]}, opt); berr == nil {
							if t2, berr = invocation.New(k.DID, otherPrincipal(k, 2), "/b", []cid.Cid{cidPool[1]}, opt); berr == nil {
								a, _ = t1.Meta().GetBytes("secret")
								b, _ = t2.Meta().GetBytes("secret")
							}
						}
					}
					ctx.Eval(2)
					if berr != nil {
						ctx.Failf(cs, "token/constructor-fails", "constructor with a re-used encrypted-metadata option fails: %v", berr)
					} else if len(a) == 0 || bytes.Equal(a, b) {
						ctx.Failf(cs, "token/same-ciphertext-twice", "one option value passed to two constructor calls puts the same ciphertext (same nonce) into both tokens")
					} else if len(a) >= 24 && bytes.Equal(a[:24], b[:24]) {
						ctx.Failf(cs, "token/same-nonce-twice", "one option value passed to two constructor calls uses the same nonce in both tokens")
					}
				}
			})
		},
	}
}
