package props

import (
	"crypto/elliptic"
	"fmt"
	"math/big"
	"time"

	"github.com/decred/dcrd/dcrec/secp256k1/v4"

	"github.com/ucan-wg/go-ucan/did"
	"github.com/ucan-wg/go-ucan/token"

	"github.com/ipfs/go-cid"

	"github.com/ucan-wg/go-ucan/pkg/args"
	"github.com/ucan-wg/go-ucan/token/delegation"
	"github.com/ucan-wg/go-ucan/token/invocation"
	verifclock "github.com/ucan-wg/go-ucan/verifshim/clock"

	"verifharness/c20ops"
	"verifharness/engine"
	"verifharness/fixtures"
)

// An Option is a value: an application prepares it once and passes it to every New. Building a later token
// with the same Option values - at a later time, with other principals - is no operation on the earlier
// token at all; it must leave it as it was.

type c20OptCase struct {
	Kind  string `json:"kind"` // dlg | inv
	Opt   int    `json:"opt"`
	Later int    `json:"later"` // number of later tokens built with the same option values
	Step  int    `json:"step_s"`
}

func (c *c20OptCase) Weight() int { return c.Later }

func c20DlgOpts() []struct {
	Name string
	Opt  delegation.Option
} {
	far := time.Date(2200, 1, 1, 0, 0, 0, 250_000_000, time.UTC)
	nonce := []byte("c20-opt-nonce-0123")
	return []struct {
		Name string
		Opt  delegation.Option
	}{
		{"WithExpirationIn(1h)", delegation.WithExpirationIn(time.Hour)},
		{"WithNotBeforeIn(1h)", delegation.WithNotBeforeIn(time.Hour)},
		{"WithExpiration", delegation.WithExpiration(far)},
		{"WithNotBefore", delegation.WithNotBefore(far)},
		{"WithNonce", delegation.WithNonce(nonce)},
		{"WithMeta(list)", delegation.WithMeta("k", []string{"x", "y"})},
		{"WithEncryptedMetaBytes", delegation.WithEncryptedMetaBytes("s", []byte("secret"), c20ops.EncKey)},
		{"WithEncryptedMetaString", delegation.WithEncryptedMetaString("s", "secret", c20ops.EncKey)},
		{"WithSubject", delegation.WithSubject(fixtures.ByAlg("ed25519")[0].DID)},
	}
}

func c20InvOpts() []struct {
	Name string
	Opt  invocation.Option
} {
	far := time.Date(2200, 1, 1, 0, 0, 0, 250_000_000, time.UTC)
	nonce := []byte("c20-opt-nonce-0123")
	cause := cidPool[3]
	a := args.New()
	_ = a.Add("n", 1)
	_ = a.Add("l", []int{1, 2})
	return []struct {
		Name string
		Opt  invocation.Option
	}{
		{"WithExpirationIn(1h)", invocation.WithExpirationIn(time.Hour)},
		{"WithInvokedAtIn(1m)", invocation.WithInvokedAtIn(time.Minute)},
		{"WithExpiration", invocation.WithExpiration(far)},
		{"WithInvokedAt", invocation.WithInvokedAt(far)},
		{"WithoutInvokedAt", invocation.WithoutInvokedAt()},
		{"WithNonce", invocation.WithNonce(nonce)},
		{"WithEmptyNonce", invocation.WithEmptyNonce()},
		{"WithMeta(list)", invocation.WithMeta("k", []string{"x", "y"})},
		{"WithEncryptedMetaBytes", invocation.WithEncryptedMetaBytes("s", []byte("secret"), c20ops.EncKey)},
		{"WithEncryptedMetaString", invocation.WithEncryptedMetaString("s", "secret", c20ops.EncKey)},
		{"WithArgument(map)", invocation.WithArgument("m", map[string]any{"x": []int{1}})},
		{"WithArguments", invocation.WithArguments(a)},
		{"WithAudience", invocation.WithAudience(fixtures.ByAlg("ed25519")[1].DID)},
		{"WithCause", invocation.WithCause(&cause)},
	}
}

func c20OptSub() *engine.Sub {
	nd, ni := len(c20DlgOpts()), len(c20InvOpts())
	return &engine.Sub{
		Name:   "option-values-used-again-for-later-tokens",
		Serial: true,
		Rule:   fmt.Sprintf("E7 (controlled clock): every Option constructor of both token types (%d + %d, the relative ones - WithExpirationIn, WithNotBeforeIn, WithInvokedAtIn - included) yields ONE option value; a first token is built with it while the clock stands at T, its complete private state is dumped and it is sealed; then 1, 2 or 3 later tokens are built with the same option value - other principals, other command - while the clock stands 1 s, 1 h, 400 days later each; the first token's dump and sealed bytes are unchanged, and each later token, once built, is not changed by the ones after it either; non-trivial = all", nd, ni),
		Bound:  func(string) string { return fmt.Sprintf("(%d + %d) options x 3 counts x 3 clock steps", nd, ni) },
		Gen: func(tier string, emit func(any) bool) {
			for _, k := range []string{"dlg", "inv"} {
				n := nd
				if k == "inv" {
					n = ni
				}
				for o := 0; o < n; o++ {
					for later := 1; later <= 3; later++ {
						for _, step := range []int{1, 3600, 400 * 86400} {
							if !emit(&c20OptCase{k, o, later, step}) {
								return
							}
						}
					}
				}
			}
		},
		NewCase: func() any { return &c20OptCase{} },
		Run: func(ctx *engine.Ctx, c any) {
			cs := c.(*c20OptCase)
			ks := fixtures.ByAlg("ed25519")
			now := time.Date(2030, 1, 1, 0, 0, 0, 0, time.UTC)
			restore := verifclock.InstallLocal(func() time.Time { return now })
			defer restore()
			ctx.States(1)
			ctx.Nontrivial(1)
			type built struct {
				tok    any
				dump   string
				sealed string
			}
			var all []built
			snap := func(tok any, key *fixtures.Key) (string, string) {
				b, _, err := tok.(sealer).ToSealed(key.Priv)
				if err != nil {
					return c20ops.DumpValue(tok), "seal-error: " + err.Error()
				}
				return c20ops.DumpValue(tok), string(b)
			}
			// ONE option value per case, used for every token of the case
			var name string
			var dopt delegation.Option
			var iopt invocation.Option
			if cs.Kind == "dlg" {
				o := c20DlgOpts()[cs.Opt]
				name, dopt = o.Name, o.Opt
			} else {
				o := c20InvOpts()[cs.Opt]
				name, iopt = o.Name, o.Opt
			}
			for i := 0; i <= cs.Later; i++ {
				iss, aud := ks[i%3], ks[(i+1)%3]
				cmd := fmt.Sprintf("/c%d", i)
				var tok any
				var err error
				if cs.Kind == "dlg" {
					tok, err = delegation.New(iss.DID, aud.DID, commandOf(cmd), nil, dopt)
				} else {
					tok, err = invocation.New(iss.DID, aud.DID, commandOf(cmd), []cid.Cid{cidPool[i]}, iopt)
				}
				ctx.Eval(1)
				ctx.Trans(1)
				if err != nil {
					ctx.Outcome("constructor-refuses")
					return
				}
				// the earlier tokens are what they were
				for j, b := range all {
					d, s := snap(b.tok, ks[j%3])
					if d != b.dump || s != b.sealed {
						ctx.Outcome("earlier-token-changed")
						ctx.Failf(cs, "token-changed-by-a-later-New/"+cs.Kind+"/"+name, "token %d built with %s (clock at T+%ds) is changed by building token %d with the same option value (clock at T+%ds): state dump equal=%v, sealed bytes equal=%v\nbefore: %.600s\nafter:  %.600s",
							j, name, j*cs.Step, i, i*cs.Step, d == b.dump, s == b.sealed, diffWindow(b.dump, d), diffWindow(d, b.dump))
						return
					}
				}
				d, s := snap(tok, iss)
				all = append(all, built{tok, d, s})
				now = now.Add(time.Duration(cs.Step) * time.Second)
			}
			ctx.Outcome("unchanged")
		},
	}
}

// diffWindow returns the part of a around the first position where it differs from b.
func diffWindow(a, b string) string {
	i := 0
	for i < len(a) && i < len(b) && a[i] == b[i] {
		i++
	}
	lo := i - 80
	if lo < 0 {
		lo = 0
	}
	hi := i + 200
	if hi > len(a) {
		hi = len(a)
	}
	return a[lo:hi]
}

// ---- the same token sealed again after many other principals went through the library ----

type c20ManyCase struct {
	Alg   string `json:"alg"`
	Count int    `json:"count"`
}

func (c *c20ManyCase) Weight() int { return c.Count }

func c20ManyIssuersSub() *engine.Sub {
	counts := func(tier string) []int {
		out := []int{0}
		top := 11
		if tier == "thorough" {
			top = 14
		}
		for k := 4; k <= top; k++ {
			out = append(out, 1<<k-1, 1<<k, 1<<k+1)
		}
		return out
	}
	return &engine.Sub{
		Name:   "sealing-again-after-many-other-principals",
		Serial: true,
		Rule:   "a delegation and an invocation of a secp256k1 / P-256 / RSA-2048 issuer are sealed and decoded; then N other distinct principals of elliptic-curve key types (the points 2*G .. (N+1)*G of secp256k1 and P-256 as did:key identifiers) are resolved to their public keys (N = 0 and 2^k-1, 2^k, 2^k+1 up to 2^11, thorough 2^14: every fill level at which a table of a power-of-two size wraps); then the same token objects are sealed again and their first sealed bytes are decoded again: both succeed, the token prints as before and the issuer's DID still yields the issuer's key; non-trivial = N > 0",
		Bound: func(t string) string {
			return fmt.Sprintf("3 issuer algorithms x %d counts x 2 token kinds", len(counts(t)))
		},
		Setup: func(string) error { chainInit(); return nil },
		Gen: func(tier string, emit func(any) bool) {
			for _, n := range counts(tier) {
				for _, alg := range []string{"secp256k1", "p256", "rsa2048"} {
					if !emit(&c20ManyCase{alg, n}) {
						return
					}
				}
			}
		},
		NewCase: func() any { return &c20ManyCase{} },
		Run: func(ctx *engine.Ctx, c any) {
			cs := c.(*c20ManyCase)
			k := fixtures.Get(cs.Alg, 0)
			aud := fixtures.Get("ed25519", 1).DID
			ctx.States(1)
			if cs.Count > 0 {
				ctx.Nontrivial(1)
			}
			d, err := delegation.New(k.DID, aud, "/a", nil, delegation.WithSubject(k.DID), delegation.WithNonce(fixedNonce))
			if err != nil {
				panic(err)
			}
			inv, err := invocation.New(k.DID, k.DID, "/a", []cid.Cid{cidPool[0]}, invocation.WithNonce(fixedNonce), invocation.WithoutInvokedAt())
			if err != nil {
				panic(err)
			}
			type sealed struct {
				tok   sealer
				bytes []byte
				view  string
			}
			var first []sealed
			for _, t := range []sealer{d, inv} {
				b, _, err := t.ToSealed(k.Priv)
				if err != nil {
					ctx.Failf(cs, "seal-fails/first", "the first seal of a %s-issued token fails: %v", cs.Alg, err)
					return
				}
				first = append(first, sealed{t, b, c20ops.DumpValue(t)})
			}
			// the other principals
			for i := 0; i < cs.Count; i++ {
				var id did.DID
				var perr error
				scalar := big.NewInt(int64(i/2 + 2)).Bytes()
				if i%2 == 0 {
					x, y := secp256k1.S256().ScalarBaseMult(scalar)
					id, perr = did.Parse(didKeyString(uvarint(0xe7), elliptic.MarshalCompressed(secp256k1.S256(), x, y)))
				} else {
					x, y := elliptic.P256().ScalarBaseMult(scalar)
					id, perr = did.Parse(didKeyString(uvarint(0x1200), elliptic.MarshalCompressed(elliptic.P256(), x, y)))
				}
				if perr != nil {
					panic(perr)
				}
				safePubKey(id)
			}
			ctx.Trans(int64(cs.Count))
			for i, f := range first {
				kind := [2]string{"delegation", "invocation"}[i]
				ctx.Eval(2)
				if _, _, err := f.tok.ToSealed(k.Priv); err != nil {
					ctx.Failf(cs, "result-depends-on-earlier-calls/seal-again/"+cs.Alg, "sealing the same %s of a %s issuer again fails after %d other principals were resolved: %v", kind, cs.Alg, cs.Count, err)
					return
				}
				if _, _, err := token.FromSealed(f.bytes); err != nil {
					ctx.Failf(cs, "result-depends-on-earlier-calls/decode-again/"+cs.Alg, "the bytes of the first seal of the %s (%s issuer) no longer decode after %d other principals were resolved: %v", kind, cs.Alg, cs.Count, err)
					return
				}
				if v := c20ops.DumpValue(f.tok); v != f.view {
					ctx.Failf(cs, "token-mutated-by/sealing-among-many-principals/"+cs.Alg, "the %s changed", kind)
					return
				}
			}
			if pk, err, pan := safePubKey(k.DID); err != nil || pan != nil || !pk.Equals(k.Pub) {
				ctx.Failf(cs, "result-depends-on-earlier-calls/issuer-key/"+cs.Alg, "the issuer's DID no longer yields the issuer's key after %d other principals were resolved (err %v)", cs.Count, err)
				return
			}
			ctx.Outcome("unchanged")
		},
	}
}
