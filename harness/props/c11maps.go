package props

import (
	"fmt"
	"sort"
	"sync"

	"github.com/ipld/go-ipld-prime/datamodel"

	"github.com/ucan-wg/go-ucan/pkg/policy"

	"verifharness/engine"
)

// == on maps is equality of the sets of entries, whatever order the two maps list them in and however many there are.

type c11MapCase struct {
	N        int `json:"n"`
	LitOrder int `json:"lit_order"`
	DatOrder int `json:"data_order"`
	Shape    int `json:"shape"` // 0: == .m L   1: not(== .m L)   2: == . {m: L}   3: any .l (== . L)
}

func (c *c11MapCase) Weight() int { return c.N }

var c11MapOrders = []string{"insertion", "reverse", "bytewise", "length-first (DAG-CBOR)", "decoded from DAG-CBOR"}

func c11OrderedMap(n, order int, changeLast bool) datamodel.Node {
	keys := make([]string, n)
	for i := range keys {
		keys[i] = fmt.Sprintf("h%d", i+1) // h9 / h10: the bytewise and the length-first order rank them differently
	}
	vals := map[string]datamodel.Node{}
	for i, k := range keys {
		vals[k] = nInt(int64(i))
	}
	if changeLast && n > 0 {
		vals[keys[n-1]] = nStr("changed")
	}
	switch order {
	case 1:
		for i, j := 0, n-1; i < j; i, j = i+1, j-1 {
			keys[i], keys[j] = keys[j], keys[i]
		}
	case 2:
		sort.Strings(keys)
	case 3, 4:
		sort.Slice(keys, func(a, b int) bool {
			if len(keys[a]) != len(keys[b]) {
				return len(keys[a]) < len(keys[b])
			}
			return keys[a] < keys[b]
		})
	}
	es := make([]kv, n)
	for i, k := range keys {
		es[i] = kv{k, vals[k]}
	}
	m := nMap(es...)
	if order == 4 {
		return mustDecodeCbor(mustEncodeCbor(m))
	}
	return m
}

func c11MapSub() *engine.Sub {
	sizes := []int{0, 1, 2, 9, 10, 11, 31, 32, 33, 34, 40, 63, 64, 65, 120, 128, 129, 300}
	return &engine.Sub{
		Name: "equality-of-maps-in-any-order",
		Rule: "== between a literal map and a data map of n entries h1 .. hn (n = 0 .. 300, on both sides of 10, 32, 64, 128: the bytewise and the length-first order differ from h10 on), each listed in insertion, reverse, bytewise, length-first order or decoded from DAG-CBOR (25 order pairs): true when the entries are the same, false when one value differs; bare, negated, nested in an outer map literal, under any; non-trivial = all",
		Bound: func(string) string {
			return fmt.Sprintf("%d sizes x 5 x 5 orders x 4 shapes x {same, one value changed}", len(sizes))
		},
		Gen: func(tier string, emit func(any) bool) {
			for _, n := range sizes {
				for lo := range c11MapOrders {
					for do := range c11MapOrders {
						for sh := 0; sh < 4; sh++ {
							if !emit(&c11MapCase{n, lo, do, sh}) {
								return
							}
						}
					}
				}
			}
		},
		NewCase: func() any { return &c11MapCase{} },
		Run: func(ctx *engine.Ctx, c any) {
			cs := c.(*c11MapCase)
			lit := c11OrderedMap(cs.N, cs.LitOrder, false)
			var cons policy.Constructor
			switch cs.Shape {
			case 0:
				cons = policy.Equal(".m", lit)
			case 1:
				cons = policy.Not(policy.Equal(".m", lit))
			case 2:
				cons = policy.Equal(".", nMap(kv{"m", lit}))
			default:
				cons = policy.Any(".l", policy.Equal(".", lit))
			}
			pol := policy.MustConstruct(cons)
			ctx.States(1)
			ctx.Nontrivial(1)
			for _, changed := range []bool{false, true} {
				if changed && cs.N == 0 {
					continue
				}
				dm := c11OrderedMap(cs.N, cs.DatOrder, changed)
				var data datamodel.Node
				switch cs.Shape {
				case 2:
					data = nMap(kv{"m", dm})
				case 3:
					data = nMap(kv{"l", nList(nInt(7), dm)})
				default:
					data = nMap(kv{"m", dm})
				}
				want := !changed
				if cs.Shape == 1 {
					want = changed
				}
				got, _ := pol.Match(data)
				gotP, _ := pol.PartialMatch(data)
				ctx.Eval(2)
				ctx.Trans(1)
				ctx.Outcome(fmt.Sprint(got))
				if got != want || gotP != want {
					ctx.Failf(cs, "atom-truth/==/map-vs-map-in-another-order", "a map literal of %d entries listed in %s order against a data map listed in %s order (%s; shape %d): Match %v, PartialMatch %v, expected %v", cs.N, c11MapOrders[cs.LitOrder], c11MapOrders[cs.DatOrder], map[bool]string{false: "same entries", true: "one value changed"}[changed], cs.Shape, got, gotP, want)
				}
			}
		},
	}
}

// ---- lists with more than 2^20 elements ----

type c11HugeCase struct {
	Stmt int `json:"stmt"`
	N    int `json:"n"`
}

func (c *c11HugeCase) Weight() int { return c.Stmt }

var c11HugeLists sync.Map // n -> datamodel.Node {l: [0, 1, ..., n-1]}

func c11HugeData(n int) datamodel.Node {
	if v, ok := c11HugeLists.Load(n); ok {
		return v.(datamodel.Node)
	}
	items := make([]datamodel.Node, n)
	for i := range items {
		items[i] = nInt(int64(i))
	}
	d := nMap(kv{"l", nList(items...)})
	c11HugeLists.Store(n, d)
	return d
}

func c11HugeSub() *engine.Sub {
	type st struct {
		name string
		cons policy.Constructor
		want bool
	}
	stmts := []st{
		{"== .l[1:][0] 1", policy.Equal(".l[1:][0]", nInt(1)), true},
		{"not(== .l[1:][0] 1)", policy.Not(policy.Equal(".l[1:][0]", nInt(1))), false},
		{"all .l[1:] (> . 0)", policy.All(".l[1:]", policy.GreaterThan(".", nInt(0))), true},
		{"all .l[0:] (> . 0)", policy.All(".l[0:]", policy.GreaterThan(".", nInt(0))), false},
		{"any .l[2:] (== . 1)", policy.Any(".l[2:]", policy.Equal(".", nInt(1))), false},
		{"any .l[:-1]? (== . 5)", policy.Any(".l[:-1]?", policy.Equal(".", nInt(5))), true},
		{"== .l[-2:][1] last", nil, true},
	}
	return &engine.Sub{
		Name:   "slices-of-more-than-a-million-elements",
		Serial: true,
		Rule:   "statements over slices of a list of n = 2^20-1, 2^20+2 (thorough also 2^21+1) integers 0 .. n-1 - the second element of a tail, all / any over tails and heads, a negative bound: the classical truth value, whatever the number of elements a segment has to collect; non-trivial = all",
		Bound:  func(t string) string { return fmt.Sprintf("%d statements x %d list sizes", len(stmts), tierN(t, 2, 3)) },
		Gen: func(tier string, emit func(any) bool) {
			sizes := []int{1<<20 - 1, 1<<20 + 2}
			if tier == "thorough" {
				sizes = append(sizes, 1<<21+1)
			}
			for _, n := range sizes {
				for s := range stmts {
					if !emit(&c11HugeCase{s, n}) {
						return
					}
				}
			}
		},
		NewCase: func() any { return &c11HugeCase{} },
		Run: func(ctx *engine.Ctx, c any) {
			cs := c.(*c11HugeCase)
			s := stmts[cs.Stmt]
			cons := s.cons
			if cons == nil {
				cons = policy.Equal(".l[-2:][1]", nInt(int64(cs.N-1)))
			}
			pol := policy.MustConstruct(cons)
			data := c11HugeData(cs.N)
			ctx.States(1)
			ctx.Nontrivial(1)
			got, _ := pol.Match(data)
			gotP, _ := pol.PartialMatch(data)
			ctx.Eval(2)
			ctx.Trans(1)
			ctx.Outcome(fmt.Sprint(got))
			if got != s.want || gotP != s.want {
				ctx.Failf(cs, "atom-truth/huge-list", "%s on the list 0 .. %d: Match %v, PartialMatch %v, expected %v", s.name, cs.N-1, got, gotP, s.want)
			}
		},
	}
}
