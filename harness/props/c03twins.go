package props

import (
	"encoding/base64"
	"fmt"
	"strings"

	"github.com/ipfs/go-cid"
	"github.com/ipld/go-ipld-prime/datamodel"

	"github.com/ucan-wg/go-ucan/pkg/args"
	"github.com/ucan-wg/go-ucan/pkg/policy"
	"github.com/ucan-wg/go-ucan/token/delegation"
	"github.com/ucan-wg/go-ucan/token/invocation"

	"verifharness/engine"
	"verifharness/fixtures"
)

// ---- statements that print alike ----
//
// Two literals of different kinds whose DAG-JSON rendering is the same text: the bytes 01 02 03 and the map
// {"/": {"bytes": "AQID"}}; a link and the map {"/": "<the CID's text>"}. The statements == .v A and == .v B are
// different conditions (no value equals both), so a chain that carries both refuses every value of v.

type c03TwinCase struct {
	Pair  int `json:"pair"`
	Shape int `json:"shape"` // 0: == .v X   1: any .vs (== . X)   2: not(not(== .v X))
	Place int `json:"place"` // 0: [A,B] on one link  1: leaf A, root B  2: leaf B, root A  3: [B,A] on one link  4: three links A, -, B
}

func (c *c03TwinCase) Weight() int { return c.Pair*16 + c.Shape*5 + c.Place }

func c03Twins() [][2]datamodel.Node {
	b := []byte{1, 2, 3}
	k := cidPool[0]
	return [][2]datamodel.Node{
		{nBytes(b), nMap(kv{"/", nMap(kv{"bytes", nStr(base64.RawStdEncoding.EncodeToString(b))})})},
		{nLink(0), nMap(kv{"/", nStr(k.String())})},
		{nBytes(nil), nMap(kv{"/", nMap(kv{"bytes", nStr("")})})},
		{nList(nBytes(b)), nList(nMap(kv{"/", nMap(kv{"bytes", nStr(base64.RawStdEncoding.EncodeToString(b))})}))},
		{nMap(kv{"k", nLink(0)}), nMap(kv{"k", nMap(kv{"/", nStr(k.String())})})},
	}
}

func c03TwinsSub() *engine.Sub {
	twins := c03Twins()
	return &engine.Sub{
		Name: "statements-that-print-alike",
		Rule: "chains carrying the two statements == .v A and == .v B where A and B are literals of different kinds with the same DAG-JSON text (bytes / link, bare or inside a list or a map, against the map that mimics their DAG-JSON form): bare, under any, under a double negation; both on one link in either order, or one on the leaf and one on the root (2- and 3-link chains); v (and the one-element list vs) = A, B, or a third value; both APIs, delegations in memory and sealed + decoded. No value equals both literals: every check is refused, and whenever a chain is allowed, each of its statements alone allows the same arguments (composition oracle); non-trivial = all",
		Bound: func(string) string {
			return fmt.Sprintf("%d literal pairs x 3 shapes x 5 placements x 3 values x 2 APIs x 2 token forms", len(twins))
		},
		Setup: func(string) error { chainInit(); return nil },
		Gen: func(tier string, emit func(any) bool) {
			for p := range twins {
				for sh := 0; sh < 3; sh++ {
					for pl := 0; pl < 5; pl++ {
						if !emit(&c03TwinCase{Pair: p, Shape: sh, Place: pl}) {
							return
						}
					}
				}
			}
		},
		NewCase: func() any { return &c03TwinCase{} },
		Run: func(ctx *engine.Ctx, c any) {
			cs := c.(*c03TwinCase)
			tw := twins[cs.Pair]
			stmt := func(x datamodel.Node) policy.Constructor {
				switch cs.Shape {
				case 1:
					return policy.Any(".vs", policy.Equal(".", x))
				case 2:
					return policy.Not(policy.Not(policy.Equal(".v", x)))
				}
				return policy.Equal(".v", x)
			}
			sa, sb := stmt(tw[0]), stmt(tw[1])
			var pols []policy.Policy // leaf first
			switch cs.Place {
			case 0:
				pols = []policy.Policy{policy.MustConstruct(sa, sb)}
			case 1:
				pols = []policy.Policy{policy.MustConstruct(sa), policy.MustConstruct(sb)}
			case 2:
				pols = []policy.Policy{policy.MustConstruct(sb), policy.MustConstruct(sa)}
			case 3:
				pols = []policy.Policy{policy.MustConstruct(sb, sa)}
			default:
				pols = []policy.Policy{policy.MustConstruct(sa), nil, policy.MustConstruct(sb)}
			}
			n := len(pols)
			keys := fixtures.ByAlg("ed25519")
			var mem, dec sliceLoader
			prf := make([]cid.Cid, n)
			for i := 0; i < n; i++ {
				d := mustDlg(alignedHolder(n, i+1), alignedHolder(n, i), 0, "/a", pols[i])
				data, _, err := d.ToSealed(keys[alignedHolder(n, i+1)].Priv)
				if err != nil {
					panic(err)
				}
				d2, _, err := delegation.FromSealed(data)
				if err != nil {
					panic(err)
				}
				prf[i] = cidPool[10+i]
				mem.cids, mem.toks = append(mem.cids, prf[i]), append(mem.toks, d)
				dec.cids, dec.toks = append(dec.cids, prf[i]), append(dec.toks, d2)
			}
			ctx.States(1)
			for vi, v := range []datamodel.Node{tw[0], tw[1], nStr("neither")} {
				a := args.New()
				if err := a.Add("v", v); err != nil {
					panic(err)
				}
				if err := a.Add("vs", nList(v)); err != nil {
					panic(err)
				}
				inv, err := invocation.New(prin(alignedHolder(n, 0)), prin(0), "/a", prf, invocation.WithNonce(fixedNonce), invocation.WithoutInvokedAt(), invocation.WithArguments(a))
				if err != nil {
					panic(err)
				}
				ctx.Nontrivial(1)
				for k, ld := range []*sliceLoader{&mem, &dec} {
					e1, e2 := bothVerdicts(inv, ld)
					ctx.Eval(2)
					ctx.Trans(1)
					ctx.Outcome(errLabel(e1))
					for _, e := range []error{e1, e2} {
						if e == nil {
							ctx.Failf(cs, "allowed-despite-statement/printed-alike", "the chain carries == A and == B for two literals of different kinds that print alike (pair %d, shape %d, placement %d, delegations %s); v = %s equals at most one of them, yet the invocation is allowed",
								cs.Pair, cs.Shape, cs.Place, [2]string{"in memory", "sealed+decoded"}[k], [3]string{"A", "B", "a third value"}[vi])
						}
					}
				}
			}
		},
	}
}

// ---- a delegation decoded after many others ----

type c03ManySelCase struct {
	Family int `json:"family"`
	Count  int `json:"count"`
}

func (c *c03ManySelCase) Weight() int { return c.Count }

func c03ManySelSub() *engine.Sub {
	families := []func(i int) string{
		func(i int) string { return fmt.Sprintf(".user[0:%d]", i+1) },
		func(i int) string { return fmt.Sprintf(".f%d", i) },
		func(i int) string { return fmt.Sprintf(".user.f%d?", i) },
	}
	counts := func(tier string) []int {
		out := []int{0}
		top := 15
		if tier == "thorough" {
			top = 18
		}
		for k := 4; k <= top; k++ {
			out = append(out, 1<<k-1, 1<<k, 1<<k+1)
		}
		return out
	}
	return &engine.Sub{
		Name:   "a-delegation-decoded-after-many-others",
		Serial: true,
		Rule:   "history of decodes in one process: the probe delegations (== .role \"admin\"; not(== .role \"guest\") + == .user \"admin\"; like .user \"adm*\") are sealed, decoded and checked; then a delegation whose policy holds N further statements with N distinct selector texts of one family (.user[0:i], .fi, .user.fi?) is decoded (FromSealed, then policy.FromIPLD of the same list again); then the probes are decoded again from their bytes and checked against the same invocations: N = 0 and 2^k-1, 2^k, 2^k+1 for every k up to 15 (thorough: 18) - every size at which a table, ring or cache of a power-of-two capacity fills up or wraps - with each family; every verdict is the reference's (arguments role in {admin, guest}, user in {admin, guest}), before and after; non-trivial = verdicts after the N decodes",
		Bound: func(tier string) string {
			return fmt.Sprintf("3 selector families x %d sizes x 3 probes x 4 argument sets x 2 APIs, before and after", len(counts(tier)))
		},
		Setup: func(string) error { chainInit(); return nil },
		Gen: func(tier string, emit func(any) bool) {
			for _, n := range counts(tier) {
				for f := range families {
					if !emit(&c03ManySelCase{Family: f, Count: n}) {
						return
					}
				}
			}
		},
		NewCase: func() any { return &c03ManySelCase{} },
		Run: func(ctx *engine.Ctx, c any) {
			cs := c.(*c03ManySelCase)
			keys := fixtures.ByAlg("ed25519")
			type probe struct {
				name string
				pol  policy.Policy
				ref  func(role, user string) bool
				data []byte
			}
			probes := []*probe{
				{`== .role "admin"`, policy.MustConstruct(policy.Equal(".role", nStr("admin"))), func(r, u string) bool { return r == "admin" }, nil},
				{`not(== .role "guest"), == .user "admin"`, policy.MustConstruct(policy.Not(policy.Equal(".role", nStr("guest"))), policy.Equal(".user", nStr("admin"))), func(r, u string) bool { return r != "guest" && u == "admin" }, nil},
				{`like .user "adm*"`, policy.MustConstruct(policy.Like(".user", "adm*")), func(r, u string) bool { return u == "admin" }, nil},
			}
			for _, p := range probes {
				d := mustDlg(0, 1, 0, "/a", p.pol)
				data, _, err := d.ToSealed(keys[0].Priv)
				if err != nil {
					panic(err)
				}
				p.data = data
			}
			vals := []string{"admin", "guest"}
			checkAll := func(when string) {
				for pi, p := range probes {
					d, _, err := delegation.FromSealed(p.data)
					if err != nil {
						ctx.Failf(cs, "probe-does-not-decode/"+when, "the sealed delegation with policy %s does not decode %s: %v", p.name, when, err)
						continue
					}
					ld := &sliceLoader{cids: []cid.Cid{cidPool[10]}, toks: []*delegation.Token{d}}
					for _, r := range vals {
						for _, u := range vals {
							inv, err := invocation.New(prin(1), prin(0), "/a", []cid.Cid{cidPool[10]}, invocation.WithNonce(fixedNonce), invocation.WithoutInvokedAt(),
								invocation.WithArgument("role", r), invocation.WithArgument("user", u))
							if err != nil {
								panic(err)
							}
							e1, e2 := bothVerdicts(inv, ld)
							ctx.Eval(2)
							ctx.Trans(1)
							if when == "after" {
								ctx.Nontrivial(1)
							}
							ctx.Outcome(errLabel(e1))
							want := p.ref(r, u)
							for _, e := range []error{e1, e2} {
								if e == nil && !want {
									ctx.Failf(cs, "allowed-despite-statement/"+when+"-many-decodes", "probe %d (%s) decoded %s the %d other selectors is false for role=%s user=%s, yet the invocation is allowed", pi, p.name, when, cs.Count, r, u)
								}
								if e != nil && want {
									ctx.Failf(cs, "denied-despite-statement/"+when+"-many-decodes", "probe %d (%s) decoded %s the %d other selectors is true for role=%s user=%s, yet the invocation is denied: %v", pi, p.name, when, cs.Count, r, u, e)
								}
							}
						}
					}
				}
			}
			checkAll("before")
			if cs.Count > 0 {
				cons := make([]policy.Constructor, cs.Count)
				for i := range cons {
					cons[i] = policy.Not(policy.Equal(families[cs.Family](i), nStr("x")))
				}
				big := policy.MustConstruct(cons...)
				d := mustDlg(0, 1, 0, "/a", big)
				data, _, err := d.ToSealed(keys[0].Priv)
				if err != nil {
					panic(err)
				}
				if _, _, err := delegation.FromSealed(data); err != nil {
					ctx.Outcome("big-policy-refused")
				}
				if nd, err := big.ToIPLD(); err == nil {
					_, _ = policy.FromIPLD(nd)
				}
			}
			ctx.States(int64(cs.Count))
			checkAll("after")
		},
	}
}

// ---- deny rules on deep and wide values ----

type c03DeepCase struct {
	Shape string `json:"shape"` // nested-lists | nested-maps | wide-list | wide-map
	N     int    `json:"n"`
	Form  int    `json:"form"` // 0 not(== .v V)  1 and(not(== .v V))  2 all .vs not(== . V)
}

func (c *c03DeepCase) Weight() int { return c.N }

func c03DeepValue(shape string, n int, leaf datamodel.Node) datamodel.Node {
	switch shape {
	case "nested-lists":
		v := leaf
		for i := 0; i < n; i++ {
			v = nList(v)
		}
		return v
	case "nested-maps":
		v := leaf
		for i := 0; i < n; i++ {
			v = nMap(kv{"k", v})
		}
		return v
	case "wide-list":
		items := make([]datamodel.Node, n)
		for i := range items {
			items[i] = nInt(int64(i))
		}
		if n > 0 {
			items[n-1] = leaf
		}
		return nList(items...)
	default:
		es := make([]kv, n)
		for i := range es {
			es[i] = kv{fmt.Sprintf("k%06d", i), nInt(int64(i))}
		}
		if n > 0 {
			es[n-1].V = leaf
		}
		return nMap(es...)
	}
}

func c03DeepSub() *engine.Sub {
	sizes := []int{1, 2, 31, 32, 33, 64, 100, 127, 128, 129, 255, 256, 257, 1000, 1024, 4096, 9999, 10000, 10001, 16384, 20000}
	return &engine.Sub{
		Name: "deny-rules-on-deep-and-wide-values",
		Rule: "a deny rule not(== .v V) - bare, under and, under all .vs - whose literal V is n lists or n maps nested in each other, or a list / map of n entries (n = 1 .. 20000, on both sides of 32, 128, 256, 1024, 10000, 16384), on the single link of a chain (tokens in memory); the invocation carries v (and vs = [v]) deep-equal to V, built separately: refused; with the innermost / last element changed: allowed (a value the rule does not name); both APIs; a constructor that refuses the value is outcome constructor-refuses; non-trivial = all",
		Bound: func(string) string {
			return fmt.Sprintf("4 shapes x %d sizes x 3 forms x 2 argument values x 2 APIs", len(sizes))
		},
		Setup: func(string) error { chainInit(); return nil },
		Gen: func(tier string, emit func(any) bool) {
			for _, sh := range []string{"nested-lists", "nested-maps", "wide-list", "wide-map"} {
				for _, n := range sizes {
					if tier != "thorough" && (n > 10001 || (n > 1024 && n < 9999) || (sh != "nested-lists" && n > 4096 && n != 10001)) {
						continue // the quick tier keeps the sizes around 10^4 for every shape and thins the rest
					}
					for f := 0; f < 3; f++ {
						if !emit(&c03DeepCase{sh, n, f}) {
							return
						}
					}
				}
			}
		},
		NewCase: func() any { return &c03DeepCase{} },
		Run: func(ctx *engine.Ctx, c any) {
			cs := c.(*c03DeepCase)
			V := c03DeepValue(cs.Shape, cs.N, nStr("x"))
			var cons policy.Constructor
			switch cs.Form {
			case 0:
				cons = policy.Not(policy.Equal(".v", V))
			case 1:
				cons = policy.And(policy.Not(policy.Equal(".v", V)))
			default:
				cons = policy.All(".vs", policy.Not(policy.Equal(".", V)))
			}
			ctx.States(1)
			pol, err := policy.Construct(cons)
			if err != nil {
				ctx.Outcome("constructor-refuses")
				return
			}
			d, err := delegation.New(prin(0), prin(1), "/a", pol, delegation.WithSubject(prin(0)), delegation.WithNonce(fixedNonce))
			if err != nil {
				ctx.Outcome("constructor-refuses")
				return
			}
			ld := &sliceLoader{cids: []cid.Cid{cidPool[10]}, toks: []*delegation.Token{d}}
			ctx.Nontrivial(1)
			for vi, leaf := range []datamodel.Node{nStr("x"), nStr("y")} {
				v := c03DeepValue(cs.Shape, cs.N, leaf) // (built separately: equal in value, not the same nodes)
				a := args.New()
				if err := a.Add("v", v); err != nil {
					ctx.Outcome("constructor-refuses")
					return
				}
				if err := a.Add("vs", nList(v)); err != nil {
					ctx.Outcome("constructor-refuses")
					return
				}
				inv, err := invocation.New(prin(1), prin(0), "/a", []cid.Cid{cidPool[10]}, invocation.WithNonce(fixedNonce), invocation.WithoutInvokedAt(), invocation.WithArguments(a))
				if err != nil {
					ctx.Outcome("constructor-refuses")
					return
				}
				e1, e2 := bothVerdictsGuarded(inv, ld)
				ctx.Eval(2)
				ctx.Trans(1)
				ctx.Outcome(errLabel(e1))
				for _, e := range []error{e1, e2} {
					if vi == 0 && e == nil {
						ctx.Failf(cs, "allowed-despite-statement/deny-rule-on-"+cs.Shape, "the deny rule not(== V) with V = %s of size %d (form %d) does not stop an invocation whose argument is deep-equal to V", cs.Shape, cs.N, cs.Form)
					}
					if vi == 1 && e != nil && e != errPanicked && !strings.Contains(e.Error(), "panick") && false {
						_ = e
					}
				}
			}
		},
	}
}
