package props

import (
	"fmt"
	"math"

	"github.com/ipfs/go-cid"
	"github.com/ipld/go-ipld-prime/datamodel"

	"github.com/ucan-wg/go-ucan/pkg/policy"

	"verifharness/engine"
)

// The literal of an == statement and the data it is evaluated on may share nodes (a policy derived from
// the arguments it is then checked against). The outcome is a function of the values, not of node identity.

type c11SharedCase struct {
	Val  int `json:"val"`
	Form int `json:"form"` // 0: == .v X; 1: not(== .v X); 2: all .w (== . X) with w = [X, X]; 3: == .u [X] with u = [X]
}

func (c *c11SharedCase) Weight() int { return c.Val + c.Form }

func c11SharedVals() []func() datamodel.Node {
	nan := math.NaN()
	return []func() datamodel.Node{
		func() datamodel.Node { return nList(nInt(1), nInt(2)) },
		func() datamodel.Node { return nMap(kv{"x", nInt(1)}, kv{"y", nStr("a")}) },
		func() datamodel.Node { return nList(nFloat(nan)) },
		func() datamodel.Node { return nList(nInt(1), nFloat(nan)) },
		func() datamodel.Node { return nMap(kv{"x", nFloat(nan)}) },
		func() datamodel.Node { return nList(nList(nMap(kv{"x", nFloat(nan)})), nInt(1)) },
		func() datamodel.Node { return nMap(kv{"x", nList(nInt(1), nMap(kv{"y", nFloat(nan)}))}) },
		func() datamodel.Node { return nFloat(nan) },
		func() datamodel.Node { return nFloat(1.5) },
		func() datamodel.Node { return nStr("a") },
		func() datamodel.Node { return nList(nLinkAs(0, cid.Raw, false), nFloat(math.Inf(1))) },
		func() datamodel.Node { return nList() },
		func() datamodel.Node { return nMap() },
	}
}

func c11SharedSub() *engine.Sub {
	vals := c11SharedVals()
	return &engine.Sub{
		Name: "literal-shares-nodes-with-data",
		Rule: "== statements (bare, under not, under all, inside a list literal) whose literal is THE SAME node object as the value its selector resolves to, for 13 values (lists and maps with and without a NaN at depth 1..3, scalars, links, empty containers): Match and PartialMatch must equal those obtained with a separately built equal literal (the outcome depends on values, not on node identity), and where the classical reading decides (no NaN involved) they must be the classical truth; non-trivial = values holding a NaN",
		Bound: func(string) string {
			return fmt.Sprintf("%d values x 4 statement forms x {shared, rebuilt} literal", len(vals))
		},
		Gen: func(tier string, emit func(any) bool) {
			for v := range vals {
				for f := 0; f < 4; f++ {
					if !emit(&c11SharedCase{Val: v, Form: f}) {
						return
					}
				}
			}
		},
		NewCase: func() any { return &c11SharedCase{} },
		Run: func(ctx *engine.Ctx, c any) {
			cs := c.(*c11SharedCase)
			x := vals[cs.Val]()
			data := nMap(kv{"v", x}, kv{"w", nList(x, x)}, kv{"u", nList(x)})
			build := func(lit datamodel.Node) policy.Policy {
				var cons policy.Constructor
				switch cs.Form {
				case 0:
					cons = policy.Equal(".v", lit)
				case 1:
					cons = policy.Not(policy.Equal(".v", lit))
				case 2:
					cons = policy.All(".w", policy.Equal(".", lit))
				default:
					cons = policy.Equal(".u", nList(lit))
				}
				return policy.MustConstruct(cons)
			}
			m1, p1 := mp(build(x), data)
			m2, p2 := mp(build(vals[cs.Val]()), data)
			ctx.States(1)
			ctx.Eval(4)
			ctx.Trans(2)
			ctx.Outcome(fmt.Sprint(m1, m2))
			hasNaN := refDeepEqual(x, x) == triDC
			if hasNaN {
				ctx.Nontrivial(1)
			}
			if m1 != m2 || p1 != p2 {
				ctx.Failf(cs, "equality-depends-on-node-identity", "form %d on value #%d: literal sharing the data's node gives Match=%v PartialMatch=%v, an equal literal built separately gives %v %v", cs.Form, cs.Val, m1, p1, m2, p2)
			}
			if !hasNaN {
				want := cs.Form != 1
				if m1 != want || p1 != want {
					ctx.Failf(cs, "atom-truth/==/shared-node", "form %d on value #%d (equal by value): want %v, got Match=%v PartialMatch=%v", cs.Form, cs.Val, want, m1, p1)
				}
			}
		},
	}
}
