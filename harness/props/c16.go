package props

import (
	"bytes"
	"crypto/ecdsa"
	"crypto/elliptic"
	"crypto/rsa"
	"crypto/x509"
	"encoding/asn1"
	"encoding/hex"
	"fmt"
	"math/big"
	"strings"

	"github.com/decred/dcrd/dcrec/secp256k1/v4"
	"github.com/libp2p/go-libp2p/core/crypto"
	"github.com/mr-tron/base58"
	"github.com/multiformats/go-varint"

	"github.com/ucan-wg/go-ucan/did"

	"verifharness/engine"
	"verifharness/fixtures"
)

// multicodec codes of the supported key types
var c16Codes = map[string]uint64{"ed25519": 0xed, "secp256k1": 0xe7, "p256": 0x1200, "p384": 0x1201, "p521": 0x1202, "rsa2048": 0x1205, "rsa3072": 0x1205}

func didKeyString(code []byte, body []byte) string {
	return "did:key:z" + base58.Encode(append(append([]byte{}, code...), body...))
}

func uvarint(x uint64) []byte { return varint.ToUvarint(x) }

// safePubKey calls d.PubKey() and converts a panic into a flag.
func safePubKey(d did.DID) (pk crypto.PubKey, err error, panicked any) {
	defer func() {
		if r := recover(); r != nil {
			panicked = r
		}
	}()
	pk, err = d.PubKey()
	if pk == nil && err == nil {
		// "a key or an error": neither is reported like a panic (every caller charges it)
		panicked = "PubKey returned neither a key nor an error"
	}
	return
}

func safeToPubKey(s string) (pk crypto.PubKey, err error, panicked any) {
	defer func() {
		if r := recover(); r != nil {
			panicked = r
		}
	}()
	pk, err = did.ToPubKey(s)
	if pk == nil && err == nil {
		panicked = "ToPubKey returned neither a key nor an error"
	}
	return
}

type c16KeyCase struct {
	Alg string `json:"alg"`
	Key int    `json:"key"` // fixture index, or -1 for a freshly generated key
	Alt string `json:"alt,omitempty"`
}

// canonicalBody returns the canonical did:key key material of a fixture key, computed
// independently of the did package.
func canonicalBody(k *fixtures.Key) []byte {
	std, err := crypto.PubKeyToStdKey(k.Pub)
	if err != nil {
		panic(err)
	}
	switch p := std.(type) {
	case *ecdsa.PublicKey:
		return elliptic.MarshalCompressed(p.Curve, p.X, p.Y)
	case *rsa.PublicKey:
		return x509.MarshalPKCS1PublicKey(p)
	default:
		raw, err := k.Pub.Raw()
		if err != nil {
			panic(err)
		}
		return raw
	}
}

type altEnc struct {
	Name string
	Code []byte
	Body []byte
}

func fieldBytes(x *big.Int, n int) []byte {
	b := x.Bytes()
	return append(make([]byte, n-len(b)), b...)
}

// altEncodings lists alternative encodings of a key's material under its multicodec.
func altEncodings(k *fixtures.Key) []altEnc {
	code := uvarint(c16Codes[k.Alg])
	canon := canonicalBody(k)
	res := []altEnc{
		{"canonical", code, canon},
		{"non-minimal-varint", append(append([]byte{}, code[:len(code)-1]...), code[len(code)-1]|0x80, 0x00), canon},
		{"truncated-1", code, canon[:len(canon)-1]},
		{"extended-1", code, append(append([]byte{}, canon...), 0x00)},
		{"empty-body", code, nil},
		{"all-ff", code, bytesRepeat(0xff, len(canon))},
		{"all-00", code, bytesRepeat(0x00, len(canon))},
	}
	std, _ := crypto.PubKeyToStdKey(k.Pub)
	switch k.Alg {
	case "secp256k1":
		pk, err := secp256k1.ParsePubKey(canon)
		if err != nil {
			panic(err)
		}
		unc := pk.SerializeUncompressed()
		hyb := append([]byte{}, unc...)
		hyb[0] = 0x06 | (unc[64] & 1)
		res = append(res, altEnc{"uncompressed", code, unc}, altEnc{"hybrid", code, hyb})
		wrong := append([]byte{}, canon...)
		wrong[0] ^= 1
		res = append(res, altEnc{"other-parity", code, wrong})
	case "p256", "p384", "p521":
		p := std.(*ecdsa.PublicKey)
		n := (p.Curve.Params().BitSize + 7) / 8
		unc := elliptic.Marshal(p.Curve, p.X, p.Y)
		wrong := append([]byte{}, canon...)
		wrong[0] ^= 1
		// x >= p : x + p still fits in n bytes only for some keys; use p itself and p+x when it fits
		xp := new(big.Int).Add(p.X, p.Curve.Params().P)
		res = append(res, altEnc{"uncompressed", code, unc}, altEnc{"other-parity", code, wrong},
			altEnc{"infinity", code, []byte{0}},
			altEnc{"x=p", code, append([]byte{2}, fieldBytes(p.Curve.Params().P, n)...)})
		if len(xp.Bytes()) <= n {
			res = append(res, altEnc{"x+p", code, append([]byte{canon[0]}, fieldBytes(xp, n)...)})
		}
		// an x that is not on the curve: search upwards from X+1
		x := new(big.Int).Add(p.X, big.NewInt(1))
		for i := 0; i < 64; i++ {
			cand := append([]byte{2}, fieldBytes(x, n)...)
			if xx, _ := elliptic.UnmarshalCompressed(p.Curve, cand); xx == nil {
				res = append(res, altEnc{"x-not-on-curve", code, cand})
				break
			}
			x.Add(x, big.NewInt(1))
		}
		hyb := append([]byte{}, unc...)
		hyb[0] = 0x06 | byte(p.Y.Bit(0))
		res = append(res, altEnc{"hybrid", code, hyb})
	case "ed25519":
		// y + p encoding (non-canonical field element), only representable when y < 19
		res = append(res, altEnc{"high-bit-flipped", code, append(append([]byte{}, canon[:31]...), canon[31]^0x80)})
	case "rsa2048", "rsa3072":
		p := std.(*rsa.PublicKey)
		pkix, _ := x509.MarshalPKIXPublicKey(p)
		res = append(res, altEnc{"pkix-instead-of-pkcs1", code, pkix})
		res = append(res, altEnc{"trailing-byte", code, append(append([]byte{}, canon...), 0x00)})
		// long-form length for the exponent INTEGER (02 03 010001 -> 02 81 03 010001)
		if i := strings.LastIndex(string(canon), "\x02\x03\x01\x00\x01"); i >= 0 {
			lf := append(append(append([]byte{}, canon[:i]...), 0x02, 0x81, 0x03, 0x01, 0x00, 0x01), canon[i+5:]...)
			lf = fixSeqLen(lf, +1)
			res = append(res, altEnc{"der-long-form-length", code, lf})
			pad := append(append(append([]byte{}, canon[:i]...), 0x02, 0x04, 0x00, 0x01, 0x00, 0x01), canon[i+5:]...)
			pad = fixSeqLen(pad, +1)
			res = append(res, altEnc{"der-padded-integer", code, pad})
		}
		// an extra element INSIDE the RSAPublicKey SEQUENCE (length adjusted)
		if len(canon) > 4 && canon[0] == 0x30 && canon[1] == 0x82 {
			in := append(append([]byte{}, canon...), 0x02, 0x01, 0x00)
			in = fixSeqLen(in, +3)
			res = append(res, altEnc{"der-extra-element-inside-sequence", code, in})
			in2 := append(append([]byte{}, canon...), 0x05, 0x00)
			in2 = fixSeqLen(in2, +2)
			res = append(res, altEnc{"der-extra-null-inside-sequence", code, in2})
		}
		for _, e := range []int64{1, 2, 1<<32 + 1} {
			b, err := asn1.Marshal(struct {
				N *big.Int
				E *big.Int
			}{p.N, big.NewInt(e)})
			if err == nil {
				res = append(res, altEnc{fmt.Sprintf("exponent-%d", e), code, b})
			}
		}
	}
	return res
}

func bytesRepeat(b byte, n int) []byte {
	r := make([]byte, n)
	for i := range r {
		r[i] = b
	}
	return r
}

// fixSeqLen adjusts the outer SEQUENCE length (30 82 hi lo form) by delta.
func fixSeqLen(der []byte, delta int) []byte {
	if len(der) > 4 && der[0] == 0x30 && der[1] == 0x82 {
		l := int(der[2])<<8 | int(der[3])
		l += delta
		der[2], der[3] = byte(l>>8), byte(l)
	}
	return der
}

func c16FreshKey(alg string) (*fixtures.Key, error) {
	var priv crypto.PrivKey
	var d did.DID
	var err error
	switch alg {
	case "ed25519":
		priv, d, err = did.GenerateEd25519()
	case "secp256k1":
		priv, d, err = did.GenerateSecp256k1()
	case "p256":
		priv, d, err = did.GenerateECDSA()
	case "p384":
		priv, d, err = did.GenerateECDSAWithCurve(did.P384)
	case "p521":
		priv, d, err = did.GenerateECDSAWithCurve(did.P521)
	case "rsa3072":
		priv, d, err = did.GenerateRSA()
	default:
		return nil, fmt.Errorf("no generator for %s", alg)
	}
	if err != nil || priv == nil {
		return nil, fmt.Errorf("generator for %s failed: %v", alg, err)
	}
	return &fixtures.Key{Alg: alg, Idx: -1, Priv: priv, Pub: priv.GetPublic(), DID: d}, nil
}

func c16RoundtripSub() *engine.Sub {
	return &engine.Sub{
		Name:  "key-did-roundtrip",
		Rule:  "every fixture key (16 keys, 7 algorithm/size classes) and one key freshly produced by each did.Generate* function: FromPubKey -> String -> Parse -> equal DID -> PubKey -> Equals(original); FromPrivKey agrees; the printed string equals the independently computed did:key of the key; DIDs of two keys are equal iff the keys are (all ordered pairs); non-trivial = all",
		Bound: func(string) string { return "16 fixture keys + 6 generated keys; 22x22 pairs" },
		Gen: func(tier string, emit func(any) bool) {
			for _, k := range fixtures.All() {
				if !emit(&c16KeyCase{Alg: k.Alg, Key: k.Idx}) {
					return
				}
			}
			for _, alg := range []string{"ed25519", "secp256k1", "p256", "p384", "p521", "rsa3072"} {
				if !emit(&c16KeyCase{Alg: alg, Key: -1}) {
					return
				}
			}
		},
		NewCase: func() any { return &c16KeyCase{} },
		Run: func(ctx *engine.Ctx, c any) {
			cs := c.(*c16KeyCase)
			var k *fixtures.Key
			if cs.Key >= 0 {
				k = fixtures.Get(cs.Alg, cs.Key)
			} else {
				var err error
				k, err = c16FreshKey(cs.Alg)
				if err != nil {
					ctx.Failf(cs, "generate-fails/"+cs.Alg, "%v", err)
					return
				}
			}
			ctx.States(1)
			ctx.Nontrivial(1)
			ctx.Eval(1)
			d, err := did.FromPubKey(k.Pub)
			if err != nil {
				ctx.Outcome("frompubkey-error")
				ctx.Failf(cs, "frompubkey-fails/"+cs.Alg, "did.FromPubKey fails for a %s key: %v", cs.Alg, err)
				return
			}
			if cs.Key < 0 && d != k.DID {
				ctx.Failf(cs, "generate-did-differs/"+cs.Alg, "Generate* returned a DID different from FromPubKey of its key")
			}
			if d2, err := did.FromPrivKey(k.Priv); err != nil || d2 != d {
				ctx.Failf(cs, "fromprivkey-differs/"+cs.Alg, "FromPrivKey disagrees with FromPubKey: %v", err)
			}
			s := d.String()
			want := didKeyString(uvarint(c16Codes[k.Alg]), canonicalBody(k))
			if s != want {
				ctx.Outcome("non-canonical-string")
				ctx.Failf(cs, "string-not-canonical/"+cs.Alg, "DID of a %s key prints as %s, the did:key of its canonical key material is %s", cs.Alg, s, want)
			}
			p, err := did.Parse(s)
			ctx.Trans(1)
			if err != nil {
				ctx.Outcome("parse-error")
				ctx.Failf(cs, "printed-did-not-parsed/"+cs.Alg, "did.Parse rejects the printed DID of a %s key: %v", cs.Alg, err)
				return
			}
			if p != d || !p.Defined() {
				ctx.Failf(cs, "parsed-did-differs/"+cs.Alg, "Parse(String(d)) != d for a %s key", cs.Alg)
			}
			pk, err, pan := safePubKey(p)
			ctx.Trans(1)
			if pan != nil || err != nil {
				ctx.Outcome("pubkey-error")
				ctx.Failf(cs, "pubkey-extraction-fails/"+cs.Alg, "PubKey() of the parsed DID of a %s key fails: err=%v panic=%v", cs.Alg, err, pan)
				return
			}
			if !pk.Equals(k.Pub) || !k.Pub.Equals(pk) {
				ctx.Failf(cs, "extracted-key-differs/"+cs.Alg, "PubKey() of the DID of a %s key is a different key", cs.Alg)
			}
			if pk2, err := did.ToPubKey(s); err != nil || !pk2.Equals(k.Pub) {
				ctx.Failf(cs, "topubkey-differs/"+cs.Alg, "ToPubKey(%s) fails or differs: %v", s, err)
			}
			ctx.Outcome("roundtrip-ok")
			// equality of DIDs iff equality of keys, against every fixture key
			for _, o := range fixtures.All() {
				ctx.Eval(1)
				same := o.Pub.Equals(k.Pub)
				if (o.DID == d) != same {
					ctx.Failf(cs, "did-equality-vs-key-equality", "DID equality (%v) disagrees with key equality (%v) for %s#%d vs %s#%d", o.DID == d, same, cs.Alg, cs.Key, o.Alg, o.Idx)
				}
			}
		},
	}
}

func c16AltSub() *engine.Sub {
	return &engine.Sub{
		Name:   "alternative-encodings",
		Repeat: true,
		Rule:   "for every fixture key, every alternative encoding of its key material under its multicodec (uncompressed / hybrid / other-parity points, x>=p, off-curve x, infinity, truncated/extended/empty/constant bodies, RSA DER variants, PKIX, odd exponents, non-minimal multicodec varint): Parse + PubKey never panic, and if both succeed the identifier is the canonical one of the extracted key (FromPubKey(pk).String() == s); non-trivial = Parse accepts",
		Bound:  func(string) string { return "16 keys x 8..14 encodings" },
		Gen: func(tier string, emit func(any) bool) {
			for _, k := range fixtures.All() {
				for _, a := range altEncodings(k) {
					if !emit(&c16KeyCase{Alg: k.Alg, Key: k.Idx, Alt: a.Name}) {
						return
					}
				}
			}
		},
		NewCase: func() any { return &c16KeyCase{} },
		Run: func(ctx *engine.Ctx, c any) {
			cs := c.(*c16KeyCase)
			k := fixtures.Get(cs.Alg, cs.Key)
			for _, a := range altEncodings(k) {
				if a.Name != cs.Alt {
					continue
				}
				c16CheckString(ctx, cs, didKeyString(a.Code, a.Body), cs.Alg+"/"+a.Name)
			}
		},
	}
}

// c16CheckString applies the parser/extraction/canonicity oracle to one did:key string.
func c16CheckString(ctx *engine.Ctx, rc any, s string, tag string) {
	ctx.Eval(1)
	ctx.States(1)
	ctx.Trans(1)
	d, err := did.Parse(s)
	if err != nil {
		ctx.Outcome("parse-rejects")
		if pk, err2, pan := safeToPubKey(s); err2 == nil || pan != nil {
			ctx.Failf(rc, "topubkey-accepts-what-parse-rejects/"+tag, "Parse rejects %q (%v) but ToPubKey returns %v (panic %v)", s, err, pk != nil, pan)
		}
		return
	}
	ctx.Nontrivial(1)
	// (whether a parsed-but-unextractable DID prints back identically is not decided by the
	// property; for extractable ones the canonical clause below implies it)
	pk, err, pan := safePubKey(d)
	ctx.Eval(1)
	if pan != nil {
		ctx.Outcome("pubkey-panics")
		ctx.Failf(rc, "pubkey-panics/"+tag, "PubKey() of the parsed DID %s panics: %v", s, pan)
		return
	}
	if err != nil {
		ctx.Outcome("pubkey-rejects")
		if _, err2, pan2 := safeToPubKey(s); err2 == nil || pan2 != nil {
			ctx.Failf(rc, "topubkey-accepts-what-pubkey-rejects/"+tag, "PubKey() of %s fails (%v) but ToPubKey succeeds", s, err)
		}
		return
	}
	if pk == nil {
		ctx.Outcome("pubkey-neither-key-nor-error")
		ctx.Failf(rc, "pubkey-returns-neither-key-nor-error/"+tag, "PubKey() of the parsed DID %s returns no key and no error", s)
		return
	}
	// did.ToPubKey(s) is documented as Parse + PubKey: it must agree with them
	if pk2, err2 := did.ToPubKey(s); err2 != nil || pk2 == nil || !pk2.Equals(pk) {
		ctx.Failf(rc, "topubkey-disagrees-with-parse/"+tag, "ToPubKey(%s) fails or returns another key than Parse+PubKey: %v", s, err2)
	}
	back, err := did.FromPubKey(pk)
	if err != nil {
		ctx.Outcome("frompubkey-error")
		ctx.Failf(rc, "extracted-key-has-no-did/"+tag, "PubKey() of %s succeeds but FromPubKey of that key fails: %v", s, err)
		return
	}
	if back.String() != s || back != d {
		ctx.Outcome("accepted-non-canonical")
		ctx.Failf(rc, "non-canonical-identifier-accepted/"+tag, "%s yields a key whose canonical identifier is %s: one principal, two DIDs", s, back.String())
		return
	}
	ctx.Outcome("accepted-canonical")
}

type c16StrCase struct {
	S      string `json:"s"`
	Before string `json:"before,omitempty"` // an identifier parsed (and its key extracted) immediately before S
}

func (c *c16StrCase) Weight() int { return len(c.S) }

const b58Alphabet = "123456789ABCDEFGHJKLMNPQRSTUVWXYZabcdefghijkmnopqrstuvwxyz"

func c16StringsSub() *engine.Sub {
	supported := map[uint64]bool{0xed: true, 0xe7: true, 0x1200: true, 0x1201: true, 0x1202: true, 0x1205: true}
	return &engine.Sub{
		Name:   "parser-inputs",
		Repeat: true,
		Rule:   "strings offered to did.Parse: every base58 string up to the length bound after 'did:key:z'; every 1- and 2-byte multicodec varint (16512) in front of an Ed25519, a P-256 and an empty body; every ASCII character as multibase prefix in front of a valid body; prefix mutations of 'did:key:'; for one key of each of the 7 algorithms the canonical identifier decorated with the rest of the DID grammar (version segments, fragments incl. the verification-method form <did>#<id>, parameters, query, path, percent-encoding, repetition; 31 forms); 15 pairs of valid identifiers that collide under FNV-1 / FNV-1a / CRC-32 / Adler-32, one parsed right after the other. Unsupported codes, non-base58btc multibases and wrong prefixes must be rejected; whatever parses must print back identically and PubKey must return a key or an error without panicking, canonically; non-trivial = parser accepts",
		Bound: func(t string) string {
			return fmt.Sprintf("base58 strings of length <=%d; 16512 codes x 3 bodies; 128 multibase prefixes; 40 prefix mutations; 7 x 31 grammar decorations", tierN(t, 3, 4))
		},
		Gen: func(tier string, emit func(any) bool) {
			alpha := strings.Split(b58Alphabet, "")
			ok := true
			allStrings(alpha, tierN(tier, 3, 4), func(s string) bool {
				ok = emit(&c16StrCase{S: "did:key:z" + s})
				return ok
			})
			if !ok {
				return
			}
			ed := canonicalBody(fixtures.Get("ed25519", 0))
			p2 := canonicalBody(fixtures.Get("p256", 0))
			for _, body := range [][]byte{ed, p2, nil} {
				for c := uint64(0); c < 128; c++ {
					if !emit(&c16StrCase{S: didKeyString([]byte{byte(c)}, body)}) {
						return
					}
				}
				for lo := 0; lo < 128; lo++ {
					for hi := 0; hi < 128; hi++ {
						if !emit(&c16StrCase{S: didKeyString([]byte{byte(lo) | 0x80, byte(hi)}, body)}) {
							return
						}
					}
				}
			}
			valid := didKeyString(uvarint(0xed), ed)
			rest := valid[len("did:key:z"):]
			for c := 0; c < 128; c++ {
				if !emit(&c16StrCase{S: "did:key:" + string(rune(c)) + rest}) {
					return
				}
			}
			for _, m := range []string{"", "d", "did", "did:", "did:key", "did:key:", "did:key:z", "DID:KEY:z" + rest, "did:Key:z" + rest, "did:web:z" + rest, "did:key;z" + rest,
				" did:key:z" + rest, "did:key:z" + rest + " ", "did:key:z" + rest + "\n", "did:key:z" + rest + "0", "did:key:z" + rest + "O", "did:key:z" + rest + "l", "did:key:z" + rest + "I",
				"did:key:z " + rest, "did:key::z" + rest, "did:key:zz" + rest, "key:z" + rest, "z" + rest, "did:key:Z" + rest, "did:key:z" + strings.ToUpper(rest), "did:key:z" + rest + "#frag", "did:key:z" + rest + "?q", "did:key:z" + rest + "/path"} {
				if !emit(&c16StrCase{S: m}) {
					return
				}
			}
			// the rest of the DID / did:key grammar around the canonical identifier of one key per algorithm:
			// version segments, fragments (the verification-method form did:key:<id>#<id>), parameters, paths,
			// percent-encoding, repetition. A did:key principal has ONE accepted spelling.
			for _, alg := range fixtures.Algs() {
				k := fixtures.Get(alg, 0)
				if k.Err != nil {
					continue
				}
				full := k.DID.String()
				id := full[len("did:key:"):]
				for _, m := range []string{"did:key:1:" + id, "did:key:0:" + id, "did:key:2:" + id, "did:key:01:" + id, "did:key:1.0:" + id, "did:key:v1:" + id, "did:key:1::" + id, "did:key:" + id + ":1",
					full + "#" + id, full + "#" + full, full + "#", full + "#key-1", full + "#" + id + "#" + id, full + "#" + id[:len(id)-1], full + "#" + strings.ToUpper(id),
					full + ";v=1", full + "?versionId=1", full + "?", full + "/", full + "/x#" + id, full + ":" + id, full + id, "did:key:" + id + "\x00", "did:key:%7A" + id[1:], "did%3Akey%3A" + id,
					"did:key:" + id + "=", "did:key:" + id + "==", "did:key:\t" + id, "did:key:" + id + "\r\n", "urn:did:key:" + id, "did:key:did:key:" + id} {
					if !emit(&c16StrCase{S: m}) {
						return
					}
				}
			}
			// pairs of valid identifiers whose texts collide under a 32-bit hash of the standard library, one parsed
			// right after the other, in both orders (see C01's principals-with-colliding-identifiers)
			for _, col := range fixtures.Collisions() {
				if !emit(&c16StrCase{S: col.X, Before: col.Y}) || !emit(&c16StrCase{S: col.Y, Before: col.X}) {
					return
				}
			}
		},
		NewCase: func() any { return &c16StrCase{} },
		Run: func(ctx *engine.Ctx, c any) {
			cs := c.(*c16StrCase)
			if cs.Before != "" {
				if b, err := did.Parse(cs.Before); err == nil {
					_, _, _ = safePubKey(b)
				}
				_, _, _ = safeToPubKey(cs.Before)
			}
			d, err := did.Parse(cs.S)
			if err == nil {
				// independent decision: must be did:key: + z + base58 with a supported, minimally encoded multicodec
				reason := ""
				switch {
				case !strings.HasPrefix(cs.S, "did:key:z"):
					reason = "wrong-prefix-or-multibase"
				default:
					raw, derr := base58.Decode(cs.S[len("did:key:z"):])
					if derr != nil {
						reason = "not-base58"
					} else if code, n, verr := uvarintStrict(raw); verr != nil {
						reason = "bad-multicodec-varint"
					} else if !supported[code] {
						reason = fmt.Sprintf("unsupported-multicodec")
						_ = n
					}
				}
				if reason != "" {
					ctx.Eval(1)
					ctx.States(1)
					ctx.Outcome("accepted-invalid")
					ctx.Failf(cs, "parser-accepts/"+reason, "did.Parse(%q) accepted (%s): %v", cs.S, reason, d)
					return
				}
			}
			tag := "string"
			if err == nil {
				raw, _ := base58.Decode(cs.S[len("did:key:z"):])
				code, _, _ := uvarintStrict(raw)
				tag = fmt.Sprintf("code-0x%x/bodylen-%s", code, lenClass(len(raw)))
			}
			c16CheckString(ctx, cs, cs.S, tag)
		},
	}
}

func lenClass(n int) string {
	if n <= 4 {
		return "short"
	}
	return "long"
}

func uvarintStrict(b []byte) (uint64, int, error) {
	var x uint64
	for i := 0; i < len(b) && i < 9; i++ {
		x |= uint64(b[i]&0x7f) << (7 * uint(i))
		if b[i]&0x80 == 0 {
			if i > 0 && b[i] == 0 {
				return 0, 0, fmt.Errorf("non-minimal")
			}
			return x, i + 1, nil
		}
	}
	return 0, 0, fmt.Errorf("truncated")
}

var _ = hex.EncodeToString

type c16CoercedCase struct {
	Scalar int    `json:"scalar"` // private scalar k; the public key is k*G on secp256k1, typed as a libp2p ECDSA key
	Why    string `json:"why"`
}

// coercedKeys lists ECDSA-typed secp256k1 public keys (what crypto.GenerateECDSAKeyPairWithCurve(secp256k1.S256())
// returns), among them the first scalars whose X or Y coordinate has one or two leading zero bytes.
func coercedScalars() []c16CoercedCase {
	res := []c16CoercedCase{{1, "k=1"}, {2, "k=2"}, {3, "k=3"}, {7, "k=7"}}
	curve := secp256k1.S256()
	need := map[string]bool{"x-leading-zero-byte": true, "y-leading-zero-byte": true}
	for k := 4; k < 20000 && len(need) > 0; k++ {
		x, y := curve.ScalarBaseMult(big.NewInt(int64(k)).Bytes())
		if need["x-leading-zero-byte"] && len(x.Bytes()) < 32 {
			res = append(res, c16CoercedCase{k, "x-leading-zero-byte"})
			delete(need, "x-leading-zero-byte")
		}
		if need["y-leading-zero-byte"] && len(y.Bytes()) < 32 {
			res = append(res, c16CoercedCase{k, "y-leading-zero-byte"})
			delete(need, "y-leading-zero-byte")
		}
	}
	return res
}

func c16CoercedSub() *engine.Sub {
	return &engine.Sub{
		Name: "ecdsa-typed-secp256k1-keys",
		Rule: "public keys k*G on secp256k1 held as libp2p ECDSA keys (the type crypto.GenerateECDSAKeyPairWithCurve(secp256k1.S256()) produces) for small scalars and for the first scalars whose X, respectively Y, coordinate starts with a zero byte: FromPubKey succeeds, the DID is the canonical secp256k1 did:key of the point, it parses back and yields an equal point; non-trivial = all",
		Bound: func(string) string {
			return "6 deterministic points incl. one with a short X and one with a short Y coordinate"
		},
		Gen: func(tier string, emit func(any) bool) {
			for _, c := range coercedScalars() {
				c := c
				if !emit(&c) {
					return
				}
			}
		},
		NewCase: func() any { return &c16CoercedCase{} },
		Run: func(ctx *engine.Ctx, c any) {
			cs := c.(*c16CoercedCase)
			curve := secp256k1.S256()
			x, y := curve.ScalarBaseMult(big.NewInt(int64(cs.Scalar)).Bytes())
			pub, err := crypto.ECDSAPublicKeyFromPubKey(ecdsa.PublicKey{Curve: curve, X: x, Y: y})
			if err != nil {
				panic(err)
			}
			ctx.States(1)
			ctx.Eval(1)
			ctx.Trans(1)
			ctx.Nontrivial(1)
			d, err := did.FromPubKey(pub)
			if err != nil {
				ctx.Outcome("frompubkey-error")
				ctx.Failf(cs, "frompubkey-fails/ecdsa-typed-secp256k1/"+cs.Why, "did.FromPubKey fails for the ECDSA-typed secp256k1 key %d*G (%s): %v", cs.Scalar, cs.Why, err)
				return
			}
			want := didKeyString(uvarint(0xe7), elliptic.MarshalCompressed(curve, x, y))
			if d.String() != want {
				ctx.Failf(cs, "string-not-canonical/ecdsa-typed-secp256k1", "DID of %d*G prints as %s, want %s", cs.Scalar, d.String(), want)
				return
			}
			p, err := did.Parse(d.String())
			if err != nil || p != d {
				ctx.Failf(cs, "printed-did-not-parsed/ecdsa-typed-secp256k1", "Parse(String) fails or differs: %v", err)
				return
			}
			pk, err, pan := safePubKey(p)
			if err != nil || pan != nil {
				ctx.Failf(cs, "pubkey-extraction-fails/ecdsa-typed-secp256k1", "PubKey() fails: %v %v", err, pan)
				return
			}
			raw, _ := pk.Raw()
			if !bytes.Equal(raw, elliptic.MarshalCompressed(curve, x, y)) {
				ctx.Failf(cs, "extracted-key-differs/ecdsa-typed-secp256k1", "PubKey() of the DID of %d*G is another point", cs.Scalar)
				return
			}
			ctx.Outcome("roundtrip-ok")
		},
	}
}

// c16CoercedSeqSub: the same conversion for one key after another.
func c16CoercedSeqSub() *engine.Sub {
	const n = 24
	return &engine.Sub{
		Name:   "ecdsa-typed-secp256k1-keys-one-after-another",
		Serial: true,
		Rule:   "every ordered pair (a, b) of the points 1*G .. 24*G on secp256k1 (y even and odd, both many times) held as libp2p ECDSA keys: did.FromPubKey(a), then did.FromPubKey(b) in the same process - the DID of b is the did:key of b's compressed point and yields that point, whatever was converted before; non-trivial = all",
		Bound:  func(string) string { return fmt.Sprintf("%d x %d ordered pairs", n, n) },
		Gen: func(tier string, emit func(any) bool) {
			for a := 1; a <= n; a++ {
				for b := 1; b <= n; b++ {
					if !emit(&c16CoercedCase{Scalar: a, Why: fmt.Sprintf("then:%d", b)}) {
						return
					}
				}
			}
		},
		NewCase: func() any { return &c16CoercedCase{} },
		Run: func(ctx *engine.Ctx, c any) {
			cs := c.(*c16CoercedCase)
			var second int
			fmt.Sscanf(cs.Why, "then:%d", &second)
			curve := secp256k1.S256()
			ctx.States(1)
			ctx.Nontrivial(1)
			for step, k := range []int{cs.Scalar, second} {
				x, y := curve.ScalarBaseMult(big.NewInt(int64(k)).Bytes())
				pub, err := crypto.ECDSAPublicKeyFromPubKey(ecdsa.PublicKey{Curve: curve, X: x, Y: y})
				if err != nil {
					panic(err)
				}
				ctx.Eval(1)
				ctx.Trans(1)
				d, err := did.FromPubKey(pub)
				if err != nil {
					ctx.Failf(cs, "frompubkey-fails/ecdsa-typed-secp256k1/in-sequence", "did.FromPubKey fails for %d*G (call %d of the pair %d, %d): %v", k, step+1, cs.Scalar, second, err)
					return
				}
				want := didKeyString(uvarint(0xe7), elliptic.MarshalCompressed(curve, x, y))
				if d.String() != want {
					ctx.Failf(cs, "string-not-canonical/ecdsa-typed-secp256k1/in-sequence", "the DID of %d*G (y %s), converted after %d*G, prints as %s, want %s", k, map[uint]string{0: "even", 1: "odd"}[y.Bit(0)], cs.Scalar, d.String(), want)
					return
				}
				pk, err, pan := safePubKey(d)
				if err != nil || pan != nil {
					ctx.Failf(cs, "pubkey-extraction-fails/ecdsa-typed-secp256k1/in-sequence", "PubKey() fails: %v %v", err, pan)
					return
				}
				if raw, _ := pk.Raw(); !bytes.Equal(raw, elliptic.MarshalCompressed(curve, x, y)) {
					ctx.Failf(cs, "extracted-key-differs/ecdsa-typed-secp256k1/in-sequence", "PubKey() of the DID of %d*G, converted after %d*G, is another point", k, cs.Scalar)
					return
				}
			}
			ctx.Outcome("roundtrip-ok")
		},
	}
}

// ---- RSA public keys of every size libp2p accepts ----

type c16RsaCase struct {
	Bits int `json:"bits"`
	E    int `json:"e"`
}

func (c *c16RsaCase) Weight() int { return c.Bits }

// syntheticRsaPub builds an RSA public key with a modulus of exactly the given size
// (a public key needs no factorisation: any odd modulus with the top bit set will do).
func syntheticRsaPub(bits, e int) (crypto.PubKey, []byte, error) {
	n := new(big.Int).Lsh(big.NewInt(1), uint(bits-1))
	n.Add(n, new(big.Int).Lsh(big.NewInt(0x5a5a5a5a5a5a5a5), uint(bits/2)))
	n.Add(n, big.NewInt(int64(bits)*2+1))
	std := &rsa.PublicKey{N: n, E: e}
	pkix, err := x509.MarshalPKIXPublicKey(std)
	if err != nil {
		return nil, nil, err
	}
	pk, err := crypto.UnmarshalRsaPublicKey(pkix)
	return pk, x509.MarshalPKCS1PublicKey(std), err
}

// c16WeakRsaSub: the same round trip for moduli below libp2p's default minimum, with the minimum lowered the way an
// application (or LIBP2P_ALLOW_WEAK_RSA_KEYS) lowers it: every DER length form (one byte, 0x81, 0x82) occurs.
func c16WeakRsaSub() *engine.Sub {
	base := c16RsaSub()
	run := base.Run
	return &engine.Sub{
		Name:   "rsa-keys-below-2048-bits-when-allowed",
		Serial: true,
		Rule:   "the round trip of rsa-keys-of-every-size for moduli of 512, 768, 1000, 1016, 1024, 1536, 1920, 1936, 1944, 1952 and 2040 bits (exponents 3 and 65537) while crypto.MinRsaKeyBits is lowered to 512 - what LIBP2P_ALLOW_WEAK_RSA_KEYS or an application does; the DER of such keys uses the short, the 0x81 and the 0x82 length forms in its different layers; non-trivial = all",
		Bound:  func(string) string { return "11 modulus sizes x 2 exponents" },
		Gen: func(tier string, emit func(any) bool) {
			for _, bits := range []int{512, 768, 1000, 1016, 1024, 1536, 1920, 1936, 1944, 1952, 2040} {
				for _, e := range []int{3, 65537} {
					if !emit(&c16RsaCase{Bits: bits, E: e}) {
						return
					}
				}
			}
		},
		NewCase: base.NewCase,
		Run: func(ctx *engine.Ctx, c any) {
			old := crypto.MinRsaKeyBits
			crypto.MinRsaKeyBits = 512
			defer func() { crypto.MinRsaKeyBits = old }()
			run(ctx, c)
		},
	}
}

func c16RsaSub() *engine.Sub {
	return &engine.Sub{
		Name:  "rsa-keys-of-every-size",
		Rule:  "RSA public keys with a modulus of 2048, 2056, 3072, 4096, 6144, 8184 and 8192 bits (libp2p accepts 2048..8192) and exponents 3 and 65537 (for 2048 and 4096 bits also exponents on both sides of every byte-length boundary: 127..129, 255..257, 32767, 32768, 65535, 2^24-1, 2^24, 2^31-1), built from a synthetic modulus: FromPubKey -> String (= independently computed did:key of the PKCS#1 encoding) -> Parse -> equal DID -> PubKey -> Equals(original) -> ToPubKey; identifiers of up to ~1.5 k characters; non-trivial = all",
		Bound: func(string) string { return "7 modulus sizes x 2 exponents + 2 sizes x 14 further exponents" },
		Gen: func(tier string, emit func(any) bool) {
			for _, bits := range []int{2048, 2056, 3072, 4096, 6144, 8184, 8192} {
				for _, e := range []int{3, 5, 17, 127, 128, 129, 255, 256, 257, 32767, 32768, 65535, 65537, 1<<24 - 1, 1 << 24, 1<<31 - 1} {
					if bits != 2048 && bits != 4096 && e != 3 && e != 65537 {
						continue
					}
					if !emit(&c16RsaCase{Bits: bits, E: e}) {
						return
					}
				}
			}
		},
		NewCase: func() any { return &c16RsaCase{} },
		Run: func(ctx *engine.Ctx, c any) {
			cs := c.(*c16RsaCase)
			ctx.States(1)
			ctx.Nontrivial(1)
			ctx.Eval(1)
			pub, pkcs1, err := syntheticRsaPub(cs.Bits, cs.E)
			if err != nil {
				panic(fmt.Sprintf("harness: libp2p refuses the synthetic RSA-%d key: %v", cs.Bits, err))
			}
			tag := fmt.Sprintf("rsa%d", cs.Bits)
			d, err := did.FromPubKey(pub)
			if err != nil {
				ctx.Outcome("frompubkey-error")
				ctx.Failf(cs, "frompubkey-fails/"+tag, "did.FromPubKey fails for an RSA-%d key: %v", cs.Bits, err)
				return
			}
			s := d.String()
			if want := didKeyString(uvarint(0x1205), pkcs1); s != want {
				ctx.Failf(cs, "string-not-canonical/"+tag, "DID of an RSA-%d key prints as %.60s..., the did:key of its PKCS#1 encoding is %.60s...", cs.Bits, s, want)
			}
			p, err := did.Parse(s)
			ctx.Trans(1)
			if err != nil {
				ctx.Outcome("parse-error")
				ctx.Failf(cs, "printed-did-not-parsed/"+tag, "did.Parse rejects the printed DID (%d characters) of an RSA-%d key: %v", len(s), cs.Bits, err)
				return
			}
			if p != d {
				ctx.Failf(cs, "parsed-did-differs/"+tag, "Parse(String(d)) != d for an RSA-%d key", cs.Bits)
			}
			pk, err, pan := safePubKey(p)
			ctx.Trans(1)
			if pan != nil || err != nil {
				ctx.Outcome("pubkey-error")
				ctx.Failf(cs, "pubkey-extraction-fails/"+tag, "PubKey() of the parsed DID of an RSA-%d key fails: err=%v panic=%v", cs.Bits, err, pan)
				return
			}
			if !pk.Equals(pub) {
				ctx.Failf(cs, "extracted-key-differs/"+tag, "PubKey() of the DID of an RSA-%d key is a different key", cs.Bits)
			}
			if pk2, err := did.ToPubKey(s); err != nil || !pk2.Equals(pub) {
				ctx.Failf(cs, "topubkey-differs/"+tag, "ToPubKey of the did:key of an RSA-%d key fails or differs: %v", cs.Bits, err)
			}
			ctx.Outcome("roundtrip-ok")
		},
	}
}

// ---- extracted keys stay what they were ----

type c16KeptCase struct {
	First  int `json:"first"`  // index into fixtures.All(): the DID whose key is extracted and kept
	Second int `json:"second"` // the DID resolved afterwards
}

func c16KeptSub() *engine.Sub {
	return &engine.Sub{
		Name:  "extracted-keys-are-kept-intact",
		Rule:  "every ordered pair of fixture DIDs (A, B): extract A's public key with PubKey() and with ToPubKey and keep them, then resolve B twice (PubKey, ToPubKey), then look at the kept keys: they still equal A's original key, their raw bytes are unchanged and they still verify a signature made with A's private key; non-trivial = A != B",
		Bound: func(string) string { return "16 x 16 ordered pairs of fixture keys (7 algorithm/size classes)" },
		Gen: func(tier string, emit func(any) bool) {
			n := len(fixtures.All())
			for a := 0; a < n; a++ {
				for b := 0; b < n; b++ {
					if !emit(&c16KeptCase{a, b}) {
						return
					}
				}
			}
		},
		NewCase: func() any { return &c16KeptCase{} },
		Run: func(ctx *engine.Ctx, c any) {
			cs := c.(*c16KeptCase)
			a, b := fixtures.All()[cs.First], fixtures.All()[cs.Second]
			if a.Err != nil || b.Err != nil {
				return
			}
			ctx.States(1)
			if cs.First != cs.Second {
				ctx.Nontrivial(1)
			}
			ctx.Eval(4)
			ctx.Trans(2)
			k1, err1, pan1 := safePubKey(a.DID)
			k2, err2, pan2 := safeToPubKey(a.DID.String())
			if err1 != nil || err2 != nil || pan1 != nil || pan2 != nil {
				ctx.Outcome("pubkey-error")
				return // key-did-roundtrip's business
			}
			raw1, _ := k1.Raw()
			raw2, _ := k2.Raw()
			msg := []byte("kept-key message")
			sig, err := a.Priv.Sign(msg)
			if err != nil {
				panic(err)
			}
			for i := 0; i < 2; i++ {
				safePubKey(b.DID)
				safeToPubKey(b.DID.String())
			}
			for i, k := range []crypto.PubKey{k1, k2} {
				api := [2]string{"PubKey()", "ToPubKey"}[i]
				raw, _ := k.Raw()
				okSig, _ := k.Verify(msg, sig)
				if !k.Equals(a.Pub) || !bytes.Equal(raw, [2][]byte{raw1, raw2}[i]) || !okSig {
					ctx.Outcome("kept-key-changed")
					ctx.Failf(cs, "extracted-key-changed-by-later-extraction/"+a.Alg, "the key obtained with %s from the DID of %s#%d no longer is that key after the DID of %s#%d was resolved (equals=%v, raw unchanged=%v, verifies=%v)", api, a.Alg, a.Idx, b.Alg, b.Idx, k.Equals(a.Pub), bytes.Equal(raw, [2][]byte{raw1, raw2}[i]), okSig)
					return
				}
			}
			ctx.Outcome("kept-ok")
		},
	}
}

// ---- many principals, resolved, and resolved again ----

type c16ManyCase struct {
	Kind string `json:"kind"` // ed25519 | rsa
	N    int    `json:"n"`
}

func c16ManySub() *engine.Sub {
	return &engine.Sub{
		Name:   "many-principals-revisited",
		Serial: true,
		Rule:   "n distinct principals of one key type (synthetic public keys) are resolved one after the other (FromPubKey, String, Parse, PubKey, ToPubKey), then all again in the same order and in reverse order: every resolution returns that principal's own key and DID, however many others were resolved in between (n on both sides of 32, 64, 256 and 1024); non-trivial = all",
		Bound:  func(string) string { return "Ed25519: n in {33, 65, 257, 1100}; RSA-2048: n in {33, 65, 130}" },
		Gen: func(tier string, emit func(any) bool) {
			for _, n := range []int{33, 65, 257, 1100} {
				if !emit(&c16ManyCase{"ed25519", n}) {
					return
				}
			}
			for _, n := range []int{33, 65, 130} {
				if !emit(&c16ManyCase{"rsa", n}) {
					return
				}
			}
		},
		NewCase: func() any { return &c16ManyCase{} },
		Run: func(ctx *engine.Ctx, c any) {
			cs := c.(*c16ManyCase)
			type prin struct {
				pub crypto.PubKey
				s   string
			}
			ps := make([]prin, cs.N)
			for i := range ps {
				var pub crypto.PubKey
				var err error
				if cs.Kind == "rsa" {
					n := new(big.Int).Lsh(big.NewInt(1), 2047)
					n.Add(n, big.NewInt(int64(i)*2+1))
					pkix, e2 := x509.MarshalPKIXPublicKey(&rsa.PublicKey{N: n, E: 65537})
					if e2 != nil {
						panic(e2)
					}
					pub, err = crypto.UnmarshalRsaPublicKey(pkix)
				} else {
					raw := make([]byte, 32)
					for j := range raw {
						raw[j] = byte(i*37 + j*11 + i>>5 + 1)
					}
					pub, err = crypto.UnmarshalEd25519PublicKey(raw)
				}
				if err != nil {
					panic(err)
				}
				d, err := did.FromPubKey(pub)
				if err != nil {
					ctx.Failf(cs, "frompubkey-fails/"+cs.Kind, "FromPubKey fails for synthetic %s key #%d: %v", cs.Kind, i, err)
					return
				}
				ps[i] = prin{pub, d.String()}
			}
			ctx.States(1)
			ctx.Nontrivial(1)
			check := func(pass string, i int) bool {
				ctx.Eval(2)
				ctx.Trans(1)
				d, err := did.Parse(ps[i].s)
				if err != nil || d.String() != ps[i].s {
					ctx.Failf(cs, "parse-differs-after-many-principals/"+cs.Kind, "%s pass, principal #%d of %d: Parse returns %v / another DID", pass, i, cs.N, err)
					return false
				}
				pk, err, pan := safePubKey(d)
				if pan != nil || err != nil || !pk.Equals(ps[i].pub) {
					ctx.Failf(cs, "pubkey-differs-after-many-principals/"+cs.Kind, "%s pass, principal #%d of %d: PubKey() returns err=%v panic=%v or ANOTHER principal's key", pass, i, cs.N, err, pan)
					return false
				}
				pk2, err, pan := safeToPubKey(ps[i].s)
				if pan != nil || err != nil || !pk2.Equals(ps[i].pub) {
					ctx.Failf(cs, "topubkey-differs-after-many-principals/"+cs.Kind, "%s pass, principal #%d of %d: ToPubKey returns err=%v panic=%v or another principal's key", pass, i, cs.N, err, pan)
					return false
				}
				return true
			}
			for i := range ps {
				if !check("first", i) {
					return
				}
			}
			for i := range ps {
				if !check("second", i) {
					return
				}
			}
			for i := len(ps) - 1; i >= 0; i-- {
				if !check("reverse", i) {
					return
				}
			}
			ctx.Outcome("all-consistent")
		},
	}
}

func C16() *engine.Check {
	return &engine.Check{
		Property: "C16",
		Level:    "model_checking",
		Subs:     []*engine.Sub{c16RoundtripSub(), c16RsaSub(), c16WeakRsaSub(), c16ManySub(), c16KeptSub(), c16GivenSub(), c16CoercedSub(), c16CoercedSeqSub(), c16AltSub(), c16StringsSub(), c16CodesSub(), c16PrefixSub(), c16ConcSub(), concRaceSub("C16")},
		Assumptions: []string{
			"keys: committed fixtures plus one key per Generate* call per run; the conversion code has no key-dependent branches except leading-zero coordinates, which the 8 EC fixtures do not force",
			"the canonical key material is computed independently: compressed SEC1 point for EC keys, raw 32 bytes for Ed25519, PKCS#1 DER for RSA",
			"a parsed DID whose body is not a key (wrong length etc.) is acceptable as long as PubKey() reports an error",
		},
	}
}
