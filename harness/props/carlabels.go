package props

import (
	"bytes"
	"fmt"

	"github.com/ipfs/go-cid"
	"github.com/multiformats/go-multihash"

	"github.com/ucan-wg/go-ucan/pkg/container"

	"verifharness/engine"
)

// CAR blocks stored under a CID that IS a correct content address of the sealed bytes, but not the CIDv1 /
// DAG-CBOR / SHA2-256 one: whatever the reader does with such a container, the CID it reports for a token
// is the CID of its sealed bytes, the same one sealing and unsealing report.
var carLabelForms = []string{"raw-codec", "dag-json-codec", "cidv0", "sha2-512", "identity"}

func carLabel(form int, sealed []byte, real cid.Cid) cid.Cid {
	switch form {
	case 0:
		return cid.NewCidV1(cid.Raw, real.Hash())
	case 1:
		return cid.NewCidV1(cid.DagJSON, real.Hash())
	case 2:
		return cid.NewCidV0(real.Hash())
	case 3:
		mh, _ := multihash.Sum(sealed, multihash.SHA2_512, -1)
		return cid.NewCidV1(cid.DagCBOR, mh)
	default:
		mh, _ := multihash.Sum(sealed, multihash.IDENTITY, -1)
		return cid.NewCidV1(cid.DagCBOR, mh)
	}
}

type carLabelCase struct {
	Alg    string `json:"alg"`
	Mask   int    `json:"mask"` // which of the three entries (delegation, delegation, invocation) carry the other label
	Form   int    `json:"form"`
	Reader int    `json:"reader"` // FromCar, FromCarReader, FromCarBase64, FromCarBase64Reader
}

func (c *carLabelCase) Weight() int { return popcount(c.Mask) + c.Form }

func carLabelSub(prop string) *engine.Sub {
	readers := []string{"FromCar", "FromCarReader", "FromCarBase64", "FromCarBase64Reader"}
	return &engine.Sub{
		Name: "car-blocks-under-other-valid-cids",
		Rule: "CAR containers of three genuinely sealed tokens in which every non-empty subset of the blocks is stored under another CID that correctly addresses the same bytes (" + fmt.Sprint(carLabelForms) + "), read with each of the four CAR readers: the reader may refuse the container; if it accepts it, every token it returns is reported (GetAllDelegations / GetAllInvocations) and retrievable (GetToken / GetDelegation) under the CIDv1 / DAG-CBOR / SHA2-256 CID of its sealed bytes - the CID ToSealed and FromSealed report; non-trivial = all",
		Bound: func(t string) string {
			return fmt.Sprintf("%d algorithms x 7 subsets x %d labels x 4 readers", len(c07AgainAlgs(t)), len(carLabelForms))
		},
		Gen: func(tier string, emit func(any) bool) {
			for _, alg := range c07AgainAlgs(tier) {
				for mask := 1; mask < 8; mask++ {
					for f := range carLabelForms {
						for r := range readers {
							if !emit(&carLabelCase{Alg: alg, Mask: mask, Form: f, Reader: r}) {
								return
							}
						}
					}
				}
			}
		},
		NewCase: func() any { return &carLabelCase{} },
		Run: func(ctx *engine.Ctx, c any) {
			cs := c.(*carLabelCase)
			var sealed [][]byte
			var real []cid.Cid
			for i, base := range []string{"dlg", "dlg2", "inv"} {
				b := c08Base(base, cs.Alg)
				sealed = append(sealed, b)
				real = append(real, refCID(b))
				_ = i
			}
			w := container.NewWriter()
			labels := make([]cid.Cid, 3)
			for i := range sealed {
				labels[i] = real[i]
				if cs.Mask&(1<<i) != 0 {
					labels[i] = carLabel(cs.Form, sealed[i], real[i])
				}
				w.AddSealed(labels[i], sealed[i])
			}
			var rd container.Reader
			var err error
			switch cs.Reader {
			case 0, 1:
				var car []byte
				if car, err = w.ToCar(); err == nil {
					if cs.Reader == 0 {
						rd, err = container.FromCar(car)
					} else {
						rd, err = container.FromCarReader(bytes.NewReader(car))
					}
				}
			default:
				var car []byte
				if car, err = w.ToCarBase64(); err == nil {
					if cs.Reader == 2 {
						rd, err = container.FromCarBase64(car)
					} else {
						rd, err = container.FromCarBase64Reader(bytes.NewReader(car))
					}
				}
			}
			ctx.States(1)
			ctx.Nontrivial(1)
			ctx.Eval(1)
			ctx.Trans(3)
			if err != nil {
				ctx.Outcome("refused")
				return
			}
			ctx.Outcome("accepted")
			isReal := func(c cid.Cid) bool {
				for _, r := range real {
					if r.Equals(c) {
						return true
					}
				}
				return false
			}
			n := 0
			for c := range rd.GetAllDelegations() {
				n++
				if !isReal(c) {
					ctx.Failf(cs, "container-reports-foreign-cid/"+carLabelForms[cs.Form], "%s reports a delegation under %s, which is not the CIDv1/DAG-CBOR/SHA2-256 CID of any sealed token in the container", readers[cs.Reader], c)
				}
			}
			for c := range rd.GetAllInvocations() {
				n++
				if !isReal(c) {
					ctx.Failf(cs, "container-reports-foreign-cid/"+carLabelForms[cs.Form], "%s reports an invocation under %s, which is not the CIDv1/DAG-CBOR/SHA2-256 CID of any sealed token in the container", readers[cs.Reader], c)
				}
			}
			for i := range sealed {
				if _, err := rd.GetToken(real[i]); err != nil {
					ctx.Failf(cs, "token-not-under-its-cid/"+carLabelForms[cs.Form], "%s accepts the container but entry %d is not retrievable under the CID of its sealed bytes: %v", readers[cs.Reader], i, err)
				}
			}
			if n != 3 {
				ctx.Failf(cs, "partial-set/"+carLabelForms[cs.Form], "%s accepts the container and returns %d of its 3 tokens", readers[cs.Reader], n)
			}
		},
	}
}
